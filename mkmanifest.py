#!/usr/bin/env python3
"""Writes MANIFEST.json from the table below (kept in one place so that the
manifest is always valid and in step with the checks that exist)."""
import json, os
ROOT = os.path.dirname(os.path.abspath(__file__))
ALL = ["C%02d" % i for i in range(1, 21)]
E1 = "bounded-exhaustive enumeration of an index-addressable input/program family on the real pipeline, against an independent reference model"
checks = {
 "C16": dict(
   level="model_checking", design="§4 C16",
   technique="bounded-exhaustive model checking: every (start,limit,step) triple of a boundary lattice x loop shape, run on the real compiler+VM, compared with a reference of manual §3.3.5 using exact big-number arithmetic",
   text="All triples over a 30-value lattice (integers around 0, 2^53, min/maxinteger; floats incl. signed zero, 2^53, +-2^63, 1e308, +-inf, NaN; numeric strings; non-numbers) x 6 loop shapes are executed and compared event by event (value and math.type of the loop variable for the first 6 iterations, number of iterations, error or not, single evaluation of the control expressions) with a golua-independent reference. Exhaustive within that bound; nothing sampled.",
   note="Trusted: the reference loop semantics typed from the manual; Go float64 arithmetic; triples the manual leaves open are skipped and counted as skipped."),
 "C02": dict(
   level="model_checking", design="§4 C02",
   technique="bounded-exhaustive model checking: all operators x all ordered pairs of a boundary lattice through three evaluation paths, all numeral strings up to a length bound, against a big-number reference (refnum)",
   text="Every binary/unary operator on every ordered pair of a 46..83-value int/float lattice (plus string and non-number operands) is evaluated through Lua with argument operands, Lua with literal operands and the exported Go functions and compared with refnum (math/big modulo 2^64, exact rational comparison); order laws (trichotomy, transitivity) on all pairs/triples; every string of length <= 5 (quick) / 6 (thorough) over the numeral alphabet plus a curated list through tonumber, string arithmetic and as a source literal; math.abs/floor/ceil/modf/tointeger/type/fmod/ult/max/min over the lattice; tonumber(s, base) for every base x every string of length <= 3. Exhaustive within these bounds.",
   note="Trusted: refnum (Go float64 = IEEE binary64, math/big, strconv.ParseFloat correctly rounded). Skipped as unspecified: operands whose int->float conversion is inexact, inexact powers, bitwise operators on strings, signs with an explicit base, string collation."),
}
checks["C09"] = dict(
   level="model_checking", design="§4 C09, §1.4", engine="sched",
   technique="stateless model checking of the real coroutine hand-off code under a controlled cooperative scheduler: deviation(preemption)-bounded DFS over all schedules of every action history up to a depth bound, with a vector-clock happens-before monitor, deadlock and goroutine-leak detection",
   text="Every history of coroutine actions (create/wrap/resume/call/yield/return/error/close/status/to-be-closed scopes incl. handlers that act/pcall/CPU- and memory-limited callcontext/spin) over 2-3 coroutines up to the depth bound is executed on the real runtime, with runtime/thread.go's mutexes, channel operations and go statement routed through the vsched scheduler (instrumented copy generated from the current working tree and mounted by go build -overlay). For each history ALL schedules with at most the stated number of preemptions are explored (quick: depth 3/bound 2 and depth 4/bound 1; thorough: depth 4/bound 3, depth 5/bound 1, depth 6/bound 0, budget capped and reported). Oracle on every execution: no Go panic in any goroutine, no deadlock, no unordered conflicting access to Thread.status/caller/closeErr/currentCont, the runtime context manager or the VM loop (vector clocks over spawn/lock/send/receive/close edges), parked goroutines at the end = live coroutines (no leak), and the observation (emit trace, results, final statuses) equals that of the default schedule.",
   note="Trusted: the rewriter's purely syntactic substitution (sync.Mutex, chan, go, close) and the marked access locations; sequentially consistent interleavings only (weak memory is outside the model); the luagc pool mutex is not driven because the finaliser seam keeps Go's finaliser goroutine out. Value-transfer/status semantics against a reference model is covered by the histories family once reflua is available.")

checks["C07"] = dict(
   level="model_checking", design="§4 C07",
   technique="explicit-state model checking of the real context stack: BFS over operation histories (successor = replay on a fresh Runtime + 1 op, canonical-state dedup) in lock-step with an unbounded-integer reference model (refctx); plus exhaustive enumeration of callcontext/pcall/coroutine/<close> nestings x a grid of outermost CPU limits through Lua",
   text="Part A: every history of PushContext(def)/PopContext/RequireCPU/RequireMem/ReleaseMem/LinearRequire/SetStopLevel/KillContext/Parent().SetStopLevel over limits and amounts in {0=unlimited,1,2,5,2^63,2^64-1} and 4 flag sets is executed on a real Runtime (full 5210-operation alphabet to depth 2-3, reduced 56-operation alphabet to depth 4 quick / 5-6 thorough with budget cap reported), from the root and from a two-deep nearly exhausted stack; after every operation the whole stack (hard, soft, used, flags, status, due) is compared with refctx and with the property's sentences directly (used < kill, child.kill <= parent remaining, soft <= hard, flags superset, pop charges the parent exactly, due iff soft limit reached or stop requested, no Go panic other than the termination signal). Part B: all nestings <= 3 of 11 wrappers (callcontext with smaller/larger limits, pcall, coroutine.wrap, <close> handler, ...) around 5 leaves, each swept over outermost CPU limits (14 values quick; every L in 1..400 thorough): no arrangement does more work than the outermost limit, status strings match how the leaf really ended, child budgets never exceed what the parent has left.",
   note="Trusted: refctx (written from the property statement and quotas.md with math/big). Millis/time budgets are not explored (the clock is read from time.Now). Where the sources leave a choice (rounding in LinearRequire, due of a context created below a stopped one) the model accepts every permitted outcome.")
checks["C12"] = dict(
   level="model_checking", design="§4 C12",
   technique="bounded-exhaustive model checking of the front end: all expression trees up to 3 (quick) / 4 (thorough) operators compared between minimal-parenthesis, full-parenthesis and redundant-parenthesis/whitespace/comment spellings (metamorphic), all literal spellings of a lexical grammar against an independent denotation (reflex), all single-token edits of seed programs against an independent predictive recogniser for the error line",
   text="All 25/1150/66025 (thorough also 4.2M, budget capped and reported) expression trees over the 21 binary and 4 unary operators are rendered with the minimal parentheses derived from the manual's precedence table and fully parenthesised, with every redundant pair, one-token-per-line, comments and CRLF spellings, and evaluated under 8 leaf valuations (5 symbolic metatable valuations that spell out the evaluated tree): all spellings must agree. Multi-valuedness: 13 receiving contexts x 6 list shapes x 5 producers x 3 parenthesis levels. Literals: 6k-20k numeral spellings, 30k-80k short strings (every byte through every escape style, \\z, line continuations with all four line-end spellings, invalid escapes), every long-bracket string of level 0..3 over contents of length <= 3/4 over {],=,[,LF,CR,a} including empty, comments in every token gap. One exemplar per grammar production in 10 spellings. Error line: every single-token edit of seed programs; golua must reject iff the independent recogniser rejects and report the line of the first token at which no valid chunk can continue.",
   note="Trusted: reflex (own lexer/denotation with math/big and strconv.ParseFloat; own predictive recogniser for the manual's section 9 grammar). Error message texts are never compared. Edits that only produce semantic (goto/label/const) errors are skipped.")
checks["C15"] = dict(
   level="model_checking", design="§4 C15",
   technique="bounded-exhaustive model checking: every pattern of <= 3-4 tokens over a 25-token alphabet (malformed included) x every subject up to a length bound over a 3-letter alphabet x every init, through find/match/gmatch/gsub (13 replacement variants) and the Go pattern API, against a definitional backtracking matcher (refpattern)",
   text="All token sequences up to the bound are compiled and matched by the real lib/stringlib/pattern and string.find/match/gmatch/gsub against every subject and every start position (incl. omitted, negative, past the end); span, captures (position captures as integers), gmatch iteration sequence, gsub result string and count (string/table/function replacements, %0..%2, n = 0..3) must equal the reference; a malformed pattern must raise a Lua error or fail to match, never match, never panic; character classes are compared on every byte 0..127; CPU: under small CPU limits pathological backtracking is killed, a run that completes never used more than its limit, and work that necessarily grows with the subject is charged.",
   note="Trusted: refpattern (definitional matcher typed from manual 6.4.1). Skipped as unspecified: gmatch with a leading ^, %f not followed by a set, more than 9 captures, locale dependent classes beyond ASCII.")

checks["C01"] = dict(
   level="model_checking", design="§4 C01",
   technique="bounded-exhaustive model checking of the whole pipeline (scanner, parser, AST->IR->bytecode compiler, VM): every program of 20 index-addressable grammar families, in several textual renderings, against a definitional reference interpreter (reflua) that evaluates the checker's own AST",
   text="Families F1-F9 (scoping and closures incl. fresh variables per loop iteration, call protocol: params x returns x args x receiving contexts with varargs and multi-value tails, jumps: goto/labels/break/return with closures captured across jumps, all operators x operand kinds with metamethods and coercions, __index/__newindex/__call chains, multiple assignment, generic for with closing value, deep expressions exceeding the register pool, a hand-written corpus) are enumerated exhaustively up to their size bounds (quick ~90k programs, thorough several 100k, per-family budget caps reported as exhaustive:false); each program is rendered in >= 2 (quick) / 6 (thorough) spellings, compiled three times (the compiler iterates Go maps) and run in a fresh runtime; the emit trace, results and error value (with chunk:line: for error() at level 1/2) must equal reflua's.",
   note="Trusted: reflua and the generator discipline that removes everything the manual leaves open (evaluation order between unsequenced operands, pairs order, # with holes, float formatting, addresses, __gc). VM-generated error texts are not compared.")
checks["C03"] = dict(
   level="model_checking", design="§4 C03, §1.3",
   technique="explicit-state model checking of the real table implementation: BFS over operation histories (successor = replay on a fresh rt.Table or Lua table + 1 op), dedup on the concrete slot layout dumped by a read-only hook with keys named by role, lock-step with a map reference model (reftable)",
   text="Histories of Set/Reset(value nil,1,2) and traversal steps (walk to a key, step, assign-existing / clear-current / clear-other during a traversal) over per-process role-chosen keys (three keys forced into one primary slot of a 16/32/64-slot hash part, relocation targets, ints 0,-1,1..9, 2^53, 2^62 and their float spellings, +-0.0, 1.5, NaN, short/long strings, booleans, tables, closures equal by structure, Go functions) from empty and from pre-grown start states (8,9,16,17,33 keys; int-only, string-only, mixed, with tombstones) to depth 3-5 (quick) / 4-7 (thorough), 5-key menus to depth 8/12. In EVERY state: structural invariants I1-I3, array length, no key stored twice; Get equals the reference for 54 probe keys under every equal spelling; Len is a border; a full traversal visits every present key exactly once, no absent key, terminates, never 'invalid key'; value equality and key equality agree for all pairs of 78 values. Lua level: the same histories through t[k]=v, rawset, rawget, next, pairs with a logging __index/__newindex metatable (fires iff the raw key is absent), under a CPU limit.",
   note="Trusted: reftable; the read-only VerifLayout/VerifCheckInvariants hooks. Slot layouts differ per process (random hash seed): keys are chosen by role per process, verdicts and violation keys do not depend on them. Budget-cut sub-searches are reported (exhaustive:false).")
checks["C05"] = dict(
   level="model_checking", design="§4 C05, §1.4",
   technique="exhaustive fault-point enumeration: every program of an interception-nesting family is run under EVERY CPU limit L in 1..u+1 (u = its own usage), twice; plus bounded enumeration of library amplification templates under small limits",
   text="1311 (quick) / 10131 (thorough) programs = 9 charge granularities (1 unit per VM step ... 150-unit bulk charges by one library call) wrapped in every nesting to depth 2/3 of 14 interception wrappers (pcall, xpcall with looping handler, retry loops, coroutine.wrap/resume, <close> handlers, nested callcontext with smaller/larger limits, caught errors); each compiled once and run in a fresh runtime at every L (0.86M / 5.7M (P,L) states): killed iff L <= u, otherwise identical observation; when killed the trace is a prefix, no Lua code of the context runs afterwards (tick/emit record the status of every context in the chain), used < L, deterministic, monotone. Non-terminating workloads must be killed at every L in 1..400. 93 library templates with size parameters up to 2^40 (2^63-1 thorough) and element sizes 0/1/100 under {cpu=1e4,memory=1e5}: deterministic outcome and < 10 s process CPU time per call.",
   note="The 'real work between ticks' bound is decided only through the template list and a coarse process-CPU-time threshold (4 orders of magnitude above the honest cost); the deterministic part (kill/prefix/exactness) is what is exhaustive.")
checks["C06"] = dict(
   level="model_checking", design="§4 C06, §1.4",
   technique="exhaustive limit sweeps: every program of an allocating-workload x interception-nesting family under every memory limit M (all M below 4 KB; bisection plus every M within +-64 of each verdict flip above), cross-context coroutine programs in child processes, and enumeration of allocation-amplification templates",
   text="1464 (quick) / 6552 (thorough) programs = 12 allocating workloads x nestings of depth 0-2 (pcall, xpcall+handler, pcall loop, coroutine forms, <close> with and without allocating handler, nested callcontext, __index, caught error): verdict monotone in M, identical observation for all M >= threshold, killed runs are a prefix and nothing runs after (host markers on every failure path), used < M, context stack restored and an epilogue works; 49 programs with a coroutine created in one context and finished/closed/started/yielding in another, each run in a child process (a Go panic such as 'Too much mem released' is a violation); 115 templates x N in {1e3..2^40} x M in {1e4,1e5}: the child survives, runtime.MemStats.TotalAlloc delta <= 64*M + 8 MB, used < M. Budget capped per family (exhaustive:false reported).",
   note="TotalAlloc is GC independent; the 64*M + 8 MB margin is the only non-deterministic threshold. Limits >= 2^63 are excluded (display wraps, C07's subject).")
checks["C08"] = dict(
   level="model_checking", design="§4 C08",
   technique="bounded-exhaustive enumeration: every Go function reachable from the global environment (graph walk at check time) x all 16 required-flag subsets x an IO-oriented argument pool x 7 call spellings, with a sentinel-directory / child-process oracle and, thorough, a syscall trace (strace) oracle",
   text="153 functions found by walking _G, package.loaded, the string metatable and the results of producer calls (iterators, file handles, wrap functions, context objects); declared flags read from the function object. For every (function, required flags, argument tuple, spelling in {direct, tail call, pcall, __index/__call/__concat metamethod, inside a coroutine, as coroutine body, via load}): if required is not a subset of declared the call must raise an ordinary Lua error before any effect (no callback ran, arguments and a sentinel directory unchanged, no child process, secret file content not returned) and the context stays live; whenever iosafe is required, for ANY outcome, the sentinel is unchanged, no process was started (wait4 + RUSAGE_CHILDREN), the secret never appears in results, errors, returned handles or iterators. Thorough: the same regions under strace -f: any execve, write-mode open, open under the sentinel, unlink/rename/mkdir, socket or connect inside an iosafe region is a violation. Budget capped (functions that do not declare all flags first).",
   note="The static 'all call paths to an OS primitive' reading of the property is not attempted (different technique). A file handle opened by the host before the context stays usable inside iosafe (golua documents this as a capability grant).")
checks["C17"] = dict(
   level="model_checking", design="§4 C17",
   technique="bounded-exhaustive model checking of serialisation round trips: all pack format sequences up to 2 (quick) / 3 (thorough) options x boundary value tuples against the round-trip laws and a byte-layout reference (refpack); all byte strings up to length 2/3 over a 20-class alphabet and lattice numbers through %q and load; tostring/tonumber over a float lattice; integer and string printf directives against an independent C-printf implementation (refstr)",
   text="594k (quick) / 41.6M (thorough) evaluations: unpack(fmt, pack(fmt, v...)) == v... and next position == len+1; packsize == length for fixed-size formats; byte layout for fixed-size formats equals refpack; errors where the manual demands them (overflow, malformed options, embedded zero for z, too long for s[n], alignment not a power of 2); unpack at every init offset, on truncated data and with huge length prefixes must raise, never panic or exhaust memory; load('return '..format('%q', v))() == v with the same subtype for every string, integer (incl. mininteger) and float (incl. +-inf, NaN, -0.0); tonumber(tostring(n)) == n; %d %i %u %c %x %X %o %s with flags - + space # 0, width and precision equal C printf output; %e %f %g %a compared where the C output is exact; incomplete or invalid specifications must raise.",
   note="Trusted: refpack, refstr (cross-checked at development time against PUC-Lua 5.3.6 on the common subset). Native sizes are platform defined: golua's choice is accepted but pack, packsize and unpack must agree. Cases the manual leaves open only require 'no Go panic'.")
checks["C19"] = dict(
   level="model_checking", design="§4 C19",
   technique="bounded-exhaustive model checking: string functions over all strings of length <= 3 over {a,b,NUL,...} x positions {minint, -len-2..len+2, maxint} x counts; table functions over all sequences of length <= 4 (with holes, with logging proxy metatables); table.sort over every arrangement of every multiset up to n <= 6/7 x 14 comparators; against reference models refstr19/reftab",
   text="352k (quick) / 4.1M (thorough) cases in 23 families: sub, byte, char, rep (with separator, negative, zero, huge counts), reverse, upper, lower, len, plain find (incl. magic characters); insert, remove, move (incl. overlapping and ranges touching min/maxinteger), concat, unpack, pack with and without __index/__newindex/__len proxies (the log of metamethod calls is compared too), float arguments (integral accepted, others rejected); sort: result is a permutation of the input, ordered when the comparator is a strict weak order, terminates under a CPU limit, never loses or duplicates an element, errors and yields in comparators propagate; all 0/1 sequences of length 13-16 and structured inputs up to length 308. Calls whose defined work is tiny must not be killed by a 10M CPU limit; calls over > 64 elements up to maxinteger may be.",
   note="Trusted: refstr19, reftab. Strings containing well-formed multi-byte UTF-8 are skipped for upper/lower (locale dependent). One case (string.rep of empty strings maxinteger times) carries a 5 s guard so that a hang is reported rather than blocking the check.")
not_yet = {}
m = {
 "version": 1,
 "setup_cmd": "./setup.sh",
 "hooks": {
   "guard": "verif",
   "enable": "go build -tags verif -ldflags=-checklinkname=0 (the linker flag is needed by golua's runtime package under Go 1.23 and is independent of the guard); schedule exploration additionally mounts generated instrumented copies of runtime/thread.go etc. with go build -overlay, leaving /repo untouched",
   "baseline_off_cmd": "./baseline.sh",
   "source_commits": [],
   "add_only": True,
 },
 "engines": [
   {"name": "core", "path": "engine/core", "serves_properties": sorted(checks), "kind_free_text": "index-addressable families, 16-way sharding over worker subprocesses, crash/hang attribution to the case in flight, known-findings matching, evidence + replay files"},
   {"name": "sched", "path": "engine/vschedsrc + engine/rewrite + engine/explore", "serves_properties": ["C09"], "kind_free_text": "cooperative scheduler shim mounted into golua by a generated build overlay (AST rewriter over the current /repo sources), deviation-bounded DFS over choice tapes, vector-clock race monitor, deadlock/leak detection"},
 ],
 "checks": [],
 "not_applicable": [],
 "notes": "See DESIGN.md. Every check rebuilds its binary from /repo's working tree (./check <ID>). Known findings: known_findings.json.",
}
extra = {}
try:
    extra = json.load(open(os.path.join(ROOT, "manifest_extra.json")))
except Exception:
    pass
checks.update(extra.get("checks", {}))
for pid in ALL:
    if pid in checks:
        c = checks[pid]
        m["checks"].append({
          "property_id": pid,
          "quick_cmd": "./check %s --tier quick" % pid,
          "thorough_cmd": "./check %s --tier thorough" % pid,
          "evidence_file": "evidence/%s.json" % pid,
          "replay_cmd_template": "./check %s --replay {path}" % pid,
          "engine": c.get("engine", "core"),
          "level_claimed": {"category": c["level"], "text": c["text"], "design_ref": c["design"]},
          "level_note": c["note"],
          "technique": c["technique"],
        })
    else:
        m["not_applicable"].append({"property_id": pid, "reason": extra.get("not_applicable", {}).get(pid, "check not built yet in this round (planned: see DESIGN.md §4)")})
m["engines"][0]["serves_properties"] = sorted(k for k in checks if checks[k].get("engine", "core") == "core")
m["hooks"]["source_commits"] = ["40cd18e"] + extra.get("hook_commits", [])
json.dump(m, open(os.path.join(ROOT, "MANIFEST.json"), "w"), indent=1)
print("MANIFEST.json: %d checks, %d not_applicable" % (len(m["checks"]), len(m["not_applicable"])))
