#!/usr/bin/env python3
"""Writes MANIFEST.json from the table below (kept in one place so that the
manifest is always valid and in step with the checks that exist)."""
import json, os
ROOT = os.path.dirname(os.path.abspath(__file__))
ALL = ["C%02d" % i for i in range(1, 21)]
E1 = "bounded-exhaustive enumeration of an index-addressable input/program family on the real pipeline, against an independent reference model"
checks = {
 "C16": dict(
   level="model_checking", design="§4 C16",
   technique="bounded-exhaustive model checking: every (start,limit,step) triple of a boundary lattice x loop shape, run on the real compiler+VM, compared with a reference of manual §3.3.5 using exact big-number arithmetic",
   text="All triples over a 30-value lattice (integers around 0, 2^53, min/maxinteger; floats incl. signed zero, 2^53, +-2^63, 1e308, +-inf, NaN; numeric strings; non-numbers) x 6 loop shapes are executed and compared event by event (value and math.type of the loop variable for the first 6 iterations, number of iterations, error or not, single evaluation of the control expressions) with a golua-independent reference. Exhaustive within that bound; nothing sampled.",
   note="Trusted: the reference loop semantics typed from the manual; Go float64 arithmetic; triples the manual leaves open are skipped and counted as skipped."),
 "C02": dict(
   level="model_checking", design="§4 C02",
   technique="bounded-exhaustive model checking: all operators x all ordered pairs of a boundary lattice through three evaluation paths, all numeral strings up to a length bound, against a big-number reference (refnum)",
   text="Every binary/unary operator on every ordered pair of a 46..83-value int/float lattice (plus string and non-number operands) is evaluated through Lua with argument operands, Lua with literal operands and the exported Go functions and compared with refnum (math/big modulo 2^64, exact rational comparison); order laws (trichotomy, transitivity) on all pairs/triples; every string of length <= 5 (quick) / 6 (thorough) over the numeral alphabet plus a curated list through tonumber, string arithmetic and as a source literal; math.abs/floor/ceil/modf/tointeger/type/fmod/ult/max/min over the lattice; tonumber(s, base) for every base x every string of length <= 3. Exhaustive within these bounds.",
   note="Trusted: refnum (Go float64 = IEEE binary64, math/big, strconv.ParseFloat correctly rounded). Skipped as unspecified: operands whose int->float conversion is inexact, inexact powers, bitwise operators on strings, signs with an explicit base, string collation."),
}
checks["C09"] = dict(
   level="model_checking", design="§4 C09, §1.4", engine="sched",
   technique="stateless model checking of the real coroutine hand-off code under a controlled cooperative scheduler: deviation(preemption)-bounded DFS over all schedules of every action history up to a depth bound, with a vector-clock happens-before monitor, deadlock and goroutine-leak detection",
   text="Every history of coroutine actions (create/wrap/resume/call/yield/return/error/close/status/to-be-closed scopes incl. handlers that act/pcall/CPU- and memory-limited callcontext/spin) over 2-3 coroutines up to the depth bound is executed on the real runtime, with runtime/thread.go's mutexes, channel operations and go statement routed through the vsched scheduler (instrumented copy generated from the current working tree and mounted by go build -overlay). For each history ALL schedules with at most the stated number of preemptions are explored (quick: depth 3/bound 2 and depth 4/bound 1; thorough: depth 4/bound 3, depth 5/bound 1, depth 6/bound 0, budget capped and reported). Oracle on every execution: no Go panic in any goroutine, no deadlock, no unordered conflicting access to Thread.status/caller/closeErr/currentCont, the runtime context manager or the VM loop (vector clocks over spawn/lock/send/receive/close edges), parked goroutines at the end = live coroutines (no leak), and the observation (emit trace, results, final statuses) equals that of the default schedule.",
   note="Trusted: the rewriter's purely syntactic substitution (sync.Mutex, chan, go, close) and the marked access locations; sequentially consistent interleavings only (weak memory is outside the model); the luagc pool mutex is not driven because the finaliser seam keeps Go's finaliser goroutine out. Value-transfer/status semantics against a reference model is covered by the histories family once reflua is available.")
not_yet = {}
m = {
 "version": 1,
 "setup_cmd": "./setup.sh",
 "hooks": {
   "guard": "verif",
   "enable": "go build -tags verif -ldflags=-checklinkname=0 (the linker flag is needed by golua's runtime package under Go 1.23 and is independent of the guard); schedule exploration additionally mounts generated instrumented copies of runtime/thread.go etc. with go build -overlay, leaving /repo untouched",
   "baseline_off_cmd": "./baseline.sh",
   "source_commits": [],
   "add_only": True,
 },
 "engines": [
   {"name": "core", "path": "engine/core", "serves_properties": sorted(checks), "kind_free_text": "index-addressable families, 16-way sharding over worker subprocesses, crash/hang attribution to the case in flight, known-findings matching, evidence + replay files"},
   {"name": "sched", "path": "engine/vschedsrc + engine/rewrite + engine/explore", "serves_properties": ["C09"], "kind_free_text": "cooperative scheduler shim mounted into golua by a generated build overlay (AST rewriter over the current /repo sources), deviation-bounded DFS over choice tapes, vector-clock race monitor, deadlock/leak detection"},
 ],
 "checks": [],
 "not_applicable": [],
 "notes": "See DESIGN.md. Every check rebuilds its binary from /repo's working tree (./check <ID>). Known findings: known_findings.json.",
}
extra = {}
try:
    extra = json.load(open(os.path.join(ROOT, "manifest_extra.json")))
except Exception:
    pass
checks.update(extra.get("checks", {}))
for pid in ALL:
    if pid in checks:
        c = checks[pid]
        m["checks"].append({
          "property_id": pid,
          "quick_cmd": "./check %s --tier quick" % pid,
          "thorough_cmd": "./check %s --tier thorough" % pid,
          "evidence_file": "evidence/%s.json" % pid,
          "replay_cmd_template": "./check %s --replay {path}" % pid,
          "engine": c.get("engine", "core"),
          "level_claimed": {"category": c["level"], "text": c["text"], "design_ref": c["design"]},
          "level_note": c["note"],
          "technique": c["technique"],
        })
    else:
        m["not_applicable"].append({"property_id": pid, "reason": extra.get("not_applicable", {}).get(pid, "check not built yet in this round (planned: see DESIGN.md §4)")})
m["engines"][0]["serves_properties"] = sorted(k for k in checks if checks[k].get("engine", "core") == "core")
m["hooks"]["source_commits"] = ["40cd18e"] + extra.get("hook_commits", [])
json.dump(m, open(os.path.join(ROOT, "MANIFEST.json"), "w"), indent=1)
print("MANIFEST.json: %d checks, %d not_applicable" % (len(m["checks"]), len(m["not_applicable"])))
