#!/usr/bin/env python3
"""Writes MANIFEST.json from the table below (kept in one place so that the
manifest is always valid and in step with the checks that exist)."""
import json, os
ROOT = os.path.dirname(os.path.abspath(__file__))
ALL = ["C%02d" % i for i in range(1, 21)]
E1 = "bounded-exhaustive enumeration of an index-addressable input/program family on the real pipeline, against an independent reference model"
checks = {
 "C16": dict(
   level="model_checking", design="§4 C16",
   technique="bounded-exhaustive model checking: every (start,limit,step) triple of a boundary lattice x loop shape, run on the real compiler+VM, compared with a reference of manual §3.3.5 using exact big-number arithmetic",
   text="All triples over a 30-value lattice (integers around 0, 2^53, min/maxinteger; floats incl. signed zero, 2^53, +-2^63, 1e308, +-inf, NaN; numeric strings; non-numbers) x 6 loop shapes are executed and compared event by event (value and math.type of the loop variable for the first 6 iterations, number of iterations, error or not, single evaluation of the control expressions) with a golua-independent reference. Exhaustive within that bound; nothing sampled.",
   note="Trusted: the reference loop semantics typed from the manual; Go float64 arithmetic; triples the manual leaves open are skipped and counted as skipped."),
 "C02": dict(
   level="model_checking", design="§4 C02",
   technique="bounded-exhaustive model checking: all operators x all ordered pairs of a boundary lattice through three evaluation paths, all numeral strings up to a length bound, against a big-number reference (refnum)",
   text="Every binary/unary operator on every ordered pair of a 46..83-value int/float lattice (plus string and non-number operands) is evaluated through Lua with argument operands, Lua with literal operands and the exported Go functions and compared with refnum (math/big modulo 2^64, exact rational comparison); order laws (trichotomy, transitivity) on all pairs/triples; every string of length <= 5 (quick) / 6 (thorough) over the numeral alphabet plus a curated list through tonumber, string arithmetic and as a source literal; math.abs/floor/ceil/modf/tointeger/type/fmod/ult/max/min over the lattice; tonumber(s, base) for every base x every string of length <= 3. Exhaustive within these bounds.",
   note="Trusted: refnum (Go float64 = IEEE binary64, math/big, strconv.ParseFloat correctly rounded). Skipped as unspecified: operands whose int->float conversion is inexact, inexact powers, bitwise operators on strings, signs with an explicit base, string collation."),
}
checks["C09"] = dict(
   level="model_checking", design="§4 C09, §1.4", engine="sched",
   technique="stateless model checking of the real coroutine hand-off code under a controlled cooperative scheduler: deviation(preemption)-bounded DFS over all schedules of every action history up to a depth bound, with a vector-clock happens-before monitor, deadlock and goroutine-leak detection",
   text="Every history of coroutine actions (create/wrap/resume/call/yield/return/error/close/status/to-be-closed scopes incl. handlers that act/pcall/CPU- and memory-limited callcontext/spin) over 2-3 coroutines up to the depth bound is executed on the real runtime, with runtime/thread.go's mutexes, channel operations and go statement routed through the vsched scheduler (instrumented copy generated from the current working tree and mounted by go build -overlay). For each history ALL schedules with at most the stated number of preemptions are explored (quick: depth 3/bound 2 and depth 4/bound 1; thorough: depth 4/bound 3, depth 5/bound 1, depth 6/bound 0, budget capped and reported). Oracle on every execution: no Go panic in any goroutine, no deadlock, no unordered conflicting access to Thread.status/caller/closeErr/currentCont, the runtime context manager or the VM loop (vector clocks over spawn/lock/send/receive/close edges), parked goroutines at the end = live coroutines (no leak), and the observation (emit trace, results, final statuses) equals that of the default schedule.",
   note="Trusted: the rewriter's purely syntactic substitution (sync.Mutex, chan, go, close) and the marked access locations; sequentially consistent interleavings only (weak memory is outside the model); the luagc pool mutex is not driven because the finaliser seam keeps Go's finaliser goroutine out. Value-transfer/status semantics against a reference model is covered by the histories family once reflua is available.")

checks["C07"] = dict(
   level="model_checking", design="§4 C07",
   technique="explicit-state model checking of the real context stack: BFS over operation histories (successor = replay on a fresh Runtime + 1 op, canonical-state dedup) in lock-step with an unbounded-integer reference model (refctx); plus exhaustive enumeration of callcontext/pcall/coroutine/<close> nestings x a grid of outermost CPU limits through Lua",
   text="Part A: every history of PushContext(def)/PopContext/RequireCPU/RequireMem/ReleaseMem/LinearRequire/SetStopLevel/KillContext/Parent().SetStopLevel over limits and amounts in {0=unlimited,1,2,5,2^63,2^64-1} and 4 flag sets is executed on a real Runtime (full 5210-operation alphabet to depth 2-3, reduced 56-operation alphabet to depth 4 quick / 5-6 thorough with budget cap reported), from the root and from a two-deep nearly exhausted stack; after every operation the whole stack (hard, soft, used, flags, status, due) is compared with refctx and with the property's sentences directly (used < kill, child.kill <= parent remaining, soft <= hard, flags superset, pop charges the parent exactly, due iff soft limit reached or stop requested, no Go panic other than the termination signal). Part B: all nestings <= 3 of 11 wrappers (callcontext with smaller/larger limits, pcall, coroutine.wrap, <close> handler, ...) around 5 leaves, each swept over outermost CPU limits (14 values quick; every L in 1..400 thorough): no arrangement does more work than the outermost limit, status strings match how the leaf really ended, child budgets never exceed what the parent has left.",
   note="Trusted: refctx (written from the property statement and quotas.md with math/big). Millis/time budgets are not explored (the clock is read from time.Now). Where the sources leave a choice (rounding in LinearRequire, due of a context created below a stopped one) the model accepts every permitted outcome.")
checks["C12"] = dict(
   level="model_checking", design="§4 C12",
   technique="bounded-exhaustive model checking of the front end: all expression trees up to 3 (quick) / 4 (thorough) operators compared between minimal-parenthesis, full-parenthesis and redundant-parenthesis/whitespace/comment spellings (metamorphic), all literal spellings of a lexical grammar against an independent denotation (reflex), all single-token edits of seed programs against an independent predictive recogniser for the error line",
   text="All 25/1150/66025 (thorough also 4.2M, budget capped and reported) expression trees over the 21 binary and 4 unary operators are rendered with the minimal parentheses derived from the manual's precedence table and fully parenthesised, with every redundant pair, one-token-per-line, comments and CRLF spellings, and evaluated under 8 leaf valuations (5 symbolic metatable valuations that spell out the evaluated tree): all spellings must agree. Multi-valuedness: 13 receiving contexts x 6 list shapes x 5 producers x 3 parenthesis levels. Literals: 6k-20k numeral spellings, 30k-80k short strings (every byte through every escape style, \\z, line continuations with all four line-end spellings, invalid escapes), every long-bracket string of level 0..3 over contents of length <= 3/4 over {],=,[,LF,CR,a} including empty, comments in every token gap. One exemplar per grammar production in 10 spellings. Error line: every single-token edit of seed programs; golua must reject iff the independent recogniser rejects and report the line of the first token at which no valid chunk can continue.",
   note="Trusted: reflex (own lexer/denotation with math/big and strconv.ParseFloat; own predictive recogniser for the manual's section 9 grammar). Error message texts are never compared. Edits that only produce semantic (goto/label/const) errors are skipped.")
checks["C15"] = dict(
   level="model_checking", design="§4 C15",
   technique="bounded-exhaustive model checking: every pattern of <= 3-4 tokens over a 25-token alphabet (malformed included) x every subject up to a length bound over a 3-letter alphabet x every init, through find/match/gmatch/gsub (13 replacement variants) and the Go pattern API, against a definitional backtracking matcher (refpattern)",
   text="All token sequences up to the bound are compiled and matched by the real lib/stringlib/pattern and string.find/match/gmatch/gsub against every subject and every start position (incl. omitted, negative, past the end); span, captures (position captures as integers), gmatch iteration sequence, gsub result string and count (string/table/function replacements, %0..%2, n = 0..3) must equal the reference; a malformed pattern must raise a Lua error or fail to match, never match, never panic; character classes are compared on every byte 0..127; CPU: under small CPU limits pathological backtracking is killed, a run that completes never used more than its limit, and work that necessarily grows with the subject is charged.",
   note="Trusted: refpattern (definitional matcher typed from manual 6.4.1). Skipped as unspecified: gmatch with a leading ^, %f not followed by a set, more than 9 captures, locale dependent classes beyond ASCII.")
not_yet = {}
m = {
 "version": 1,
 "setup_cmd": "./setup.sh",
 "hooks": {
   "guard": "verif",
   "enable": "go build -tags verif -ldflags=-checklinkname=0 (the linker flag is needed by golua's runtime package under Go 1.23 and is independent of the guard); schedule exploration additionally mounts generated instrumented copies of runtime/thread.go etc. with go build -overlay, leaving /repo untouched",
   "baseline_off_cmd": "./baseline.sh",
   "source_commits": [],
   "add_only": True,
 },
 "engines": [
   {"name": "core", "path": "engine/core", "serves_properties": sorted(checks), "kind_free_text": "index-addressable families, 16-way sharding over worker subprocesses, crash/hang attribution to the case in flight, known-findings matching, evidence + replay files"},
   {"name": "sched", "path": "engine/vschedsrc + engine/rewrite + engine/explore", "serves_properties": ["C09"], "kind_free_text": "cooperative scheduler shim mounted into golua by a generated build overlay (AST rewriter over the current /repo sources), deviation-bounded DFS over choice tapes, vector-clock race monitor, deadlock/leak detection"},
 ],
 "checks": [],
 "not_applicable": [],
 "notes": "See DESIGN.md. Every check rebuilds its binary from /repo's working tree (./check <ID>). Known findings: known_findings.json.",
}
extra = {}
try:
    extra = json.load(open(os.path.join(ROOT, "manifest_extra.json")))
except Exception:
    pass
checks.update(extra.get("checks", {}))
for pid in ALL:
    if pid in checks:
        c = checks[pid]
        m["checks"].append({
          "property_id": pid,
          "quick_cmd": "./check %s --tier quick" % pid,
          "thorough_cmd": "./check %s --tier thorough" % pid,
          "evidence_file": "evidence/%s.json" % pid,
          "replay_cmd_template": "./check %s --replay {path}" % pid,
          "engine": c.get("engine", "core"),
          "level_claimed": {"category": c["level"], "text": c["text"], "design_ref": c["design"]},
          "level_note": c["note"],
          "technique": c["technique"],
        })
    else:
        m["not_applicable"].append({"property_id": pid, "reason": extra.get("not_applicable", {}).get(pid, "check not built yet in this round (planned: see DESIGN.md §4)")})
m["engines"][0]["serves_properties"] = sorted(k for k in checks if checks[k].get("engine", "core") == "core")
m["hooks"]["source_commits"] = ["40cd18e"] + extra.get("hook_commits", [])
json.dump(m, open(os.path.join(ROOT, "MANIFEST.json"), "w"), indent=1)
print("MANIFEST.json: %d checks, %d not_applicable" % (len(m["checks"]), len(m["not_applicable"])))
