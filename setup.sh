#!/bin/bash
# Builds every check binary from files on disk only (offline), warming the
# build cache under /verif/.cache.
set -u
ROOT="$(cd "$(dirname "$0")" && pwd)"
export GOFLAGS=-mod=mod GOPROXY=off GOSUMDB=off GOTOOLCHAIN=local
export GOCACHE="$ROOT/.cache/go-build"
mkdir -p "$ROOT/.bin" "$ROOT/evidence" "$ROOT/replays"
cd "$ROOT/engine" || exit 2
cp /repo/go.sum go.sum
rc=0
for d in cmd/*/; do
  id="$(basename "$d")"
  if [ -x "$d/build.sh" ]; then
    "$d/build.sh" || { echo "setup: build of $id failed" >&2; rc=1; }
    continue
  fi
  go build -tags verif -ldflags=-checklinkname=0 -o "$ROOT/.bin/$id" "./cmd/$id" || { echo "setup: build of $id failed" >&2; rc=1; }
done
exit $rc
