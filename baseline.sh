#!/bin/bash
# Runs the repository's pinned baseline suite with the verif guard OFF and
# compares against /root/.vp/BASELINE.json's stable_pass list.
export GOFLAGS=-mod=mod GOPROXY=off GOSUMDB=off GOTOOLCHAIN=local
ROOT="$(cd "$(dirname "$0")" && pwd)"
mkdir -p "$ROOT/.bin"
OUT="$ROOT/.bin/baseline.gotest.json"
(cd /repo && go test -mod=mod -json -vet=off -count=1 -timeout 25m ./... > "$OUT" 2>/dev/null)
rm -f /repo/lib/iolib/files/popenwrite.txt
python3 - "$OUT" <<'PY'
import json,sys
passed=set()
for l in open(sys.argv[1]):
    try: e=json.loads(l)
    except Exception: continue
    if e.get('Action')=='pass' and e.get('Test'):
        passed.add(e['Package']+'::'+e['Test'])
try:
    want=set(json.load(open('/root/.vp/BASELINE.json'))['stable_pass'])
except Exception:
    want=set()
missing=sorted(want-passed)
print(f"baseline: {len(passed)} tests passed; {len(want)} expected; {len(missing)} missing")
for m in missing[:20]: print("  MISSING", m)
sys.exit(1 if missing or not passed else 0)
PY
