#!/bin/bash
# Development helper: the whole golua suite, linked with -checklinkname=0 (the
# pinned baseline cannot link runtime/ and lib/*).  lib/tablelib's
# tablelib.quotas.lua line 155 fails on the pinned tree already (sort cost).
export GOFLAGS=-mod=mod GOPROXY=off GOSUMDB=off GOTOOLCHAIN=local
cd /repo && go test -ldflags=-checklinkname=0 -vet=off -count=1 ./... 2>&1 | grep -v "^ok\|no test files"
rm -f /repo/lib/iolib/files/popenwrite.txt
