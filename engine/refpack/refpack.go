// Package refpack is an independent reference model of the string.pack /
// string.unpack / string.packsize data layout, written from the Lua 5.4
// reference manual §6.4.2 ("Format Strings for Pack and Unpack").  It imports
// nothing from golua.
//
// The manual fixes: the option grammar, little/big endian two's complement
// integers of 1..16 bytes, the overflow checks of pack ("checks whether the
// given value fits in the given size") and unpack ("checks whether the read
// value fits in a Lua integer"), the unsigned reading of Lua integers for the
// unsigned options, alignment ("extra padding until the data starts at an
// offset that is a multiple of the minimum between the option size and the
// maximum alignment; this minimum must be a power of 2"), which options are
// aligned, zero padding, and the three string encodings.  It leaves open: the
// native sizes (h, i, l, T, f, d), the native alignment ("!" without number),
// the native byte order — those are parameters (Platform) — and a few corner
// cases which this model reports as Unspec instead of guessing.
package refpack

import (
	"math"

	"verif/engine/lv"
)

// Status of a reference computation.
type Status int

const (
	OK     Status = iota
	Err           // the manual demands an error
	Unspec        // the manual does not determine the outcome
)

func (s Status) String() string {
	switch s {
	case OK:
		return "ok"
	case Err:
		return "error"
	}
	return "unspecified"
}

// Platform holds the platform-defined parameters.
type Platform struct {
	Short, Int, Long, SizeT int // h/H, i/I default, l/L, T and s default
	Float, Double           int // f, d
	LuaInt, LuaNum          int // j/J, n
	NativeAlign             int // "!" without a number
	Little                  bool
}

// Op is one resolved conversion option.
type Op struct {
	Code     byte // 'i' signed int, 'u' unsigned int, 'f' float, 's' counted string, 'z', 'c', 'x', 'X'
	Size     int  // bytes of the integer / float / length prefix / fixed string; for 'X' the size of its op
	Little   bool // byte order in force
	MaxAlign int  // maximum alignment in force
	Text     string
}

// HasValue reports whether the option corresponds to an argument / result.
func (o Op) HasValue() bool {
	switch o.Code {
	case 'i', 'u', 'f', 's', 'z', 'c':
		return true
	}
	return false
}

// Format is a parsed format string.
type Format struct {
	Ops    []Op
	St     Status
	Reason string // why St != OK
}

type reader struct {
	s string
	i int
}

// numeral reads an optional decimal numeral. ok=false if absent; big=true if
// it does not fit comfortably (treated as out of every limit).
func (r *reader) numeral() (n int, ok bool, big bool) {
	for r.i < len(r.s) && r.s[r.i] >= '0' && r.s[r.i] <= '9' {
		ok = true
		if n > 100000000 {
			big = true
		} else {
			n = n*10 + int(r.s[r.i]-'0')
		}
		r.i++
	}
	return
}

func isPow2(n int) bool { return n > 0 && n&(n-1) == 0 }

// Parse resolves a format string according to the option table of §6.4.2.
func Parse(p Platform, format string) Format {
	r := &reader{s: format}
	little := p.Little // "Any format string starts as if prefixed by "!1=""
	maxAlign := 1
	var f Format
	fail := func(st Status, why string) Format {
		f.St, f.Reason = st, why
		return f
	}
	// limited reads "[n]" for the options whose n must be in [1,16].
	limited := func(def int) (int, Status, string) {
		n, ok, big := r.numeral()
		if !ok {
			return def, OK, ""
		}
		if big || n < 1 || n > 16 {
			return 0, Err, "size-out-of-limits"
		}
		return n, OK, ""
	}
	// one reads one option (after its letter c) and returns the op, whether
	// it is an item at all (configuration options are not).
	var one func(c byte, start int) (Op, bool, Status, string)
	one = func(c byte, start int) (Op, bool, Status, string) {
		op := Op{Little: little, MaxAlign: maxAlign}
		switch c {
		case 'b':
			op.Code, op.Size = 'i', 1
		case 'B':
			op.Code, op.Size = 'u', 1
		case 'h':
			op.Code, op.Size = 'i', p.Short
		case 'H':
			op.Code, op.Size = 'u', p.Short
		case 'l':
			op.Code, op.Size = 'i', p.Long
		case 'L':
			op.Code, op.Size = 'u', p.Long
		case 'j':
			op.Code, op.Size = 'i', p.LuaInt
		case 'J':
			op.Code, op.Size = 'u', p.LuaInt
		case 'T':
			op.Code, op.Size = 'u', p.SizeT
		case 'i', 'I':
			n, st, why := limited(p.Int)
			if st != OK {
				return op, false, st, why
			}
			op.Code, op.Size = 'i', n
			if c == 'I' {
				op.Code = 'u'
			}
		case 'f':
			op.Code, op.Size = 'f', p.Float
		case 'd':
			op.Code, op.Size = 'f', p.Double
		case 'n':
			op.Code, op.Size = 'f', p.LuaNum
		case 's':
			n, st, why := limited(p.SizeT)
			if st != OK {
				return op, false, st, why
			}
			op.Code, op.Size = 's', n
		case 'z':
			op.Code = 'z'
		case 'x':
			op.Code, op.Size = 'x', 1
		case 'c':
			n, ok, big := r.numeral()
			if !ok {
				return op, false, Err, "c-without-size" // "cn": n is not optional
			}
			if big {
				return op, false, Unspec, "huge-c"
			}
			op.Code, op.Size = 'c', n
		default:
			return op, false, Err, "invalid-option"
		}
		op.Text = format[start:r.i]
		return op, true, OK, ""
	}
	for r.i < len(r.s) {
		start := r.i
		c := r.s[r.i]
		r.i++
		switch c {
		case ' ':
		case '<':
			little = true
		case '>':
			little = false
		case '=':
			little = p.Little
		case '!':
			n, st, why := limited(p.NativeAlign)
			if st != OK {
				return fail(st, why)
			}
			maxAlign = n
		case 'X':
			if r.i >= len(r.s) {
				return fail(Err, "X-without-option")
			}
			c2 := r.s[r.i]
			r.i++
			switch c2 {
			case 'b', 'B', 'h', 'H', 'l', 'L', 'j', 'J', 'T', 'i', 'I', 'f', 'd', 'n':
			default:
				// "aligns according to option op": the manual gives no
				// alignment to configuration options, spaces, strings or
				// padding, and does not say that they are rejected.
				return fail(Unspec, "X-with-unaligned-option")
			}
			inner, _, st, why := one(c2, start+1)
			if st != OK {
				return fail(st, why)
			}
			op := Op{Code: 'X', Size: inner.Size, Little: little, MaxAlign: maxAlign, Text: format[start:r.i]}
			if a := min(op.Size, maxAlign); !isPow2(a) {
				return fail(Err, "alignment-not-power-of-2")
			}
			f.Ops = append(f.Ops, op)
		default:
			op, _, st, why := one(c, start)
			if st != OK {
				return fail(st, why)
			}
			if op.aligned() {
				if a := min(op.Size, maxAlign); !isPow2(a) {
					return fail(Err, "alignment-not-power-of-2")
				}
			}
			f.Ops = append(f.Ops, op)
		}
	}
	return f
}

func min(a, b int) int {
	if a < b {
		return a
	}
	return b
}

// aligned: "Options "c" and "z" are not aligned; option "s" follows the
// alignment of its starting integer."  A one byte padding has size 1, for
// which alignment is a no-op.
func (o Op) aligned() bool {
	switch o.Code {
	case 'i', 'u', 'f', 's', 'X':
		return true
	}
	return false
}

func (o Op) padding(off int) int {
	if !o.aligned() {
		return 0
	}
	a := min(o.Size, o.MaxAlign)
	if a <= 1 {
		return 0
	}
	return (a - off%a) % a
}

// putUint writes the low 8 bytes of u followed by fill bytes up to size.
func putUint(out []byte, u uint64, size int, little bool, fill byte) []byte {
	b := make([]byte, size)
	for k := 0; k < size; k++ { // k = significance, 0 = least significant
		var x byte
		if k < 8 {
			x = byte(u >> (8 * uint(k)))
		} else {
			x = fill
		}
		if little {
			b[k] = x
		} else {
			b[size-1-k] = x
		}
	}
	return append(out, b...)
}

// floatHasInt: "if the float has an exact representation as an integer"
// (§3.4.3), i.e. it is integral and within [-2^63, 2^63).
func floatHasInt(f float64) bool {
	return f == math.Floor(f) && f >= -0x1p63 && f < 0x1p63
}

// mayBeNumeral: every Lua numeral contains at least one decimal digit, so a
// string without one can never be converted to a number.
func mayBeNumeral(s string) bool {
	for i := 0; i < len(s); i++ {
		if s[i] >= '0' && s[i] <= '9' {
			return true
		}
	}
	return false
}

// PackResult is the reference outcome of string.pack.
type PackResult struct {
	St     Status
	Reason string
	Bytes  []byte
}

// Pack computes the packed string.  vals must contain one value per value
// option; a missing value is an error.
func Pack(p Platform, f Format, vals []lv.V) PackResult {
	if f.St != OK {
		return PackResult{St: f.St, Reason: f.Reason}
	}
	var out []byte
	vi := 0
	next := func() (lv.V, bool) {
		if vi >= len(vals) {
			return lv.V{}, false
		}
		vi++
		return vals[vi-1], true
	}
	for _, op := range f.Ops {
		for k := op.padding(len(out)); k > 0; k-- {
			out = append(out, 0)
		}
		switch op.Code {
		case 'X':
		case 'x':
			out = append(out, 0)
		case 'i', 'u':
			v, ok := next()
			if !ok {
				return PackResult{St: Err, Reason: "missing-value"}
			}
			if v.K != lv.Int {
				switch {
				case v.K == lv.Float && floatHasInt(v.F):
					// §3.4.3 float->integer conversion applies "where an
					// integer is expected"; whether pack does it is left open
					return PackResult{St: Unspec, Reason: "coercion"}
				case v.K == lv.Float:
					return PackResult{St: Err, Reason: "float-without-integer-representation"}
				case v.K == lv.Str && mayBeNumeral(v.S):
					return PackResult{St: Unspec, Reason: "coercion"}
				}
				return PackResult{St: Err, Reason: "not-an-integer"}
			}
			if op.Code == 'i' {
				if op.Size < 8 {
					lim := int64(1) << (8*uint(op.Size) - 1)
					if v.I < -lim || v.I > lim-1 {
						return PackResult{St: Err, Reason: "signed-overflow"}
					}
				}
				fill := byte(0)
				if v.I < 0 {
					fill = 0xff
				}
				out = putUint(out, uint64(v.I), op.Size, op.Little, fill)
			} else {
				// "For the unsigned options, Lua integers are treated as
				// unsigned values too."
				u := uint64(v.I)
				if op.Size < 8 && u >= uint64(1)<<(8*uint(op.Size)) {
					return PackResult{St: Err, Reason: "unsigned-overflow"}
				}
				out = putUint(out, u, op.Size, op.Little, 0)
			}
		case 'f':
			v, ok := next()
			if !ok {
				return PackResult{St: Err, Reason: "missing-value"}
			}
			var x float64
			switch v.K {
			case lv.Float:
				x = v.F
			case lv.Int:
				x = float64(v.I)
				if x >= 0x1p63 || int64(x) != v.I {
					return PackResult{St: Unspec, Reason: "inexact-int-to-float"}
				}
			case lv.Str:
				if mayBeNumeral(v.S) {
					return PackResult{St: Unspec, Reason: "coercion"}
				}
				return PackResult{St: Err, Reason: "not-a-number"}
			default:
				return PackResult{St: Err, Reason: "not-a-number"}
			}
			switch op.Size {
			case 8:
				out = putUint(out, math.Float64bits(x), 8, op.Little, 0)
			case 4:
				y := float32(x)
				if x == x && float64(y) != x {
					// not representable in the format: rounding / overflow of
					// the conversion is not described by the manual
					return PackResult{St: Unspec, Reason: "not-representable-in-float"}
				}
				out = putUint(out, uint64(math.Float32bits(y)), 4, op.Little, 0)
			default:
				return PackResult{St: Unspec, Reason: "float-size"}
			}
		case 's', 'z', 'c':
			v, ok := next()
			if !ok {
				return PackResult{St: Err, Reason: "missing-value"}
			}
			if v.K != lv.Str {
				if v.K == lv.Int || v.K == lv.Float {
					return PackResult{St: Unspec, Reason: "coercion"}
				}
				return PackResult{St: Err, Reason: "not-a-string"}
			}
			switch op.Code {
			case 's':
				if op.Size < 8 && uint64(len(v.S)) >= uint64(1)<<(8*uint(op.Size)) {
					return PackResult{St: Err, Reason: "length-does-not-fit-prefix"}
				}
				out = putUint(out, uint64(len(v.S)), op.Size, op.Little, 0)
				out = append(out, v.S...)
			case 'z':
				for k := 0; k < len(v.S); k++ {
					if v.S[k] == 0 {
						return PackResult{St: Err, Reason: "zero-in-z-string"}
					}
				}
				out = append(out, v.S...)
				out = append(out, 0)
			case 'c':
				if len(v.S) > op.Size {
					return PackResult{St: Err, Reason: "string-longer-than-c-size"}
				}
				if len(v.S) < op.Size {
					// padding of a shorter string is PUC behaviour; the
					// manual only says "a fixed-sized string with n bytes"
					return PackResult{St: Unspec, Reason: "string-shorter-than-c-size"}
				}
				out = append(out, v.S...)
			}
		}
	}
	if vi < len(vals) {
		// values without an option: the manual does not say they are ignored
		return PackResult{St: Unspec, Reason: "extra-values"}
	}
	return PackResult{St: OK, Bytes: out}
}

// Size is the reference for string.packsize.
func Size(p Platform, f Format) (int, Status, string) {
	if f.St != OK {
		return 0, f.St, f.Reason
	}
	n := 0
	for _, op := range f.Ops {
		n += op.padding(n)
		switch op.Code {
		case 's', 'z':
			return 0, Err, "variable-length-format"
		case 'X':
		default:
			n += op.Size
		}
	}
	return n, OK, ""
}

// UnpackResult is the reference outcome of string.unpack.
type UnpackResult struct {
	St     Status
	Reason string
	Vals   []lv.V
	Next   int // 1-based index of the first unread byte
	// MaxLen is the largest length prefix of an "s" option that was read
	// (callers use it to keep allocation bombs out of bulk families).
	MaxLen uint64
	// Starts[k] is the 0-based offset at which the data of f.Ops[k] starts
	// (after its alignment padding), for the ops that were reached.
	Starts []int
}

// getUint reads size bytes as an unsigned number: low 64 bits, and whether all
// bytes above the eighth equal ext0 / ext1.
func getUint(b []byte, little bool) (u uint64, hiAllZero, hiAllFF bool) {
	size := len(b)
	hiAllZero, hiAllFF = true, true
	for k := 0; k < size; k++ {
		var x byte
		if little {
			x = b[k]
		} else {
			x = b[size-1-k]
		}
		if k < 8 {
			u |= uint64(x) << (8 * uint(k))
		} else {
			if x != 0 {
				hiAllZero = false
			}
			if x != 0xff {
				hiAllFF = false
			}
		}
	}
	return
}

// Unpack reads data starting at the 0-based offset pos.  Alignment is
// computed on offsets relative to base (0 = relative to the start of the data
// string, pos = relative to the first byte read); the manual speaks of "an
// offset" without saying which, so callers accept both readings.
func Unpack(p Platform, f Format, data []byte, pos, base int) (res UnpackResult) {
	if f.St != OK {
		return UnpackResult{St: f.St, Reason: f.Reason}
	}
	var vals []lv.V
	var maxLen uint64
	var starts []int
	defer func() { res.MaxLen = maxLen; res.Starts = starts }()
	off := pos
	short := func(op Op) UnpackResult {
		if op.HasValue() {
			return UnpackResult{St: Err, Reason: "data-too-short"}
		}
		// only padding is missing: the manual says padding is "ignored by
		// string.unpack" and nothing about padding that is not there
		return UnpackResult{St: Unspec, Reason: "padding-beyond-data"}
	}
	for _, op := range f.Ops {
		off += op.padding(off - base)
		if off > len(data) {
			return short(op)
		}
		starts = append(starts, off)
		switch op.Code {
		case 'X':
		case 'x':
			if off+1 > len(data) {
				return short(op)
			}
			off++
		case 'i', 'u':
			if off+op.Size > len(data) {
				return short(op)
			}
			u, hi0, hiFF := getUint(data[off:off+op.Size], op.Little)
			off += op.Size
			if op.Code == 'u' {
				if !hi0 {
					return UnpackResult{St: Err, Reason: "does-not-fit-lua-integer"}
				}
				if op.Size < 8 {
					u &= uint64(1)<<(8*uint(op.Size)) - 1
				}
				vals = append(vals, lv.I(int64(u)))
			} else {
				if op.Size < 8 {
					sh := 64 - 8*uint(op.Size)
					vals = append(vals, lv.I(int64(u<<sh)>>sh))
				} else {
					neg := int64(u) < 0
					if op.Size > 8 && !(neg && hiFF || !neg && hi0) {
						return UnpackResult{St: Err, Reason: "does-not-fit-lua-integer"}
					}
					vals = append(vals, lv.I(int64(u)))
				}
			}
		case 'f':
			if off+op.Size > len(data) {
				return short(op)
			}
			u, _, _ := getUint(data[off:off+op.Size], op.Little)
			off += op.Size
			switch op.Size {
			case 8:
				vals = append(vals, lv.F(math.Float64frombits(u)))
			case 4:
				vals = append(vals, lv.F(float64(math.Float32frombits(uint32(u)))))
			default:
				return UnpackResult{St: Unspec, Reason: "float-size"}
			}
		case 's':
			if off+op.Size > len(data) {
				return short(op)
			}
			u, hi0, _ := getUint(data[off:off+op.Size], op.Little)
			off += op.Size
			if !hi0 {
				// a length of 2^64 or more: certainly more than the data holds
				maxLen = math.MaxUint64
				return UnpackResult{St: Err, Reason: "data-too-short"}
			}
			if op.Size < 8 {
				u &= uint64(1)<<(8*uint(op.Size)) - 1
			}
			if u > maxLen {
				maxLen = u
			}
			if u > uint64(len(data)-off) {
				return UnpackResult{St: Err, Reason: "data-too-short"}
			}
			vals = append(vals, lv.S(string(data[off:off+int(u)])))
			off += int(u)
		case 'z':
			k := off
			for k < len(data) && data[k] != 0 {
				k++
			}
			if k >= len(data) {
				return UnpackResult{St: Err, Reason: "unterminated-z-string"}
			}
			vals = append(vals, lv.S(string(data[off:k])))
			off = k + 1
		case 'c':
			if off+op.Size > len(data) {
				return short(op)
			}
			vals = append(vals, lv.S(string(data[off:off+op.Size])))
			off += op.Size
		}
	}
	return UnpackResult{St: OK, Vals: vals, Next: off + 1}
}
