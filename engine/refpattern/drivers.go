package refpattern

import "strconv"

// Val is a Lua value produced by the pattern functions: a string, an integer
// (position capture, index) or nil.
type Val struct {
	K byte // 's', 'i', 'n'
	I int
	S string
}

func Str(s string) Val { return Val{K: 's', S: s} }
func Int(i int) Val    { return Val{K: 'i', I: i} }

var Nil = Val{K: 'n'}

// Canon renders like host.Canon.Value.
func (v Val) Canon() string {
	switch v.K {
	case 's':
		return "s:" + strconv.Quote(v.S)
	case 'i':
		return "i:" + strconv.Itoa(v.I)
	}
	return "nil"
}

// Subject caches "match at position p" for one (pattern, subject) pair; all
// drivers are defined on top of that primitive.
type Subject struct {
	P  *Pattern
	S  string
	at []*M
}

func (p *Pattern) On(s string) *Subject {
	return &Subject{P: p, S: s, at: make([]*M, len(s)+1)}
}

func (x *Subject) At(pos int) *M {
	if x.at[pos] == nil {
		m := x.P.MatchAt(x.S, pos)
		x.at[pos] = &m
	}
	return x.at[pos]
}

// StartIndex turns a Lua init argument into a 0 based start index following
// the convention of §6.4 (negative counts from the end; positions before the
// first character mean the first character).  The result may exceed len(s).
func StartIndex(s string, init int) int {
	switch {
	case init > 0:
		return init - 1
	case init == 0:
		return 0
	case -init > len(s):
		return 0
	}
	return len(s) + init
}

func (x *Subject) capVal(c Cap) Val {
	if c.Pos {
		return Int(c.Start + 1)
	}
	return Str(x.S[c.Start:c.End])
}

// Captures returns the values a successful match starting at pos produces:
// all captures, or the whole match if the pattern has none (wholeIfNone).
func (x *Subject) Captures(pos int, m *M, wholeIfNone bool) []Val {
	if len(m.Caps) == 0 {
		if wholeIfNone {
			return []Val{Str(x.S[pos:m.End])}
		}
		return nil
	}
	out := make([]Val, len(m.Caps))
	for i, c := range m.Caps {
		out[i] = x.capVal(c)
	}
	return out
}

// Search finds the first match starting at or after start ('^' pins it to
// start).  pos < 0: no match.
func (x *Subject) Search(start int) (pos int, m *M) {
	if start > len(x.S) {
		return -1, nil
	}
	if x.P.Anchor {
		if m := x.At(start); m.OK {
			return start, m
		}
		return -1, nil
	}
	for p := start; p <= len(x.S); p++ {
		if m := x.At(p); m.OK {
			return p, m
		}
	}
	return -1, nil
}

// Find is string.find(s, pattern, init) without the plain flag: the results.
func (x *Subject) Find(init int) []Val {
	pos, m := x.Search(StartIndex(x.S, init))
	if pos < 0 {
		return []Val{Nil}
	}
	return append([]Val{Int(pos + 1), Int(m.End)}, x.Captures(pos, m, false)...)
}

// Match is string.match(s, pattern, init).
func (x *Subject) Match(init int) []Val {
	pos, m := x.Search(StartIndex(x.S, init))
	if pos < 0 {
		return []Val{Nil}
	}
	return x.Captures(pos, m, true)
}

// Gmatch is the sequence of value lists the iterator of
// string.gmatch(s, pattern, init) produces.  The pattern must not start with
// '^' (the manual leaves that case open).  A match that ends where the
// previous match ended is not produced (so an empty match is never reported
// immediately after another match).
func (x *Subject) Gmatch(init int) [][]Val {
	var out [][]Val
	src := StartIndex(x.S, init)
	last := -1
	for src <= len(x.S) {
		m := x.At(src)
		if m.OK && m.End != last {
			out = append(out, x.Captures(src, m, true))
			src, last = m.End, m.End
			continue
		}
		src++
	}
	return out
}

// Repl is the third argument of gsub.
type Repl struct {
	Kind byte // 's' string, 't' table, 'f' function
	S    string
	// Lookup is the table query / function call: it receives the capture
	// values (whole match if there are none; only the first one for a table)
	// and returns the replacement, or use=false for "false or nil".
	Lookup func(args []Val) (repl string, use bool)
}

// ReplStringOK reports whether the replacement string only uses escapes to
// which the manual gives a meaning for a pattern with ncap captures.
func ReplStringOK(r string, ncap int) bool {
	for i := 0; i < len(r); i++ {
		if r[i] != '%' {
			continue
		}
		i++
		if i >= len(r) {
			return false
		}
		d := r[i]
		switch {
		case d == '%' || d == '0':
		case d >= '1' && d <= '9':
			k := int(d - '0')
			if k > ncap && !(k == 1 && ncap == 0) {
				return false
			}
		default:
			return false
		}
	}
	return true
}

// Gsub is string.gsub(s, pattern, repl, n); hasN=false means n absent.  calls
// records the argument lists of every table query / function call.
func (x *Subject) Gsub(r Repl, hasN bool, n int) (res string, count int, calls [][]Val) {
	res, count, calls, _ = x.GsubX(r, hasN, n)
	return
}

// GsubX is Gsub plus one fact about the input used to classify inputs:
// emptyOut = at least one match was replaced and the output built so far was
// still empty right after the last replacement.
func (x *Subject) GsubX(r Repl, hasN bool, n int) (res string, count int, calls [][]Val, emptyOut bool) {
	var out []byte
	src := 0
	last := -1
	for !hasN || count < n {
		m := x.At(src)
		if m.OK && m.End != last {
			count++
			whole := x.S[src:m.End]
			caps := x.Captures(src, m, true)
			replaced := false
			switch r.Kind {
			case 's':
				replaced = true
				for i := 0; i < len(r.S); i++ {
					c := r.S[i]
					if c != '%' {
						out = append(out, c)
						continue
					}
					i++
					d := r.S[i]
					switch {
					case d == '%':
						out = append(out, '%')
					case d == '0':
						out = append(out, whole...)
					default:
						v := caps[d-'1']
						if v.K == 'i' {
							out = strconv.AppendInt(out, int64(v.I), 10)
						} else {
							out = append(out, v.S...)
						}
					}
				}
			case 't':
				args := caps[:1]
				calls = append(calls, args)
				if rep, use := r.Lookup(args); use {
					out = append(out, rep...)
					replaced = true
				} else {
					out = append(out, whole...)
				}
			case 'f':
				calls = append(calls, caps)
				if rep, use := r.Lookup(caps); use {
					out = append(out, rep...)
					replaced = true
				} else {
					out = append(out, whole...)
				}
			}
			if replaced {
				emptyOut = len(out) == 0
			}
			src, last = m.End, m.End
		} else if src < len(x.S) {
			out = append(out, x.S[src])
			src++
		} else {
			break
		}
		if x.P.Anchor {
			break
		}
	}
	out = append(out, x.S[src:]...)
	return string(out), count, calls, emptyOut
}

// PlainFind is string.find(s, p, init, true).
func PlainFind(s, p string, init int) []Val {
	start := StartIndex(s, init)
	if start > len(s) {
		return []Val{Nil}
	}
	for i := start; i+len(p) <= len(s); i++ {
		if s[i:i+len(p)] == p {
			return []Val{Int(i + 1), Int(i + len(p))}
		}
	}
	return []Val{Nil}
}
