// Package refpattern is a definitional model of Lua 5.4 patterns (manual
// §6.4.1) and of string.find / match / gmatch / gsub (§6.4).  It imports
// nothing from golua.  It is deliberately naive: a recursive backtracking
// matcher over a parsed item list, and drivers that call "match at position p"
// for every position.
//
// The parser distinguishes three kinds of pattern text:
//
//   - well formed and fully specified by the manual: the model's answer is the
//     oracle;
//   - malformed (no reading of the manual gives it a meaning and the reference
//     implementation rejects it): Malformed != "";
//   - accepted by the reference implementation but given no meaning by the
//     manual (a stray quantifier, "%bxx", a descending range, a class used as a
//     range end, a back reference to a position capture, ...): Unspec != "".
//     Such a pattern may be parsed only partially; callers must not use the
//     model as an oracle for it.  Unspec takes precedence over Malformed:
//     once a part of the text has no defined reading, the model no longer
//     claims to know where the following items begin.
package refpattern

type Kind uint8

const (
	Single   Kind = iota // single character class, optional quantifier
	BackRef              // %n
	Balance              // %bxy
	Frontier             // %f[set]
	Open                 // ( of capture N
	Close                // ) of capture N
	Position             // () capture N
)

type Set [256]bool

type Item struct {
	Kind  Kind
	Set   *Set
	Quant byte // 0, '*', '+', '-', '?'
	N     int  // capture number (1 based) for Open/Close/Position/BackRef
	X, Y  byte // %bxy
}

type Pattern struct {
	Src       string
	Anchor    bool // leading '^'
	EndAnchor bool // trailing '$'
	Items     []Item
	NCap      int
	IsPos     []bool // IsPos[n]: capture n is a position capture (index 0 unused)
	Malformed string
	Unspec    string
}

// C locale character classes.
func classOf(letter byte) func(c byte) bool {
	isalpha := func(c byte) bool { return c >= 'a' && c <= 'z' || c >= 'A' && c <= 'Z' }
	isdigit := func(c byte) bool { return c >= '0' && c <= '9' }
	switch letter {
	case 'a':
		return isalpha
	case 'c':
		return func(c byte) bool { return c < 32 || c == 127 }
	case 'd':
		return isdigit
	case 'g':
		return func(c byte) bool { return c > 32 && c < 127 }
	case 'l':
		return func(c byte) bool { return c >= 'a' && c <= 'z' }
	case 'p':
		return func(c byte) bool { return c > 32 && c < 127 && !isalpha(c) && !isdigit(c) }
	case 's':
		return func(c byte) bool { return c == ' ' || c >= 9 && c <= 13 }
	case 'u':
		return func(c byte) bool { return c >= 'A' && c <= 'Z' }
	case 'w':
		return func(c byte) bool { return isalpha(c) || isdigit(c) }
	case 'x':
		return func(c byte) bool { return isdigit(c) || c >= 'a' && c <= 'f' || c >= 'A' && c <= 'F' }
	}
	return nil
}

// ClassLetters are the class letters of the 5.4 manual.
const ClassLetters = "acdglpsuwx"

func isAlnum(c byte) bool {
	return c >= 'a' && c <= 'z' || c >= 'A' && c <= 'Z' || c >= '0' && c <= '9'
}

// percentClass adds %d to set.  ok=false: d is alphanumeric but no class
// (no meaning in the manual); the reference implementation takes it literally.
func percentClass(set *Set, d byte) (specified bool) {
	lower := d
	neg := false
	if d >= 'A' && d <= 'Z' {
		lower = d + 'a' - 'A'
		neg = true
	}
	if f := classOf(lower); f != nil {
		// Bytes >= 128 are locale dependent; the model uses the C locale.
		for c := 0; c < 256; c++ {
			if f(byte(c)) != neg {
				set[c] = true
			}
		}
		return true
	}
	set[d] = true
	return !isAlnum(d)
}

type parser struct {
	p   *Pattern
	src string
}

func (ps *parser) unspec(why string) {
	if ps.p.Unspec == "" {
		ps.p.Unspec = why
	}
}

// Verdict classifies the pattern text: "unspec" (no oracle), "malformed"
// (every reading of the manual fails) or "ok" (the model is the oracle).
func (p *Pattern) Verdict() string {
	switch {
	case p.Unspec != "":
		return "unspec"
	case p.Malformed != "":
		return "malformed"
	}
	return "ok"
}

// Parse never fails: the verdict is in Malformed / Unspec.
func Parse(src string) *Pattern {
	p := &Pattern{Src: src, IsPos: []bool{false}}
	ps := &parser{p: p, src: src}
	i := 0
	n := len(src)
	if n > 0 && src[0] == '^' {
		p.Anchor = true
		i = 1
	}
	var open []int
	isOpen := func(k int) bool {
		for _, o := range open {
			if o == k {
				return true
			}
		}
		return false
	}
	for i < n {
		c := src[i]
		switch {
		case c == '(':
			p.NCap++
			if i+1 < n && src[i+1] == ')' {
				p.IsPos = append(p.IsPos, true)
				p.Items = append(p.Items, Item{Kind: Position, N: p.NCap})
				i += 2
			} else {
				p.IsPos = append(p.IsPos, false)
				open = append(open, p.NCap)
				p.Items = append(p.Items, Item{Kind: Open, N: p.NCap})
				i++
			}
			continue
		case c == ')':
			if len(open) == 0 {
				p.Malformed = "')' without '('"
				return p
			}
			k := open[len(open)-1]
			open = open[:len(open)-1]
			p.Items = append(p.Items, Item{Kind: Close, N: k})
			i++
			continue
		case c == '$' && i == n-1:
			p.EndAnchor = true
			i++
			continue
		case c == '%' && i+1 >= n:
			p.Malformed = "ends with '%'"
			return p
		case c == '%' && src[i+1] == 'b':
			if i+3 >= n {
				p.Malformed = "missing arguments to %b"
				return p
			}
			x, y := src[i+2], src[i+3]
			if x == y {
				ps.unspec("%bxy with x == y")
			}
			p.Items = append(p.Items, Item{Kind: Balance, X: x, Y: y})
			i += 4
			continue
		case c == '%' && src[i+1] == 'f':
			if i+2 >= n {
				p.Malformed = "%f at the end of the pattern"
				return p
			}
			if src[i+2] != '[' {
				// The manual only knows "%f[set]".  The reference
				// implementation rejects anything else; an implementation that
				// reads "%fx" as a frontier on the class x contradicts no
				// sentence of the manual, so the model does not judge it.
				ps.unspec("%f not followed by '['")
				return p
			}
			set, j, bad := ps.parseSet(i + 2)
			if bad != "" {
				p.Malformed = bad
				return p
			}
			p.Items = append(p.Items, Item{Kind: Frontier, Set: set})
			i = j
			continue
		case c == '%' && src[i+1] >= '0' && src[i+1] <= '9':
			k := int(src[i+1] - '0')
			if k == 0 || k > p.NCap || isOpen(k) {
				p.Malformed = "invalid capture index in back reference"
				return p
			}
			if p.IsPos[k] {
				ps.unspec("back reference to a position capture")
			}
			p.Items = append(p.Items, Item{Kind: BackRef, N: k})
			i += 2
			continue
		}
		// single character class
		set := new(Set)
		switch c {
		case '.':
			for k := range set {
				set[k] = true
			}
			i++
		case '%':
			if !percentClass(set, src[i+1]) {
				ps.unspec("% followed by an alphanumeric that is no class")
			}
			i += 2
		case '[':
			s, j, bad := ps.parseSet(i)
			if bad != "" {
				p.Malformed = bad
				return p
			}
			set, i = s, j
		case ']', '*', '+', '-', '?':
			// magic character where the grammar has no place for it
			ps.unspec("stray magic character '" + string(c) + "'")
			set[c] = true
			i++
		default:
			// ordinary character, or '^' / '$' away from the ends
			set[c] = true
			i++
		}
		it := Item{Kind: Single, Set: set}
		if i < n {
			switch src[i] {
			case '*', '+', '-', '?':
				it.Quant = src[i]
				i++
			}
		}
		p.Items = append(p.Items, it)
	}
	if len(open) != 0 {
		p.Malformed = "unfinished capture"
	}
	if p.NCap > 9 {
		// The manual numbers captures %1..%9 and states no maximum; how many
		// more an implementation accepts is its own limit.
		ps.unspec("more than 9 captures")
	}
	return p
}

// parseSet parses "[...]" starting at src[i] == '['.  Returns the set, the
// index after the closing bracket, and a non-empty string if it is not closed.
func (ps *parser) parseSet(i int) (*Set, int, string) {
	src := ps.src
	n := len(src)
	set := new(Set)
	j := i + 1
	neg := false
	if j < n && src[j] == '^' {
		neg = true
		j++
	}
	first := true
	for {
		if j >= n {
			return nil, 0, "missing ']'"
		}
		c := src[j]
		if c == ']' && !first {
			j++
			break
		}
		switch {
		case c == '%':
			j++
			if j >= n {
				return nil, 0, "missing ']'"
			}
			if !percentClass(set, src[j]) {
				ps.unspec("% followed by an alphanumeric that is no class (in a set)")
			}
			j++
			if j+1 < n && src[j] == '-' && src[j+1] != ']' {
				ps.unspec("interaction between classes/escapes and ranges")
			}
		case j+2 < n && src[j+1] == '-' && src[j+2] != ']':
			e := src[j+2]
			switch {
			case e == '%':
				ps.unspec("interaction between classes/escapes and ranges")
			case c > e:
				ps.unspec("range not in ascending order")
			case c == '-' || e == '-':
				ps.unspec("hyphen as a range end")
			case c == ']':
				ps.unspec("leading ']' as a range start")
			}
			for k := int(c); k <= int(e); k++ {
				set[k] = true
			}
			j += 3
		default:
			if c == '-' && !first && !(j+1 < n && src[j+1] == ']') {
				ps.unspec("hyphen neither first nor last in a set")
			}
			set[c] = true
			j++
		}
		first = false
	}
	if neg {
		for k := range set {
			set[k] = !set[k]
		}
	}
	return set, j, ""
}
