package refpattern

// Cap is one capture of a successful match (0 based, half open); Pos marks a
// position capture, whose value is Start+1.
type Cap struct {
	Start, End int
	Pos        bool
}

// M is the result of matching at one position.
type M struct {
	OK    bool
	End   int
	Caps  []Cap // len == NCap
	Steps int
}

type matcher struct {
	p     *Pattern
	s     string
	caps  []Cap
	steps int
	limit int
	blown bool
}

// MatchAt matches the pattern (ignoring a leading '^', honouring a trailing
// '$') against s so that the match starts exactly at pos (0 <= pos <= len(s)).
// Alternatives are tried in the order the manual gives them: '*' and '+'
// longest first, '-' shortest first, '?' one occurrence first; the first
// alternative for which the rest of the pattern matches wins.
func (p *Pattern) MatchAt(s string, pos int) M {
	m := &matcher{p: p, s: s, caps: make([]Cap, p.NCap+1), limit: 50_000_000}
	end, ok := m.do(0, pos)
	if m.blown {
		panic("refpattern: step limit exceeded")
	}
	if !ok {
		return M{Steps: m.steps}
	}
	return M{OK: true, End: end, Caps: append([]Cap(nil), m.caps[1:]...), Steps: m.steps}
}

func (m *matcher) single(it *Item, pos int) bool {
	return pos < len(m.s) && it.Set[m.s[pos]]
}

func (m *matcher) do(i, pos int) (int, bool) {
	m.steps++
	if m.steps > m.limit {
		m.blown = true
		return 0, false
	}
	if i == len(m.p.Items) {
		if m.p.EndAnchor && pos != len(m.s) {
			return 0, false
		}
		return pos, true
	}
	it := &m.p.Items[i]
	switch it.Kind {
	case Open:
		old := m.caps[it.N]
		m.caps[it.N] = Cap{Start: pos, End: -1}
		if e, ok := m.do(i+1, pos); ok {
			return e, true
		}
		m.caps[it.N] = old
		return 0, false
	case Position:
		old := m.caps[it.N]
		m.caps[it.N] = Cap{Start: pos, End: pos, Pos: true}
		if e, ok := m.do(i+1, pos); ok {
			return e, true
		}
		m.caps[it.N] = old
		return 0, false
	case Close:
		m.caps[it.N].End = pos
		if e, ok := m.do(i+1, pos); ok {
			return e, true
		}
		m.caps[it.N].End = -1
		return 0, false
	case BackRef:
		c := m.caps[it.N]
		if c.Pos || c.End < 0 {
			// not given a meaning by the manual (Unspec is set); the
			// reference implementation fails to match here.
			return 0, false
		}
		sub := m.s[c.Start:c.End]
		if pos+len(sub) <= len(m.s) && m.s[pos:pos+len(sub)] == sub {
			return m.do(i+1, pos+len(sub))
		}
		return 0, false
	case Balance:
		if pos >= len(m.s) || m.s[pos] != it.X {
			return 0, false
		}
		depth := 1
		for q := pos + 1; q < len(m.s); q++ {
			switch c := m.s[q]; {
			case c == it.Y:
				depth--
				if depth == 0 {
					return m.do(i+1, q+1)
				}
			case c == it.X:
				depth++
			}
		}
		return 0, false
	case Frontier:
		var prev, cur byte // the ends of the subject count as '\0'
		if pos > 0 {
			prev = m.s[pos-1]
		}
		if pos < len(m.s) {
			cur = m.s[pos]
		}
		if !it.Set[prev] && it.Set[cur] {
			return m.do(i+1, pos)
		}
		return 0, false
	}
	// Single
	switch it.Quant {
	case 0:
		if m.single(it, pos) {
			return m.do(i+1, pos+1)
		}
		return 0, false
	case '?':
		if m.single(it, pos) {
			if e, ok := m.do(i+1, pos+1); ok {
				return e, true
			}
		}
		return m.do(i+1, pos)
	case '*', '+':
		k := 0
		for m.single(it, pos+k) {
			k++
		}
		min := 0
		if it.Quant == '+' {
			min = 1
		}
		for ; k >= min; k-- {
			if e, ok := m.do(i+1, pos+k); ok {
				return e, true
			}
		}
		return 0, false
	case '-':
		for k := 0; ; k++ {
			if e, ok := m.do(i+1, pos+k); ok {
				return e, true
			}
			if !m.single(it, pos+k) {
				return 0, false
			}
		}
	}
	panic("refpattern: bad item")
}
