module verif/engine

go 1.23

require github.com/arnodel/golua v0.0.0

require github.com/arnodel/strftime v0.1.6 // indirect

replace github.com/arnodel/golua => /repo
