// Package core is the bounded-exhaustive exploration driver shared by every
// check: index-addressable families, sharding over worker subprocesses, crash
// and hang attribution, known findings, evidence and replay artefacts.
package core

import (
	"bufio"
	"crypto/sha1"
	"encoding/hex"
	"encoding/json"
	"flag"
	"fmt"
	"hash/fnv"
	"io"
	"os"
	"os/exec"
	"path/filepath"
	"runtime"
	"runtime/debug"
	"sort"
	"strconv"
	"strings"
	"sync"
	"syscall"
	"time"
)

// Violation describes one failing case.  Key is the canonical signature of
// the failure (input signature + violated clause) used to match known
// findings; it must not contain anything process specific.
type Violation struct {
	Key    string `json:"key"`
	Detail string `json:"detail"`
}

// Outcome is what running one case reports.
type Outcome struct {
	Viol       *Violation
	Viols      []*Violation // additional violations of the same case
	Sig        uint64       // hash of the observed outcome (distinct counting); 0 = none
	NonTrivial bool
	Skipped    bool // case excluded by the generator discipline (not an evaluation)
	Partial    bool // the case stopped early because the family budget expired (non exhaustive, not a violation)
	States     uint64
	Trans      uint64
}

// Family is a finite, index addressable set of cases, simplest first.
type Family struct {
	Name string
	Size uint64
	Run  func(i uint64) Outcome
	Show func(i uint64) string // human readable rendering of case i (samples, replays)
	// HangSeconds is the watchdog for one case (0 = default 120).
	HangSeconds int
	// Serial runs the family in one worker only (shared resources).
	Serial bool
	// BudgetSeconds, if > 0, caps the wall time of the family; hitting the cap
	// makes the run non exhaustive (reported, never a violation).
	BudgetSeconds int
}

type Check struct {
	ID          string
	Level       string // evidence level
	Rule        string
	Assumptions []string
	Families    func(tier string) []*Family
	// Extra returns additional coverage keys for the evidence file.
	Extra func(tier string) map[string]interface{}
	// Init is run once in every process (parent and workers) before families
	// are built.
	Init func(tier string)
}

type finding struct {
	Property string `json:"property"`
	Status   string `json:"status"`
	Key      string `json:"key,omitempty"`
	KeyGlob  string `json:"key_glob,omitempty"`
	What     string `json:"what"`
	Commit   string `json:"commit,omitempty"`
}

func Root() string {
	if r := os.Getenv("VERIF_ROOT"); r != "" {
		return r
	}
	exe, err := os.Executable()
	if err == nil {
		return filepath.Dir(filepath.Dir(exe))
	}
	return "/verif"
}

func Hash64(s string) uint64 {
	h := fnv.New64a()
	io.WriteString(h, s)
	v := h.Sum64()
	if v == 0 {
		v = 1
	}
	return v
}

// ---------------------------------------------------------------- worker

type workerMsg struct {
	T       string   `json:"t"`
	I       uint64   `json:"i,omitempty"`
	Key     string   `json:"key,omitempty"`
	Detail  string   `json:"detail,omitempty"`
	Evals   uint64   `json:"evals,omitempty"`
	Skipped uint64   `json:"skipped,omitempty"`
	Sigs    []uint64 `json:"sigs,omitempty"`
	SigsCap bool     `json:"sigscap,omitempty"`
	States  uint64   `json:"states,omitempty"`
	Trans   uint64   `json:"trans,omitempty"`
	Samples []string `json:"samples,omitempty"`
	Last    uint64   `json:"last,omitempty"`
	Full    bool     `json:"full,omitempty"`
}

const sigCap = 300000

// workerDeadline is the unix time at which the current family's budget
// expires (0 = none).  Long running cases poll Expired().
var workerDeadline int64

// Expired reports whether the budget of the family being run has expired; a
// case that stops early because of it must set Outcome.Partial.
func Expired() bool {
	return workerDeadline > 0 && time.Now().Unix() > workerDeadline
}

func runWorker(c *Check, tier, famName string, shard, of, from uint64, deadline int64) {
	workerDeadline = deadline
	// Address-space cap: an allocation bomb must kill this worker, not the box.
	var lim syscall.Rlimit
	lim.Cur, lim.Max = 24<<30, 24<<30
	syscall.Setrlimit(syscall.RLIMIT_AS, &lim)
	debug.SetMaxStack(512 << 20)

	var fam *Family
	for _, f := range c.Families(tier) {
		if f.Name == famName {
			fam = f
		}
	}
	if fam == nil {
		fmt.Fprintf(os.Stderr, "worker: unknown family %q\n", famName)
		os.Exit(2)
	}
	out := bufio.NewWriterSize(os.Stdout, 1<<16)
	enc := json.NewEncoder(out)
	var prog *os.File
	if p := os.Getenv("VERIF_PROGRESS"); p != "" {
		prog, _ = os.OpenFile(p, os.O_WRONLY|os.O_CREATE, 0644)
	}
	var pbuf [24]byte
	sigs := map[uint64]struct{}{}
	var done workerMsg
	done.T = "done"
	done.Full = true
	start := from
	if start%of != shard {
		start += (shard + of - start%of) % of
	}
	for i := start; i < fam.Size; i += of {
		if deadline > 0 && time.Now().Unix() > deadline {
			done.Full = false
			break
		}
		if prog != nil {
			b := strconv.AppendUint(pbuf[:0], i, 10)
			for len(b) < 23 {
				b = append(b, ' ')
			}
			b = append(b, '\n')
			prog.WriteAt(b, 0)
		}
		o := runCase(fam, i)
		done.Last = i
		if o.Partial {
			done.Full = false
		}
		if o.Skipped {
			done.Skipped++
			continue
		}
		done.Evals++
		done.States += o.States
		done.Trans += o.Trans
		if o.NonTrivial && o.Sig != 0 {
			if len(sigs) < sigCap {
				sigs[o.Sig] = struct{}{}
			} else {
				done.SigsCap = true
			}
		}
		if len(done.Samples) < 2 && o.NonTrivial && fam.Show != nil {
			done.Samples = append(done.Samples, fam.Show(i))
		}
		vs := o.Viols
		if o.Viol != nil {
			vs = append([]*Violation{o.Viol}, vs...)
		}
		for _, v := range vs {
			enc.Encode(workerMsg{T: "v", I: i, Key: v.Key, Detail: v.Detail})
			out.Flush()
		}
	}
	for s := range sigs {
		done.Sigs = append(done.Sigs, s)
	}
	enc.Encode(done)
	out.Flush()
}

func runCase(fam *Family, i uint64) (o Outcome) {
	defer func() {
		if r := recover(); r != nil {
			st := string(debug.Stack())
			if len(st) > 3000 {
				st = st[:3000]
			}
			o = Outcome{Viol: &Violation{
				Key:    fmt.Sprintf("%s gopanic-in-case %s", fam.Name, firstLine(fmt.Sprint(r))),
				Detail: fmt.Sprintf("Go panic escaped while running case %d: %v\n%s", i, r, st),
			}}
		}
	}()
	return fam.Run(i)
}

func firstLine(s string) string {
	if k := strings.IndexByte(s, '\n'); k >= 0 {
		s = s[:k]
	}
	if len(s) > 160 {
		s = s[:160]
	}
	return s
}

// ---------------------------------------------------------------- parent

type famStats struct {
	Name       string   `json:"family"`
	Size       uint64   `json:"size"`
	Evals      uint64   `json:"evaluations"`
	Skipped    uint64   `json:"skipped_by_discipline"`
	Distinct   int      `json:"distinct_outcomes"`
	States     uint64   `json:"states,omitempty"`
	Trans      uint64   `json:"transitions,omitempty"`
	Exhaustive bool     `json:"exhaustive"`
	Crashes    int      `json:"worker_crashes"`
	WallS      float64  `json:"wall_s"`
	Samples    []string `json:"-"`
	sigs       map[uint64]struct{}
	sigsCapped bool
}

type foundViol struct {
	Family string
	Index  uint64
	Key    string
	Detail string
	Count  int
}

type parent struct {
	c     *Check
	tier  string
	exe   string
	mu    sync.Mutex
	viols map[string]*foundViol
	tmp   string
}

func (p *parent) addViol(fam string, idx uint64, key, detail string) {
	p.mu.Lock()
	defer p.mu.Unlock()
	if v, ok := p.viols[key]; ok {
		v.Count++
		if fam == v.Family && idx < v.Index {
			v.Index, v.Detail = idx, detail
		}
		return
	}
	p.viols[key] = &foundViol{Family: fam, Index: idx, Key: key, Detail: detail, Count: 1}
}

func (p *parent) runFamily(f *Family) *famStats {
	st := &famStats{Name: f.Name, Size: f.Size, Exhaustive: true, sigs: map[uint64]struct{}{}}
	t0 := time.Now()
	n := uint64(runtime.NumCPU())
	if w := os.Getenv("VERIF_WORKERS"); w != "" {
		if k, err := strconv.Atoi(w); err == nil && k > 0 {
			n = uint64(k)
		}
	}
	// machine-wide throttle (development aid, not present in a fresh checkout)
	if b, err := os.ReadFile(filepath.Join(Root(), ".workers")); err == nil {
		if k, err := strconv.Atoi(strings.TrimSpace(string(b))); err == nil && k > 0 && uint64(k) < n {
			n = uint64(k)
		}
	}
	if f.Serial || f.Size < 4 {
		n = 1
	}
	if n > f.Size {
		n = f.Size
	}
	if n == 0 {
		return st
	}
	var deadline int64
	if f.BudgetSeconds > 0 {
		deadline = time.Now().Unix() + int64(f.BudgetSeconds)
	}
	var wg sync.WaitGroup
	for s := uint64(0); s < n; s++ {
		wg.Add(1)
		go func(s uint64) {
			defer wg.Done()
			p.runShard(f, st, s, n, deadline)
		}(s)
	}
	wg.Wait()
	st.Distinct = len(st.sigs)
	st.WallS = time.Since(t0).Seconds()
	return st
}

func (p *parent) runShard(f *Family, st *famStats, shard, of uint64, deadline int64) {
	from := uint64(0)
	hang := f.HangSeconds
	if hang == 0 {
		hang = 120
	}
	for attempt := 0; ; attempt++ {
		progPath := filepath.Join(p.tmp, fmt.Sprintf("prog-%s-%d", sanitize(f.Name), shard))
		os.Remove(progPath)
		cmd := exec.Command(p.exe, "-worker", "-tier", p.tier, "-family", f.Name,
			"-shard", fmt.Sprint(shard), "-of", fmt.Sprint(of), "-from", fmt.Sprint(from),
			"-deadline", fmt.Sprint(deadline))
		cmd.Env = append(os.Environ(), "VERIF_PROGRESS="+progPath, "GOTRACEBACK=single")
		stdout, _ := cmd.StdoutPipe()
		var stderr tailBuf
		cmd.Stderr = &stderr
		if err := cmd.Start(); err != nil {
			fmt.Fprintf(os.Stderr, "cannot start worker: %v\n", err)
			os.Exit(2)
		}
		// watchdog
		stop := make(chan struct{})
		hung := false
		var hmu sync.Mutex
		go func() {
			last, lastT := "", time.Now()
			tk := time.NewTicker(500 * time.Millisecond)
			defer tk.Stop()
			for {
				select {
				case <-stop:
					return
				case <-tk.C:
					b, _ := os.ReadFile(progPath)
					cur := strings.TrimSpace(string(b))
					if cur != last {
						last, lastT = cur, time.Now()
					} else if cur != "" && time.Since(lastT) > time.Duration(hang)*time.Second {
						hmu.Lock()
						hung = true
						hmu.Unlock()
						cmd.Process.Kill()
						return
					}
				}
			}
		}()
		gotDone := false
		sc := bufio.NewScanner(stdout)
		sc.Buffer(make([]byte, 1<<20), 1<<28)
		for sc.Scan() {
			var m workerMsg
			if json.Unmarshal(sc.Bytes(), &m) != nil {
				continue
			}
			switch m.T {
			case "v":
				p.addViol(f.Name, m.I, m.Key, m.Detail)
			case "done":
				gotDone = true
				p.mu.Lock()
				st.Evals += m.Evals
				st.Skipped += m.Skipped
				st.States += m.States
				st.Trans += m.Trans
				for _, s := range m.Sigs {
					st.sigs[s] = struct{}{}
				}
				if m.SigsCap {
					st.sigsCapped = true
				}
				if !m.Full {
					st.Exhaustive = false
				}
				if len(st.Samples) < 4 {
					st.Samples = append(st.Samples, m.Samples...)
				}
				p.mu.Unlock()
			}
		}
		err := cmd.Wait()
		close(stop)
		if gotDone && err == nil {
			return
		}
		// worker died: attribute to the case in flight
		b, _ := os.ReadFile(progPath)
		cur, perr := strconv.ParseUint(strings.TrimSpace(string(b)), 10, 64)
		if perr != nil {
			fmt.Fprintf(os.Stderr, "worker for %s shard %d died before its first case: %v\n%s\n", f.Name, shard, err, stderr.String())
			os.Exit(2)
		}
		hmu.Lock()
		wasHung := hung
		hmu.Unlock()
		kind := "worker-died"
		if wasHung {
			kind = fmt.Sprintf("hang>%ds", hang)
		}
		tail := stderr.String()
		reason := crashReason(tail)
		show := ""
		if f.Show != nil {
			show = safeShow(f, cur)
		}
		p.addViol(f.Name, cur, fmt.Sprintf("%s %s %s", f.Name, kind, reason),
			fmt.Sprintf("worker process died (%v) while running case %d of %s\ncase: %s\nstderr tail:\n%s", err, cur, f.Name, show, tail))
		p.mu.Lock()
		st.Crashes++
		if cur >= from {
			st.Evals += (cur-from)/of + 1
		}
		p.mu.Unlock()
		from = cur + 1
		if attempt > 200 {
			p.mu.Lock()
			st.Exhaustive = false
			p.mu.Unlock()
			return
		}
	}
}

func safeShow(f *Family, i uint64) (s string) {
	defer func() {
		if r := recover(); r != nil {
			s = fmt.Sprintf("<show panicked: %v>", r)
		}
	}()
	s = f.Show(i)
	if len(s) > 4000 {
		s = s[:4000] + "…"
	}
	return
}

func crashReason(tail string) string {
	for _, ln := range strings.Split(tail, "\n") {
		if strings.HasPrefix(ln, "fatal error:") || strings.HasPrefix(ln, "panic:") || strings.HasPrefix(ln, "runtime: goroutine stack exceeds") {
			return firstLine(ln)
		}
	}
	return "unknown"
}

type tailBuf struct {
	mu  sync.Mutex
	buf []byte
}

func (t *tailBuf) Write(b []byte) (int, error) {
	t.mu.Lock()
	defer t.mu.Unlock()
	// keep head (the fatal error line is first) up to 6k and drop the rest
	if len(t.buf) < 6000 {
		k := 6000 - len(t.buf)
		if k > len(b) {
			k = len(b)
		}
		t.buf = append(t.buf, b[:k]...)
	}
	return len(b), nil
}
func (t *tailBuf) String() string { t.mu.Lock(); defer t.mu.Unlock(); return string(t.buf) }

func sanitize(s string) string {
	r := []rune(s)
	for i, c := range r {
		if !(c >= 'a' && c <= 'z' || c >= 'A' && c <= 'Z' || c >= '0' && c <= '9') {
			r[i] = '_'
		}
	}
	return string(r)
}

func globMatch(pat, s string) bool {
	// '*' matches any run of characters; everything else is literal.
	parts := strings.Split(pat, "*")
	if len(parts) == 1 {
		return pat == s
	}
	if !strings.HasPrefix(s, parts[0]) {
		return false
	}
	s = s[len(parts[0]):]
	for i := 1; i < len(parts)-1; i++ {
		k := strings.Index(s, parts[i])
		if k < 0 {
			return false
		}
		s = s[k+len(parts[i]):]
	}
	return strings.HasSuffix(s, parts[len(parts)-1])
}

type replayFile struct {
	Property string `json:"property"`
	Tier     string `json:"tier"`
	Family   string `json:"family"`
	Index    uint64 `json:"index"`
	Key      string `json:"key"`
	Case     string `json:"case"`
	Detail   string `json:"detail"`
	Count    int    `json:"occurrences"`
	Repro    string `json:"reproduced"`
}

// Main is the entry point of every check binary.
func Main(c *Check) {
	var (
		tier     = flag.String("tier", "quick", "quick|thorough")
		worker   = flag.Bool("worker", false, "internal")
		famName  = flag.String("family", "", "restrict to one family")
		shard    = flag.Uint64("shard", 0, "internal")
		of       = flag.Uint64("of", 1, "internal")
		from     = flag.Uint64("from", 0, "internal")
		deadline = flag.Int64("deadline", 0, "internal")
		replay   = flag.String("replay", "", "replay file")
		one      = flag.String("case", "", "family:index — run one case in process, verbose")
		list     = flag.Bool("list", false, "list families and sizes")
	)
	flag.Parse()
	if t := os.Getenv("VERIF_TIER"); t != "" && !*worker {
		// explicit flag wins
		set := false
		flag.Visit(func(f *flag.Flag) {
			if f.Name == "tier" {
				set = true
			}
		})
		if !set {
			*tier = t
		}
	}
	if c.Init != nil {
		c.Init(*tier)
	}
	if *worker {
		runWorker(c, *tier, *famName, *shard, *of, *from, *deadline)
		return
	}
	if *list {
		for _, f := range c.Families(*tier) {
			fmt.Printf("%-40s %d\n", f.Name, f.Size)
		}
		return
	}
	if *replay != "" {
		b, err := os.ReadFile(*replay)
		if err != nil {
			fmt.Fprintln(os.Stderr, err)
			os.Exit(2)
		}
		var rf replayFile
		if err := json.Unmarshal(b, &rf); err != nil {
			fmt.Fprintln(os.Stderr, err)
			os.Exit(2)
		}
		*one = fmt.Sprintf("%s:%d", rf.Family, rf.Index)
		if rf.Tier != "" {
			*tier = rf.Tier
		}
	}
	if *one != "" {
		k := strings.LastIndexByte(*one, ':')
		idx, _ := strconv.ParseUint((*one)[k+1:], 10, 64)
		for _, f := range c.Families(*tier) {
			if f.Name == (*one)[:k] {
				if f.Show != nil {
					fmt.Printf("case %s:\n%s\n", *one, f.Show(idx))
				}
				o := runCase(f, idx)
				vs := o.Viols
				if o.Viol != nil {
					vs = append([]*Violation{o.Viol}, vs...)
				}
				if len(vs) == 0 {
					fmt.Printf("OK (skipped=%v nontrivial=%v sig=%x)\n", o.Skipped, o.NonTrivial, o.Sig)
					return
				}
				for _, v := range vs {
					fmt.Printf("VIOLATION property=%s replay=%s\nkey: %s\n%s\n", c.ID, *replay, v.Key, v.Detail)
				}
				os.Exit(1)
			}
		}
		fmt.Fprintf(os.Stderr, "unknown family in %q\n", *one)
		os.Exit(2)
	}

	t0 := time.Now()
	exe, _ := os.Executable()
	tmp, err := os.MkdirTemp(filepath.Dir(exe), "run-")
	if err != nil {
		fmt.Fprintln(os.Stderr, err)
		os.Exit(2)
	}
	defer os.RemoveAll(tmp)
	p := &parent{c: c, tier: *tier, exe: exe, viols: map[string]*foundViol{}, tmp: tmp}
	var stats []*famStats
	for _, f := range c.Families(*tier) {
		if *famName != "" && f.Name != *famName {
			continue
		}
		st := p.runFamily(f)
		stats = append(stats, st)
		fmt.Printf("  %-34s size=%-10d evals=%-10d skipped=%-8d distinct=%-8d states=%d trans=%d exhaustive=%v crashes=%d %.1fs\n",
			st.Name, st.Size, st.Evals, st.Skipped, st.Distinct, st.States, st.Trans, st.Exhaustive, st.Crashes, st.WallS)
	}

	// known findings
	var kf struct {
		Findings []finding `json:"findings"`
	}
	if b, err := os.ReadFile(filepath.Join(Root(), "known_findings.json")); err == nil {
		if err := json.Unmarshal(b, &kf); err != nil {
			fmt.Fprintf(os.Stderr, "known_findings.json: %v\n", err)
			os.Exit(2)
		}
	}
	keys := make([]string, 0, len(p.viols))
	for k := range p.viols {
		keys = append(keys, k)
	}
	sort.Strings(keys)
	if dp := os.Getenv("VERIF_DUMPKEYS"); dp != "" {
		var sb strings.Builder
		for _, k := range keys {
			fmt.Fprintf(&sb, "%s\t%s:%d\tx%d\n", k, p.viols[k].Family, p.viols[k].Index, p.viols[k].Count)
		}
		os.WriteFile(dp, []byte(sb.String()), 0644)
	}
	nviol := 0
	knownSeen := map[int]int{}
	var vioLines []string
	for _, k := range keys {
		v := p.viols[k]
		matched := -1
		for i, f := range kf.Findings {
			if f.Property != c.ID || f.Status != "known" {
				continue
			}
			if (f.Key != "" && f.Key == k) || (f.KeyGlob != "" && globMatch(f.KeyGlob, k)) {
				matched = i
				break
			}
		}
		if matched >= 0 {
			knownSeen[matched] += v.Count
			continue
		}
		nviol++
		if nviol > 25 {
			continue
		}
		// reproduce in fresh processes
		repro := 0
		const tries = 3
		for r := 0; r < tries; r++ {
			out, _ := exec.Command(exe, "-tier", *tier, "-case", fmt.Sprintf("%s:%d", v.Family, v.Index)).CombinedOutput()
			if strings.Contains(string(out), "key: "+k) {
				repro++
			}
		}
		var fam *Family
		for _, f := range c.Families(*tier) {
			if f.Name == v.Family {
				fam = f
			}
		}
		show := ""
		if fam != nil && fam.Show != nil {
			show = safeShow(fam, v.Index)
		}
		h := sha1.Sum([]byte(k))
		dir := filepath.Join(Root(), "replays", c.ID)
		os.MkdirAll(dir, 0755)
		path := filepath.Join(dir, hex.EncodeToString(h[:6])+".json")
		rb, _ := json.MarshalIndent(replayFile{Property: c.ID, Tier: *tier, Family: v.Family, Index: v.Index,
			Key: k, Case: show, Detail: v.Detail, Count: v.Count, Repro: fmt.Sprintf("%d/%d", repro, tries)}, "", " ")
		os.WriteFile(path, rb, 0644)
		vioLines = append(vioLines, fmt.Sprintf("VIOLATION property=%s replay=%s", c.ID, path))
		fmt.Printf("  violation key: %s (x%d, reproduced %d/%d)\n", k, v.Count, repro, tries)
	}
	idxs := make([]int, 0, len(knownSeen))
	for i := range knownSeen {
		idxs = append(idxs, i)
	}
	sort.Ints(idxs)
	for _, i := range idxs {
		fmt.Printf("KNOWN-FINDING: property=%s %s (cases=%d)\n", c.ID, kf.Findings[i].What, knownSeen[i])
	}

	// evidence
	var evals, states, trans uint64
	distinct := 0
	exhaustive := true
	var samples []interface{}
	for _, st := range stats {
		evals += st.Evals
		states += st.States
		trans += st.Trans
		distinct += st.Distinct
		if !st.Exhaustive {
			exhaustive = false
		}
		for _, s := range st.Samples {
			if len(samples) < 12 {
				samples = append(samples, map[string]string{"family": st.Name, "case": s})
			}
		}
	}
	if len(samples) == 0 {
		samples = append(samples, "no non-trivial sample produced")
	}
	cov := map[string]interface{}{
		"evaluations":         evals,
		"distinct_nontrivial": distinct,
		"rule":                c.Rule,
		"samples":             samples,
		"exhaustive":          exhaustive,
		"families":            stats,
		"known_findings_seen": len(knownSeen),
	}
	if states > 0 || c.Level == "model_checking" {
		if states == 0 {
			states = uint64(distinct)
		}
		if trans == 0 {
			trans = evals
		}
		cov["states"] = states
		cov["transitions"] = trans
		cov["traces_validated_against_impl"] = evals
	}
	if c.Extra != nil {
		for k, v := range c.Extra(*tier) {
			cov[k] = v
		}
	}
	seed, _ := strconv.Atoi(os.Getenv("VERIF_SEED"))
	ev := map[string]interface{}{
		"property_id": c.ID,
		"tier":        *tier,
		"seed":        seed,
		"level":       c.Level,
		"coverage":    cov,
		"assumptions": c.Assumptions,
		"wall_s":      time.Since(t0).Seconds(),
		"violations":  nviol,
	}
	eb, _ := json.MarshalIndent(ev, "", " ")
	evDir := filepath.Join(Root(), "evidence")
	if d := os.Getenv("VERIF_EVIDENCE_DIR"); d != "" {
		evDir = d // runs against deliberately broken trees must not overwrite the evidence
	}
	os.MkdirAll(evDir, 0755)
	if err := os.WriteFile(filepath.Join(evDir, c.ID+".json"), eb, 0644); err != nil {
		fmt.Fprintln(os.Stderr, err)
		os.Exit(2)
	}
	fmt.Printf("%s tier=%s evaluations=%d distinct=%d exhaustive=%v violations=%d known=%d wall=%.1fs\n",
		c.ID, *tier, evals, distinct, exhaustive, nviol, len(knownSeen), time.Since(t0).Seconds())
	for _, l := range vioLines {
		fmt.Println(l)
	}
	if nviol > 0 {
		os.Exit(1)
	}
}
