package main

import (
	"fmt"
	"regexp"
	"strings"

	rt "github.com/arnodel/golua/runtime"

	"verif/engine/core"
	"verif/engine/host"
)

// fut is one function under test: the main function of chunk src, or (inner)
// the function returned by the chunk `return function ... end`.
type fut struct {
	label  string // main | inner<k> — part of violation keys
	src    string
	inner  bool
	tuples [][]interface{}
}

type futResult struct {
	viols      []*core.Violation
	skipped    string // non-empty: golua does not compile the source (not this property)
	obs        []string
	nonTrivial bool
	dumpLen    int
}

var stdTuples = [][]interface{}{
	{},
	{int64(1)},
	{nil, int64(2)},
	{int64(1), int64(2), int64(3)},
}

// tuplesFor returns the argument tuples for a function: the program's own
// arguments first, then the standard tuples.  When all is false and the
// function cannot observe its arguments syntactically (no parameter, no use
// of `...`) only the own tuple and (1,2,3) are kept.
func tuplesFor(own []interface{}, hasOwn, observes, all bool) [][]interface{} {
	var out [][]interface{}
	seen := map[string]bool{}
	add := func(t []interface{}) {
		k := argsStr(t)
		if !seen[k] {
			seen[k] = true
			out = append(out, t)
		}
	}
	if hasOwn {
		add(own)
	}
	if observes || all {
		for _, t := range stdTuples {
			add(t)
		}
	} else {
		if !hasOwn {
			add(stdTuples[0])
		}
		add(stdTuples[3])
	}
	return out
}

var linePos = regexp.MustCompile(`[^\s:"\\]+:\d+:`)

// stripLines removes position prefixes (`chunk:12:`) from an observation.
func stripLines(s string) string { return linePos.ReplaceAllString(s, "@:") }

func diffClause(f, g host.Obs) string {
	switch {
	case f.Status != g.Status:
		return "status"
	case strings.Join(f.Trace, "|") != strings.Join(g.Trace, "|"):
		return "trace"
	case strings.Join(f.Results, ",") != strings.Join(g.Results, ","):
		return "results"
	case f.Err != g.Err:
		if stripLines(f.Err) == stripLines(g.Err) {
			return "error-line"
		}
		return "error"
	case f.Ticks != g.Ticks:
		return "ticks"
	}
	return ""
}

func numbered(src string) string {
	lines := strings.Split(src, "\n")
	if len(lines) > 60 {
		lines = append(lines[:60], "...")
	}
	for i := range lines {
		if len(lines[i]) > 300 {
			lines[i] = lines[i][:300] + "…"
		}
		lines[i] = fmt.Sprintf("%3d  %s", i+1, lines[i])
	}
	return strings.Join(lines, "\n")
}

// checkFut runs clauses 1-5 for one function.  keyBase is "<family> <prog key>".
func checkFut(keyBase string, ft fut) (res futResult) {
	viol := func(clause, format string, a ...interface{}) {
		kind := "main chunk"
		if ft.inner {
			kind = "function returned by the chunk"
		}
		res.viols = append(res.viols, &core.Violation{
			Key:    fmt.Sprintf("%s fn=%s clause=%s", keyBase, ft.label, clause),
			Detail: fmt.Sprintf("%s\nfunction under test: %s of\n%s", fmt.Sprintf(format, a...), kind, numbered(ft.src)),
		})
	}
	reported := map[string]bool{}
	violOnce := func(clause, format string, a ...interface{}) {
		if !reported[clause] {
			reported[clause] = true
			viol(clause, format, a...)
		}
	}

	// ---- machine A: compile, dump (twice, and stripped)
	A := newMachine()
	fA, problem := compile(A, ft.src, ft.inner)
	if problem != "" {
		A.Close()
		res.skipped = problem
		return
	}
	d1, o := dump(A, fA, false, emptyDef())
	if o.status != "ok" {
		A.Close()
		viol("dump-fails", "string.dump(f) did not return a string: %s", o)
		return
	}
	res.dumpLen = len(d1)
	if d1b, o := dump(A, fA, false, emptyDef()); o.status != "ok" || d1b != d1 {
		viol("dump-twice", "string.dump(f) called twice on one function gave different results (first difference at byte %d; second call: %s)\nfirst:  %s\nsecond: %s",
			firstDiff(d1, d1b), o, hexHead(d1, 64), hexHead(d1b, 64))
	}
	ds, o := dump(A, fA, true, emptyDef())
	stripOK := o.status == "ok"
	if !stripOK {
		viol("strip-dump-fails", "string.dump(f, true) did not return a string: %s", o)
	}

	var obsF0 host.Obs
	for k, tuple := range ft.tuples {
		args := toRTs(tuple)
		// ---- fresh instance of f in a fresh runtime
		var F *machine
		var f rt.Value
		if k == 0 {
			F, f = A, fA
		} else {
			F = newMachine()
			f, problem = compile(F, ft.src, ft.inner)
			if problem != "" {
				F.Close()
				violOnce("recompile-fails", "the source compiled in the first runtime but not in another one: %s", problem)
				continue
			}
			// clause 3: compiling the same source again gives the same dump
			d2, o := dump(F, f, false, emptyDef())
			if o.status != "ok" || d2 != d1 {
				// classify: only opcode words differ and both dumps behave alike
				// (benign nondeterminism of the compiler) / anything else
				clause := "recompile-dump-structure"
				also := "not determined (dump failed: " + o.String() + ")"
				if o.status == "ok" {
					same := false
					also, same = behaviourOfDumps(d1, d2, args)
					if !same {
						clause = "recompile-behaviour-differs"
					} else if onlyOpsDiffer(d1, d2) {
						clause = "recompile-dump-differs"
					}
				}
				violOnce(clause, "compiling the same source in two fresh runtimes gave two different dumps (lengths %d / %d, first difference at byte %d)\ndiffering fields:\n%sbehaviour of the two dumps with args %s: %s",
					len(d1), len(d2), firstDiff(d1, d2), describeDiff(d1, d2), argsStr(tuple), also)
			}
		}
		obsF := observe(F, f, args)
		F.Close()
		if k == 0 {
			obsF0 = obsF
		}
		res.obs = append(res.obs, argsStr(tuple)+" -> "+obsString(obsF))
		if len(obsF.Trace) > 0 || obsF.Status != "ok" {
			res.nonTrivial = true
		}

		// ---- g = load(dump(f)) in another fresh runtime
		G := newMachine()
		g, o := load(G, d1, "b", emptyDef())
		if g.IsNil() {
			G.Close()
			violOnce("load-fails", "load(string.dump(f), \"chunk\", \"b\") did not return a function: %s %s\ndump: %s", o.status, o.err, hexHead(d1, 64))
			break
		}
		if k == 0 {
			// clause 4: idempotence
			d3, o := dump(G, g, false, emptyDef())
			if o.status != "ok" || d3 != d1 {
				viol("redump-differs", "string.dump(load(string.dump(f))) differs from string.dump(f) (lengths %d / %d, first difference at byte %d; second dump: %s)",
					len(d1), len(d3), firstDiff(d1, d3), o)
			}
		}
		obsG := observe(G, g, args)
		G.Close()
		if c := diffClause(obsF, obsG); c != "" {
			violOnce("behaviour-"+c, "load(string.dump(f))%s differs from f%s (each in a fresh runtime)\nf: %s\ng: %s",
				argsStr(tuple), argsStr(tuple), obsString(obsF), obsString(obsG))
		}
	}

	// ---- clause 5: stripped dump
	if stripOK && ds != d1 && len(ft.tuples) > 0 {
		// (a stripped dump with the same bytes as the plain one was exercised above)
		S := newMachine()
		gs, o := load(S, ds, "b", emptyDef())
		if gs.IsNil() {
			viol("strip-load-fails", "load(string.dump(f, true)) did not return a function: %s %s", o.status, o.err)
		} else {
			obsS := observe(S, gs, toRTs(ft.tuples[0]))
			f0, s0 := obsF0, obsS
			f0.Err, s0.Err = stripLines(f0.Err), stripLines(s0.Err)
			if c := diffClause(f0, s0); c != "" {
				viol("strip-behaviour-"+c, "load(string.dump(f, true))%s differs from f%s in more than line information\nf: %s\ng: %s",
					argsStr(ft.tuples[0]), argsStr(ft.tuples[0]), obsString(obsF0), obsString(obsS))
			}
		}
		S.Close()
	}
	return
}

// behaviourOfDumps loads two dumps in fresh runtimes and says whether they
// behave alike (used to qualify a compile-nondeterminism report).
func behaviourOfDumps(d1, d2 string, args []rt.Value) (string, bool) {
	run := func(d string) string {
		M := newMachine()
		defer M.Close()
		g, o := load(M, d, "b", emptyDef())
		if g.IsNil() {
			return "load failed: " + o.status + " " + o.err
		}
		return obsString(observe(M, g, args))
	}
	a, b := run(d1), run(d2)
	if a == b {
		return "identical (" + a + ")", true
	}
	return "DIFFERENT\n first:  " + a + "\n second: " + b, false
}

// onlyOpsDiffer reports whether two dumps have the same structure and differ
// in opcode words only.
func onlyOpsDiffer(a, b string) bool {
	if len(a) != len(b) {
		return false
	}
	fa, err := parseDump(a)
	if err != nil {
		return false
	}
	fb, err := parseDump(b)
	if err != nil || len(fa) != len(fb) {
		return false
	}
	for i, f := range fa {
		if fb[i] != f {
			return false
		}
		if f.kind != "op" && a[f.off:f.off+f.n] != b[f.off:f.off+f.n] {
			return false
		}
	}
	return true
}
