package main

// A structural reader of golua's dump format, written from the layout in
// runtime/marshal.go.  It is used only to describe *where* two dumps differ
// and to classify mutations of the R family (which bytes are length fields);
// it is never an oracle.

import (
	"encoding/binary"
	"fmt"

	rt "github.com/arnodel/golua/runtime"
)

type field struct {
	off, n int
	what   string // e.g. "K2.K0.code[3]"
	kind   string // prefix | tag | len (string length) | count (number of elements) | bytes | op | line | int | float | int16
}

type dumpReader struct {
	b        []byte
	pos      int
	fields   []field
	err      error
	badCount int64 // first element count outside 0..len(b) (0 = none)
}

func (d *dumpReader) add(n int, what, kind string) []byte {
	if d.err != nil {
		return nil
	}
	if d.pos+n > len(d.b) || n < 0 {
		d.err = fmt.Errorf("truncated at %d reading %s", d.pos, what)
		return nil
	}
	d.fields = append(d.fields, field{d.pos, n, what, kind})
	s := d.b[d.pos : d.pos+n]
	d.pos += n
	return s
}

func (d *dumpReader) i64(what, kind string) int64 {
	s := d.add(8, what, kind)
	if s == nil {
		return 0
	}
	return int64(binary.LittleEndian.Uint64(s))
}

func (d *dumpReader) str(what string) {
	n := d.i64(what+".len", "len")
	if d.err == nil && (n < 0 || n > int64(len(d.b))) {
		d.err = fmt.Errorf("bad length %d of %s", n, what)
		return
	}
	if n > 0 {
		d.add(int(n), what, "bytes")
	}
}

func (d *dumpReader) count(what string) int {
	n := d.i64(what, "count")
	if d.err == nil && (n < 0 || n > int64(len(d.b))) {
		d.err = fmt.Errorf("bad count %d of %s", n, what)
		d.badCount = n
		return 0
	}
	return int(n)
}

func (d *dumpReader) konst(path string) {
	t := d.add(1, path+".tag", "tag")
	if t == nil {
		return
	}
	switch dumpTags[t[0]] {
	case "int":
		d.add(8, path+".int", "int")
	case "float":
		d.add(8, path+".float", "float")
	case "string":
		d.str(path + ".string")
	case "code":
		d.str(path + ".source")
		d.str(path + ".name")
		n := d.count(path + ".ncode")
		for i := 0; i < n && d.err == nil; i++ {
			d.add(4, fmt.Sprintf("%s.code[%d]", path, i), "op")
		}
		n = d.count(path + ".nlines")
		for i := 0; i < n && d.err == nil; i++ {
			d.add(4, fmt.Sprintf("%s.lines[%d]", path, i), "line")
		}
		n = d.count(path + ".nconsts")
		for i := 0; i < n && d.err == nil; i++ {
			d.konst(fmt.Sprintf("%s.K%d", path, i))
		}
		d.add(2, path+".UpvalueCount", "int16")
		d.add(2, path+".RegCount", "int16")
		d.add(2, path+".CellCount", "int16")
		n = d.count(path + ".nupnames")
		for i := 0; i < n && d.err == nil; i++ {
			d.str(fmt.Sprintf("%s.upname[%d]", path, i))
		}
	default:
		if d.err == nil {
			d.err = fmt.Errorf("unknown constant tag %d at %d", t[0], d.pos-1)
		}
	}
}

// dumpTags maps the tag byte to a constant kind (golua's ValueType numbers).
var dumpTags = map[byte]string{
	byte(rt.IntType):    "int",
	byte(rt.FloatType):  "float",
	byte(rt.StringType): "string",
	byte(rt.CodeType):   "code",
}

// firstBadCount reads s the way golua's loader does and returns the first
// element count it meets that cannot be right (negative or larger than the
// whole input), 0 if there is none.
func firstBadCount(s string) int64 {
	d := &dumpReader{b: []byte(s)}
	d.add(3, "prefix", "prefix")
	d.konst("F")
	return d.badCount
}

func parseDump(s string) ([]field, error) {
	d := &dumpReader{b: []byte(s)}
	d.add(3, "prefix", "prefix")
	d.konst("F")
	if d.err == nil && d.pos != len(d.b) {
		d.err = fmt.Errorf("%d trailing bytes", len(d.b)-d.pos)
	}
	return d.fields, d.err
}

// fieldAt describes the field containing byte offset off.
func fieldAt(fields []field, off int) string {
	for _, f := range fields {
		if off >= f.off && off < f.off+f.n {
			return fmt.Sprintf("%s (%s, bytes %d..%d)", f.what, f.kind, f.off, f.off+f.n-1)
		}
	}
	return "?"
}

func kindAt(fields []field, off int) (kind string, rel int) {
	for _, f := range fields {
		if off >= f.off && off < f.off+f.n {
			return f.kind, off - f.off
		}
	}
	return "?", 0
}

// describeDiff lists the fields in which two equally structured dumps differ.
func describeDiff(a, b string) string {
	fa, err := parseDump(a)
	if err != nil {
		return "(first dump does not parse: " + err.Error() + ")"
	}
	out := ""
	n := 0
	for _, f := range fa {
		if f.off+f.n > len(b) {
			break
		}
		if a[f.off:f.off+f.n] != b[f.off:f.off+f.n] {
			n++
			if n <= 12 {
				out += fmt.Sprintf("  %s: %x / %x\n", f.what, a[f.off:f.off+f.n], b[f.off:f.off+f.n])
			}
		}
	}
	if n > 12 {
		out += fmt.Sprintf("  ... %d fields differ\n", n)
	}
	return out
}
