package main

// Hand-written corpus for C13: function shapes the serialiser has to get
// right that the progfam families do not stress (constant kinds, line tables,
// upvalue layouts, to-be-closed variables, ...).  Every program is
// deterministic, prints nothing, observes only through emit(...), results and
// errors, never prints addresses or float->string conversions.
//
// inner = the chunk is `... return function ... end` (the part before the
// return must not emit and the function must not capture a local): the
// function under test is the returned function, so that string.dump starts at
// a prototype nested in a larger shared constant vector.

type handProg struct {
	name  string
	src   string
	inner bool
	args  []interface{} // own argument tuple (in addition to the standard ones)
}

var handCorpus = []handProg{
	// ------------------------------------------------ constants of every type
	{name: "const-int-boundaries", src: `
emit(0, 1, -1, 255, 256, 32767, 32768, -32768, -32769, 65535, 65536)
emit(2147483647, 2147483648, -2147483648, -2147483649)
emit(9223372036854775807, 0x7fffffffffffffff, 0x8000000000000000, 0xffffffffffffffff)
emit(math.type(0x8000000000000000), 0x8000000000000000 == math.mininteger)
emit(-9223372036854775807 - 1, math.type(-9223372036854775808))
return 32768, -32769, 0x8000000000000000
`},
	{name: "const-floats", src: `
emit(0.0, -0.0, 0.5, -0.5, 1e308, -1e308, 5e-324, 2.2250738585072014e-308)
emit(1e999, -1e999, 0x1p-1074, 0x1.fffffffffffffp1023, 0x.8, 1e15, 1e16, 123456789012345680000.0)
emit(1/0, -1/0, 1/-0.0, 1/0.0)
local nan = 0/0
emit(nan ~= nan, nan == nan, -(0/0) ~= -(0/0))
emit(math.type(3.0), math.type(3), 3 == 3.0, 1e2, 2^53, 2^63, -(2^63))
emit(9223372036854775808, math.type(9223372036854775808), 18446744073709551615)
local t = {[0.0] = "z"}
emit(t[-0.0], 1/(-0.0) < 0, 1/(0.0) > 0)
return -0.0, 1e999, 0/0, 5e-324
`},
	{name: "const-strings", src: `
emit("", "a", "ab", "abc", "a\0b", "\0", "\0\0", "\255", "\xff\xfe", "\200\201\202")
emit("tab\tnl\ncr\rbs\\q\"z", 'single\'', "\u{48}\u{7FF}\u{FFFF}\u{10FFFF}", "\z
      continued", "\065\066\067")
emit([[long
string]], [==[with ]] inside]==], #"\0\0\0", #"\xff")
emit(("x"):rep(3), #[[
skipped newline]])
local s = "a\0b\0c"
emit(#s, s:byte(1, -1))
emit("\0" == "\0", "\0" < "\0\0", "a\0" .. "\0b")
return "a\0b", "\xff\x00\x80", ""
`},
	{name: "const-bool-nil", src: `
local t, f, n = true, false, nil
emit(t, f, n, true, false, nil)
emit(t == true, f == false, n == nil, not nil, not false, not true)
local tab = {true, false, nil, true; x = false, y = nil, z = true}
emit(#tab >= 2, tab[1], tab[2], tab[3], tab.x, tab.y, tab.z)
return true, false, nil, nil
`},
	{name: "const-many", src: manyConsts(300)},
	{name: "const-many-inner", src: "local pre = {1000001, 'abc', 2.5, 1000003}\n" + "return function(...)\n" + manyConsts(70) + "\nend", inner: true},
	{name: "const-shared-outer-inner", src: `
local function f1() return 100001, "k1", 2.5, 100002 end
local function f2() return 100002, "k2", 2.5, 100001, "k1" end
local function f3()
  local function g() return "k2", 100003, f2 end
  return 100003, g
end
emit(100002, "k2", f1())
emit(f2())
local a, g = f3()
emit(a, g())
emit(select(3, g())())
return "k1", 100001
`},
	{name: "const-shared-inner-first", src: `
local pre = {"zz", 700001, "yy", 700002, 7.25}
return function(a, ...)
  local function h() return 700002, "yy", 7.25 end
  emit("yy", 700002, a, ...)
  emit(h())
  return 700001, "zz", h
end
`, inner: true},

	// ------------------------------------------------ varargs
	{name: "vararg-forms", src: `
emit(select('#', ...), ...)
local a, b = ...
emit(a, b)
local t = {...}
emit(#t, t[1], t[2], t[3])
local u = {..., "end"}
emit(#u, u[1], u[2])
emit((...))
local function v(...) return select('#', ...), ... end
emit(v(...))
emit(v(..., "x"))
emit(v("x", ...))
local function w(x, ...) local y, z = ... return x, y, z, select('#', ...) end
emit(w(...))
return ...
`, args: []interface{}{"p", nil, 3.5, false}},
	{name: "vararg-inner", src: `
return function(x, y, ...)
  local n = select('#', ...)
  local function pack2(...) return {n = select('#', ...), ...} end
  local p = pack2(y, ...)
  emit(x, y, n, p.n, p[1], p[2], p[3])
  return ..., n
end
`, inner: true},
	{name: "vararg-tailcall", src: `
local function id(...) return ... end
local function count(...) return select('#', ...) end
local function f(...) return id(count(...), ...) end
emit(f(...))
return f(nil, nil, ...)
`, args: []interface{}{nil, nil}},

	// ------------------------------------------------ nesting
	{name: "nested-3-deep", src: `
local function l1(a)
  emit("l1", a)
  local function l2(b)
    emit("l2", a, b)
    local function l3(c)
      emit("l3", a, b, c)
      return a + b + c, "deep"
    end
    return l3
  end
  return l2
end
emit(l1(1)(2)(3))
emit(l1(10)(20)(30))
return l1(100)(200)(300)
`},
	{name: "nested-3-deep-inner", src: `
return function(a)
  a = a or 7
  return (function(b)
    return (function(c)
      emit(a, b, c)
      return function() return a * 100 + b * 10 + c end
    end)(b + 1)
  end)(a + 1)()
end
`, inner: true},
	{name: "nested-siblings-many", src: `
local fs = {}
for i = 1, 3 do
  fs[#fs + 1] = function() return i, "a" end
  fs[#fs + 1] = function() return i * 2, "b" end
end
fs[#fs + 1] = function() return function() return function() return "bottom" end end end
for k = 1, 6 do emit(k, fs[k]()) end
emit(fs[7]()()())
`},

	// ------------------------------------------------ upvalue layouts
	{name: "upvalues-shared-siblings", src: `
local function counter()
  local n = 0
  local function inc() n = n + 1 return n end
  local function get() return n end
  local function reset() n = 0 end
  return inc, get, reset
end
local i1, g1, r1 = counter()
local i2, g2 = counter()
emit(i1(), i1(), g1(), i2(), g2())
r1()
emit(g1(), g2(), i1())
`},
	{name: "upvalues-env-positions", src: `
x, y = "gx", "gy"
local a, b, c = 1, 2, 3
local function envFirst() return x, a, b end
local function envMiddle() return a, x, b end
local function envLast() return a, b, c, x end
local function envOnly() return x, y end
local function noEnv() return a + b + c end
local function setEnv() a = a + 1 x = "gx" .. a return a end
emit(envFirst()) emit(envMiddle()) emit(envLast()) emit(envOnly()) emit(noEnv()) emit(setEnv()) emit(envFirst())
local function outer()
  local function mid()
    local function inn() return c, y, a end
    return inn
  end
  return mid
end
emit(outer()()())
`},
	{name: "upvalues-env-positions-inner", src: `
return function(p, q)
  local a, b = p or 1, q or 2
  local function envFirst() return gx, a, b end
  local function envMiddle() return a, gx, b end
  local function envLast() return a, b, gx end
  local function noEnv() return a + b end
  gx = "set"
  emit(envFirst()) emit(envMiddle()) emit(envLast()) emit(noEnv())
  a = a + 10
  emit(envFirst())
  return envLast
end
`, inner: true},
	{name: "upvalues-local-env", src: `
local emit = emit
local function sandbox(...)
  local _ENV = {v = "inner", n = select('#', ...)}
  emit(v, n)
  local function peek() return v, n end
  v = "changed"
  return peek
end
emit(sandbox(...)())
local function withEnvParam(_ENV) return z end
emit(withEnvParam({z = "from-param"}))
do
  local _ENV <const> = {z = 9}
  emit(z)
end
`},
	{name: "upvalues-loop-fresh", src: `
local fs = {}
for i = 1, 3 do
  local j = i * 10
  fs[#fs + 1] = function() j = j + 1 return i, j end
end
local k = 0
while k < 2 do
  k = k + 1
  local m = k
  fs[#fs + 1] = function() m = m + 100 return m end
end
for n = 1, #fs do emit(n, fs[n]()) end
for n = 1, #fs do emit(n, fs[n]()) end
`},
	{name: "upvalues-through-levels", src: `
local v = "top"
local function a()
  local function b()
    local function c()
      local function d() v = v .. "!" return v end
      return d
    end
    return c
  end
  return b
end
emit(a()()()())
emit(a()()()(), v)
`},

	// ------------------------------------------------ goto / labels
	{name: "goto-continue-and-out", src: `
for i = 1, 4 do
  for j = 1, 4 do
    if j == 2 then goto continue end
    if i == 3 then goto out end
    emit(i, j)
    ::continue::
  end
end
::out::
emit("out")
do
  local n = 0
  ::top::
  n = n + 1
  if n < 3 then goto top end
  emit("n", n)
end
`},
	{name: "goto-fresh-locals", src: `
local fs = {}
do
  local i = 1
  ::again::
  local x = i * 2
  fs[#fs + 1] = function() x = x + 1 return x end
  i = i + 1
  if i <= 3 then goto again end
end
for k = 1, #fs do emit(fs[k](), fs[k]()) end
`},
	{name: "goto-inner", src: `
return function(n)
  n = n or 3
  local acc = {}
  local i = 0
  ::loop::
  i = i + 1
  if i > n then goto done end
  if i % 2 == 0 then goto loop end
  acc[#acc + 1] = i
  goto loop
  ::done::
  emit(#acc, acc[1], acc[2])
  return i
end
`, inner: true},

	// ------------------------------------------------ <close> / <const>
	{name: "close-order-and-error", src: `
local function closer(name)
  return setmetatable({}, {__close = function(_, e) emit("close", name, e) end})
end
do
  local a <close> = closer("a")
  local b <close> = closer("b")
  local c <const> = 42
  emit("body", c)
end
local function f()
  local x <close> = closer("x")
  local y <close> = nil
  local z <close> = false
  return "ret"
end
emit(f())
emit(pcall(function()
  local e <close> = closer("e")
  error("boom")
end))
emit(pcall(function()
  local e <close> = closer("e2")
  error({code = 1})
end))
for i = 1, 2 do
  local l <close> = closer("loop" .. i)
  if i == 1 then goto cont end
  emit("i", i)
  ::cont::
end
`},
	{name: "close-inner", src: `
return function(fail, ...)
  local function closer(name)
    return setmetatable({}, {__close = function(_, e) emit("close", name, e ~= nil) end})
  end
  local a <close> = closer("a")
  do
    local b <close> = closer("b")
    if fail then error("failed", 1) end
  end
  local k <const> = 1000000007
  return k, ...
end
`, inner: true},
	{name: "close-generic-for", src: `
local function iter()
  local n = 0
  local closing = setmetatable({}, {__close = function() emit("iter closed") end})
  return function() n = n + 1 if n <= 3 then return n end end, nil, nil, closing
end
for i in iter() do emit(i) end
for i in iter() do if i == 2 then break end emit(i) end
`},
	{name: "const-folding", src: `
local k <const> = 10
local s <const> = "str"
local f <const> = 1.5
local function use() return k + 1, s .. "x", f * 2, k end
emit(use())
emit(k, s, f)
`},

	// ------------------------------------------------ numeric for loops
	{name: "for-int-vs-float", src: `
for i = 1, 3 do emit(i, math.type(i)) end
for i = 1.0, 3 do emit(i, math.type(i)) end
for i = 1, 3.5 do emit(i, math.type(i)) end
for i = 1, 2, 0.5 do emit(i, math.type(i)) end
for i = 3, 1, -1 do emit(i) end
for i = 1, 0 do emit("never") end
for i = math.maxinteger - 1, math.maxinteger do emit(i) end
for i = math.mininteger, math.mininteger + 2, 2 do emit(i) end
for i = 1, math.huge do if i > 2 then break end emit(i) end
for i = 0.1, 0.35, 0.125 do emit(i) end
for i = -1, -3, -1 do emit(i) end
for i = 9223372036854775806, 9223372036854775807, 2 do emit(i) end
emit(pcall(function() for i = 1, 10, 0 do end end))
`},
	{name: "for-inner", src: `
return function(a, b, c)
  local n = 0
  for i = a or 1, b or 4, c or 1 do
    n = n + 1
    if n > 6 then break end
    emit(i, math.type(i))
  end
  for i = (a or 1) + 0.0, b or 2 do emit(i) end
  return n
end
`, inner: true},

	// ------------------------------------------------ error positions
	{name: "error-lines", src: `
local function thrower(level)

  error("msg", level)
end
emit(pcall(thrower))
emit(pcall(thrower, 1))
emit(pcall(thrower, 2))
emit(pcall(thrower, 0))
emit(pcall(function()
  local t = nil
  return t.x
end))
emit(pcall(function()
  return 1 +
    {}
end))
emit(pcall(function() return #5 end))
emit(pcall(function() return 1 // 0 end))
emit(pcall(function() return 1 % 0 end))
emit(pcall(function() return "a" < 1 end))
emit(pcall(function() return {} .. "x" end))
emit(pcall(function() undefinedfunction() end))
emit(pcall(function() local s = "x" return s:nomethod() end))
emit(pcall(error))
emit(pcall(error, nil))
emit(pcall(error, {1}))
emit(select(2, xpcall(function() error("in xpcall") end, function(m) return "handled: " .. m end)))



error("final error on line 32")
`},
	{name: "error-line-runtime-main", src: `
local t = {}
emit("before")


local v = t.a.b
emit("not reached")
`},
	{name: "error-line-inner", src: `
return function(x, y)
  local t = {10, 20}
  if x == nil then
    return t[1] + y
  end

  if y then error("explicit " .. tostring(x)) end
  local u
  return u.field
end
`, inner: true},
	{name: "error-line-inner-oneline", src: `return function(x, y) if x then error("one-line", y) end return x.f end`, inner: true},
	{name: "error-in-nested-call-chain", src: `
local function c() local z = nil; return z() end
local function b() return (c()) end
local function a()
  local r = b()
  return r
end
emit(pcall(a))
a()
`},
	{name: "error-nonstring-values", src: `
emit(pcall(error, 42))
emit(pcall(error, 4.5, 2))
emit(pcall(error, true))
local ok, e = pcall(error, setmetatable({}, {__tostring = function() return "custom" end}))
emit(ok, type(e), tostring(e))
error(12345)
`},

	// ------------------------------------------------ control flow / jumps
	{name: "long-elseif-chain", src: `
local function classify(n)
  if n == 1 then return "one"
  elseif n == 2 then return "two"
  elseif n == 3 then return "three"
  elseif n == 4 then return "four"
  elseif n == 5 then return "five"
  elseif n == 6 then return "six"
  elseif n == 7 then return "seven"
  elseif n == 8 then return "eight"
  elseif n == 9 then return "nine"
  else return "many" end
end
for i = 0, 11 do emit(i, classify(i)) end
`},
	{name: "loops-and-breaks", src: `
local i = 0
while true do
  i = i + 1
  if i > 5 then break end
  if i % 2 == 0 then goto cont end
  emit("w", i)
  ::cont::
end
repeat
  local j = i
  i = i - 1
  emit("r", j)
until j <= 4
local n = 0
for _, v in ipairs({5, 6, 7}) do n = n + v end
emit(n)
local keys = 0
for k in pairs({a = 1}) do keys = keys + 1 emit(k) end
emit(keys)
`},
	{name: "and-or-not-chains", src: `
local function t(...) emit("t", ...) return true end
local function f(...) emit("f", ...) return false end
emit(t(1) and f(2) or t(3))
emit(f(1) or f(2) or nil)
emit(nil and t(9), false or nil, nil or false, 0 and "zero-true", "" and "empty-true")
emit(not (t(4) and f(5)), 1 == 1.0, "1" == 1, 1 < 2, 2 <= 2, "a" < "b", not nil)
local x = nil
local y = x and x.field or "default"
emit(y)
`},
	{name: "arith-bitwise-concat", src: `
emit(7 // 2, -7 // 2, 7 % -3, -7 % 3, 7 / 2, 2 ^ 10, 7 // 2.0, 7 % 2.5)
emit(3 & 5, 3 | 5, 3 ~ 5, ~0, 1 << 62, 1 << 63, 1 << 64, -1 >> 1, 2.0 | 1)
emit(1 .. 2, "a" .. "b" .. "c" .. 1, 10 .. "")
emit(math.maxinteger + 1 == math.mininteger, math.mininteger // -1, math.maxinteger * 2)
emit(#"abc", #{1, 2, 3}, -(-3), - -3, not not nil)
emit("10" + 5, "3" * "4", 10 .. 20)
emit(1 < 2, 1 <= 1.0, "a" <= "a", 2 > 1, 2 >= 3, 1 ~= 1.0)
`},
	{name: "tables-and-methods", src: `
local obj = {n = 0}
function obj:inc(d) self.n = self.n + (d or 1) return self end
function obj.static(a, b) return a .. b end
emit(obj:inc():inc(5).n, obj.static("x", "y"))
local t = {10, 20, 30, [5] = 50, x = {y = {z = "deep"}}, ["key with space"] = 1, [1.5] = "f", [true] = "b"}
emit(t[1], t[3], t[5], t.x.y.z, t["key with space"], t[1.5], t[true], #t >= 3)
local nested = {{1, 2}, {3, {4, 5}}}
emit(nested[2][2][1], #nested)
local function mk(...) return {n = select('#', ...), ...} end
local p = mk(1, nil, 3)
emit(p.n, p[1], p[2], p[3])
t.x.y.z = nil
emit(t.x.y.z)
`},
	{name: "metamethods", src: `
local mt = {}
mt.__add = function(a, b) emit("add") return 1 end
mt.__concat = function(a, b) emit("concat") return "c" end
mt.__index = function(t, k) emit("index", k) return k .. "!" end
mt.__newindex = function(t, k, v) emit("newindex", k, v) rawset(t, k, v) end
mt.__call = function(self, ...) emit("call", ...) return select('#', ...) end
mt.__eq = function() emit("eq") return true end
mt.__lt = function() emit("lt") return false end
mt.__le = function() emit("le") return true end
mt.__len = function() emit("len") return 99 end
mt.__unm = function() emit("unm") return "neg" end
local a, b = setmetatable({}, mt), setmetatable({}, mt)
emit(a + b, a .. b, a.foo, a(1, 2, 3), a == b, a < b, a <= b, #a, -a)
a.bar = 5
emit(rawget(a, "bar"))
`},
	{name: "coroutines", src: `
local function gen(n)
  return coroutine.wrap(function(...)
    emit("start", ...)
    for i = 1, n do
      local back = coroutine.yield(i, i * i)
      emit("back", back)
    end
    return "done"
  end)
end
local g = gen(2)
emit(g("a", "b"))
emit(g("x"))
emit(g("y"))
local co = coroutine.create(function() local z <close> = setmetatable({}, {__close = function() emit("co closed") end}) coroutine.yield(1) error("in co") end)
emit(coroutine.resume(co))
emit(coroutine.resume(co))
emit(coroutine.status(co))
`},
	{name: "string-library", src: `
emit(("hello"):upper(), ("%d-%s"):format(5, "x"), ("abc"):sub(2), ("a,b,c"):find(",", 1, true))
emit(("key=val"):match("(%w+)=(%w+)"))
emit((("abc"):gsub("b", "X")))
emit(("x"):rep(3, "-"), ("abc"):byte(1, 3))
emit(string.char(72, 105), ("abc"):reverse(), ("  t "):len())
for w in ("one two"):gmatch("%a+") do emit(w) end
emit(tostring(12), tostring(nil), tostring(true), tonumber("0x10"), tonumber("  12  "), tonumber("z", 36), tonumber("1e1"))
emit(select(-1, 1, 2, 3), select(2, "a", "b", "c"))
`},
	{name: "recursion", src: `
local function fact(n) if n <= 1 then return 1 end return n * fact(n - 1) end
local function fib(n) if n < 2 then return n end return fib(n - 1) + fib(n - 2) end
local function loop(n, acc) if n == 0 then return acc end return loop(n - 1, acc + n) end
local isodd
local function iseven(n) if n == 0 then return true end return isodd(n - 1) end
function isodd(n) if n == 0 then return false end return iseven(n - 1) end
emit(fact(10), fib(12), loop(500, 0), iseven(10), isodd(7))
`},
	{name: "recursion-inner", src: `
return function(n)
  n = n or 6
  local function fact(k) if k <= 1 then return 1 end return k * fact(k - 1) end
  local t = {}
  for i = 1, n do t[i] = fact(i) end
  emit(#t, t[#t])
  return t[1], t[2], t[3]
end
`, inner: true},
	{name: "multiple-assignment-and-swap", src: `
local a, b, c = 1, 2
emit(a, b, c)
a, b = b, a
emit(a, b)
local t = {1, 2}
local i = 1
i, t[i] = i + 1, 20
emit(i, t[1], t[2])
local function two() return "x", "y" end
local p, q, r = two()
emit(p, q, r)
local s, u = (two())
emit(s, u)
local tt = {two(), two()}
emit(#tt, tt[1], tt[2], tt[3])
`},
	{name: "many-locals-and-registers", src: manyLocals(120)},
	{name: "wide-call-and-constructor", src: wideCall(60)},
	{name: "line-table-sparse", src: "emit('first')\n" + nl(40) + "local function f()\n" + nl(25) + "  error('far away')\nend\n" + nl(30) + "emit(pcall(f))\n" + nl(10) + "local t = nil\n" + nl(3) + "return t.x"},
	{name: "line-table-sparse-inner", src: nl(17) + "return function(a)\n" + nl(9) + "  if a then\n" + nl(4) + "    error('deep ' .. a)\n  end\n" + nl(6) + "  return a.b\nend", inner: true},
	{name: "comments-and-layout", src: "-- leading comment\n--[[ block\ncomment ]] emit(1) --[==[ another\n\n]==] emit(2)\n;;; emit(3);\nlocal f = function(...) -- trailing\n  return\n    ...\nend\nemit(f(\n  4,\n  5\n))\nerror(\n  'multi-line call'\n)"},
	{name: "global-functions-and-fields", src: `
function gf(a) return a * 2 end
gt = {sub = {}}
function gt.sub.f(a) return a + 1 end
function gt.sub:m(a) return self == gt.sub, a end
emit(gf(4), gt.sub.f(4), gt.sub:m(5))
gf, gt = nil, nil
emit(gf, gt)
`},
	{name: "integer-float-keys-and-conversions", src: `
local t = {}
t[1] = "int"; t[1.0] = "float-normalised"; t[2^53] = "big"
emit(t[1], #t, t[2^53], math.type(2^53))
emit(3 // 1, 3.0 // 1, 3 / 1, math.tointeger(3.0), math.tointeger(3.5), 7 // 0.0, -7 // 0.0, 0/0 ~= 0/0)
emit(1e15 == 10^15, 2^63 == math.mininteger, math.ult(1, -1), 5 // -2, 5 % -2, -5 % 2, 5.5 % -2)
emit(string.format("%d", 3.0), pcall(string.format, "%d", 3.5))
`},
	{name: "empty-chunk", src: ``},
	{name: "only-return-varargs", src: `return ...`},
	{name: "only-comment", src: `-- nothing here`},
	{name: "empty-inner", src: `return function() end`, inner: true},
	{name: "identity-inner", src: `return function(...) return ... end`, inner: true},
	{name: "noenv-inner", src: `return function(a, b) local c = (a or 1) + (b or 2) return c, c * 2, "k" end`, inner: true},
	{name: "noenv-nested-inner", src: `return function(a) local function g(x) return x + 1000000 end return g(a or 0), g end`, inner: true},
}

func nl(n int) string {
	b := make([]byte, n)
	for i := range b {
		b[i] = '\n'
	}
	return string(b)
}

func itoa(n int) string {
	if n == 0 {
		return "0"
	}
	neg := n < 0
	if neg {
		n = -n
	}
	var b []byte
	for n > 0 {
		b = append([]byte{byte('0' + n%10)}, b...)
		n /= 10
	}
	if neg {
		b = append([]byte{'-'}, b...)
	}
	return string(b)
}

// manyConsts: n distinct constants of each kind that needs a constant-table
// slot (integers beyond int16, floats, strings), used in an order different
// from their first appearance.
func manyConsts(n int) string {
	s := "local acc, cnt = 0, 0\nlocal last\n"
	for i := 0; i < n; i++ {
		s += "acc = acc + " + itoa(100000+i*7) + "; last = \"s" + itoa(i) + "\"; cnt = cnt + " + itoa(i) + ".5\n"
	}
	for i := n - 1; i >= 0; i -= 17 {
		s += "emit(" + itoa(100000+i*7) + ", \"s" + itoa(i) + "\", " + itoa(i) + ".5)\n"
	}
	s += "emit(acc, last, cnt)\nreturn acc"
	return s
}

func manyLocals(n int) string {
	s := ""
	for i := 0; i < n; i++ {
		s += "local v" + itoa(i) + " = " + itoa(i) + "\n"
	}
	s += "local function sum() return v0 + v" + itoa(n/2) + " + v" + itoa(n-1) + " end\n"
	s += "v" + itoa(n-1) + " = 1000\n"
	s += "emit(sum(), v1, v" + itoa(n-2) + ")\n"
	return s
}

func wideCall(n int) string {
	args := ""
	for i := 1; i <= n; i++ {
		if i > 1 {
			args += ", "
		}
		args += itoa(i * 1000)
	}
	return "local function cnt(...) return select('#', ...), (select(" + itoa(n) + ", ...)) end\n" +
		"emit(cnt(" + args + "))\nlocal t = {" + args + "}\nemit(#t, t[1], t[" + itoa(n) + "])\n" +
		"emit(" + args + ")\n"
}
