// C13 — string.dump followed by load reproduces the function.
//
// Differential check with golua on both sides.  For every program of every
// progfam family (the C01 corpus) and of a hand-written corpus, and for every
// function in it that has no free local variable (the main chunk; every inner
// function literal whose only upvalue can be _ENV, rendered as the standalone
// chunk `return function ... end`), and for every argument tuple:
//
//	(1) g = load(string.dump(f), "chunk", "b") succeeds;
//	(2) the observation (emit trace, results, error value including the
//	    chunk:line: position, status) of g(args) in a fresh runtime equals that
//	    of a fresh instance of f(args) in another fresh runtime;
//	(3) string.dump(f) twice gives identical bytes, and compiling the source
//	    again in another runtime gives the same dump;
//	(4) string.dump(load(string.dump(f))) == string.dump(f);
//	(5) string.dump(f, true) loads and behaves alike up to line information.
//
// Further families: the manual's rules for functions WITH upvalues (U), load
// modes and reader functions (M), resource charging of dump/load inside a
// limited runtime context (L), and single-byte truncations / single-bit flips
// of dumps (R).
package main

import (
	"flag"
	"runtime"
	"runtime/debug"

	"verif/engine/core"
	"verif/engine/progfam"
)

// stride would thin a progfam family in the quick tier (every stride-th
// index).  The measured cost (about 3.5 CPU-ms per program, 350 000 programs:
// 80 s on 16 idle cores) makes thinning unnecessary: every family runs
// entirely in both tiers, under a wall-clock budget that only matters on a
// loaded machine.
func stride(tier, fam string) uint64 { return 1 }

func budget(tier, fam string) int {
	if tier != "thorough" {
		switch fam {
		case "F1-scope-closure":
			return 120
		case "F2-call-protocol":
			return 90
		case "F3-jumps-free", "F3-jumps-nested":
			return 70
		case "F4-binary", "F6-multiple-assignment":
			return 50
		}
		return 30
	}
	switch fam {
	case "F1-scope-closure-len5":
		return 300
	case "F3-jumps-free", "F3-jumps-nested", "F8-trees":
		return 170
	case "F1-scope-closure", "F2-call-protocol":
		return 120
	case "F4-binary", "F6-multiple-assignment":
		return 60
	}
	return 30
}

func main() {
	core.Main(&core.Check{
		Init: func(tier string) {
			if f := flag.Lookup("worker"); f != nil && f.Value.String() == "true" {
				runtime.GOMAXPROCS(2)
				debug.SetGCPercent(400) // runtimes are short lived garbage; collect less often
			}
		},
		ID:    "C13",
		Level: "model_checking",
		Rule: "every program of the progfam families and of a hand-written corpus x every function without free locals in it (main chunk + closed function literals rendered standalone) x argument tuples {(),(1),(nil,2),(1,2,3), own}: " +
			"load(string.dump(f)) in a fresh runtime observationally equal to a fresh f; dump deterministic (same function twice, same source recompiled), idempotent, strip mode; " +
			"plus families U (fresh upvalues), M (load modes / reader functions), L (dump/load charged under memory and CPU limits), R (every 1-byte truncation and 1-bit flip of 5 dumps). " +
			"states = functions dumped and reloaded; non-trivial = the function emits or raises",
		Assumptions: []string{
			"differential: golua's compiler+VM is the reference for golua's dump/load (the agreement of compiled programs with the manual is C01's subject)",
			"both sides run under the same CPU limit (400000 units) inside a runtime context; a non-terminating program must be killed on both sides with the same trace",
			"the chunk name given to load equals the name the source was compiled with, so the manual's silence on which name a binary chunk reports does not matter",
			"quick tier: a function that cannot observe its arguments syntactically (no parameter, no `...`) is run with its own tuple and (1,2,3) only",
			"R family: the manual says maliciously crafted binary chunks can crash the interpreter; golua documents load as safe inside limited contexts, so a Go panic / host crash is reported, under its own key class",
		},
		Families: func(tier string) []*core.Family {
			var fams []*core.Family
			fams = append(fams, &core.Family{
				Name: "H-corpus",
				Size: uint64(len(handCorpus)),
				Run:  func(i uint64) core.Outcome { return handCase(tier, i) },
				Show: func(i uint64) string {
					return handCorpus[i].name + " args=" + argsStr(handCorpus[i].args) + "\n" + handCorpus[i].src
				},
				HangSeconds: 60,
			})
			fams = append(fams, extraFamilies(tier)...)
			for _, f := range progfam.All(tier) {
				f := f
				st := stride(tier, f.Name)
				fams = append(fams, &core.Family{
					Name:          f.Name,
					Size:          (f.Size + st - 1) / st,
					Run:           func(i uint64) core.Outcome { return progCase(tier, f, i*st) },
					Show:          func(i uint64) string { return showProg(tier, f, i*st) },
					HangSeconds:   60,
					BudgetSeconds: budget(tier, f.Name),
				})
			}
			return fams
		},
	})
}
