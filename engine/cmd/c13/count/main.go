// Development helper: number of programs / functions under test / runtimes
// needed per progfam family (to choose the quick-tier strides).
package main

import (
	"fmt"
	"os"

	"verif/engine/prog"
	"verif/engine/progfam"
)

func main() {
	tier := os.Args[1]
	for _, f := range progfam.All(tier) {
		var progs, inner, lits uint64
		step := uint64(1)
		if f.Size > 40000 {
			step = 17
		}
		for i := uint64(0); i < f.Size; i += step {
			p := f.At(i)
			if p == nil {
				continue
			}
			progs++
			lits += uint64(countFuncs(p))
		}
		_ = inner
		fmt.Printf("%-28s size=%-9d step=%-3d progs=%-8d funclits/prog=%.2f\n", f.Name, f.Size, step, progs*step, float64(lits)/float64(progs+1))
	}
}

func countFuncs(p *prog.Prog) int {
	src, _ := prog.Render(p, prog.Plain)
	n := 0
	for i := 0; i+8 <= len(src); i++ {
		if src[i:i+8] == "function" {
			n++
		}
	}
	return n
}
