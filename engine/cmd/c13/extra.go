package main

import "verif/engine/core"

func extraFamilies(tier string) []*core.Family { return nil }
