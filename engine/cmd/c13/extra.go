package main

import (
	"fmt"
	"os"
	"regexp"
	"runtime"
	"strings"

	rt "github.com/arnodel/golua/runtime"

	"verif/engine/core"
)

func extraFamilies(tier string) []*core.Family {
	return []*core.Family{uFamily(), mFamily(), lFamily(tier), rFamily(tier), aFamily(tier)}
}

// ------------------------------------------------------------------ U
//
// What the manual itself says about dump/load of functions WITH upvalues and
// about the arguments of load (§6.4 string.dump: "Functions with upvalues will
// have only their number of upvalues saved. When (re)loaded, those upvalues
// receive fresh instances."; §6.1 load: "if the resulting function has
// upvalues, its first upvalue is set to the value of env, if that parameter is
// given, or to the value of the global environment. Other upvalues are
// initialized with nil."; "mode ... may be the string "b" (only binary
// chunks), "t" (only text chunks), or "bt"").  Each script emits booleans;
// every emitted value must be true.

type uScript struct{ name, src string }

var uScripts = []uScript{
	{"one-upvalue-gets-global-env", `
local a = 5
local f = function() return a end
local g = load(string.dump(f))
emit(type(g) == "function")
emit(g() == _G)`},
	{"one-upvalue-gets-env-arg", `
local a = 5
local f = function() return a end
local E = {}
local g = load(string.dump(f), "n", "b", E)
emit(g() == E)
emit(f() == 5)`},
	{"two-upvalues-first-env-others-nil", `
local a, b = 5, 6
local f = function() return a, b end
local g = load(string.dump(f))
local x, y = g()
emit((x == _G and y == nil) or (x == nil and y == _G))
emit(select('#', g()) == 2)`},
	{"three-upvalues-one-env-two-nil", `
local a, b, c = 5, 6, 7
local f = function() return a, b, c end
local E = {}
local g = load(string.dump(f), "n", "b", E)
local n, e = 0, 0
local x, y, z = g()
for _, v in ipairs({x or false, y or false, z or false}) do if v == E then e = e + 1 elseif v == false then n = n + 1 end end
emit(e == 1, n == 2)`},
	{"fresh-upvalues-not-shared-with-original", `
local t = {}
local f = function(v) if v then t = v end return t end
local g = load(string.dump(f))
g("changed")
emit(f() ~= "changed", g() == "changed")
local h = load(string.dump(f))
emit(h() == _G)`},
	{"no-upvalue-function", `
local f = function(a, b) return a, b, "k" end
local g = load(string.dump(f), "n", "b", {})
local x, y, z = g(1, 2)
emit(x == 1, y == 2, z == "k")`},
	{"main-chunk-env-arg", `
local f = load("x = 1; return x")
local E = {}
local g = load(string.dump(f), "n", "b", E)
emit(g() == 1, E.x == 1, x == nil)
emit(f() == 1, x == 1)`},
	{"env-arg-nil-is-given", `
local f = load("return x")
local g = load(string.dump(f), "n", "b", nil)
emit(type(g) == "function")
emit(pcall(g) == false)`},
	{"mode-t-rejects-binary", `
local d = string.dump(load("return 1"))
local g, msg = load(d, "n", "t")
emit(g == nil, type(msg) == "string")`},
	{"mode-b-rejects-text", `
local g, msg = load("return 1", "n", "b")
emit(g == nil, type(msg) == "string")`},
	{"mode-bt-and-default-accept-both", `
local d = string.dump(load("return 7"))
emit(load(d, "n", "bt")() == 7, load(d)() == 7, load(d, "n")() == 7, load(d, nil, nil)() == 7, load("return 7", "n", "bt")() == 7)`},
	{"dump-returns-string-and-rejects-non-functions", `
local d = string.dump(function() end)
emit(type(d) == "string", #d > 0)
emit(pcall(string.dump) == false, pcall(string.dump, 1) == false, pcall(string.dump, "x") == false, pcall(string.dump, {}) == false, pcall(string.dump, nil) == false)`},
	{"dump-with-embedded-zeros-survives-string-ops", `
local f = load("return 'a\\0b', 0")
local d = string.dump(f)
local copy = d:sub(1, 10) .. d:sub(11)
emit(copy == d, #copy == #d)
local s, z = load(copy)()
emit(s == "a\0b", z == 0)`},
	{"strip-is-accepted", `
local f = load("local a = ... ; return a, 2")
local d = string.dump(f, true)
emit(type(d) == "string")
local g = load(d)
local x, y = g(9)
emit(x == 9, y == 2)
emit(type(string.dump(f, false)) == "string", type(string.dump(f, nil)) == "string")`},
	{"loaded-function-can-be-dumped-and-called-many-times", `
local f = load("local n = ... or 0; return n + 1")
local g = f
for i = 1, 5 do g = load(string.dump(g)) end
emit(g(1) == 2, g() == 1, string.dump(g) == string.dump(f))`},
	{"dump-inside-coroutine-and-pcall", `
local f = load("return ...")
local co = coroutine.wrap(function() local d = string.dump(f); coroutine.yield(d); return load(d) end)
local d = co()
local g = co()
emit(type(d) == "string", g(4) == 4)
local ok, d2 = pcall(string.dump, f)
emit(ok, d2 == d)`},
}

func uFamily() *core.Family {
	return &core.Family{
		Name: "U-manual",
		Size: uint64(len(uScripts)),
		Show: func(i uint64) string { return uScripts[i].name + "\n" + uScripts[i].src },
		Run: func(i uint64) core.Outcome {
			u := uScripts[i]
			m := newMachine()
			defer m.Close()
			o := m.Exec(chunkName, u.src, nil, runDef())
			bad := ""
			if o.Status != "ok" {
				bad = "the script did not finish: " + obsString(o)
			} else {
				for k, ev := range o.Trace {
					for _, v := range strings.Split(ev, ",") {
						if v != "true" {
							bad = fmt.Sprintf("emit #%d gave %s (every value must be true)", k+1, ev)
						}
					}
				}
				if len(o.Trace) == 0 {
					bad = "the script emitted nothing"
				}
			}
			out := core.Outcome{NonTrivial: true, Sig: core.Hash64(u.name + obsString(o)), States: 1}
			if bad != "" {
				out.Viol = &core.Violation{Key: "U-manual " + u.name + " clause=manual", Detail: bad + "\n" + numbered(u.src)}
			}
			return out
		},
	}
}

// ------------------------------------------------------------------ M
//
// load modes x ways of feeding the dump (string, reader functions returning
// pieces of k bytes and ending with nil / with the empty string).

var mFuncs = []struct{ name, src string }{
	{"arith", `local a, b = ... ; emit(a, b) return (a or 1) + 2.5, "str", 100000`},
	{"closure", `local n = 0; local function inc() n = n + 1; return n end; emit(inc(), inc()); return inc() + select('#', ...)`},
	{"loop", "local s = 0\nfor i = 1, 3 do s = s + i end\nemit(s)\nif s > 5 then goto e end\nemit('no')\n::e::\nerror('at line 7')"},
	{"method", `local t = {x = "k", 1, 2}; function t:m(a) return self.x .. a end; emit(t:m("z"), #t, ...)`},
	{"close", `local c <close> = setmetatable({}, {__close = function() emit("closed") end}); emit(select('#', ...), ...); return ...`},
}

var mModes = []string{"", "b", "bt", "tb", "t"}
var mFeeds = []int{0, 1, 7, 4096, -1, -7} // 0 = string; k>0 reader of k byte pieces ending with nil; k<0 ending with ""

const mReader = `
local d, k, mode = ...
if mode == "" then mode = nil end
if k == 0 then return load(d, "chunk", mode) end
local stop = nil
if k < 0 then k = -k stop = "" end
local pos = 1
local function reader()
  if pos > #d then return stop end
  local s = d:sub(pos, pos + k - 1)
  pos = pos + k
  return s
end
return load(reader, "chunk", mode)
`

func mFamily() *core.Family {
	n := len(mFuncs) * len(mModes) * len(mFeeds)
	decode := func(i uint64) (fn, mode, feed int) {
		fn = int(i) % len(mFuncs)
		i /= uint64(len(mFuncs))
		mode = int(i) % len(mModes)
		feed = int(i) / len(mModes)
		return
	}
	return &core.Family{
		Name: "M-modes-readers",
		Size: uint64(n),
		Show: func(i uint64) string {
			fn, mode, feed := decode(i)
			return fmt.Sprintf("fn=%s mode=%q feed=%d\n%s", mFuncs[fn].name, mModes[mode], mFeeds[feed], mFuncs[fn].src)
		},
		Run: func(i uint64) core.Outcome {
			fn, mode, feed := decode(i)
			key := fmt.Sprintf("M-modes-readers fn=%s mode=%q feed=%d", mFuncs[fn].name, mModes[mode], mFeeds[feed])
			args := toRTs(stdTuples[3])
			A := newMachine()
			f, problem := compile(A, mFuncs[fn].src, false)
			if problem != "" {
				A.Close()
				return core.Outcome{Viol: &core.Violation{Key: key + " clause=does-not-compile", Detail: problem}}
			}
			d, o := dump(A, f, false, emptyDef())
			if o.status != "ok" {
				A.Close()
				return core.Outcome{Viol: &core.Violation{Key: key + " clause=dump-fails", Detail: o.String()}}
			}
			obsF := observe(A, f, args)
			A.Close()

			B := newMachine()
			defer B.Close()
			rd, problem := compile(B, mReader, false)
			if problem != "" {
				panic("c13: reader chunk: " + problem)
			}
			r := callRaw(B, rd, []rt.Value{rt.StringValue(d), rt.IntValue(int64(mFeeds[feed])), rt.StringValue(mModes[mode])}, emptyDef())
			out := core.Outcome{NonTrivial: true, States: 1}
			fail := func(clause, format string, a ...interface{}) core.Outcome {
				out.Viol = &core.Violation{Key: key + " clause=" + clause, Detail: fmt.Sprintf(format, a...) + "\nfunction: " + mFuncs[fn].src}
				return out
			}
			if r.status != "ok" {
				return fail("load-raises", "load did not return: %s", r)
			}
			isFn := false
			if len(r.vals) > 0 {
				_, isFn = r.vals[0].TryCallable()
			}
			out.Sig = core.Hash64(fmt.Sprint(key, isFn))
			if mModes[mode] == "t" {
				// "t": only text chunks
				if isFn || len(r.vals) < 2 || !r.vals[0].IsNil() {
					return fail("mode-t-accepts-binary", "load(dump, name, \"t\") must return fail plus a message; got %s", strings.Join(B.Canon.Values(r.vals), ", "))
				}
				if _, ok := r.vals[1].TryString(); !ok {
					return fail("mode-t-message", "the second result of a failing load must be a message; got %s", strings.Join(B.Canon.Values(r.vals), ", "))
				}
				return out
			}
			if !isFn {
				return fail("load-fails", "load returned %s", strings.Join(B.Canon.Values(r.vals), ", "))
			}
			obsG := observe(B, r.vals[0], args)
			if c := diffClause(obsF, obsG); c != "" {
				return fail("behaviour-"+c, "f(1,2,3): %s\ng(1,2,3): %s", obsString(obsF), obsString(obsG))
			}
			return out
		},
	}
}

// ------------------------------------------------------------------ L
//
// dump and load are charged inside a limited runtime context: used memory and
// CPU are non zero and grow with the size of the function, and under a limit
// far below the size of the data produced the call never succeeds.

var lKinds = []string{"ints", "floats", "strings", "longstring", "nested"}

func lSource(kind string, n int) string {
	var sb strings.Builder
	sb.WriteString("local x\n")
	switch kind {
	case "ints":
		for i := 0; i < n; i++ {
			fmt.Fprintf(&sb, "x = %d\n", 100000+i)
		}
	case "floats":
		for i := 0; i < n; i++ {
			fmt.Fprintf(&sb, "x = %d.5\n", i)
		}
	case "strings":
		for i := 0; i < n; i++ {
			fmt.Fprintf(&sb, "x = \"str%07d\"\n", i)
		}
	case "longstring":
		sb.WriteString("x = \"" + strings.Repeat("0123456789", n) + "\"\n")
	case "nested":
		for i := 0; i < n; i++ {
			fmt.Fprintf(&sb, "x = function() return %d end\n", 100000+i)
		}
	}
	sb.WriteString("return x\n")
	return sb.String()
}

func lFamily(tier string) *core.Family {
	ns := []int{100, 10000}
	if tier == "thorough" {
		ns = []int{100, 1000, 10000, 15000} // golua compiles at most 32767 instructions per function
	}
	type cs struct {
		kind string
		op   string
	}
	var cases []cs
	for _, k := range lKinds {
		for _, op := range []string{"dump", "load"} {
			cases = append(cases, cs{k, op})
		}
	}
	huge := rt.RuntimeResources{Cpu: 1 << 50, Memory: 1 << 50}
	return &core.Family{
		Name:        "L-charged",
		Size:        uint64(len(cases)),
		HangSeconds: 300,
		Show: func(i uint64) string {
			return fmt.Sprintf("kind=%s op=%s N=%v", cases[i].kind, cases[i].op, ns)
		},
		Run: func(i uint64) core.Outcome {
			c := cases[i]
			var out core.Outcome
			out.NonTrivial = true
			var sig strings.Builder
			add := func(n int, clause, format string, a ...interface{}) {
				out.Viols = append(out.Viols, &core.Violation{
					Key:    fmt.Sprintf("L-charged kind=%s op=%s N=%d clause=%s", c.kind, c.op, n, clause),
					Detail: fmt.Sprintf(format, a...),
				})
			}
			// run op once in a fresh runtime inside the context def
			runOp := func(src, d string, def *rt.RuntimeContextDef) raw {
				m := newMachine()
				defer m.Close()
				if c.op == "dump" {
					f, problem := compile(m, src, false)
					if problem != "" {
						return raw{status: "compile", err: problem}
					}
					_, o := dump(m, f, false, def)
					return o
				}
				g, o := load(m, d, "b", def)
				if o.status == "ok" && g.IsNil() {
					o.status = "err" // nil + message
				}
				return o
			}
			var prevMem, prevCPU uint64
			prevN := 0
			for _, n := range ns {
				src := lSource(c.kind, n)
				// the dump itself, produced outside any limit
				m := newMachine()
				f, problem := compile(m, src, false)
				if problem != "" {
					m.Close()
					add(n, "does-not-compile", "%s", problem)
					continue
				}
				d, o := dump(m, f, false, emptyDef())
				m.Close()
				if o.status != "ok" {
					add(n, "dump-fails", "%s", o)
					continue
				}
				L := uint64(len(d))
				// (a) measured under limits that are never reached
				u := runOp(src, d, &rt.RuntimeContextDef{HardLimits: huge})
				out.States++
				fmt.Fprintf(&sig, "N=%d len=%d %s mem=%d cpu=%d\n", n, L, u.status, u.usedMem, u.usedCPU)
				if u.status != "ok" {
					add(n, "unlimited-fails", "%s of a %d byte dump under limits of 2^50 did not succeed: %s", c.op, L, u)
					continue
				}
				if u.usedMem == 0 {
					add(n, "memory-not-charged", "%s (dump length %d) inside a memory tracking context used memory 0", c.op, L)
				}
				if u.usedCPU == 0 {
					add(n, "cpu-not-charged", "%s (dump length %d) inside a cpu tracking context used cpu 0", c.op, L)
				}
				if prevN != 0 {
					if u.usedMem <= prevMem {
						add(n, "memory-does-not-grow", "%s: used memory %d for N=%d but %d for N=%d", c.op, u.usedMem, n, prevMem, prevN)
					}
					if u.usedCPU <= prevCPU {
						add(n, "cpu-does-not-grow", "%s: used cpu %d for N=%d but %d for N=%d", c.op, u.usedCPU, n, prevCPU, prevN)
					}
				}
				prevN, prevMem, prevCPU = n, u.usedMem, u.usedCPU
				// (b) limits far below the size of the data: never a success
				for _, M := range []uint64{L / 4, L / 16, 1024} {
					if M == 0 || M > L/4 {
						continue
					}
					r := runOp(src, d, &rt.RuntimeContextDef{HardLimits: rt.RuntimeResources{Memory: M}})
					out.States++
					fmt.Fprintf(&sig, " M=%d %s\n", M, r.status)
					switch r.status {
					case "ok":
						add(n, "succeeds-under-memory-limit", "%s of a %d byte dump succeeded under a hard memory limit of %d (used memory reported: %d)", c.op, L, M, r.usedMem)
					case "gopanic":
						add(n, "gopanic-under-memory-limit", "%s under memory limit %d: Go panic %s", c.op, M, r.err)
					}
				}
				if n >= 10000 {
					for _, C := range []uint64{20, 200} {
						r := runOp(src, d, &rt.RuntimeContextDef{HardLimits: rt.RuntimeResources{Cpu: C}})
						out.States++
						fmt.Fprintf(&sig, " C=%d %s\n", C, r.status)
						switch r.status {
						case "ok":
							add(n, "succeeds-under-cpu-limit", "%s of a %d byte dump (%d constants) succeeded under a hard cpu limit of %d (used cpu reported: %d)", c.op, L, n, C, r.usedCPU)
						case "gopanic":
							add(n, "gopanic-under-cpu-limit", "%s under cpu limit %d: Go panic %s", c.op, C, r.err)
						}
					}
				}
			}
			out.Sig = core.Hash64(sig.String())
			if os.Getenv("C13_DEBUG") != "" {
				fmt.Fprint(os.Stderr, sig.String())
			}
			return out
		},
	}
}

// ------------------------------------------------------------------ R
//
// every single-byte truncation and every single-bit flip of the dumps of five
// small functions, given to load inside a limited context (memory 64 MB, cpu
// 10^6): load returns fail+message or a function or is stopped by the limit,
// never a Go panic; a returned function called under limits gives an ordinary
// outcome.
//
// Mutations after which the loader meets an element count (number of opcodes /
// lines / constants / upvalue names) between 2^16 and 2^47 are not executed
// (counted as skipped; C13_BOMBS=1 runs them): golua allocates the array
// before charging for it, so those cases allocate up to 2^51 bytes and kill
// (fatal error: out of memory) or stall the worker.  The mutated input is
// read by this check's own format reader to find that count.  The defect is
// demonstrated with safe sizes by the family R-alloc instead.

type rCase struct {
	fn    int
	trunc bool
	pos   int // truncation: length kept; flip: bit index
}

var rDumps []string // dump of mFuncs[k], computed once per process
var rFields [][]field

func rInit() {
	if rDumps != nil {
		return
	}
	for _, mf := range mFuncs {
		m := newMachine()
		f, problem := compile(m, mf.src, false)
		if problem != "" {
			panic("c13: R function does not compile: " + problem)
		}
		d, o := dump(m, f, false, emptyDef())
		m.Close()
		if o.status != "ok" {
			panic("c13: R function does not dump: " + o.String())
		}
		rDumps = append(rDumps, d)
		fs, err := parseDump(d)
		if err != nil {
			panic("c13: the format reader does not understand a dump: " + err.Error())
		}
		rFields = append(rFields, fs)
	}
}

var digits = regexp.MustCompile(`[0-9]+`)
var hexes = regexp.MustCompile(`0x[0-9a-f]+`)

func panicClass(s string) string {
	s = hexes.ReplaceAllString(s, "X")
	s = digits.ReplaceAllString(s, "N")
	if len(s) > 90 {
		s = s[:90]
	}
	return s
}

func rLimits() *rt.RuntimeContextDef {
	return &rt.RuntimeContextDef{HardLimits: rt.RuntimeResources{Cpu: 1000000, Memory: 64 << 20}}
}

func rFamily(tier string) *core.Family {
	rInit()
	var cases []rCase
	for k, d := range rDumps {
		for n := 0; n < len(d); n++ {
			cases = append(cases, rCase{k, true, n})
		}
		for b := 0; b < 8*len(d); b++ {
			cases = append(cases, rCase{k, false, b})
		}
	}
	mutate := func(c rCase) (string, string) {
		d := rDumps[c.fn]
		if c.trunc {
			return d[:c.pos], fmt.Sprintf("trunc@%d", c.pos)
		}
		b := []byte(d)
		b[c.pos/8] ^= 1 << (c.pos % 8)
		return string(b), fmt.Sprintf("flip@%d.%d", c.pos/8, c.pos%8)
	}
	fieldOf := func(c rCase) (f field, bit int) {
		off := c.pos
		if !c.trunc {
			off = c.pos / 8
		}
		for _, f := range rFields[c.fn] {
			if off >= f.off && off < f.off+f.n {
				return f, (off-f.off)*8 + c.pos%8
			}
		}
		return field{kind: "?"}, 0
	}
	return &core.Family{
		Name:        "R-corrupt",
		Size:        uint64(len(cases)),
		HangSeconds: 60,
		Show: func(i uint64) string {
			c := cases[i]
			_, mut := mutate(c)
			off := c.pos
			if !c.trunc {
				off = c.pos / 8
			}
			return fmt.Sprintf("fn=%s %s in %s\n%s", mFuncs[c.fn].name, mut, fieldAt(rFields[c.fn], off), mFuncs[c.fn].src)
		},
		Run: func(i uint64) core.Outcome {
			c := cases[i]
			d, mut := mutate(c)
			f, bit := fieldOf(c)
			_ = bit
			if bc := firstBadCount(d); bc > 1<<16 && bc < 1<<47 && os.Getenv("C13_BOMBS") == "" {
				// golua would allocate bc elements before charging: see R-alloc
				return core.Outcome{Skipped: true}
			}
			key := fmt.Sprintf("R-corrupt fn=%s mut=%s field=%s", mFuncs[c.fn].name, mut, f.kind)
			m := newMachine()
			defer m.Close()
			out := core.Outcome{NonTrivial: true, States: 1}
			g, o := load(m, d, "b", rLimits())
			if o.status == "gopanic" {
				out.Viol = &core.Violation{Key: fmt.Sprintf("%s clause=load-gopanic panic=%q", key, panicClass(o.err)),
					Detail: fmt.Sprintf("load(<%s of the dump of %s>, \"chunk\", \"b\") let a Go panic escape: %s\nmutated field: %s", mut, mFuncs[c.fn].name, o.err, f.what)}
				return out
			}
			if g.IsNil() {
				out.Sig = core.Hash64("rejected " + o.status)
				return out
			}
			r := callRaw(m, g, toRTs(stdTuples[3]), rLimits())
			out.Sig = core.Hash64("loaded " + r.status)
			if r.status == "gopanic" {
				out.Viol = &core.Violation{Key: fmt.Sprintf("%s clause=call-gopanic panic=%q", key, panicClass(r.err)),
					Detail: fmt.Sprintf("load accepted <%s of the dump of %s>; calling the function under cpu limit 10^6 / memory limit 64 MB let a Go panic escape: %s\nmutated field: %s", mut, mFuncs[c.fn].name, r.err, f.what)}
			}
			return out
		},
	}
}

// R-alloc: an element count of the top-level function is replaced by 2^bit;
// load runs under a hard memory limit of 64 KB.  The Go heap may not grow by
// more than 16 times the limit while load runs (runtime.MemStats.TotalAlloc is
// an exact byte count; the worker runs one case at a time).
func aFamily(tier string) *core.Family {
	rInit()
	type ac struct {
		fn  int
		f   field
		bit int
	}
	var cases []ac
	for k := range rDumps {
		for _, f := range rFields[k] {
			if f.kind == "count" && strings.Count(f.what, ".") == 1 { // F.ncode, F.nlines, F.nconsts, F.nupnames
				for _, bit := range []int{19, 22} {
					cases = append(cases, ac{k, f, bit})
				}
			}
		}
	}
	const limit = 64 << 10
	return &core.Family{
		Name:        "R-alloc",
		Size:        uint64(len(cases)),
		HangSeconds: 120,
		Show: func(i uint64) string {
			c := cases[i]
			return fmt.Sprintf("fn=%s %s := 2^%d, load under memory limit %d", mFuncs[c.fn].name, c.f.what, c.bit, limit)
		},
		Run: func(i uint64) core.Outcome {
			c := cases[i]
			b := []byte(rDumps[c.fn])
			for k := 0; k < 8; k++ {
				b[c.f.off+k] = 0
			}
			b[c.f.off+c.bit/8] = 1 << (c.bit % 8)
			m := newMachine()
			defer m.Close()
			var before, after runtime.MemStats
			runtime.GC()
			runtime.ReadMemStats(&before)
			_, o := load(m, string(b), "b", &rt.RuntimeContextDef{HardLimits: rt.RuntimeResources{Memory: limit}})
			runtime.ReadMemStats(&after)
			grown := after.TotalAlloc - before.TotalAlloc
			out := core.Outcome{NonTrivial: true, States: 1, Sig: core.Hash64(fmt.Sprint(c.f.what, c.bit, o.status, grown > 16*limit))}
			key := fmt.Sprintf("R-alloc fn=%s field=%s count=2^%d", mFuncs[c.fn].name, c.f.what, c.bit)
			switch {
			case o.status == "gopanic":
				out.Viol = &core.Violation{Key: key + " clause=load-gopanic", Detail: o.err}
			case grown > 16*limit:
				out.Viol = &core.Violation{Key: key + " clause=allocates-before-charging",
					Detail: fmt.Sprintf("load of a %d byte binary chunk whose %s says 2^%d, inside a context with a hard memory limit of %d bytes: the Go heap grew by %d bytes before load ended with status %q %s (context memory used as reported: %d)",
						len(b), c.f.what, c.bit, limit, grown, o.status, o.err, o.usedMem)}
			}
			return out
		},
	}
}
