package main

import (
	"fmt"
	"strings"

	"github.com/arnodel/golua/lib"
	"github.com/arnodel/golua/lib/base"
	"github.com/arnodel/golua/lib/coroutine"
	"github.com/arnodel/golua/lib/debuglib"
	"github.com/arnodel/golua/lib/golib"
	"github.com/arnodel/golua/lib/mathlib"
	"github.com/arnodel/golua/lib/oslib"
	"github.com/arnodel/golua/lib/packagelib"
	"github.com/arnodel/golua/lib/runtimelib"
	"github.com/arnodel/golua/lib/stringlib"
	"github.com/arnodel/golua/lib/tablelib"
	"github.com/arnodel/golua/lib/utf8lib"
	rt "github.com/arnodel/golua/runtime"

	"verif/engine/host"
)

const chunkName = "chunk"

// machine is a fresh golua runtime with the host callbacks emit/tick and every
// standard library except io (loading iolib costs 3 ms per runtime, six times
// everything else together; no program of this check uses it).
type machine struct {
	*host.Machine
	cleanup func()
}

func newMachine() *machine {
	m := host.NewMachine(true)
	c := lib.LoadLibs(m.R,
		base.LibLoader, packagelib.LibLoader, coroutine.LibLoader, stringlib.LibLoader,
		tablelib.LibLoader, mathlib.LibLoader, utf8lib.LibLoader, oslib.LibLoader,
		debuglib.LibLoader, golib.LibLoader, runtimelib.LibLoader)
	return &machine{m, c}
}

func (m *machine) Close() {
	m.Machine.Close()
	m.cleanup()
}

// cpuLimit bounds the run of f / g.  Both sides execute under the same limit;
// a program that does not terminate is killed on both sides at the same
// point (the CPU accounting of identical code is identical).
const cpuLimit = 400000

// emptyDef is the host convention: chunks run inside a (non nil) context.
func emptyDef() *rt.RuntimeContextDef { return &rt.RuntimeContextDef{} }

func runDef() *rt.RuntimeContextDef {
	return &rt.RuntimeContextDef{HardLimits: rt.RuntimeResources{Cpu: cpuLimit}}
}

// raw is the outcome of a host level call with the result values kept.
type raw struct {
	status  string // ok | err | killed | gopanic
	vals    []rt.Value
	err     string
	usedCPU uint64
	usedMem uint64
}

func (r raw) String() string {
	if r.status == "ok" {
		return fmt.Sprintf("ok (%d values)", len(r.vals))
	}
	return r.status + " " + r.err
}

func firstLine(s string) string {
	if k := strings.IndexByte(s, '\n'); k >= 0 {
		s = s[:k]
	}
	if len(s) > 300 {
		s = s[:300]
	}
	return s
}

// callRaw calls f(args...) in the main thread of m inside the context def.
func callRaw(m *machine, f rt.Value, args []rt.Value, def *rt.RuntimeContextDef) (o raw) {
	r := m.R
	defer func() {
		if p := recover(); p != nil {
			o = raw{status: "gopanic", err: firstLine(fmt.Sprint(p))}
		}
	}()
	term := rt.NewTerminationWith(nil, 0, true)
	ctx, err := r.MainThread().CallContext(*def, func() error {
		return rt.Call(r.MainThread(), f, args, term)
	})
	u := ctx.UsedResources()
	o.usedCPU, o.usedMem = u.Cpu, u.Memory
	if ctx.Status() == rt.StatusKilled {
		o.status = "killed"
		if err != nil {
			o.err = err.Error()
		}
		return
	}
	if err != nil {
		o.status = "err"
		o.err = m.Canon.Value(rt.ErrorValue(err))
		return
	}
	o.status = "ok"
	o.vals = append([]rt.Value(nil), term.Etc()...)
	return
}

func global(m *machine, path ...string) rt.Value {
	v := rt.TableValue(m.R.GlobalEnv())
	for _, p := range path {
		t, ok := v.TryTable()
		if !ok {
			return rt.NilValue
		}
		v = t.Get(rt.StringValue(p))
	}
	return v
}

// compile compiles src as chunk "chunk" in m; when inner is set the chunk is
// `return function ... end` and the function under test is its result.
func compile(m *machine, src string, inner bool) (f rt.Value, problem string) {
	defer func() {
		if p := recover(); p != nil {
			problem = "gopanic " + firstLine(fmt.Sprint(p))
		}
	}()
	clos, err := m.R.CompileAndLoadLuaChunk(chunkName, []byte(src), rt.TableValue(m.R.GlobalEnv()))
	if err != nil {
		return rt.NilValue, "compile " + firstLine(err.Error())
	}
	f = rt.FunctionValue(clos)
	if inner {
		o := callRaw(m, f, nil, emptyDef())
		if o.status != "ok" || len(o.vals) != 1 {
			return rt.NilValue, "wrapper chunk: " + o.String()
		}
		if _, ok := o.vals[0].TryClosure(); !ok {
			return rt.NilValue, "wrapper chunk did not return a Lua function"
		}
		f = o.vals[0]
	}
	return f, ""
}

// dump is string.dump(f [, strip]) called from the host inside def.
func dump(m *machine, f rt.Value, strip bool, def *rt.RuntimeContextDef) (string, raw) {
	args := []rt.Value{f}
	if strip {
		args = append(args, rt.BoolValue(true))
	}
	o := callRaw(m, global(m, "string", "dump"), args, def)
	if o.status != "ok" {
		return "", o
	}
	if len(o.vals) != 1 {
		o.status, o.err = "err", fmt.Sprintf("string.dump returned %d values", len(o.vals))
		return "", o
	}
	s, ok := o.vals[0].TryString()
	if !ok {
		o.status, o.err = "err", "string.dump returned a "+o.vals[0].TypeName()
		return "", o
	}
	return s, o
}

// load is load(d, "chunk", mode) called from the host inside def.  A nil
// function with status ok means load returned nil + message (o.err).
func load(m *machine, d string, mode string, def *rt.RuntimeContextDef) (rt.Value, raw) {
	o := callRaw(m, global(m, "load"), []rt.Value{rt.StringValue(d), rt.StringValue(chunkName), rt.StringValue(mode)}, def)
	if o.status != "ok" {
		return rt.NilValue, o
	}
	if len(o.vals) >= 1 {
		if _, ok := o.vals[0].TryCallable(); ok {
			return o.vals[0], o
		}
	}
	o.err = "load returned " + strings.Join(m.Canon.Values(o.vals), ", ")
	return rt.NilValue, o
}

// observe runs f(args) under the CPU limit and returns the canonical
// observation (trace, status, results or error value).
func observe(m *machine, f rt.Value, args []rt.Value) host.Obs {
	return m.Call(f, args, runDef())
}

func obsString(o host.Obs) string {
	s := o.String()
	if o.Ticks != 0 {
		s += fmt.Sprintf(" ticks=%d", o.Ticks)
	}
	return s
}

func toRT(v interface{}) rt.Value {
	switch x := v.(type) {
	case nil:
		return rt.NilValue
	case bool:
		return rt.BoolValue(x)
	case int64:
		return rt.IntValue(x)
	case int:
		return rt.IntValue(int64(x))
	case float64:
		return rt.FloatValue(x)
	case string:
		return rt.StringValue(x)
	}
	panic(fmt.Sprintf("c13: bad chunk argument %T", v))
}

func toRTs(args []interface{}) []rt.Value {
	out := make([]rt.Value, len(args))
	for i, a := range args {
		out[i] = toRT(a)
	}
	return out
}

func argsStr(args []interface{}) string {
	parts := make([]string, len(args))
	for i, a := range args {
		parts[i] = fmt.Sprintf("%#v", a)
	}
	return "(" + strings.Join(parts, ", ") + ")"
}

func hexHead(s string, n int) string {
	if len(s) > n {
		return fmt.Sprintf("%x… (%d bytes)", s[:n], len(s))
	}
	return fmt.Sprintf("%x (%d bytes)", s, len(s))
}

// firstDiff returns the first offset at which a and b differ.
func firstDiff(a, b string) int {
	n := len(a)
	if len(b) < n {
		n = len(b)
	}
	for i := 0; i < n; i++ {
		if a[i] != b[i] {
			return i
		}
	}
	return n
}
