package main

import (
	"fmt"
	"strings"

	"verif/engine/core"
	"verif/engine/prog"
	"verif/engine/progfam"
)

// futsOfProg lists the functions under test of a progfam program: its main
// chunk and every function literal without free locals, rendered standalone.
func futsOfProg(p *prog.Prog, tier string, i uint64) []fut {
	all := tier == "thorough"
	src, _ := prog.Render(p, prog.Plain)
	futs := []fut{{label: "main", src: src, tuples: tuplesFor(p.Args, true, usesVararg(p.Body), all)}}
	if all {
		// a second spelling with a very different line table (rotating)
		st := prog.Style(1 + i%uint64(prog.NStyles-1))
		if s2, _ := prog.Render(p, st); s2 != src {
			futs = append(futs, fut{label: "main-" + st.String(), src: s2, tuples: [][]interface{}{p.Args}})
		}
	}
	closed, _ := closedFuncs(p)
	seen := map[string]bool{}
	for k, f := range closed {
		b := prog.NewB()
		sp := b.Prog(b.Return(f))
		s, _ := prog.Render(sp, prog.Plain)
		if seen[s] {
			continue
		}
		seen[s] = true
		observes := len(f.Params) > 0 || f.IsVararg
		futs = append(futs, fut{label: fmt.Sprintf("inner%d", k+1), src: s, inner: true, tuples: tuplesFor(nil, false, observes, all)})
	}
	return futs
}

// innerOK remembers, per worker process, the standalone inner-function
// sources that passed every clause: the helper functions of a family recur in
// thousands of its programs and re-verifying the identical source adds
// nothing.  Only passes are cached: a failing function is re-run (and
// reported, deterministically) for every program that contains it.
var innerOK = map[string]bool{}

func runFuts(keyBase string, futs []fut) core.Outcome {
	var out core.Outcome
	var sig strings.Builder
	ran := 0
	for _, ft := range futs {
		ck := ""
		if ft.inner {
			ck = fmt.Sprintf("%d\x00%s", len(ft.tuples), ft.src)
			if innerOK[ck] {
				ran++
				continue
			}
		}
		r := checkFut(keyBase, ft)
		if r.skipped != "" {
			continue
		}
		ran++
		out.States++
		if ft.inner && len(r.viols) == 0 {
			innerOK[ck] = true
		}
		out.Viols = append(out.Viols, r.viols...)
		if r.nonTrivial {
			out.NonTrivial = true
		}
		for _, o := range r.obs {
			sig.WriteString(o)
			sig.WriteByte('\n')
		}
	}
	if ran == 0 {
		return core.Outcome{Skipped: true}
	}
	out.Sig = core.Hash64(sig.String())
	return out
}

func progCase(tier string, fam progfam.Fam, i uint64) core.Outcome {
	p := fam.At(i)
	if p == nil {
		return core.Outcome{Skipped: true}
	}
	return runFuts(fam.Name+" "+p.Key, futsOfProg(p, tier, i))
}

func showProg(tier string, fam progfam.Fam, i uint64) string {
	p := fam.At(i)
	if p == nil {
		return "(index does not denote a canonical program)"
	}
	var sb strings.Builder
	fmt.Fprintf(&sb, "%s args=%s\n", p.Key, argsStr(p.Args))
	for _, ft := range futsOfProg(p, tier, i) {
		fmt.Fprintf(&sb, "-- fn=%s tuples=%d\n%s\n", ft.label, len(ft.tuples), ft.src)
	}
	return sb.String()
}

func handCase(tier string, i uint64) core.Outcome {
	h := handCorpus[i]
	label := "main"
	if h.inner {
		label = "inner"
	}
	ft := fut{label: label, src: h.src, inner: h.inner, tuples: tuplesFor(h.args, h.args != nil, true, true)}
	r := checkFut("H-corpus "+h.name, ft)
	if r.skipped != "" {
		// a hand-written program that golua does not compile is reported: the
		// corpus is meant to be entirely inside the language
		return core.Outcome{Viol: &core.Violation{
			Key:    "H-corpus " + h.name + " clause=does-not-compile",
			Detail: r.skipped + "\n" + numbered(h.src),
		}}
	}
	out := core.Outcome{Viols: r.viols, NonTrivial: r.nonTrivial, States: 1}
	out.Sig = core.Hash64(strings.Join(r.obs, "\n"))
	return out
}
