// Development helper: CPU profile of creating runtimes without iolib.
package main

import (
	"fmt"
	"os"
	"runtime/pprof"
	"time"

	"github.com/arnodel/golua/lib"
	"github.com/arnodel/golua/lib/base"
	"github.com/arnodel/golua/lib/coroutine"
	"github.com/arnodel/golua/lib/debuglib"
	"github.com/arnodel/golua/lib/golib"
	"github.com/arnodel/golua/lib/mathlib"
	"github.com/arnodel/golua/lib/oslib"
	"github.com/arnodel/golua/lib/packagelib"
	"github.com/arnodel/golua/lib/runtimelib"
	"github.com/arnodel/golua/lib/stringlib"
	"github.com/arnodel/golua/lib/tablelib"
	"github.com/arnodel/golua/lib/utf8lib"

	"verif/engine/host"
)

func main() {
	f, _ := os.Create(os.Args[1])
	pprof.StartCPUProfile(f)
	const n = 5000
	t0 := time.Now()
	for i := 0; i < n; i++ {
		m := host.NewMachine(true)
		c := lib.LoadLibs(m.R,
			base.LibLoader, packagelib.LibLoader, coroutine.LibLoader, stringlib.LibLoader,
			tablelib.LibLoader, mathlib.LibLoader, utf8lib.LibLoader, oslib.LibLoader,
			debuglib.LibLoader, golib.LibLoader, runtimelib.LibLoader)
		m.Close()
		c()
	}
	fmt.Println(time.Since(t0) / n)
	pprof.StopCPUProfile()
}
