// Development helper: does Lua's pcall contain the Go panic raised by load of
// a corrupted binary chunk (negative UpvalueCount)?
package main

import (
	"fmt"

	rt "github.com/arnodel/golua/runtime"

	"verif/engine/host"
)

func main() {
	m := host.NewMachine(false)
	o := m.Exec("chunk", `local d = string.dump(load("local a, b = ... ; emit(a, b) return (a or 1) + 2.5, 'str', 100000")); return d`, nil, &rt.RuntimeContextDef{})
	fmt.Println(o.Status, len(o.Results))
	o = m.Exec("chunk", `
local d = string.dump(load("x = 1"))
-- UpvalueCount is the int16 that precedes RegCount, CellCount, nupnames(8), upname len(8) + "_ENV"
local pos = #d - (4 + 8 + 8 + 2 + 2 + 2) + 1
local lo, hi = d:byte(pos, pos + 1)
emit(lo, hi)
local bad = d:sub(1, pos) .. string.char(hi | 0x80) .. d:sub(pos + 2)
emit(pcall(load, bad, "chunk", "b"))
return "survived"`, nil, &rt.RuntimeContextDef{})
	fmt.Println(o)
}
