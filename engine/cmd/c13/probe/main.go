// Development helper: Lua-level reproductions of the defects in NOTES.md
// (D1 compile nondeterminism, D2 allocation before charging, D3 Go panic out
// of load through pcall).
package main

import (
	"fmt"
	"runtime"

	rt "github.com/arnodel/golua/runtime"

	"verif/engine/host"
)

func main() {
	m := host.NewMachine(false)
	o := m.Exec("chunk", `
local src = "local a, b = 1, 2 local function f() return a end local function g() return b end return f, g"
local seen, n = {}, 0
for i = 1, 40 do
  local d = string.dump(load(src))
  if not seen[d] then seen[d] = true n = n + 1 end
end
emit("D1: distinct dumps of one source compiled 40 times", n)`, nil, &rt.RuntimeContextDef{})
	fmt.Println(o)

	var before, after runtime.MemStats
	runtime.GC()
	runtime.ReadMemStats(&before)
	o = m.Exec("chunk", `
local d = string.dump(load("x = 1"))
local srclen = string.unpack("<i8", d, 5)
local namepos = 5 + 8 + srclen
local namelen = string.unpack("<i8", d, namepos)
local ncodepos = namepos + 8 + namelen
local bad = d:sub(1, ncodepos - 1) .. string.pack("<i8", 1 << 24) .. d:sub(ncodepos + 8)
local ctx, f, msg = runtime.callcontext({kill = {memory = 65536}}, load, bad, "chunk", "b")
emit("D2:", ctx.status, ctx.used.memory, f, msg)`, nil, &rt.RuntimeContextDef{})
	runtime.ReadMemStats(&after)
	fmt.Println(o)
	fmt.Println("D2: Go heap allocated during that script:", after.TotalAlloc-before.TotalAlloc, "bytes")

	o = m.Exec("chunk", `
local d = string.dump(load("x = 1"))
local pos = #d - (4 + 8 + 8 + 2 + 2 + 2) + 1
local bad = d:sub(1, pos) .. string.char(d:byte(pos + 1) | 0x80) .. d:sub(pos + 2)
emit(pcall(load, bad, "chunk", "b"))
return "survived"`, nil, &rt.RuntimeContextDef{})
	fmt.Println("D3:", o)
}
