package main

// Scope analysis over prog ASTs: finds every function literal of a program
// that has no free local variable (its only possible upvalue is _ENV), the
// "closures without free locals" of property C13.  Such a literal can be
// rendered as the standalone chunk `return function(...) ... end` whose result
// is the same function.
//
// The analysis only classifies; a mistake here cannot cause a false alarm:
// any function literal rendered standalone is a valid chunk, and the check
// compares that chunk's function with its own dump.

import "verif/engine/prog"

type scopeVar struct {
	name  string
	depth int // function nesting depth at which the local was declared
}

type walker struct {
	vars   []scopeVar
	funcs  []*funcInfo // stack of enclosing function literals (depth 1..)
	closed []*prog.Func
	all    int
}

type funcInfo struct {
	f        *prog.Func
	captures bool
}

func (w *walker) depth() int { return len(w.funcs) }

func (w *walker) declare(name string) {
	w.vars = append(w.vars, scopeVar{name, w.depth()})
}

// use resolves a name; a local declared in an enclosing function marks every
// function between the declaration and the use as capturing.
func (w *walker) use(name string) {
	for i := len(w.vars) - 1; i >= 0; i-- {
		if w.vars[i].name == name {
			w.mark(w.vars[i].depth)
			return
		}
	}
	if name != "_ENV" {
		// global: an access through the variable _ENV
		w.use("_ENV")
	}
}

func (w *walker) mark(declDepth int) {
	for d := declDepth; d < len(w.funcs); d++ {
		w.funcs[d].captures = true
	}
}

func (w *walker) block(body []prog.Stmt) {
	mark := len(w.vars)
	for _, s := range body {
		w.stmt(s)
	}
	w.vars = w.vars[:mark]
}

func (w *walker) fn(f *prog.Func, self bool) {
	fi := &funcInfo{f: f}
	w.funcs = append(w.funcs, fi)
	w.all++
	mark := len(w.vars)
	if self {
		w.declare("self")
	}
	for _, p := range f.Params {
		w.declare(p)
	}
	for _, s := range f.Body {
		w.stmt(s)
	}
	w.vars = w.vars[:mark]
	w.funcs = w.funcs[:len(w.funcs)-1]
	if !fi.captures {
		w.closed = append(w.closed, f)
	}
}

func (w *walker) exprs(es []prog.Expr) {
	for _, e := range es {
		w.expr(e)
	}
}

func (w *walker) expr(e prog.Expr) {
	switch x := e.(type) {
	case nil:
	case *prog.Name:
		w.use(x.N)
	case *prog.Index:
		w.expr(x.Obj)
		w.expr(x.Key)
	case *prog.Call:
		w.expr(x.Fn)
		w.exprs(x.Args)
	case *prog.Method:
		w.expr(x.Obj)
		w.exprs(x.Args)
	case *prog.Func:
		w.fn(x, false)
	case *prog.Bin:
		w.expr(x.L)
		w.expr(x.R)
	case *prog.Un:
		w.expr(x.E)
	case *prog.TableC:
		for _, f := range x.Fields {
			if f.Key != nil {
				w.expr(f.Key)
			}
			w.expr(f.Val)
		}
	case *prog.Paren:
		w.expr(x.E)
	}
}

func (w *walker) stmt(s prog.Stmt) {
	switch x := s.(type) {
	case *prog.Local:
		w.exprs(x.Exprs)
		for _, n := range x.Names {
			w.declare(n)
		}
	case *prog.Assign:
		w.exprs(x.Exprs)
		w.exprs(x.Targets)
	case *prog.CallStat:
		w.expr(x.Call)
	case *prog.Do:
		w.block(x.Body)
	case *prog.While:
		w.expr(x.Cond)
		w.block(x.Body)
	case *prog.Repeat:
		mark := len(w.vars)
		for _, b := range x.Body {
			w.stmt(b)
		}
		w.expr(x.Cond) // the condition sees the locals of the body
		w.vars = w.vars[:mark]
	case *prog.If:
		for i, c := range x.Conds {
			w.expr(c)
			w.block(x.Blocks[i])
		}
		if x.HasElse {
			w.block(x.Else)
		}
	case *prog.NumFor:
		w.expr(x.Start)
		w.expr(x.Stop)
		if x.Step != nil {
			w.expr(x.Step)
		}
		mark := len(w.vars)
		w.declare(x.Var)
		for _, b := range x.Body {
			w.stmt(b)
		}
		w.vars = w.vars[:mark]
	case *prog.GenFor:
		w.exprs(x.Exprs)
		mark := len(w.vars)
		for _, n := range x.Names {
			w.declare(n)
		}
		for _, b := range x.Body {
			w.stmt(b)
		}
		w.vars = w.vars[:mark]
	case *prog.LocalFunc:
		w.declare(x.Name) // visible inside its own body
		w.fn(x.F, false)
	case *prog.FuncStat:
		w.use(x.Path[0])
		w.fn(x.F, x.Method != "")
	case *prog.Return:
		w.exprs(x.Exprs)
	}
}

// closedFuncs returns the function literals of p without free locals, in
// source (post-order of closing) order, and the total number of literals.
func closedFuncs(p *prog.Prog) ([]*prog.Func, int) {
	w := &walker{}
	w.block(p.Body)
	return w.closed, w.all
}

// usesVararg reports whether `...` occurs in body outside nested functions.
func usesVararg(body []prog.Stmt) bool {
	found := false
	var ex func(e prog.Expr)
	var st func(s prog.Stmt)
	exs := func(es []prog.Expr) {
		for _, e := range es {
			ex(e)
		}
	}
	sts := func(ss []prog.Stmt) {
		for _, s := range ss {
			st(s)
		}
	}
	ex = func(e prog.Expr) {
		switch x := e.(type) {
		case *prog.Vararg:
			found = true
		case *prog.Index:
			ex(x.Obj)
			ex(x.Key)
		case *prog.Call:
			ex(x.Fn)
			exs(x.Args)
		case *prog.Method:
			ex(x.Obj)
			exs(x.Args)
		case *prog.Bin:
			ex(x.L)
			ex(x.R)
		case *prog.Un:
			ex(x.E)
		case *prog.TableC:
			for _, f := range x.Fields {
				if f.Key != nil {
					ex(f.Key)
				}
				ex(f.Val)
			}
		case *prog.Paren:
			ex(x.E)
		}
	}
	st = func(s prog.Stmt) {
		switch x := s.(type) {
		case *prog.Local:
			exs(x.Exprs)
		case *prog.Assign:
			exs(x.Exprs)
			exs(x.Targets)
		case *prog.CallStat:
			ex(x.Call)
		case *prog.Do:
			sts(x.Body)
		case *prog.While:
			ex(x.Cond)
			sts(x.Body)
		case *prog.Repeat:
			sts(x.Body)
			ex(x.Cond)
		case *prog.If:
			for i, c := range x.Conds {
				ex(c)
				sts(x.Blocks[i])
			}
			sts(x.Else)
		case *prog.NumFor:
			ex(x.Start)
			ex(x.Stop)
			if x.Step != nil {
				ex(x.Step)
			}
			sts(x.Body)
		case *prog.GenFor:
			exs(x.Exprs)
			sts(x.Body)
		case *prog.Return:
			exs(x.Exprs)
		}
	}
	sts(body)
	return found
}
