// C02 — numbers: operators over all pairs of a boundary lattice (three
// evaluation paths), numeral strings, math functions, tonumber with base.
package main

import (
	"fmt"
	"math"
	"strings"
	"sync"

	rt "github.com/arnodel/golua/runtime"

	"verif/engine/core"
	"verif/engine/host"
	"verif/engine/lv"
	"verif/engine/refnum"
)

func numLattice(tier string) []lv.V {
	mx, mn := int64(math.MaxInt64), int64(math.MinInt64)
	ints := []int64{0, 1, -1, 2, -2, 3, 7, -7, 63, 64, 65, -63, -64, 1 << 31, 1<<53 - 1, 1 << 53, 1<<53 + 1, 1 << 62, mx - 1, mx, mn, mn + 1,
		// boundaries of the encodings an implementation is likely to use for
		// immediate operands (8 and 16 bit, signed and unsigned)
		127, 128, -128, -129, 32767, 32768, -32768, -32769, 65535, 65536}
	floats := []float64{0, math.Copysign(0, -1), 0.5, -0.5, 1, -1, 1.5, 3, -3, 7, -7.5, 5.3, 1 << 53, 1<<53 + 2,
		0x1p63 - 1024, 0x1p63, -0x1p63, -0x1p63 - 2048, 0x1p64, 1e308, 5e-324, math.Inf(1), math.Inf(-1), math.NaN()}
	if tier == "thorough" {
		ints = append(ints, 5, -5, 10, 255, 256, -(1 << 31), 1<<32 - 1, 1 << 32, -(1 << 53), -(1<<53 + 1), -(1 << 62), mx - 2, mx - 511, mx - 512, mx - 513, mn + 2, mn + 512)
		floats = append(floats, 2, -2, 2.5, -1.5, 64, 63, 0.1, -0.1, 1e15, 1e16, 1<<53 - 1, -(1 << 53), 0x1p62, -0x1p62, 0x1p63 + 2048, -0x1p64, -1e308, 2.2250738585072014e-308, -5e-324, 1e300)
	}
	var out []lv.V
	for _, n := range ints {
		out = append(out, lv.I(n))
	}
	for _, f := range floats {
		out = append(out, lv.F(f))
	}
	return out
}

var strOperands = []lv.V{lv.S("10"), lv.S("0x10"), lv.S("1e1"), lv.S(" 5 "), lv.S("-7"), lv.S("3.0"), lv.S("3.5"), lv.S("abc"), lv.S(""), lv.S("1 2"),
	lv.S("9223372036854775807"), lv.S("9223372036854775808"), lv.S("0xffffffffffffffff"), lv.NilV, lv.V{K: lv.Bool, B: true}, lv.TableV}

var binops = []string{"+", "-", "*", "/", "//", "%", "^", "&", "|", "~", "<<", ">>", "==", "~=", "<", "<=", ">", ">="}
var unops = []string{"-", "~"}

func isCmp(op string) bool {
	switch op {
	case "==", "~=", "<", "<=", ">", ">=":
		return true
	}
	return false
}

func refBin(op string, a, b lv.V) refnum.Res {
	if isCmp(op) {
		return refnum.Compare(op, a, b)
	}
	if a.K == lv.Table || b.K == lv.Table || a.K == lv.Nil || b.K == lv.Nil || a.K == lv.Bool || b.K == lv.Bool {
		return refnum.Res{Err: true}
	}
	switch op {
	case "&", "|", "~", "<<", ">>":
		if a.K == lv.Str || b.K == lv.Str {
			// §3.4.2 speaks of converting operands "to integers", §3.4.3 of
			// string coercion for arithmetic; whether bitwise operators
			// accept numeric strings is left open (golua deliberately does not).
			return refnum.Res{Unspec: true}
		}
	}
	return refnum.Arith(op, a, b)
}

func opsChunk(a, b string) string {
	var sb strings.Builder
	sb.WriteString("local a, b = ...\nlocal function r(ok, v) if ok then emit(v) else emit('ERR') end end\n")
	for _, op := range binops {
		fmt.Fprintf(&sb, "r(pcall(function() return %s %s %s end))\n", a, op, b)
	}
	for _, op := range unops {
		fmt.Fprintf(&sb, "r(pcall(function() return %s %s end))\n", op, a)
	}
	return sb.String()
}

var argsChunk = opsChunk("a", "b")

func toRT(v lv.V) rt.Value {
	switch v.K {
	case lv.Int:
		return rt.IntValue(v.I)
	case lv.Float:
		return rt.FloatValue(v.F)
	case lv.Str:
		return rt.StringValue(v.S)
	case lv.Bool:
		return rt.BoolValue(v.B)
	case lv.Table:
		return rt.TableValue(rt.NewTable())
	}
	return rt.NilValue
}

func accept(got string, r refnum.Res) bool {
	if r.Unspec {
		return true
	}
	if r.Err {
		return got == `s:"ERR"`
	}
	if got == r.V.Canon() {
		return true
	}
	for _, a := range r.Alt {
		if got == a.Canon() {
			return true
		}
	}
	return false
}

func want(r refnum.Res) string {
	switch {
	case r.Unspec:
		return "<unspecified>"
	case r.Err:
		return "error"
	}
	s := r.V.Canon()
	for _, a := range r.Alt {
		s += " or " + a.Canon()
	}
	return s
}

func checkOps(via string, a, b lv.V, trace []string, status string) []*core.Violation {
	var vs []*core.Violation
	if status != "ok" || len(trace) != len(binops)+len(unops) {
		return []*core.Violation{{Key: fmt.Sprintf("ops via=%s x=%s y=%s run-failed", via, a, b),
			Detail: fmt.Sprintf("status=%s trace=%v", status, trace)}}
	}
	for i, op := range binops {
		r := refBin(op, a, b)
		if !accept(trace[i], r) {
			vs = append(vs, &core.Violation{Key: fmt.Sprintf("binop %s x=%s y=%s", op, a, b),
				Detail: fmt.Sprintf("via %s: %s %s %s: expected %s, observed %s", via, a, op, b, want(r), trace[i])})
		}
	}
	for i, op := range unops {
		r := refnum.Unary(op, a)
		if op == "~" && a.K == lv.Str {
			r = refnum.Res{Unspec: true}
		}
		if a.K == lv.Table || a.K == lv.Nil || a.K == lv.Bool {
			r = refnum.Res{Err: true}
		}
		if !accept(trace[len(binops)+i], r) {
			vs = append(vs, &core.Violation{Key: fmt.Sprintf("unop %s x=%s", op, a),
				Detail: fmt.Sprintf("via %s: %s %s: expected %s, observed %s", via, op, a, want(r), trace[len(binops)+i])})
		}
	}
	return vs
}

func out(vs []*core.Violation, sig string) core.Outcome {
	o := core.Outcome{NonTrivial: true, Sig: core.Hash64(sig)}
	if len(vs) > 0 {
		o.Viol = vs[0]
		o.Viols = vs[1:]
	}
	return o
}

// ---- Go API path

func goBin(op string, x, y rt.Value) (string, bool) {
	c := host.NewCanon()
	switch op {
	case "+":
		v, ok := rt.Add(x, y)
		return c.Value(v), ok
	case "-":
		v, ok := rt.Sub(x, y)
		return c.Value(v), ok
	case "*":
		v, ok := rt.Mul(x, y)
		return c.Value(v), ok
	case "/":
		v, ok := rt.Div(x, y)
		return c.Value(v), ok
	case "^":
		v, ok := rt.Pow(x, y)
		return c.Value(v), ok
	case "//":
		v, ok, err := rt.Idiv(x, y)
		if err != nil {
			return `s:"ERR"`, true
		}
		return c.Value(v), ok
	case "%":
		v, ok, err := rt.Mod(x, y)
		if err != nil {
			return `s:"ERR"`, true
		}
		return c.Value(v), ok
	case "==":
		eq, _ := rt.RawEqual(x, y) // second result only says whether raw equality was decisive
		return c.Value(rt.BoolValue(eq)), true
	}
	return "", false
}

// ---- shared machine for fast families

var (
	shOnce sync.Once
	shM    *host.Machine
)

func shared() *host.Machine {
	shOnce.Do(func() { shM = host.NewMachine(false) })
	shM.Trace = shM.Trace[:0]
	return shM
}

func global(m *host.Machine, path ...string) rt.Value {
	v := rt.TableValue(m.R.GlobalEnv())
	for _, p := range path {
		v = v.AsTable().Get(rt.StringValue(p))
	}
	return v
}

// ---- numeral strings

const numAlpha = "019fxep.+- "

var curated = []string{"127", "128", "129", "255", "256", "257", "32767", "32768", "32769", "65535", "65536", "65537", "0x7f", "0x80", "0xff", "0x100", "0x7fff", "0x8000", "0x8001", "0xffff", "0x10000",
	"2147483647", "2147483648", "4294967295", "4294967296", "0x7fffffff", "0x80000000", "0xffffffff", "0x100000000", "32768.0", "65536.0",
	"9223372036854775807", "9223372036854775808", "-9223372036854775808", "-9223372036854775809", "18446744073709551615", "18446744073709551616",
	"0xffffffffffffffff", "0x10000000000000000", "0x1ffffffffffffffff", "0x7fffffffffffffff", "0x8000000000000000", "0x", "0X1P4", "0x.8p1", "0x8.p1", "0x.p1", "0xp1",
	"1e", "1e+", "1e+5", "1E5", "+-5", "-+5", "- 5", "+ 5", "--5", "inf", "nan", "-inf", "infinity", "0x1p-1074", "0x1p-1075", "0x1.fffffffffffff8p1023", "0x1p1024", "1e308", "1e309", "1e-324", "2.5e-324",
	" 10", "10 ", "\t10\n", "\v10\f", "10\x00", "\x0010", "1\x002", "1_000", "1,5", "1..2", "1.2.3", ".", ".e1", "e1", "5.", ".5", "5.e1", "00010", "0x00A", "1e0009", "0e0", "-0", "-0.0", "+0",
	"1e1000000000000000000000", "1e-1000000000000000000000", "0x1p100000000000000000000", "0." + strings.Repeat("0", 400) + "1", strings.Repeat("9", 400), "1" + strings.Repeat("0", 30),
	"9007199254740993", "9007199254740993.0", "4.35", "0.1", "123456789012345678", "0x1.8", "0xA.8p0", "0xep1", "0xe+1", "1e+1", "0x1e+1", "0x1_0p0", "0x_1p0", "1_0.0", "0x1_0", "Inf", "+Inf", "Infinity", "NaN", "0x1.8P+1", "1e+_1", "３", "١", "1f", "1d", "0b1", "0o7", "1l", "1u"}

func nthString(i uint64, maxLen int) string {
	// all strings over numAlpha by length then lexicographic; i < total
	k := uint64(len(numAlpha))
	for l := 0; l <= maxLen; l++ {
		cnt := uint64(1)
		for j := 0; j < l; j++ {
			cnt *= k
		}
		if i < cnt {
			b := make([]byte, l)
			for j := l - 1; j >= 0; j-- {
				b[j] = numAlpha[i%k]
				i /= k
			}
			return string(b)
		}
		i -= cnt
	}
	return ""
}

func countStrings(maxLen int) uint64 {
	k := uint64(len(numAlpha))
	t, c := uint64(0), uint64(1)
	for l := 0; l <= maxLen; l++ {
		t += c
		c *= k
	}
	return t
}

// lexExtent is the extent of the numeral token the Lua lexer reads at the
// start of s (manual §3.1 as implemented by the reference lexer's maximal
// munch), or 0 if s does not start a numeral.
func lexExtent(s string) int {
	if len(s) == 0 {
		return 0
	}
	i := 0
	isd := func(c byte) bool { return c >= '0' && c <= '9' }
	isx := func(c byte) bool { return isd(c) || c >= 'a' && c <= 'f' || c >= 'A' && c <= 'F' }
	isal := func(c byte) bool { return c >= 'a' && c <= 'z' || c >= 'A' && c <= 'Z' || c == '_' }
	if !(isd(s[0]) || s[0] == '.' && len(s) > 1 && isd(s[1])) {
		return 0
	}
	expo := "eE"
	if s[0] == '0' && len(s) > 1 && (s[1] == 'x' || s[1] == 'X') {
		expo = "pP"
		i = 2
	}
	for i < len(s) {
		c := s[i]
		if strings.IndexByte(expo, c) >= 0 {
			i++
			if i < len(s) && (s[i] == '+' || s[i] == '-') {
				i++
			}
		} else if isx(c) || c == '.' {
			i++
		} else {
			break
		}
	}
	if i < len(s) && isal(s[i]) {
		i++
	}
	return i
}

func main() {
	core.Main(&core.Check{
		ID:    "C02",
		Level: "model_checking",
		Rule: "all binary/unary operators x all ordered pairs of the boundary lattice, evaluated through Lua with argument operands, Lua with literal operands and the exported Go functions; " +
			"every string up to the length bound over the numeral alphabet through tonumber, string arithmetic, the Go conversion and as a source literal; math functions over the lattice; tonumber(s,base) for all bases x short strings. " +
			"non-trivial = the reference determines the result; distinct = distinct observed result vectors",
		Assumptions: []string{
			"reference: refnum (math/big integers modulo 2^64, Go float64 for IEEE operations, big.Rat for exact mixed comparison, strconv.ParseFloat for correctly rounded decimal conversion)",
			"results the manual leaves open are skipped (inexact int->float operand conversion, inexact powers, string comparison collation)",
		},
		Families: families,
	})
}

func families(tier string) []*core.Family {
	L := numLattice(tier)
	LS := append(append([]lv.V{}, L...), strOperands...)
	n, ns := uint64(len(L)), uint64(len(LS))
	var fams []*core.Family

	fams = append(fams, &core.Family{Name: "ops-args", Size: ns * ns,
		Show: func(i uint64) string { return fmt.Sprintf("a=%s b=%s; all operators with operands passed as arguments", LS[i%ns], LS[i/ns]) },
		Run: func(i uint64) core.Outcome {
			a, b := LS[i%ns], LS[i/ns]
			m := host.NewMachine(false)
			defer m.Close()
			o := m.Exec("", argsChunk, []rt.Value{toRT(a), toRT(b)}, nil)
			return out(checkOps("args", a, b, o.Trace, o.Status), o.String())
		}})
	fams = append(fams, &core.Family{Name: "ops-literals", Size: n * n,
		Show: func(i uint64) string {
			la, _ := L[i%n].Literal()
			lb, _ := L[i/n].Literal()
			return fmt.Sprintf("all operators on literal operands %s , %s", la, lb)
		},
		Run: func(i uint64) core.Outcome {
			a, b := L[i%n], L[i/n]
			la, _ := a.Literal()
			lb, _ := b.Literal()
			o := host.Run(opsChunk(la, lb), host.Opts{})
			return out(checkOps("literals", a, b, o.Trace, o.Status), o.String())
		}})
	goOps := []string{"+", "-", "*", "/", "//", "%", "^", "=="}
	fams = append(fams, &core.Family{Name: "ops-goapi", Size: n * n,
		Show: func(i uint64) string { return fmt.Sprintf("runtime.Add/Sub/Mul/Div/Idiv/Mod/Pow/RawEqual(%s, %s)", L[i%n], L[i/n]) },
		Run: func(i uint64) core.Outcome {
			a, b := L[i%n], L[i/n]
			var vs []*core.Violation
			sig := ""
			for _, op := range goOps {
				got, ok := goBin(op, toRT(a), toRT(b))
				sig += got
				r := refBin(op, a, b)
				if !ok || !accept(got, r) {
					vs = append(vs, &core.Violation{Key: fmt.Sprintf("binop %s x=%s y=%s", op, a, b),
						Detail: fmt.Sprintf("via Go API: %s %s %s: expected %s, observed %s (ok=%v)", a, op, b, want(r), got, ok)})
				}
			}
			return out(vs, sig)
		}})

	// order laws on triples (through Lua comparisons, shared machine)
	fams = append(fams, &core.Family{Name: "order-laws", Size: n * n,
		Show: func(i uint64) string { return fmt.Sprintf("trichotomy/le/transitivity for x=%s y=%s and every z", L[i%n], L[i/n]) },
		Run: func(i uint64) core.Outcome {
			a, b := L[i%n], L[i/n]
			m := shared()
			lt := func(x, y lv.V) bool {
				r, err := rt.Lt(m.R.MainThread(), toRT(x), toRT(y))
				return err == nil && r
			}
			eq := func(x, y lv.V) bool { r, _ := rt.RawEqual(toRT(x), toRT(y)); return r }
			var vs []*core.Violation
			nan := func(v lv.V) bool { return v.K == lv.Float && v.F != v.F }
			if !nan(a) && !nan(b) {
				cnt := 0
				for _, t := range []bool{lt(a, b), eq(a, b), lt(b, a)} {
					if t {
						cnt++
					}
				}
				if cnt != 1 {
					vs = append(vs, &core.Violation{Key: fmt.Sprintf("trichotomy x=%s y=%s", a, b),
						Detail: fmt.Sprintf("lt=%v eq=%v gt=%v", lt(a, b), eq(a, b), lt(b, a))})
				}
				for _, c := range L {
					if nan(c) {
						continue
					}
					if lt(a, b) && lt(b, c) && !lt(a, c) {
						vs = append(vs, &core.Violation{Key: fmt.Sprintf("transitivity x=%s y=%s z=%s", a, b, c), Detail: "x<y and y<z but not x<z"})
					}
				}
			}
			return out(vs, fmt.Sprint(lt(a, b), eq(a, b)))
		}})

	// numeral strings
	maxLen := 5
	if tier == "thorough" {
		maxLen = 6
	}
	total := countStrings(maxLen)
	strAt := func(i uint64) string {
		if i < uint64(len(curated)) {
			return curated[i]
		}
		return nthString(i-uint64(len(curated)), maxLen)
	}
	const block = 64
	nstr := total + uint64(len(curated))
	fams = append(fams, &core.Family{Name: "tonumber-strings", Size: (nstr + block - 1) / block,
		Show: func(i uint64) string { return fmt.Sprintf("tonumber/string-arith/StringToNumber on strings %d..: %q ...", i*block, strAt(i*block)) },
		Run: func(i uint64) core.Outcome {
			m := shared()
			tonum := global(m, "tonumber")
			var vs []*core.Violation
			sig := ""
			for k := i * block; k < (i+1)*block && k < nstr; k++ {
				s := strAt(k)
				ref, ok := refnum.Str2Num(s)
				exp := "nil"
				if ok {
					exp = ref.Canon()
				}
				alt := ""
				if ok && ref.K == lv.Float && ref.F == -0x1p63 && strings.Contains(s, "9223372036854775808") && !strings.ContainsAny(s, ".eExX") {
					alt = lv.I(math.MinInt64).Canon() // sign applied before range check: both readings accepted
				}
				// (1) tonumber(s)
				m.Trace = m.Trace[:0]
				o := m.Call(tonum, []rt.Value{rt.StringValue(s)}, nil)
				got := "?"
				if o.Status == "ok" && len(o.Results) == 1 {
					got = o.Results[0]
				} else {
					got = o.Status + ":" + o.Err
				}
				sig += got
				if got != exp && got != alt {
					vs = append(vs, &core.Violation{Key: fmt.Sprintf("tonumber s=%q", s), Detail: fmt.Sprintf("tonumber(%q): expected %s, observed %s", s, exp, got)})
				}
				// (2) string arithmetic: s + 0 (integer stays integer), via runtime metamethod
				m.Trace = m.Trace[:0]
				add := m.R.RawMetatable(rt.StringValue("")).Get(rt.StringValue("__add"))
				o = m.Call(add, []rt.Value{rt.StringValue(s), rt.IntValue(0)}, nil)
				got2 := o.Status
				if o.Status == "ok" && len(o.Results) == 1 {
					got2 = o.Results[0]
				}
				exp2 := "err"
				var exp2b string
				if ok {
					r := refnum.Arith("+", ref, lv.I(0))
					exp2 = r.V.Canon()
					if alt != "" {
						exp2b = alt
					}
				}
				if got2 != exp2 && got2 != exp2b {
					vs = append(vs, &core.Violation{Key: fmt.Sprintf("string-arith s=%q", s), Detail: fmt.Sprintf("%q + 0: expected %s, observed %s", s, exp2, got2)})
				}
			}
			return out(vs, sig)
		}})

	// numerals as source literals (length <= 5 in both tiers + curated)
	litMax := 4
	if tier == "thorough" {
		litMax = 5
	}
	litTotal := countStrings(litMax) + uint64(len(curated))
	litAt := func(i uint64) string {
		if i < uint64(len(curated)) {
			return curated[i]
		}
		return nthString(i-uint64(len(curated)), litMax)
	}
	fams = append(fams, &core.Family{Name: "source-literals", Size: litTotal,
		Show: func(i uint64) string { return fmt.Sprintf("chunk: emit(%s)", litAt(i)) },
		Run: func(i uint64) core.Outcome {
			s := litAt(i)
			if s == "" || lexExtent(s) != len(s) || strings.ContainsAny(s, "\x00") {
				return core.Outcome{Skipped: true}
			}
			ref, ok := refnum.Numeral(s)
			m := shared()
			m.Trace = m.Trace[:0]
			o := m.Exec("", "emit("+s+")", nil, nil)
			var vs []*core.Violation
			if ok {
				if o.Status != "ok" || len(o.Trace) != 1 || o.Trace[0] != ref.Canon() {
					vs = append(vs, &core.Violation{Key: fmt.Sprintf("literal s=%q", s), Detail: fmt.Sprintf("source numeral %s: expected %s, observed %s", s, ref.Canon(), o)})
				}
			} else if strings.Contains(s, "..") {
				// ".0..0" can also be read as .0 .. 0; the manual does not impose the reference lexer's maximal munch
			} else if o.Status != "compile" {
				vs = append(vs, &core.Violation{Key: fmt.Sprintf("literal s=%q accepted", s), Detail: fmt.Sprintf("malformed numeral %s must be a syntax error, observed %s", s, o)})
			}
			return out(vs, o.String())
		}})

	// tonumber with base
	baseAlpha := "017 9azZ-."
	var bstr []string
	for l := 0; l <= 3; l++ {
		cnt := 1
		for j := 0; j < l; j++ {
			cnt *= len(baseAlpha)
		}
		for x := 0; x < cnt; x++ {
			b := make([]byte, l)
			y := x
			for j := l - 1; j >= 0; j-- {
				b[j] = baseAlpha[y%len(baseAlpha)]
				y /= len(baseAlpha)
			}
			bstr = append(bstr, string(b))
		}
	}
	bstr = append(bstr, "7fffffffffffffff", "ffffffffffffffff", "10000000000000000", "zzzzzzzzzzzzzz", "-8000000000000000", " -1 ", "- 1", "+1", "1\x00", "1e1")
	nb := uint64(len(bstr))
	fams = append(fams, &core.Family{Name: "tonumber-base", Size: 35 * nb,
		Show: func(i uint64) string { return fmt.Sprintf("tonumber(%q, %d)", bstr[i%nb], 2+i/nb) },
		Run: func(i uint64) core.Outcome {
			s, base := bstr[i%nb], int(2+i/nb)
			m := shared()
			o := m.Call(global(m, "tonumber"), []rt.Value{rt.StringValue(s), rt.IntValue(int64(base))}, nil)
			if t := strings.TrimLeft(s, " \t\n\v\f\r"); t != "" && (t[0] == '-' || t[0] == '+') {
				return core.Outcome{Skipped: true} // the 5.4 manual does not say whether a sign is accepted with a base
			}
			ref, ok := refnum.ToNumberBase(s, base)
			exp := "nil"
			if ok {
				exp = ref.Canon()
			}
			got := o.Status
			if o.Status == "ok" && len(o.Results) == 1 {
				got = o.Results[0]
			}
			var vs []*core.Violation
			if got != exp {
				vs = append(vs, &core.Violation{Key: fmt.Sprintf("tonumber-base s=%q base=%d", s, base), Detail: fmt.Sprintf("expected %s, observed %s %s", exp, got, o.Err)})
			}
			return out(vs, got)
		}})

	// math functions
	fams = append(fams, &core.Family{Name: "math-unary", Size: ns,
		Show: func(i uint64) string { return fmt.Sprintf("math.abs/floor/ceil/modf/tointeger/type(%s)", LS[i]) },
		Run: func(i uint64) core.Outcome {
			x := LS[i]
			m := shared()
			var vs []*core.Violation
			sig := ""
			for _, fn := range []string{"abs", "floor", "ceil", "modf", "tointeger", "type"} {
				o := m.Call(global(m, "math", fn), []rt.Value{toRT(x)}, nil)
				sig += o.String()
				if msg := checkMath1(fn, x, o); msg != "" {
					vs = append(vs, &core.Violation{Key: fmt.Sprintf("math.%s x=%s", fn, x), Detail: msg})
				}
			}
			return out(vs, sig)
		}})
	fams = append(fams, &core.Family{Name: "math-binary", Size: n * n,
		Show: func(i uint64) string { return fmt.Sprintf("math.fmod/ult/max/min(%s, %s)", L[i%n], L[i/n]) },
		Run: func(i uint64) core.Outcome {
			a, b := L[i%n], L[i/n]
			m := shared()
			var vs []*core.Violation
			sig := ""
			for _, fn := range []string{"fmod", "ult", "max", "min"} {
				o := m.Call(global(m, "math", fn), []rt.Value{toRT(a), toRT(b)}, nil)
				sig += o.String()
				if msg := checkMath2(fn, a, b, o); msg != "" {
					vs = append(vs, &core.Violation{Key: fmt.Sprintf("math.%s x=%s y=%s", fn, a, b), Detail: msg})
				}
			}
			return out(vs, sig)
		}})
	return fams
}

// numEq: got (canonical) denotes the same mathematical number as v
func numEq(got string, v lv.V) bool {
	if got == v.Canon() {
		return true
	}
	var g lv.V
	switch {
	case strings.HasPrefix(got, "i:"):
		var n int64
		fmt.Sscan(got[2:], &n)
		g = lv.I(n)
	case strings.HasPrefix(got, "f:"):
		switch got {
		case "f:nan", "f:inf", "f:-inf":
			return false
		case "f:-0":
			g = lv.F(math.Copysign(0, -1))
		default:
			var f float64
			fmt.Sscan(got[2:], &f)
			g = lv.F(f)
		}
	default:
		return false
	}
	if v.K == lv.Float && (v.F != v.F || math.IsInf(v.F, 0)) {
		return false
	}
	return refnum.Cmp(g, v) == 0
}

func checkMath1(fn string, x lv.V, o host.Obs) string {
	res := func(k int) string {
		if o.Status == "ok" && len(o.Results) > k {
			return o.Results[k]
		}
		return o.Status
	}
	bad := func(exp string) string {
		return fmt.Sprintf("math.%s(%s): expected %s, observed %s", fn, x, exp, o)
	}
	if fn == "type" {
		exp := "nil"
		switch x.K {
		case lv.Int:
			exp = `s:"integer"`
		case lv.Float:
			exp = `s:"float"`
		}
		if res(0) != exp {
			return bad(exp)
		}
		return ""
	}
	if fn == "tointeger" {
		switch x.K {
		case lv.Str:
			return "" // unspecified across 5.4 point releases
		case lv.Int:
			if res(0) != x.Canon() {
				return bad(x.Canon())
			}
		case lv.Float:
			exp := "nil"
			if n, ok := refnum.FloatToInt(x.F); ok {
				exp = lv.I(n).Canon()
			}
			if res(0) != exp {
				return bad(exp)
			}
		default:
			if res(0) != "nil" && o.Status != "err" {
				return bad("fail")
			}
		}
		return ""
	}
	num, isnum := refnum.ToNumber(x)
	if x.K == lv.Str {
		return "" // library argument coercion of strings: not part of this check
	}
	if !isnum {
		if o.Status != "err" {
			return bad("error")
		}
		return ""
	}
	switch fn {
	case "abs":
		var exp lv.V
		if num.K == lv.Int {
			exp = num
			if num.I < 0 {
				exp = lv.I(-num.I)
			}
		} else {
			exp = lv.F(math.Abs(num.F))
		}
		if res(0) != exp.Canon() {
			return bad(exp.Canon())
		}
	case "floor", "ceil":
		if num.K == lv.Int {
			if res(0) != num.Canon() {
				return bad(num.Canon())
			}
			return ""
		}
		f := math.Floor(num.F)
		if fn == "ceil" {
			f = math.Ceil(num.F)
		}
		if f != f || math.IsInf(f, 0) {
			if res(0) != lv.F(f).Canon() {
				return bad(lv.F(f).Canon())
			}
			return ""
		}
		// "returns the largest integral value <= x": integer if representable
		if n, ok := refnum.FloatToInt(f); ok {
			if res(0) != lv.I(n).Canon() {
				return bad(lv.I(n).Canon())
			}
		} else if !numEq(res(0), lv.F(f)) {
			return bad(lv.F(f).Canon())
		}
	case "modf":
		if o.Status != "ok" || len(o.Results) != 2 {
			return bad("two results")
		}
		var ip, fp float64
		if num.K == lv.Int {
			if !numEq(res(0), num) || res(1) != "f:0" {
				return bad(num.Canon() + ", f:0")
			}
			return ""
		}
		switch {
		case math.IsInf(num.F, 0):
			ip, fp = num.F, 0
		case num.F != num.F:
			if res(0) != "f:nan" || res(1) != "f:nan" {
				return bad("nan, nan")
			}
			return ""
		default:
			ip = math.Trunc(num.F)
			fp = num.F - ip
		}
		okI := numEq(res(0), lv.F(ip)) || res(0) == lv.F(ip).Canon()
		okF := res(1) == lv.F(fp).Canon() || (fp == 0 && (res(1) == "f:0" || res(1) == "f:-0"))
		if !okI || !okF {
			return bad(fmt.Sprintf("%s, %s", lv.F(ip).Canon(), lv.F(fp).Canon()))
		}
	}
	return ""
}

func checkMath2(fn string, a, b lv.V, o host.Obs) string {
	res := func(k int) string {
		if o.Status == "ok" && len(o.Results) > k {
			return o.Results[k]
		}
		return o.Status
	}
	bad := func(exp string) string {
		return fmt.Sprintf("math.%s(%s, %s): expected %s, observed %s", fn, a, b, exp, o)
	}
	nan := func(v lv.V) bool { return v.K == lv.Float && v.F != v.F }
	switch fn {
	case "fmod":
		if a.K == lv.Int && b.K == lv.Int {
			if b.I == 0 {
				if o.Status != "err" {
					return bad("error")
				}
				return ""
			}
			var r int64
			if b.I == -1 {
				r = 0
			} else {
				r = a.I % b.I
			}
			if res(0) != lv.I(r).Canon() {
				return bad(lv.I(r).Canon())
			}
			return ""
		}
		fa, ok1 := exactF(a)
		fb, ok2 := exactF(b)
		if !ok1 || !ok2 {
			return ""
		}
		r := math.Mod(fa, fb)
		if res(0) != lv.F(r).Canon() {
			return bad(lv.F(r).Canon())
		}
	case "ult":
		ia, ok1 := refnum.ToInteger(a)
		ib, ok2 := refnum.ToInteger(b)
		if !ok1 || !ok2 {
			if o.Status != "err" {
				return bad("error")
			}
			return ""
		}
		exp := fmt.Sprint(uint64(ia) < uint64(ib))
		if res(0) != exp {
			return bad(exp)
		}
	case "max", "min":
		if nan(a) || nan(b) {
			return ""
		}
		c := refnum.Cmp(a, b)
		w := a
		if fn == "max" && c < 0 || fn == "min" && c > 0 {
			w = b
		}
		if c == 0 {
			if res(0) != a.Canon() && res(0) != b.Canon() {
				return bad(a.Canon() + " or " + b.Canon())
			}
			return ""
		}
		if res(0) != w.Canon() {
			return bad(w.Canon())
		}
	}
	return ""
}

func exactF(v lv.V) (float64, bool) {
	if v.K == lv.Float {
		return v.F, true
	}
	f := float64(v.I)
	if f >= 0x1p63 {
		return f, false
	}
	return f, int64(f) == v.I
}
