-- Action-tape harness: every coroutine body and the main chunk run the same
-- loop; the host function choose() hands out the next action of the history.
local co, started, called, created = {}, {}, {}, {}
local loop
local function mkbody(X)
  return function(...)
    started[X] = coroutine.running()
    emit("start", X, ...)
    return loop(X)
  end
end
local function st(X)
  local c = co[X]
  if c == nil then return "none" end
  if type(c) == "thread" then return coroutine.status(c) end
  local th = started[X]
  if th == nil then
    -- a wrapped coroutine that was called but never reached its body: a quota
    -- kill struck either just before the call (it is still unstarted) or in
    -- its very first step (it is dead); the program cannot tell
    if called[X] then return "unstarted-or-dead" end
    return "unstarted"
  end
  return coroutine.status(th)
end
function FINAL()
  emit("final", st("A"), st("B"), st("C"))
  local n, lost = 0, 0
  for _, X in ipairs{"A", "B", "C"} do
    local s = st(X)
    if s == "unstarted-or-dead" then lost = lost + 1
    elseif s ~= "none" and s ~= "dead" then n = n + 1 end
    -- a create/wrap action that was interrupted by a quota kill before the
    -- program got hold of the coroutine: the program lost it
    if s == "none" and created[X] then lost = lost + 1 end
  end
  return n, lost
end
loop = function(me)
  while true do
    local op, X, v = choose(me)
    if op == "stop" then
      return "stop"
    elseif op == "create" then
      created[X] = true
      co[X] = coroutine.create(mkbody(X))
    elseif op == "wrap" then
      created[X] = true
      co[X] = coroutine.wrap(mkbody(X))
    elseif op == "resume" then
      emit("resume", me, X, coroutine.resume(co[X], v, v + 1))
    elseif op == "call" then
      called[X] = true
      emit("call", me, X, co[X](v, v + 1))
    elseif op == "pcallcall" then
      called[X] = true
      emit("pcallcall", me, X, pcall(co[X], v))
    elseif op == "yield" then
      emit("yield", me, coroutine.yield(v, v + 1))
    elseif op == "return" then
      return v, v + 1
    elseif op == "error" then
      error("E" .. v, 0)
    elseif op == "errort" then
      error({v})
    elseif op == "close" then
      emit("close", me, X, pcall(coroutine.close, co[X]))
    elseif op == "status" then
      emit("status", me, st("A"), st("B"), st("C"))
    elseif op == "info" then
      emit("info", me, coroutine.isyieldable(), (select(2, coroutine.running())))
    elseif op == "tbc" then
      local x <close> = setmetatable({}, {__close = function(_, e) emit("closing", me, v, e) end})
      local r = table.pack(loop(me))
      emit("tbc-exit", me, v)
      return table.unpack(r, 1, r.n)
    elseif op == "tbcres" then
      -- a __close handler that itself runs another action when it fires
      local x <close> = setmetatable({}, {__close = function(_, e) emit("closing2", me, v, e); HANDLER(me) end})
      local r = table.pack(loop(me))
      emit("tbc2-exit", me, v)
      return table.unpack(r, 1, r.n)
    elseif op == "pcall" then
      emit("pcall", me, pcall(loop, me))
    elseif op == "ctx" then
      local c = runtime.callcontext({kill = {cpu = 400}}, loop, me)
      emit("ctx", me, c.status)
    elseif op == "ctxm" then
      local c = runtime.callcontext({kill = {memory = 20000}}, loop, me)
      emit("ctxm", me, c.status)
    elseif op == "spin" then
      while true do end
    end
  end
end
function HANDLER(me)
  -- one more action consumed inside a __close handler
  local op, X, v = choose(me)
  if op == "resume" then
    emit("h-resume", me, X, coroutine.resume(co[X], v))
  elseif op == "status" then
    emit("h-status", me, st("A"), st("B"), st("C"))
  elseif op == "yield" then
    emit("h-yield", me, pcall(coroutine.yield, v))
  elseif op == "close" then
    emit("h-close", me, X, pcall(coroutine.close, co[X]))
  else
    emit("h-other", me, op)
  end
end
return loop("M")
