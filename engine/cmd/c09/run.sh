#!/bin/bash
set -u
HERE="$(cd "$(dirname "$0")" && pwd)"
ROOT="$(cd "$HERE/../../.." && pwd)"
export VERIF_ROOT="$ROOT"
"$HERE/build.sh" || exit 2
args=()
while [ $# -gt 0 ]; do
  case "$1" in
    --tier) args+=(-tier "$2"); shift 2;;
    --replay) args+=(-replay "$2"); shift 2;;
    *) args+=("$1"); shift;;
  esac
done
# Thorough tier: separate free-running pass under the Go race detector (same
# harness bodies, real goroutines; supplementary to the exhaustive monitor).
rm -f "$ROOT/.bin/c09.racepass.json"
case " ${args[*]} " in
  *" -tier thorough "*)
    export GOFLAGS=-mod=mod GOPROXY=off GOSUMDB=off GOTOOLCHAIN=local
    export GOCACHE="${GOCACHE:-$ROOT/.cache/go-build}"
    if (cd "$ROOT/engine" && go build -race -overlay "$ROOT/.bin/ov-c09/overlay.json" -tags "verif vsched" -ldflags=-checklinkname=0 -o "$ROOT/.bin/c09-race" ./cmd/c09 2>"$ROOT/.bin/c09-race.build.log"); then
      out="$ROOT/.bin/c09.racepass.out"; : > "$out"
      rc=0
      for p in 1 2 16; do
        C09_FREERACE=3 GOMAXPROCS=$p "$ROOT/.bin/c09-race" >>"$out" 2>&1 || rc=$?
      done
      if grep -q "DATA RACE\|FREE-RUN-DIFFERS" "$out" || [ $rc -ne 0 ]; then
        mkdir -p "$ROOT/replays/C09"; cp "$out" "$ROOT/replays/C09/racepass.txt"
        echo "free-running race pass reported a problem (exit $rc); see replays/C09/racepass.txt"
        echo "VIOLATION property=C09 replay=$ROOT/replays/C09/racepass.txt"
        exit 1
      fi
      grep '^{' "$out" | python3 -c 'import sys,json; rows=[json.loads(l) for l in sys.stdin]; json.dump({"race_detector_reports":0,"passes":rows}, open(sys.argv[1],"w"))' "$ROOT/.bin/c09.racepass.json"
    else
      echo "note: -race build failed; race pass skipped (see .bin/c09-race.build.log)" >&2
    fi;;
esac
BIN="$ROOT/.bin/c09"; [ -n "${VERIF_REPO:-}" ] && BIN="$ROOT/.bin/alt/c09"
exec "$BIN" "${args[@]}"
