//go:build vsched

// C09: coroutines.  Every history (sequence of coroutine actions up to a depth
// bound, consumed by whichever coroutine is running) is executed on the real
// runtime with thread.go's mutexes, channels and go statements routed through
// the vsched cooperative scheduler (generated overlay), under EVERY schedule
// with at most `bound` preemptions.
package main

import (
	_ "embed"
	"encoding/json"
	"fmt"
	"os"
	"regexp"
	"runtime"
	"strings"

	"github.com/arnodel/golua/code"
	"github.com/arnodel/golua/lib"
	"github.com/arnodel/golua/lib/base"
	"github.com/arnodel/golua/lib/coroutine"
	"github.com/arnodel/golua/lib/packagelib"
	"github.com/arnodel/golua/lib/runtimelib"
	"github.com/arnodel/golua/lib/tablelib"
	rt "github.com/arnodel/golua/runtime"
	"github.com/arnodel/golua/vsched"

	"verif/engine/core"
	"verif/engine/explore"
	"verif/engine/host"
)

//go:embed script.lua
var script []byte

type action struct {
	Op string
	X  string
}

func (a action) String() string {
	if a.X != "" {
		return a.Op + a.X
	}
	return a.Op
}

// focusAlphabet: one coroutine, the actions around protected calls,
// to-be-closed variables, yield and close (deeper histories are affordable).
func focusAlphabet() []action {
	return []action{{Op: "yield"}, {Op: "return"}, {Op: "error"}, {Op: "tbc"}, {Op: "pcall"}, {Op: "tbcres"}, {Op: "status"},
		{"create", "A"}, {"resume", "A"}, {"close", "A"}, {"wrap", "A"}, {"call", "A"}}
}

func alphabet(names []string) []action {
	if len(names) == 1 && names[0] == "focus" {
		return focusAlphabet()
	}
	var al []action
	for _, op := range []string{"yield", "return", "status", "error", "tbc", "pcall", "errort", "info", "tbcres", "ctx", "ctxm", "spin"} {
		al = append(al, action{Op: op})
	}
	for _, op := range []string{"create", "resume", "close", "wrap", "call", "pcallcall"} {
		for _, x := range names {
			al = append(al, action{op, x})
		}
	}
	return al
}

var unit *code.Unit

func compileOnce() {
	if unit != nil {
		return
	}
	r := rt.New(nil)
	runtime.SetFinalizer(r, nil)
	u, _, err := r.CompileLuaChunk("c09", script)
	if err != nil {
		fmt.Fprintln(os.Stderr, "c09: script does not compile:", err)
		os.Exit(2)
	}
	unit = u
}

type result struct {
	invariant []string // violated end-state invariants
	obs       string
	rep       vsched.Report
	invalid   bool // an action was not applicable / the tape was not consumed
	consumed  int
}

const allFlags = rt.ComplyCpuSafe | rt.ComplyMemSafe | rt.ComplyIoSafe | rt.ComplyTimeSafe

// runHistory executes history h (actions) once under the given tape.
func runHistory(h []action, tape vsched.Tape) (res result) {
	var trace []string
	canon := host.NewCanon()
	kind := map[string]string{}
	pos := 0
	invalid := false
	var outcome string
	var invariant []string
	var expectParked int64 = -1
	// create/wrap actions interrupted by a quota kill before the program got
	// hold of the coroutine: such a coroutine is unreachable and never
	// started, its goroutine may already exist and then stays parked (it has
	// not finished, failed or been closed: outside the property)
	var lostCreations int64
	// A coroutine that yields out of a callcontext leaves that context pushed
	// (the known finding recorded for C05/C06): the context-depth invariant is
	// only checked for histories without ctx/ctxm actions.
	ctxLeakExpected := false
	for _, a := range h {
		if a.Op == "ctx" || a.Op == "ctxm" {
			ctxLeakExpected = true
		}
	}
	body := func() {
		r := rt.New(nil)
		runtime.SetFinalizer(r, nil)
		cleanup := lib.LoadLibs(r, base.LibLoader, packagelib.LibLoader, coroutine.LibLoader, tablelib.LibLoader, runtimelib.LibLoader)
		env := r.GlobalEnv()
		emit := r.SetEnvGoFunc(env, "emit", func(t *rt.Thread, c *rt.GoCont) (rt.Cont, error) {
			trace = append(trace, strings.Join(canon.Values(c.Etc()), ","))
			return c.Next(), nil
		}, 0, true)
		choose := r.SetEnvGoFunc(env, "choose", func(t *rt.Thread, c *rt.GoCont) (rt.Cont, error) {
			next := c.Next()
			stop := func() (rt.Cont, error) {
				t.Push1(next, rt.StringValue("stop"))
				return next, nil
			}
			if pos >= len(h) || invalid {
				return stop()
			}
			me, _ := c.Arg(0).TryString()
			inHandler := c.NArgs() > 1
			a := h[pos]
			ok := true
			switch a.Op {
			case "create", "wrap":
				ok = kind[a.X] == "" && !inHandler
				// canonical naming: A before B before C
				if a.X == "B" && kind["A"] == "" || a.X == "C" && kind["B"] == "" {
					ok = false
				}
				if ok {
					kind[a.X] = a.Op
				}
			case "resume", "close":
				ok = kind[a.X] == "create"
			case "call", "pcallcall":
				ok = kind[a.X] == "wrap" && !inHandler
			case "spin":
				ok = t.RuntimeContext().HardLimits().Cpu > 0 && !inHandler
			case "status", "yield":
			default:
				ok = !inHandler
			}
			_ = me
			if !ok {
				invalid = true
				return stop()
			}
			pos++
			t.Push1(next, rt.StringValue(a.Op))
			t.Push1(next, rt.StringValue(a.X))
			t.Push1(next, rt.IntValue(int64(pos*10)))
			return next, nil
		}, 1, true)
		rt.SolemnlyDeclareCompliance(allFlags, emit, choose)
		clos := r.LoadLuaUnit(unit, rt.TableValue(env))
		term := rt.NewTerminationWith(nil, 0, true)
		// The host calls the chunk the way pcall does (a plain rt.Call is an
		// unprotected call: on error it does not unwind to-be-closed variables).
		_, err := r.MainThread().CallContext(rt.RuntimeContextDef{}, func() error {
			return rt.Call(r.MainThread(), rt.FunctionValue(clos), nil, term)
		})
		if err != nil {
			outcome = "err " + canon.Value(rt.ErrorValue(err))
		} else {
			outcome = "ok " + strings.Join(canon.Values(term.Etc()), ",")
		}
		// final statuses
		fin := env.Get(rt.StringValue("FINAL"))
		term2 := rt.NewTerminationWith(nil, 2, false)
		if err := rt.Call(r.MainThread(), fin, nil, term2); err != nil {
			outcome += " FINAL-failed " + err.Error()
		} else if n, ok := term2.Get(0).TryInt(); ok {
			expectParked = n
			lostCreations, _ = term2.Get(1).TryInt()
		}
		// End-state invariants of the main thread and the runtime: nothing
		// may leak from one call into the next.
		if d := r.MainThread().VerifGoFunctionCallDepth(); d != 0 {
			invariant = append(invariant, fmt.Sprintf("go-call-depth (=%d after the call returned)", d))
		}
		if d := r.MainThread().VerifReentrantCallDepth(); d != 0 {
			invariant = append(invariant, fmt.Sprintf("reentrant-call-depth (=%d after the call returned)", d))
		}
		if d := r.MainThread().VerifCloseStackSize(); d != 0 {
			invariant = append(invariant, fmt.Sprintf("close-stack (=%d after the call returned)", d))
		}
		// A coroutine that is suspended inside a protected call or a
		// callcontext leaves that context pushed (the context stack belongs to
		// the runtime, not to the coroutine: the finding recorded for C05/C06):
		// the context stack must be balanced once no coroutine is suspended.
		if d := r.VerifContextDepth(); d != 0 && !ctxLeakExpected && expectParked == 0 {
			invariant = append(invariant, fmt.Sprintf("context-depth (=%d after the call returned, no coroutine suspended)", d))
		}
		r.Close(nil)
		if cleanup != nil {
			cleanup()
		}
	}
	if tape == nil {
		body() // free running: vsched falls back to the real primitives
	} else {
		res.rep = vsched.Run(tape, 20000, body)
	}
	res.invalid = invalid || pos < len(h)
	res.consumed = pos
	res.invariant = invariant
	res.obs = fmt.Sprintf("%s | %s | live=%d", strings.Join(trace, " ; "), outcome, expectParked)
	if res.rep.Deadlock == "" && len(res.rep.Panics) == 0 && !res.rep.Horizon && expectParked >= 0 && (int64(res.rep.ParkedEnd) < expectParked || int64(res.rep.ParkedEnd) > expectParked+lostCreations) {
		res.obs += fmt.Sprintf(" LEAK(parked goroutines=%d, live coroutines=%d: %s)", res.rep.ParkedEnd, expectParked, strings.Join(res.rep.ParkedWhat, ","))
	}
	return
}

func coName(names []string) string {
	if len(names) == 1 && names[0] == "focus" {
		return "focus"
	}
	return fmt.Sprintf("co%d", len(names))
}

func histString(h []action) string {
	s := make([]string, len(h))
	for i, a := range h {
		s[i] = a.String()
	}
	return strings.Join(s, " ")
}

type cfg struct {
	names    []string
	depth    int
	bound    int
	prefix   int
	maxExec  uint64 // per history
	schedAll bool
}

// exploreHistory runs all schedules of one valid history; returns violations.
func exploreHistory(h []action, c cfg, o *core.Outcome) {
	hs := histString(h)
	var base *result
	var st explore.Stats
	seen := map[string]bool{}
	addV := func(clause, detail string) {
		key := fmt.Sprintf("hist=[%s] clause=%s", hs, clause)
		if seen[key] {
			return
		}
		seen[key] = true
		o.Viols = append(o.Viols, &core.Violation{Key: key, Detail: detail})
	}
	explore.Run(c.bound, c.maxExec, &st, func(t *explore.Tape) bool {
		r := runHistory(h, t)
		sched := fmt.Sprint(t.Choices())
		if t.Diverged != "" || r.rep.TapeError != "" {
			addV("replay-divergence", fmt.Sprintf("schedule %s: %s %s (nondeterminism not owned by the scheduler)", sched, t.Diverged, r.rep.TapeError))
			return false
		}
		if base == nil {
			base = &r
		}
		for _, p := range r.rep.Panics {
			addV("go-panic "+stripG(p), fmt.Sprintf("schedule %s: Go panic in a managed goroutine: %s\nobs: %s", sched, p, r.obs))
		}
		if r.rep.Deadlock != "" {
			addV("deadlock", fmt.Sprintf("schedule %s: deadlock, blocked: %s\nobs: %s", sched, r.rep.Deadlock, r.obs))
		}
		if r.rep.Horizon {
			addV("horizon", fmt.Sprintf("schedule %s: execution did not finish within the point budget", sched))
		}
		for _, rc := range r.rep.Races {
			addV("race "+rc, fmt.Sprintf("schedule %s: unordered conflicting accesses (no happens-before): %s", sched, rc))
		}
		if len(r.rep.Panics) == 0 && r.rep.Deadlock == "" && !r.rep.Horizon {
			for _, iv := range r.invariant {
				addV("end-state-invariant:"+strings.Fields(iv)[0], fmt.Sprintf("schedule %s: %s\nobs: %s", sched, iv, r.obs))
			}
			if strings.Contains(r.obs, " LEAK(") {
				addV("goroutine-leak", fmt.Sprintf("schedule %s: %s", sched, r.obs))
			}
			if r.obs != base.obs {
				addV("schedule-dependent-outcome", fmt.Sprintf("schedule %s gives\n  %s\nthe default schedule gives\n  %s", sched, r.obs, base.obs))
			}
		}
		return true
	})
	o.Trans += st.Executions
	o.States++
	if base != nil {
		o.Sig ^= core.Hash64(base.obs)
	}
}

func stripG(p string) string {
	// "g3: msg @origin" -> "msg @origin"
	if k := strings.Index(p, ": "); k >= 0 && strings.HasPrefix(p, "g") {
		return p[k+2:]
	}
	return p
}

type zeroTape struct{}

func (zeroTape) Choose(en []int, re bool, l string) int { return 0 }

func families(tier string) []*core.Family {
	compileOnce()
	rt.VerifSetFinalizerSeam(func(obj interface{}, fin interface{}) {})
	type fc struct {
		c      cfg
		budget int
	}
	var fcs []fc
	if tier == "thorough" {
		fcs = []fc{
			{cfg{names: []string{"A", "B"}, depth: 4, bound: 3, prefix: 2, maxExec: 50000}, 480},
			{cfg{names: []string{"A", "B", "C"}, depth: 5, bound: 1, prefix: 2, maxExec: 50000}, 480},
			{cfg{names: []string{"A", "B", "C"}, depth: 6, bound: 0, prefix: 3, maxExec: 50000}, 240},
			{cfg{names: []string{"focus"}, depth: 7, bound: 1, prefix: 2, maxExec: 50000}, 300},
		}
	} else {
		fcs = []fc{
			{cfg{names: []string{"A", "B"}, depth: 3, bound: 2, prefix: 2, maxExec: 20000}, 100},
			{cfg{names: []string{"A", "B"}, depth: 4, bound: 1, prefix: 2, maxExec: 20000}, 150},
			{cfg{names: []string{"focus"}, depth: 6, bound: 0, prefix: 2, maxExec: 20000}, 150},
		}
	}
	var out []*core.Family
	for _, f := range fcs {
		out = append(out, family(f.c, f.budget))
	}
	if tier == "thorough" {
		out = append(out, refFamily([]string{"A", "B", "C"}, 7, 3, 480))
		out = append(out, refFamily([]string{"focus"}, 9, 2, 300))
	} else {
		out = append(out, refFamily([]string{"A", "B"}, 5, 2, 120))
		out = append(out, refFamily([]string{"focus"}, 7, 2, 150))
	}
	return out
}

func family(c cfg, budget int) *core.Family {
	al := alphabet(c.names)
	n := uint64(len(al))
	size := uint64(1)
	for i := 0; i < c.prefix; i++ {
		size *= n
	}
	decode := func(i uint64) []action {
		h := make([]action, c.prefix)
		for k := c.prefix - 1; k >= 0; k-- {
			h[k] = al[i%n]
			i /= n
		}
		return h
	}
	return &core.Family{
		Name:          fmt.Sprintf("sched-depth%d-bound%d-%s", c.depth, c.bound, coName(c.names)),
		Size:          size,
		HangSeconds:   budget + 900, // a case is a whole sub-search: it stops itself when the budget expires
		BudgetSeconds: budget,
		Show: func(i uint64) string {
			return "histories starting with [" + histString(decode(i)) + "], all extensions to the depth bound, all schedules within the preemption bound"
		},
		Run: func(i uint64) core.Outcome {
			var o core.Outcome
			var dfs func(h []action)
			dfs = func(h []action) {
				if core.Expired() {
					o.Partial = true
					return
				}
				r := runHistory(h, zeroTape{})
				if r.rep.Deadlock != "" || len(r.rep.Panics) > 0 || r.rep.Horizon {
					// the default schedule already fails: report, do not extend
					exploreHistory(h, c, &o)
					return
				}
				if r.invalid {
					return
				}
				exploreHistory(h, c, &o)
				if len(h) >= c.depth {
					return
				}
				for _, a := range al {
					dfs(append(append([]action{}, h...), a))
				}
			}
			// histories shorter than the prefix length are done in case 0
			if i == 0 {
				var short func(h []action)
				short = func(h []action) {
					if len(h) > 0 {
						r := runHistory(h, zeroTape{})
						bad := r.rep.Deadlock != "" || len(r.rep.Panics) > 0 || r.rep.Horizon
						if r.invalid && !bad {
							return
						}
						exploreHistory(h, c, &o)
						if bad {
							return
						}
					}
					if len(h)+1 < c.prefix {
						for _, a := range al {
							short(append(append([]action{}, h...), a))
						}
					}
				}
				short(nil)
				o.NonTrivial = o.States > 0
			}
			// every proper prefix of the start must itself be valid (and fine)
			start := decode(i)
			for k := 1; k < len(start); k++ {
				r := runHistory(start[:k], zeroTape{})
				if r.invalid || r.rep.Deadlock != "" || len(r.rep.Panics) > 0 || r.rep.Horizon {
					o.Skipped = i != 0
					return o
				}
			}
			dfs(start)
			o.NonTrivial = o.States > 0
			if o.States == 0 && i != 0 {
				o.Skipped = true
			}
			return o
		},
	}
}

var strRe = regexp.MustCompile(`s:"((?:[^"\\]|\\.)*)"`)
var scriptStrings = map[string]bool{"start": true, "resume": true, "call": true, "pcallcall": true, "yield": true, "close": true,
	"status": true, "info": true, "closing": true, "closing2": true, "tbc-exit": true, "tbc2-exit": true, "pcall": true, "ctx": true, "ctxm": true,
	"h-resume": true, "h-status": true, "h-yield": true, "h-close": true, "h-other": true, "final": true, "stop": true,
	"A": true, "B": true, "C": true, "M": true, "none": true, "unstarted": true, "unstarted-or-dead": true, "suspended": true, "running": true, "normal": true, "dead": true,
	"create": true, "wrap": true, "return": true, "error": true, "errort": true, "tbc": true, "tbcres": true, "spin": true}
var errRe = regexp.MustCompile(`^(?:[^:"]+:\d+: )?(E\d+)$`)

// normObs masks what the manual leaves open: the text of implementation
// generated error messages, and an optional position prefix on a string error
// propagated through coroutine.wrap.
func normObs(o string) string {
	return strRe.ReplaceAllStringFunc(o, func(m string) string {
		inner := strRe.FindStringSubmatch(m)[1]
		if scriptStrings[inner] {
			return m
		}
		if e := errRe.FindStringSubmatch(inner); e != nil {
			return `s:"` + e[1] + `"`
		}
		return msgAny
	})
}

// refFamily compares, for every history to the depth bound (default schedule),
// golua's observation with the reference model refco.
func refFamily(names []string, depth, prefix, budget int) *core.Family {
	al := alphabet(names)
	n := uint64(len(al))
	size := uint64(1)
	for i := 0; i < prefix; i++ {
		size *= n
	}
	decode := func(i uint64) []action {
		h := make([]action, prefix)
		for k := prefix - 1; k >= 0; k-- {
			h[k] = al[i%n]
			i /= n
		}
		return h
	}
	return &core.Family{
		Name: fmt.Sprintf("refco-depth%d-%s", depth, coName(names)), Size: size, HangSeconds: budget + 900, BudgetSeconds: budget,
		Show: func(i uint64) string {
			return "histories starting with [" + histString(decode(i)) + "], all extensions to the depth bound, compared with the reference model"
		},
		Run: func(i uint64) core.Outcome {
			var o core.Outcome
			var dfs func(h []action)
			check := func(h []action) (extend bool) {
				want, modelled, invalid := refRun(h)
				if !modelled || invalid {
					return false
				}
				r := runHistory(h, zeroTape{})
				o.States++
				o.Trans++
				bad := r.rep.Deadlock != "" || len(r.rep.Panics) > 0 || r.rep.Horizon
				got := normObs(r.obs)
				if bad {
					got = fmt.Sprintf("%s deadlock=%q panics=%v", got, r.rep.Deadlock, r.rep.Panics)
				}
				o.Sig ^= core.Hash64(want)
				for _, iv := range r.invariant {
					o.Viols = append(o.Viols, &core.Violation{
						Key:    fmt.Sprintf("hist=[%s] clause=end-state-invariant:%s", histString(h), strings.Fields(iv)[0]),
						Detail: iv + "\nobs: " + r.obs,
					})
				}
				if bad || got != normObs(want) || r.invalid {
					o.Viols = append(o.Viols, &core.Violation{
						Key:    fmt.Sprintf("hist=[%s] clause=differs-from-reference", histString(h)),
						Detail: fmt.Sprintf("golua:     %s\nreference: %s\n(invalid-in-golua=%v)", got, normObs(want), r.invalid),
					})
					return false
				}
				return true
			}
			dfs = func(h []action) {
				if core.Expired() {
					o.Partial = true
					return
				}
				if !check(h) || len(h) >= depth {
					return
				}
				for _, a := range al {
					dfs(append(append([]action{}, h...), a))
				}
			}
			if i == 0 {
				var short func(h []action)
				short = func(h []action) {
					if len(h) > 0 && !check(h) {
						return
					}
					if len(h)+1 < prefix {
						for _, a := range al {
							short(append(append([]action{}, h...), a))
						}
					}
				}
				short(nil)
			}
			start := decode(i)
			for k := 1; k < len(start); k++ {
				if _, modelled, invalid := refRun(start[:k]); !modelled || invalid {
					o.Skipped = i != 0 || o.States == 0
					o.NonTrivial = o.States > 0
					return o
				}
			}
			dfs(start)
			o.NonTrivial = o.States > 0
			if o.States == 0 {
				o.Skipped = true
			}
			return o
		},
	}
}

func debugHist(spec string) {
	compileOnce()
	rt.VerifSetFinalizerSeam(func(obj interface{}, fin interface{}) {})
	al := alphabet([]string{"A", "B", "C"})
	var h []action
	for _, w := range strings.Fields(spec) {
		found := false
		for _, a := range al {
			if a.String() == w {
				h = append(h, a)
				found = true
			}
		}
		if !found {
			fmt.Println("unknown action", w)
			os.Exit(2)
		}
	}
	r := runHistory(h, zeroTape{})
	fmt.Printf("default schedule: invalid=%v consumed=%d\n  obs: %s\n  report: %+v\n", r.invalid, r.consumed, r.obs, r.rep)
	want, modelled, inv := refRun(h)
	fmt.Printf("reference (modelled=%v invalid=%v):\n  ref: %s\n  got: %s\n  equal=%v\n", modelled, inv, normObs(want), normObs(r.obs), normObs(want) == normObs(r.obs))
	var o core.Outcome
	exploreHistory(h, cfg{bound: 2, maxExec: 100000}, &o)
	fmt.Printf("schedules explored: %d\n", o.Trans)
	for _, v := range o.Viols {
		fmt.Printf("VIOL %s\n   %s\n", v.Key, v.Detail)
	}
}

// freeRace is the separate free-running pass for the Go race detector: the
// same harness bodies, real goroutines and channels (vsched falls back to the
// primitives it replaces when no controlled run is active).  Built with -race
// by run.sh; any report of the detector makes the process exit with status 66.
func freeRace(depth, reps int) {
	compileOnce()
	rt.VerifSetFinalizerSeam(func(obj interface{}, fin interface{}) {})
	al := alphabet([]string{"A", "B"})
	histories, runs := 0, 0
	leaks := 0
	var dfs func(h []action)
	dfs = func(h []action) {
		if len(h) > 0 {
			before := runtime.NumGoroutine()
			r := runHistory(h, nil)
			if r.invalid {
				return
			}
			histories++
			runs++
			var first = r.obs
			for k := 1; k < reps; k++ {
				r2 := runHistory(h, nil)
				runs++
				if r2.obs != first {
					fmt.Printf("FREE-RUN-DIFFERS hist=[%s]\n  %s\n  %s\n", histString(h), first, r2.obs)
				}
			}
			_ = before
		}
		if len(h) >= depth {
			return
		}
		for _, a := range al {
			dfs(append(append([]action{}, h...), a))
		}
	}
	dfs(nil)
	fmt.Printf("{\"histories\": %d, \"runs\": %d, \"gomaxprocs\": %d, \"goroutines_at_end\": %d, \"leaks\": %d}\n", histories, runs, runtime.GOMAXPROCS(0), runtime.NumGoroutine(), leaks)
}

func main() {
	if d := os.Getenv("C09_FREERACE"); d != "" {
		depth := 3
		fmt.Sscan(d, &depth)
		freeRace(depth, 2)
		return
	}
	// One OS thread is enough (exactly one managed goroutine runs at a time)
	// and makes the hand-offs 5x cheaper.
	runtime.GOMAXPROCS(1)
	if h := os.Getenv("C09_HIST"); h != "" {
		debugHist(h)
		return
	}
	core.Main(&core.Check{
		ID:    "C09",
		Level: "model_checking",
		Rule:  "states = coroutine action histories explored; transitions = controlled executions (one per schedule); distinct = distinct default-schedule observations per start prefix",
		Assumptions: []string{
			"scheduling points are at every Lock/Unlock-with-waiter/send/receive/close/go of runtime/thread.go (instrumented copy generated from the current working tree); interleavings are sequentially consistent",
			"unsynchronised accesses are caught by the vector-clock monitor only for the marked locations (Thread.status/caller/closeErr/currentCont, every runtimeContextManager method, each RunContinuation iteration)",
			"the luagc pool mutex is not driven: the finaliser seam keeps Go's finaliser goroutine out of the pool, so only the running coroutine touches it",
		},
		Families: families,
		Extra: func(tier string) map[string]interface{} {
			m := map[string]interface{}{"bounds": "see family names: depth = history length, bound = preemptions, co = coroutines"}
			if b, err := os.ReadFile(core.Root() + "/.bin/c09.racepass.json"); err == nil {
				var v interface{}
				if json.Unmarshal(b, &v) == nil {
					m["free_running_race_pass"] = v
				}
			}
			return m
		},
	})
}
