//go:build vsched

package main

// refco: a deliberately naive reference model of script.lua written from the
// Lua 5.4 manual (§2.6, §3.3.8, §6.2).  Each reference coroutine is a Go
// goroutine with strict hand-off; Lua errors are Go panics carrying a
// canonical value, pcall is recover, a to-be-closed variable is a defer.  It
// shares nothing with golua.  Context actions (ctx, ctxm, spin) have no
// reference semantics (golua specific) and make a history "unmodelled".

import (
	"fmt"
	"strings"
)

type luaError struct{ v string } // canonical error value

type closeSignal struct{} // unwinds a suspended coroutine being closed

const msgAny = "<msg>" // an error message whose text the manual does not fix

type rmsg struct {
	vals  []string
	err   *luaError
	close bool
}

type rco struct {
	name     string
	kind     string // create | wrap
	status   string // suspended | running | normal | dead
	started  bool
	in       chan rmsg // resumer -> coroutine
	out      chan rmsg // coroutine -> resumer
	deathErr *luaError
	closedBy bool
}

type refModel struct {
	h       []action
	pos     int
	trace   []string
	cos     map[string]*rco
	tables  int
	cur     *rco // nil = main
	unmodel bool
	invalid bool
	done    bool // the run is over: leftover goroutines only unwind
}

func (m *refModel) emit(vals ...string) {
	if m.done {
		return
	}
	m.trace = append(m.trace, strings.Join(vals, ","))
}

func qs(s string) string { return "s:" + fmt.Sprintf("%q", s) }
func qi(i int) string    { return fmt.Sprintf("i:%d", i) }
func qb(b bool) string {
	if b {
		return "true"
	}
	return "false"
}

func (m *refModel) st(x string) string {
	c := m.cos[x]
	if c == nil {
		return "none"
	}
	if c.kind == "wrap" && !c.started {
		return "unstarted"
	}
	return c.status
}

// choose mirrors the host function: it returns the next action, or stop.
func (m *refModel) choose(inHandler bool) (action, int, bool) {
	if m.pos >= len(m.h) || m.invalid {
		return action{Op: "stop"}, 0, false
	}
	a := m.h[m.pos]
	ok := true
	switch a.Op {
	case "create", "wrap":
		ok = m.cos[a.X] == nil && !inHandler
		if a.X == "B" && m.cos["A"] == nil || a.X == "C" && m.cos["B"] == nil {
			ok = false
		}
	case "resume", "close":
		ok = m.cos[a.X] != nil && m.cos[a.X].kind == "create"
	case "call", "pcallcall":
		ok = m.cos[a.X] != nil && m.cos[a.X].kind == "wrap" && !inHandler
	case "spin", "ctx", "ctxm":
		m.unmodel = true
		ok = false
	case "status", "yield":
	default:
		ok = !inHandler
	}
	if !ok {
		m.invalid = true
		return action{Op: "stop"}, 0, false
	}
	m.pos++
	return a, m.pos * 10, true
}

func (m *refModel) me() string {
	if m.cur == nil {
		return "M"
	}
	return m.cur.name
}

// resume transfers control to co.  It returns what coroutine.resume returns.
func (m *refModel) resume(co *rco, args []string) (bool, []string, *luaError) {
	if co.status == "dead" {
		return false, nil, &luaError{msgAny}
	}
	if co.status != "suspended" {
		return false, nil, &luaError{msgAny}
	}
	prev := m.cur
	if prev != nil {
		prev.status = "normal"
	}
	co.status = "running"
	m.cur = co
	if !co.started {
		co.started = true
		m.start(co, args)
	} else {
		co.in <- rmsg{vals: args}
	}
	r := <-co.out
	m.cur = prev
	if prev != nil {
		prev.status = "running"
	}
	if r.err != nil {
		return false, nil, r.err
	}
	return true, r.vals, nil
}

func (m *refModel) start(co *rco, args []string) {
	go func() {
		var res []string
		var lerr *luaError
		func() {
			defer func() {
				if r := recover(); r != nil {
					switch e := r.(type) {
					case luaError:
						lerr = &e
					case closeSignal:
						lerr = nil
						res = nil
					default:
						panic(r)
					}
				}
			}()
			m.emit(append([]string{qs("start"), qs(co.name)}, args...)...)
			res = m.loop()
		}()
		co.status = "dead"
		co.deathErr = lerr
		co.out <- rmsg{vals: res, err: lerr}
	}()
}

func (m *refModel) yield(vals []string) []string {
	co := m.cur
	if co == nil {
		panic(luaError{msgAny}) // attempt to yield from outside a coroutine
	}
	co.status = "suspended"
	co.out <- rmsg{vals: vals}
	r := <-co.in
	if r.close {
		panic(closeSignal{})
	}
	return r.vals
}

// closeCo mirrors coroutine.close: (true) or (false, err).
func (m *refModel) closeCo(co *rco) (bool, *luaError, bool) {
	switch co.status {
	case "suspended":
		if !co.started {
			co.status = "dead"
			co.started = true
			return true, nil, true
		}
		prev := m.cur
		if prev != nil {
			prev.status = "normal"
		}
		co.status = "running"
		m.cur = co
		co.in <- rmsg{close: true}
		r := <-co.out
		m.cur = prev
		if prev != nil {
			prev.status = "running"
		}
		co.status = "dead"
		if r.err != nil {
			return false, r.err, true
		}
		return true, nil, true
	case "dead":
		// the manual returns "false plus the error object" in case of error
		// (the original error that stopped the coroutine); whether a second
		// close reports it again is not fixed: the caller masks that case.
		if co.deathErr != nil {
			return false, co.deathErr, true
		}
		return true, nil, true
	}
	return false, &luaError{msgAny}, false // running or normal: error
}

func (m *refModel) newTable() string {
	m.tables++
	return fmt.Sprintf("T#%d", m.tables)
}

// protected runs f like pcall.
func protected(f func() []string) (ok bool, res []string, lerr *luaError) {
	defer func() {
		if r := recover(); r != nil {
			if e, isLua := r.(luaError); isLua {
				ok, res, lerr = false, nil, &e
				return
			}
			panic(r)
		}
	}()
	return true, f(), nil
}

func errVal(e *luaError) string {
	if e == nil {
		return "nil"
	}
	return e.v
}

// inflight returns the error object a __close handler receives, given what
// recover() saw while unwinding.
func inflight(r interface{}) string {
	if e, ok := r.(luaError); ok {
		return e.v
	}
	return "nil"
}

func (m *refModel) loop() []string {
	me := m.me()
	for {
		a, v, _ := m.choose(false)
		switch a.Op {
		case "stop":
			return []string{qs("stop")}
		case "create", "wrap":
			m.cos[a.X] = &rco{name: a.X, kind: a.Op, status: "suspended", in: make(chan rmsg), out: make(chan rmsg)}
		case "resume":
			ok, vals, err := m.resume(m.cos[a.X], []string{qi(v), qi(v + 1)})
			if ok {
				m.emit(append([]string{qs("resume"), qs(me), qs(a.X), "true"}, vals...)...)
			} else {
				m.emit(qs("resume"), qs(me), qs(a.X), "false", err.v)
			}
		case "call":
			ok, vals, err := m.resume(m.cos[a.X], []string{qi(v), qi(v + 1)})
			if !ok {
				panic(*err)
			}
			m.emit(append([]string{qs("call"), qs(me), qs(a.X)}, vals...)...)
		case "pcallcall":
			ok, vals, err := m.resume(m.cos[a.X], []string{qi(v)})
			if ok {
				m.emit(append([]string{qs("pcallcall"), qs(me), qs(a.X), "true"}, vals...)...)
			} else {
				m.emit(qs("pcallcall"), qs(me), qs(a.X), "false", err.v)
			}
		case "yield":
			vals := m.yield([]string{qi(v), qi(v + 1)})
			m.emit(append([]string{qs("yield"), qs(me)}, vals...)...)
		case "return":
			return []string{qi(v), qi(v + 1)}
		case "error":
			panic(luaError{qs(fmt.Sprintf("E%d", v))})
		case "errort":
			panic(luaError{m.newTable()})
		case "close":
			ok, err, legal := m.closeCo(m.cos[a.X])
			switch {
			case !legal:
				m.emit(qs("close"), qs(me), qs(a.X), "false", msgAny)
			case ok:
				m.emit(qs("close"), qs(me), qs(a.X), "true", "true")
			default:
				m.emit(qs("close"), qs(me), qs(a.X), "true", "false", err.v)
			}
		case "status":
			m.emit(qs("status"), qs(me), qs(m.st("A")), qs(m.st("B")), qs(m.st("C")))
		case "info":
			m.emit(qs("info"), qs(me), qb(m.cur != nil), qb(m.cur == nil))
		case "tbc":
			return func() (res []string) {
				defer func() {
					r := recover()
					m.emit(qs("closing"), qs(me), qi(v), inflight(r))
					if r != nil {
						panic(r)
					}
				}()
				r := m.loop()
				m.emit(qs("tbc-exit"), qs(me), qi(v))
				return r
			}()
		case "tbcres":
			return func() (res []string) {
				defer func() {
					r := recover()
					m.emit(qs("closing2"), qs(me), qi(v), inflight(r))
					m.handler(me) // an error here replaces the in-flight one (Go panic semantics)
					if r != nil {
						panic(r)
					}
				}()
				r := m.loop()
				m.emit(qs("tbc2-exit"), qs(me), qi(v))
				return r
			}()
		case "pcall":
			ok, res, err := protected(m.loop)
			if ok {
				m.emit(append([]string{qs("pcall"), qs(me), "true"}, res...)...)
			} else {
				m.emit(qs("pcall"), qs(me), "false", err.v)
			}
		}
	}
}

func (m *refModel) handler(me string) {
	if m.done {
		return
	}
	a, v, _ := m.choose(true)
	switch a.Op {
	case "resume":
		ok, vals, err := m.resume(m.cos[a.X], []string{qi(v)})
		if ok {
			m.emit(append([]string{qs("h-resume"), qs(me), qs(a.X), "true"}, vals...)...)
		} else {
			m.emit(qs("h-resume"), qs(me), qs(a.X), "false", err.v)
		}
	case "status":
		m.emit(qs("h-status"), qs(me), qs(m.st("A")), qs(m.st("B")), qs(m.st("C")))
	case "yield":
		// yielding inside a __close handler: the manual does not say
		m.unmodel = true
		m.emit(qs("h-yield"), qs(me), "?")
	case "close":
		ok, err, legal := m.closeCo(m.cos[a.X])
		switch {
		case !legal:
			m.emit(qs("h-close"), qs(me), qs(a.X), "false", msgAny)
		case ok:
			m.emit(qs("h-close"), qs(me), qs(a.X), "true", "true")
		default:
			m.emit(qs("h-close"), qs(me), qs(a.X), "true", "false", err.v)
		}
	default:
		m.emit(qs("h-other"), qs(me), qs(a.Op))
	}
}

// refRun evaluates history h on the model.
func refRun(h []action) (obs string, modelled bool, invalid bool) {
	m := &refModel{h: h, cos: map[string]*rco{}}
	var outcome string
	ok, res, err := protected(m.loop)
	if ok {
		outcome = "ok " + strings.Join(res, ",")
	} else {
		outcome = "err " + err.v
	}
	m.emit(qs("final"), qs(m.st("A")), qs(m.st("B")), qs(m.st("C")))
	live := 0
	for _, x := range []string{"A", "B", "C"} {
		if s := m.st(x); s != "none" && s != "dead" {
			live++
		}
	}
	obs = fmt.Sprintf("%s | %s | live=%d", strings.Join(m.trace, " ; "), outcome, live)
	// release the goroutines of coroutines that are still suspended
	m.done = true
	for _, c := range m.cos {
		if c.started && c.status == "suspended" {
			cc := c
			go func() { cc.in <- rmsg{close: true}; <-cc.out }()
		}
	}
	return obs, !m.unmodel, m.invalid || m.pos < len(h)
}
