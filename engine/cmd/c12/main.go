// C12 — front end: the scanner and parser accept Lua 5.4 syntax and decode
// it faithfully.  Families: operator precedence/associativity (metamorphic:
// minimal parentheses from the manual's table vs. fully parenthesised, plus
// redundant parentheses and white-space/comment/line-break spellings),
// multi-valued expressions in every list position, numeral and string
// literal denotation, one exemplar per grammar production, and the line of
// syntax errors after single-token edits against a reference recogniser.
package main

import (
	"fmt"
	"regexp"
	"runtime/debug"
	"strconv"
	"strings"
	"sync"

	rt "github.com/arnodel/golua/runtime"

	"verif/engine/core"
	"verif/engine/host"
	"verif/engine/reflex"
)

func main() {
	core.Main(&core.Check{
		ID:    "C12",
		Level: "model_checking",
		Rule: "every expression tree up to the operator bound over the 21 binary and 4 unary operators, printed with the minimal parentheses derived from the manual's precedence table, must evaluate like its fully parenthesised form under integer, string, float, symbolic (metatable) and literal leaf valuations, also with one redundant pair of parentheses around every sub-tree and in every white-space/comment/line-break spelling; " +
			"every list position x every multi-valued expression form x parenthesisation x result count gives the value list of §3.4.12; " +
			"every numeral and string literal spelling of the enumeration denotes the value computed by the reference lexer (math/big, strconv.ParseFloat); " +
			"one exemplar per production of §9 loads and runs in every spelling; " +
			"every single-token edit of the seed programs is rejected iff the reference recogniser rejects it, and the reported line is the line of the first token at which no valid chunk can continue. " +
			"non-trivial = the case has a determined, non-error expected outcome; distinct = distinct observed outcomes",
		Assumptions: []string{
			"reference: package reflex (precedence table, lexer, numeral/string denotation, predictive recogniser) written from the Lua 5.4 manual §3.1, §3.4.8, §9; imports nothing from golua",
			"strconv.ParseFloat is trusted for correctly rounded decimal to binary conversion; hexadecimal floats are computed with math/big",
			"precedence is checked metamorphically: the same golua evaluates both spellings, so no value oracle for operators is needed (that is C02)",
			"numerals whose value is outside the finite double range are skipped (the manual does not say what they denote)",
			"error messages are never compared, only chunk:LINE: of syntax errors; edits that only produce goto/label/attribute (semantic) errors are not line-checked",
		},
		Families: families,
		// compiling allocates heavily (~0.2 ms of allocation per function);
		// a larger heap target removes most of the collector's share
		Init: func(string) { debug.SetGCPercent(800) },
	})
}

func families(tier string) []*core.Family {
	var fams []*core.Family
	fams = append(fams, precFamilies(tier)...)
	fams = append(fams, multivalFamilies(tier)...)
	fams = append(fams, literalFamilies(tier)...)
	fams = append(fams, statFamilies(tier)...)
	fams = append(fams, errlineFamilies(tier)...)
	return fams
}

// ---------------------------------------------------------------- shared machine

var (
	shOnce sync.Once
	shM    *host.Machine
)

// shared returns the per-process machine with the precedence prelude loaded.
func shared() *host.Machine {
	shOnce.Do(func() {
		shM = host.NewMachine(false)
		o := shM.Exec("prelude", precPrelude, nil, nil)
		if o.Status != "ok" {
			panic("prelude failed: " + o.String())
		}
	})
	shM.Trace = shM.Trace[:0]
	return shM
}

// run executes src on the shared machine with a clean trace.
func run(src string, args ...rt.Value) host.Obs {
	m := shared()
	o := m.Exec("chunk", src, args, nil)
	o.Trace = append([]string(nil), o.Trace...)
	return o
}

func canonStr(b []byte) string { return "s:" + strconv.Quote(string(b)) }

var lineRe = regexp.MustCompile(`^chunk:(\d+):`)

// errLine extracts LINE from "chunk:LINE:..." (0 if absent).
func errLine(msg string) int {
	m := lineRe.FindStringSubmatch(msg)
	if m == nil {
		return 0
	}
	n, _ := strconv.Atoi(m[1])
	return n
}

func out(vs []*core.Violation, sig string, nontrivial bool) core.Outcome {
	o := core.Outcome{NonTrivial: nontrivial, Sig: core.Hash64(sig)}
	if len(vs) > 0 {
		o.Viol = vs[0]
		o.Viols = vs[1:]
	}
	return o
}

func viol(key, format string, a ...interface{}) *core.Violation {
	return &core.Violation{Key: key, Detail: fmt.Sprintf(format, a...)}
}

func clip(s string) string {
	if len(s) > 600 {
		return s[:600] + "…"
	}
	return s
}

// joinStyle renders a token list in one of the equivalent spellings.
var styles = []string{"space", "nl", "crlf", "cr", "lfcr", "longcomment", "shortcomment", "compact", "tabs"}

func joinStyle(toks []string, style string) string {
	switch style {
	case "space":
		return strings.Join(toks, " ")
	case "nl":
		return strings.Join(toks, "\n") + "\n"
	case "crlf":
		return strings.Join(toks, "\r\n") + "\r\n"
	case "cr":
		return strings.Join(toks, "\r") + "\r"
	case "lfcr":
		return strings.Join(toks, "\n\r") + "\n\r"
	case "longcomment":
		return strings.Join(toks, " --[==[ c\n]] ]=] ]==]") + " "
	case "shortcomment":
		return strings.Join(toks, " --c\n") + " --c\n"
	case "compact":
		return reflex.Compact(toks)
	case "tabs":
		var sb strings.Builder
		ws := []string{"\t", "\v", "\f", " \t "}
		for i, t := range toks {
			sb.WriteString(t)
			sb.WriteString(ws[i%len(ws)])
		}
		return sb.String()
	}
	panic("style " + style)
}
