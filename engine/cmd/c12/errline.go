package main

import (
	"fmt"
	"regexp"
	"strings"

	rt "github.com/arnodel/golua/runtime"

	"verif/engine/core"
	"verif/engine/reflex"
)

// Seed programs (all valid chunks).  Every single-token edit is rendered one
// token per line; the reference recogniser says whether a chunk can still be
// formed and, if not, which token is the first that cannot continue one.
var seeds = []struct{ name, src string }{
	{"local-if", "local x = 1 if x then x = 2 end"},
	{"if-elseif-else", "if a then b = 1 elseif c then b = 2 else b = 3 end"},
	{"while", "while a < 10 do a = a + 1 end"},
	{"repeat", "repeat a = a - 1 until a == 0"},
	{"for-num", "for i = 1, 10, 2 do f(i) end"},
	{"for-in", "for k, v in pairs(t) do t[k] = v end"},
	{"function-method", "function a.b.c:m(x, ...) return x, ... end"},
	{"local-function", "local function f(a, b) return a + b end"},
	{"local-attribs", "local a <const>, b <close> = 1, nil"},
	{"table", "t = {1, 2; x = 3, [4] = 5, f(), }"},
	{"suffix-chain", "f(a)(b):m(c)[d].e = g \"s\" {h}"},
	{"do-logic", "do local a = b or c and not d end"},
	{"goto-break", "while true do goto l ::l:: break end"},
	{"return-list", "return f(x), (g(y)), ..."},
	{"assign-multi", "a, b.c, d[1] = 1, 2, 3"},
	{"functiondef", "x = function(a, ...) local b = {...} return #b end"},
	{"arith", "x = a + b * c ^ d .. e // f % g - -h"},
	{"compare-bitwise", "x = a < b == c >= d ~= e and f | g ~ h & i << j >> k"},
	{"unary-paren-call", "x = not a == (b or c)() ; y = #t[1].n"},
	{"semicolons", ";;; f() ; ; g() return ;"},
	{"literals", "local s = \"a\" .. [[b]] .. 'c' local n = 0x10 + 1e2 + .5"},
	{"if-return", "if a then return end x = 1"},
	{"nested-for-break", "for i = 1, 2 do for j = 1, 2 do if i == j then break end end end"},
	{"nested-function", "function f() return function() return 1 end end"},
	{"nested-table", "local t = {{}, {{}}, [{}] = {}}"},
	{"call-args", "f{} f\"\" f() f[[x]]"},
	{"method-chain", "o:m():n {1} :p \"s\""},
	{"repeat-if-empty", "repeat local x = f() until x if y then else end"},
	{"paren-var", "(a).b = 1 ; (d)()"},
	{"vararg-locals", "local function g(...) local a, b = ... return a end"},
	{"while-const", "while f() do local a <const> = 1 end"},
	{"goto-loop", "::top:: x = x + 1 if x < 3 then goto top end"},
	{"table-paren-field", "t = {(a) == 1, b = 2}"},
	{"for-in-multi", "for a, b, c in f, s, i do end"},
}

var replacements = []string{"end", "=", "(", ")", ",", "x", "1", "then", "do", ";", "..", "-",
	"{", "}", "local", "function", "return", "...", "::", "'s'", "[", "]", ".", ":", "in", "until", "else", "not", "<", "elseif", "while", "goto", "break", "nil", "#", "=="}

type edit struct {
	seed int
	kind string // delete | duplicate | swap | replace | none
	pos  int
	repl string
}

func (e edit) String() string {
	s := fmt.Sprintf("%s@%d", e.kind, e.pos)
	if e.kind == "replace" {
		s += "=" + e.repl
	}
	return s
}

var seedToks [][]reflex.Token

func buildEdits(tier string) []edit {
	repl := replacements[:14]
	if tier == "thorough" {
		repl = replacements
	}
	seedToks = nil
	var es []edit
	for si, s := range seeds {
		toks := mustLex(s.src)
		seedToks = append(seedToks, toks)
		es = append(es, edit{seed: si, kind: "none"})
		for p := range toks {
			es = append(es, edit{seed: si, kind: "delete", pos: p})
			es = append(es, edit{seed: si, kind: "duplicate", pos: p})
			if p+1 < len(toks) {
				es = append(es, edit{seed: si, kind: "swap", pos: p})
			}
			for _, r := range repl {
				if r != toks[p].Text {
					es = append(es, edit{seed: si, kind: "replace", pos: p, repl: r})
				}
			}
		}
		// insertion of each replacement token before every position (thorough)
		if tier == "thorough" {
			for p := 0; p <= len(toks); p++ {
				for _, r := range repl {
					es = append(es, edit{seed: si, kind: "insert", pos: p, repl: r})
				}
			}
		}
	}
	return es
}

func applyEdit(e edit) []string {
	var out []string
	for _, t := range seedToks[e.seed] {
		out = append(out, t.Text)
	}
	switch e.kind {
	case "delete":
		out = append(out[:e.pos:e.pos], out[e.pos+1:]...)
	case "duplicate":
		out = append(out[:e.pos+1:e.pos+1], out[e.pos:]...)
	case "swap":
		out[e.pos], out[e.pos+1] = out[e.pos+1], out[e.pos]
	case "replace":
		out[e.pos] = e.repl
	case "insert":
		out = append(out[:e.pos:e.pos], append([]string{e.repl}, out[e.pos:]...)...)
	}
	return out
}

// compileOnly loads src without running it.
func compileOnly(src string) (ok bool, msg string) {
	m := shared()
	defer func() {
		if p := recover(); p != nil {
			ok, msg = false, fmt.Sprint("gopanic: ", p)
		}
	}()
	_, err := m.R.CompileAndLoadLuaChunk("chunk", []byte(src), rt.TableValue(m.R.GlobalEnv()))
	if err != nil {
		return false, err.Error()
	}
	return true, ""
}

var siteRe = regexp.MustCompile(`^chunk:\d+:\d+: (.*) near .*$`)

// site is golua's own description of what it expected (position and the
// quoted token removed): it identifies the reporting site in the parser, so
// that one defect gives one key prefix.
func site(msg string) string {
	if m := siteRe.FindStringSubmatch(msg); m != nil {
		return m[1]
	}
	if k := strings.IndexByte(msg, '\n'); k >= 0 {
		msg = msg[:k]
	}
	return msg
}

func errlineFamilies(tier string) []*core.Family {
	es := buildEdits(tier)
	eols := []string{"\n"}
	if tier == "thorough" {
		eols = []string{"\n", "\r\n", "\r", "\n\r"}
	}
	ne := uint64(len(eols))
	return []*core.Family{badTokenFamily(tier), {Name: "error-line", Size: uint64(len(es)) * ne,
		Show: func(i uint64) string {
			e := es[i/ne]
			return fmt.Sprintf("seed %s (%s) edit %s eol %q:\n%s", seeds[e.seed].name, seeds[e.seed].src, e, eols[i%ne], strings.Join(applyEdit(e), " "))
		},
		Run: func(i uint64) core.Outcome {
			e, eol := es[i/ne], eols[i%ne]
			texts := applyEdit(e)
			src := strings.Join(texts, eol) + eol
			// re-lex the edited text: tokens and their lines as the manual defines them
			toks, lexOK := reflex.Lex(src)
			if !lexOK || len(toks) != len(texts) {
				return core.Outcome{Skipped: true} // the edit fused or split tokens
			}
			for k, t := range toks {
				if t.Line != k+1 || t.Text != texts[k] {
					return core.Outcome{Skipped: true}
				}
			}
			r := reflex.Recognise(toks)
			ok, msg := compileOnly(src)
			id := fmt.Sprintf("in=%s at=%s seed=%s edit=%s", r.In, kindAt(toks, r.ErrIdx), seeds[e.seed].name, e)
			if eol != "\n" {
				id += fmt.Sprintf(" eol=%q", eol)
			}
			var vs []*core.Violation
			prog := strings.Join(texts, " ")
			switch {
			case r.ErrIdx >= 0 && ok:
				vs = append(vs, viol("errline clause=accepted-invalid "+id, "not a chunk (no valid chunk can continue at token %d %q, grammar of §9) but accepted:\n%s", r.ErrIdx+1, tokText(texts, r.ErrIdx), prog))
			case r.ErrIdx >= 0:
				want := r.ErrIdx + 1
				got := errLine(msg)
				if r.BadAttribIdx >= 0 && got == r.BadAttribIdx+1 {
					// an attribute other than const/close was read before the
					// offending token: reporting that name is equally justified (§3.3.7)
					got = want
				}
				if got != want {
					vs = append(vs, viol(fmt.Sprintf("errline clause=line %s site=%q", id, site(msg)),
						"one token per line:\n%s\nthe first token at which no valid chunk can continue is token %d %q, so the error line is %d; golua reports line %d: %s",
						prog, want, tokText(texts, r.ErrIdx), want, got, msg))
				}
			case !ok:
				semantic := r.Goto || r.Label || r.Attrib || r.Break || r.VarargOutsideVararg
				if !semantic {
					vs = append(vs, viol(fmt.Sprintf("errline clause=rejected-valid site=%q %s", site(msg), id), "a valid chunk (grammar of §9) is rejected:\n%s\n%s", prog, msg))
				}
			}
			// accepted by both: static rules ('...' outside a vararg function,
			// unknown attributes, goto/label rules) are not part of this property
			return out(vs, fmt.Sprint(r.ErrIdx, ok, errLine(msg)), r.ErrIdx >= 0)
		}}}
}

func kindAt(toks []reflex.Token, i int) string {
	if i < 0 {
		return "-"
	}
	if i >= len(toks) {
		return "eof"
	}
	return toks[i].Kind
}

// Tokens no Lua lexer accepts: inserted before position p of a seed (one token
// per line) they are the first point at which no chunk can continue.
var badTokens = []string{"@", "$", "!", "?", "`", "\\", "\"abc", "'x", "\"a\\q\"", "3x", "0x", "1e+", "\"\\300\"", "'\\u{80000000}'"}

func badTokenFamily(tier string) *core.Family {
	type bc struct{ seed, pos, bad int }
	var cs []bc
	for si, s := range seeds {
		n := len(mustLex(s.src))
		for p := 0; p <= n; p++ {
			for b := range badTokens {
				cs = append(cs, bc{si, p, b})
			}
		}
	}
	prog := func(c bc) []string {
		var texts []string
		for _, t := range mustLex(seeds[c.seed].src) {
			texts = append(texts, t.Text)
		}
		return append(texts[:c.pos:c.pos], append([]string{badTokens[c.bad]}, texts[c.pos:]...)...)
	}
	return &core.Family{Name: "error-line-badtoken", Size: uint64(len(cs)),
		Show: func(i uint64) string {
			return fmt.Sprintf("seed %s, invalid token %q inserted at %d:\n%s", seeds[cs[i].seed].name, badTokens[cs[i].bad], cs[i].pos, strings.Join(prog(cs[i]), " "))
		},
		Run: func(i uint64) core.Outcome {
			c := cs[i]
			texts := prog(c)
			src := strings.Join(texts, "\n") + "\n"
			ok, msg := compileOnly(src)
			var vs []*core.Violation
			id := fmt.Sprintf("bad=%q seed=%s pos=%d", badTokens[c.bad], seeds[c.seed].name, c.pos)
			if ok {
				vs = append(vs, viol("errline-badtoken clause=accepted "+id, "text with an invalid token accepted:\n%s", strings.Join(texts, " ")))
			} else if got := errLine(msg); got == 0 {
				// no position at all: one key per token, wherever it stands
				vs = append(vs, viol(fmt.Sprintf("errline-badtoken clause=no-line bad=%q", badTokens[c.bad]), "one token per line:\n%s\nthe invalid token %q is on line %d; golua's error carries no chunk:LINE: prefix: %s",
					strings.Join(texts, " "), badTokens[c.bad], c.pos+1, msg))
			} else if got != c.pos+1 {
				vs = append(vs, viol("errline-badtoken clause=line "+id, "one token per line:\n%s\nthe invalid token %q is on line %d; golua reports line %d: %s",
					strings.Join(texts, " "), badTokens[c.bad], c.pos+1, got, msg))
			}
			return out(vs, fmt.Sprint(ok, errLine(msg)), true)
		}}
}

func tokText(texts []string, i int) string {
	if i >= len(texts) {
		return "<eof>"
	}
	return texts[i]
}
