package main

import (
	"fmt"
	"strconv"
	"strings"

	"verif/engine/core"
	"verif/engine/host"
	"verif/engine/reflex"
)

// ---------------------------------------------------------------- numerals

func numeralTexts(tier string) []string {
	decInt := []string{"", "0", "7", "10", "007", "123456789", "9007199254740993", "9223372036854775807", "9223372036854775808", "18446744073709551615", "18446744073709551616", "1" + strings.Repeat("0", 30)}
	decFrac := []string{"", ".", ".0", ".5", ".25", ".000", ".1", ".999999999999999999999"}
	decExp := []string{"", "e0", "e1", "E+2", "e-3", "E007", "e10", "e+15", "e22", "e23", "e308", "e309", "e-308", "e-323", "e-324", "e-400", "E+0"}
	hexInt := []string{"", "0", "1", "a", "F", "fF", "10", "00A", "7fffffffffffffff", "8000000000000000", "ffffffffffffffff", "10000000000000000", "1ffffffffffffffff", "123456789abcdef01", "20000000000001", "20000000000003", "fffffffffffff8"}
	hexFrac := []string{"", ".", ".8", ".0", ".fff", ".08", ".00000000000001", ".ffffffffffffffffff"}
	hexExp := []string{"", "p0", "p1", "P+4", "p-1", "p-4", "p10", "p-1022", "p-1074", "p-1075", "p-1076", "p1023", "p1024", "p970", "P007", "p-0"}
	if tier == "thorough" {
		decInt = append(decInt, "1", "9", "99", "4294967296", "9223372036854775806", "9223372036854775809", "00000000000000000000000001", strings.Repeat("9", 400))
		decFrac = append(decFrac, ".75", ".0000000000000000000000000000001", ".3", "."+strings.Repeat("0", 400)+"1")
		decExp = append(decExp, "e5", "E-1", "e+308", "e-10", "e0000000000000000000001", "e1000000000000000000000", "e-1000000000000000000000")
		hexInt = append(hexInt, "7", "ff", "FFFFFFFF", "100000000", "0000000000000000000000001", "deadBEEF", "1fffffffffffff", "3ffffffffffffe")
		hexFrac = append(hexFrac, ".1", ".F", ".abcdef", ".4")
		hexExp = append(hexExp, "p2", "p-2", "P63", "p64", "p-1023", "p100000000000000000000", "p-100000000000000000000")
	}
	var out []string
	for _, i := range decInt {
		for _, f := range decFrac {
			for _, e := range decExp {
				out = append(out, i+f+e)
			}
		}
	}
	for _, x := range []string{"0x", "0X"} {
		for _, i := range hexInt {
			for _, f := range hexFrac {
				for _, e := range hexExp {
					out = append(out, x+i+f+e)
				}
			}
		}
	}
	// malformed: every reading of the text inside emit(...) is a syntax error
	out = append(out, "0x", "0X", "1e", "1e+", "1E-", "0x1p", "0x1p+", "0xp1", "0x.p1", ".e1", "3a", "3_", "0x1g", "1e5x", "0x1p1z", "1.5.5", "0x1.8.8", "1e5.5", "0x1p1.5",
		"1_0", "0x1_0", "1e_1", "08x", "0b1", "1f", "1d", "1l", "1u", "0xep+1", "0x1e+1")
	return out
}

// numeralWellFormed: the text is one token for any lexer (no reading as
// several valid tokens) — needed only for the malformed ones.
func numeralCase(s string) (want string, isErr, skip bool) {
	if s == "" || s == "." || !(s[0] >= '0' && s[0] <= '9' || s[0] == '.') {
		return "", false, true
	}
	n, ok := reflex.Numeral(s)
	switch {
	case !ok:
		if s == "0x1e+1" {
			// 0x1e + 1 : a valid expression (hex integer 0x1e plus 1), not a malformed numeral
			return "", false, true
		}
		if s[0] == '.' && (len(s) < 2 || s[1] < '0' || s[1] > '9') {
			return "", true, false // '.' 'e1' : still a syntax error inside emit(...)
		}
		return "", true, false
	case n.Range:
		return "", false, true
	case n.IsInt:
		return "i:" + strconv.FormatInt(n.I, 10), false, false
	}
	return host.FloatStr(n.F), false, false
}

// ---------------------------------------------------------------- short strings

type strCase struct {
	lit  string // the literal, including its quotes
	note string
	// expected by construction ("" = none given); cross-checked with the
	// reference decoder before use.
	byCons    []byte
	hasByCons bool
	consErr   bool
}

func buildStrCases(tier string) []strCase {
	var cs []strCase
	add := func(note, lit string) { cs = append(cs, strCase{lit: lit, note: note}) }
	addV := func(note, lit string, v []byte) {
		cs = append(cs, strCase{lit: lit, note: note, byCons: v, hasByCons: true})
	}
	addE := func(note, lit string) { cs = append(cs, strCase{lit: lit, note: note, hasByCons: true, consErr: true}) }
	quotes := []string{`"`, `'`}
	for _, q := range quotes {
		// raw bytes
		for b := 0; b < 256; b++ {
			c := string([]byte{byte(b)})
			if c == q || c == `\` || c == "\n" || c == "\r" {
				continue
			}
			addV("raw", q+c+q, []byte{byte(b)})
			addV("raw-embedded", q+"a"+c+"b"+q, []byte{'a', byte(b), 'b'})
		}
		addE("raw-lf", q+"a\nb"+q)
		addE("raw-cr", q+"a\rb"+q)
		addE("unfinished", q+"ab")
		addE("unfinished-escape", q+`ab\`)
		addV("empty", q+q, []byte{})
		// decimal escapes: every digit string of length 1..4 after the backslash
		maxLen := 4
		for l := 1; l <= maxLen; l++ {
			n := 1
			for j := 0; j < l; j++ {
				n *= 10
			}
			for x := 0; x < n; x++ {
				ds := fmt.Sprintf("%0*d", l, x)
				k := l
				if k > 3 {
					k = 3
				}
				v, _ := strconv.Atoi(ds[:k])
				if v > 255 {
					addE("decimal", q+`\`+ds+q)
				} else {
					addV("decimal", q+`\`+ds+q, append([]byte{byte(v)}, ds[k:]...))
				}
				if l <= 3 && v <= 255 {
					addV("decimal+x", q+`\`+ds+"x"+q, []byte{byte(v), 'x'})
				}
			}
		}
		// hexadecimal escapes
		for b := 0; b < 256; b++ {
			for _, f := range []string{"%02x", "%02X"} {
				h := fmt.Sprintf(f, b)
				addV("hex", q+`\x`+h+q, []byte{byte(b)})
				addV("hex+digit", q+`\x`+h+"1g"+q, []byte{byte(b), '1', 'g'})
			}
			if b >= 0xa0 && b%16 >= 10 {
				h := fmt.Sprintf("%02x", b)
				addV("hex-mixedcase", q+`\x`+strings.ToUpper(h[:1])+h[1:]+q, []byte{byte(b)})
			}
		}
		for _, bad := range []string{`\x`, `\xg0`, `\x0g`, `\x0`, `\x 41`, `\X41`, `\x-1`, `\x4`} {
			addE("hex-invalid", q+bad+q)
		}
		// named escapes
		named := []struct {
			e string
			v byte
		}{{"a", 7}, {"b", 8}, {"f", 12}, {"n", 10}, {"r", 13}, {"t", 9}, {"v", 11}, {`\`, '\\'}, {`"`, '"'}, {`'`, '\''}}
		for _, ne := range named {
			addV("named", q+`\`+ne.e+q, []byte{ne.v})
			addV("named-embedded", q+"x"+`\`+ne.e+"y"+q, []byte{'x', ne.v, 'y'})
		}
		// every other byte after a backslash is an invalid escape
		for b := 0; b < 256; b++ {
			c := byte(b)
			if strings.IndexByte(`abfnrtv\"'xzu0123456789`, c) >= 0 || c == '\n' || c == '\r' {
				continue
			}
			addE("invalid-escape", q+`\`+string([]byte{c})+"0"+q)
		}
		// \z
		ws := []string{" ", "\t", "\n", "\r", "\v", "\f"}
		spans := []string{""}
		maxSpan := 2
		if tier == "thorough" {
			maxSpan = 3
		}
		prev := []string{""}
		for l := 1; l <= maxSpan; l++ {
			var cur []string
			for _, p := range prev {
				for _, w := range ws {
					cur = append(cur, p+w)
				}
			}
			spans = append(spans, cur...)
			prev = cur
		}
		for _, sp := range spans {
			addV("z", q+`a\z`+sp+"b"+q, []byte("ab"))
			addV("z-end", q+`a\z`+sp+q, []byte("a"))
		}
		addV("z-z", q+`a\z  \z  b`+q, []byte("ab"))
		addV("z-then-escape", q+`a\z `+`\n`+q, []byte("a\n"))
		// backslash-newline
		for _, eol := range []string{"\n", "\r", "\r\n", "\n\r"} {
			addV("bs-eol", q+"a\\"+eol+"b"+q, []byte("a\nb"))
			addV("bs-eol-twice", q+"\\"+eol+"\\"+eol+q, []byte("\n\n"))
			addV("bs-eol-z", q+"\\"+eol+`\z`+eol+" x"+q, []byte("\nx"))
		}
		for _, bad := range []string{"\\\n\n", "\\\r\r", "\\\r\n\r", "\\\r\n\n", "\\\n\r\n", "\\\n\r\r"} {
			addE("bs-eol-then-raw-eol", q+bad+q)
		}
		// \u{...}
		cps := []uint32{0, 1, 0x41, 0x7f, 0x80, 0xff, 0x7ff, 0x800, 0xd800, 0xdfff, 0xffff, 0x10000, 0x10ffff, 0x110000, 0x1fffff, 0x200000, 0x3ffffff, 0x4000000, 0x7fffffff}
		for b := uint32(0); b < 128; b++ {
			cps = append(cps, b)
		}
		for _, cp := range cps {
			enc := reflex.UTF8Ext(cp)
			for _, f := range []string{"%x", "%X", "0%x", "00000000%x"} {
				addV("u", q+`\u{`+fmt.Sprintf(f, cp)+`}`+q, enc)
			}
			addV("u+digit", q+`\u{`+fmt.Sprintf("%x", cp)+`}7`+q, append(append([]byte{}, enc...), '7'))
		}
		for _, bad := range []string{`\u{}`, `\u{80000000}`, `\u{ffffffff}`, `\u{100000000}`, `\u{7fffffff0}`, `\u41`, `\u{41`, `\u{g}`, `\u{ 41}`, `\u{41 }`, `\u{-1}`, `\u`, `\u{`, `\U{41}`, `\u{0x41}`} {
			addE("u-invalid", q+bad+q)
		}
		// the other quote, raw and escaped
		o := `'`
		if q == `'` {
			o = `"`
		}
		addV("other-quote", q+o+q, []byte(o))
		addV("other-quote-esc", q+`\`+o+q, []byte(o))
		addV("own-quote-esc", q+`\`+q+q, []byte(q))
		// all ordered pairs / triples of pieces: decoding must be sequential
		pieces := []string{`\\`, `\"`, `\'`, `\n`, `\065`, `\65`, `\6`, `\x41`, `\u{41}`, `\z `, "\\\n", "\\\r\n", `a`, `n`, `x`, `z`, `u`, `0`, `5`, `{`, `}`, ` `, o, `41`, `\z`, `\a`, `\255`, `\25`, "\t"}
		for _, a := range pieces {
			for _, b := range pieces {
				add("pair", q+a+b+q)
				if tier == "thorough" {
					for _, c := range pieces {
						add("triple", q+a+b+c+q)
					}
				}
			}
		}
	}
	return cs
}

// ---------------------------------------------------------------- long brackets

const longAlpha = "]=[\n\ra\\"

func nthOver(alpha string, i uint64, maxLen int) string {
	k := uint64(len(alpha))
	for l := 0; l <= maxLen; l++ {
		cnt := uint64(1)
		for j := 0; j < l; j++ {
			cnt *= k
		}
		if i < cnt {
			b := make([]byte, l)
			for j := l - 1; j >= 0; j-- {
				b[j] = alpha[i%k]
				i /= k
			}
			return string(b)
		}
		i -= cnt
	}
	panic("nthOver")
}

func countOver(k, maxLen int) uint64 {
	t, c := uint64(0), uint64(1)
	for l := 0; l <= maxLen; l++ {
		t += c
		c *= uint64(k)
	}
	return t
}

// ---------------------------------------------------------------- comments in token gaps

// base program: one of each token class; closed-form result below.
var gapTokens = []string{"local", "t", "=", "{", "10", ",", "20", "}", ";", "emit", "(", "t", "[", "2", "]", "-", "#", `"ab"`, ",", "'x'", "..", "[[l]]", ",", "0x10", ")"}

const gapWant = `i:18,s:"xl",i:16`

type filler struct {
	text    string
	onlyEnd bool // usable only after the last token (no terminator)
}

var gapFillers = []filler{
	{text: ""}, {text: " "}, {text: "\t"}, {text: "\v"}, {text: "\f"}, {text: "\n"}, {text: "\r"}, {text: "\r\n"}, {text: "\n\r"}, {text: " \n\t\r\v\f "},
	{text: "--\n"}, {text: "-- c\n"}, {text: "--c\r\n"}, {text: "--c\r"}, {text: "--c\n\r"},
	{text: "--[\n"}, {text: "--[=\n"}, {text: "--[==x\n"}, {text: "--[ [c]]\n"}, {text: "--]]\n"}, {text: "---[[c\n"}, {text: "--[=[c]]\n]=]"},
	{text: "--[[c]]"}, {text: "--[[\nc\n]]"}, {text: "--[==[ c ]] ]=] ]==]"}, {text: "--[[]]"}, {text: "--[=[]=]"}, {text: "--[===[]===]"},
	{text: "--[[--]]"}, {text: "--[[ ]]--\n"}, {text: "--[[c]]--[[d]]"}, {text: "--[[\r\n]]"}, {text: "--[[\n\r]]"}, {text: "--[[emit(1)]]"}, {text: "--emit(1)\n"},
	{text: "--[[c]]--d\n"}, {text: "--[[ [[ ]]"}, {text: "--[=[ ]] ]=]"}, {text: "--\"\n"}, {text: "--[[\"]]"},
	{text: "--c", onlyEnd: true}, {text: "--", onlyEnd: true}, {text: "--[", onlyEnd: true}, {text: "--[=", onlyEnd: true}, {text: "--[==x", onlyEnd: true}, {text: "--[[]]", onlyEnd: true}, {text: "\n--[[c]]--", onlyEnd: true},
}

func gapProgram(gap int, f filler) (string, bool) {
	n := len(gapTokens)
	if f.onlyEnd && gap != n {
		return "", false
	}
	var sb strings.Builder
	for i := 0; i <= n; i++ {
		if i == gap {
			if f.text == "" && i > 0 && i < n && needsSep(gapTokens[i-1], gapTokens[i]) {
				return "", false
			}
			if i > 0 && strings.HasPrefix(f.text, "-") && strings.HasSuffix(gapTokens[i-1], "-") {
				sb.WriteString(" ") // '-' followed by '--' would read as '--' '-'
			}
			sb.WriteString(f.text)
		} else if i > 0 && i < n {
			sb.WriteString(" ")
		}
		if i < n {
			sb.WriteString(gapTokens[i])
		}
	}
	return sb.String(), true
}

func needsSep(a, b string) bool {
	return reflex.Compact([]string{a, b}) != a+b
}

// ---------------------------------------------------------------- families

func literalFamilies(tier string) []*core.Family {
	var fams []*core.Family

	nums := numeralTexts(tier)
	fams = append(fams, &core.Family{Name: "numerals", Size: uint64(len(nums)),
		Show: func(i uint64) string { return "emit(" + nums[i] + ")" },
		Run: func(i uint64) core.Outcome {
			s := nums[i]
			want, isErr, skip := numeralCase(s)
			if skip {
				return core.Outcome{Skipped: true}
			}
			var vs []*core.Violation
			sig := ""
			for _, ctx := range []string{"emit(%s)", "emit(%s\n)", "local x <const> = %s; emit(x)", "emit((%s))"} {
				o := run(fmt.Sprintf(ctx, s))
				sig += o.String()
				if isErr {
					if o.Status != "compile" {
						vs = append(vs, viol(fmt.Sprintf("numeral s=%q clause=accepted", s), "malformed numeral in %q must be a syntax error; observed %s", fmt.Sprintf(ctx, s), clip(o.String())))
					}
				} else if o.Status != "ok" || len(o.Trace) != 1 || o.Trace[0] != want {
					vs = append(vs, viol(fmt.Sprintf("numeral s=%q", s), "%s: expected %s, observed %s", fmt.Sprintf(ctx, s), want, clip(o.String())))
				}
				if len(vs) > 0 {
					break
				}
			}
			return out(vs, sig, !isErr)
		}})

	strs := buildStrCases(tier)
	fams = append(fams, &core.Family{Name: "short-strings", Size: uint64(len(strs)),
		Show: func(i uint64) string {
			return fmt.Sprintf("[%s] emit(%s)  -- %q", strs[i].note, strs[i].lit, strs[i].lit)
		},
		Run: func(i uint64) core.Outcome {
			c := strs[i]
			val, n, ok := reflex.ShortString(c.lit)
			if ok && n != len(c.lit) {
				// the literal ends early: what follows is a second token
				// sequence; only literals that are exactly one token are cases
				return core.Outcome{Skipped: true}
			}
			if c.hasByCons && (ok == c.consErr || ok && string(val) != string(c.byCons)) {
				panic(fmt.Sprintf("reference decoder and generator disagree on %q: %q/%v vs %q/err=%v", c.lit, val, ok, c.byCons, c.consErr))
			}
			key := fmt.Sprintf("string lit=%q", c.lit)
			var vs []*core.Violation
			sig := ""
			for _, ctx := range []string{"emit(%s)", "emit%s", "local s <const> = %s emit(s)"} {
				src := fmt.Sprintf(ctx, c.lit)
				o := run(src)
				sig += o.String()
				if !ok {
					if o.Status != "compile" {
						vs = append(vs, viol(key+" clause=accepted", "%q: invalid literal must be a syntax error; observed %s", src, clip(o.String())))
					}
				} else if o.Status != "ok" || len(o.Trace) != 1 || o.Trace[0] != canonStr(val) {
					vs = append(vs, viol(key, "%q: expected %s, observed %s", src, canonStr(val), clip(o.String())))
				}
				if len(vs) > 0 {
					return out(vs, sig, ok)
				}
			}
			if ok {
				// line tracking through the literal: the stray ')' is on a known line
				src := "emit(" + c.lit + ")\n)"
				o := run(src)
				wantLine := 2 + reflex.CountEOL(c.lit)
				if o.Status != "compile" || errLine(o.Err) != wantLine {
					vs = append(vs, viol(key+" clause=line-after", "%q: the stray ')' is on line %d; observed %s", src, wantLine, clip(o.String())))
				}
			}
			return out(vs, sig, ok)
		}})

	maxLen := 3
	if tier == "thorough" {
		maxLen = 4
	}
	nc := countOver(len(longAlpha), maxLen)
	fams = append(fams, &core.Family{Name: "long-brackets", Size: nc * 4,
		Show: func(i uint64) string {
			level := int(i / nc)
			eq := strings.Repeat("=", level)
			return fmt.Sprintf("emit([%s[%s]%s])  and as call argument, as comment, with line check; content %q", eq, nthOver(longAlpha, i%nc, maxLen), eq, nthOver(longAlpha, i%nc, maxLen))
		},
		Run: func(i uint64) core.Outcome {
			level := int(i / nc)
			content := nthOver(longAlpha, i%nc, maxLen)
			eq := strings.Repeat("=", level)
			lit := "[" + eq + "[" + content + "]" + eq + "]"
			val, n, ok := reflex.LongString(lit)
			if !ok || n != len(lit) {
				return core.Outcome{Skipped: true} // the content contains the closing bracket
			}
			key := fmt.Sprintf("longstring level=%d content=%q", level, content)
			var vs []*core.Violation
			sig := ""
			for _, ctx := range []string{"emit(%s)", "emit%s", "emit(#%s, %s)"} {
				src := strings.ReplaceAll(ctx, "%s", lit)
				want := canonStr(val)
				if strings.HasPrefix(ctx, "emit(#") {
					want = fmt.Sprintf("i:%d,%s", len(val), canonStr(val))
				}
				o := run(src)
				sig += o.String()
				if o.Status != "ok" || len(o.Trace) != 1 || o.Trace[0] != want {
					vs = append(vs, viol(key, "%q: expected %s, observed %s", src, want, clip(o.String())))
					break
				}
			}
			// the same brackets as a comment
			src := "--" + lit + "emit(1)"
			o := run(src)
			sig += o.String()
			if o.Status != "ok" || len(o.Trace) != 1 || o.Trace[0] != "i:1" {
				vs = append(vs, viol(fmt.Sprintf("longcomment level=%d content=%q", level, content), "%q: expected emit(1) to run once, observed %s", src, clip(o.String())))
			}
			// line tracking through the literal / the comment
			wantLine := 2 + reflex.CountEOL(content)
			stringOK := len(vs) == 0
			for _, pre := range []string{"emit(", "--"} {
				if pre == "emit(" && !stringOK {
					continue // the literal itself is already reported
				}
				src := pre + lit + ")\n)"
				if pre == "--" {
					src = "--" + lit + "emit(1)\n)"
				}
				o := run(src)
				if o.Status != "compile" || errLine(o.Err) != wantLine {
					what := "longstring"
					if pre == "--" {
						what = "longcomment"
					}
					vs = append(vs, viol(fmt.Sprintf("%s level=%d content=%q clause=line-after", what, level, content), "%q: the stray ')' is on line %d; observed %s", src, wantLine, clip(o.String())))
				}
			}
			return out(vs, sig, true)
		}})

	ng := uint64(len(gapTokens) + 1)
	fams = append(fams, &core.Family{Name: "token-gaps", Size: ng * uint64(len(gapFillers)),
		Show: func(i uint64) string {
			src, ok := gapProgram(int(i%ng), gapFillers[i/ng])
			return fmt.Sprintf("gap %d filler %q ok=%v\n%q", i%ng, gapFillers[i/ng].text, ok, src)
		},
		Run: func(i uint64) core.Outcome {
			gap, f := int(i%ng), gapFillers[i/ng]
			src, ok := gapProgram(gap, f)
			if !ok {
				return core.Outcome{Skipped: true}
			}
			o := run(src)
			var vs []*core.Violation
			if o.Status != "ok" || len(o.Trace) != 1 || o.Trace[0] != gapWant {
				prev, next := "<start>", "<eof>"
				if gap > 0 {
					prev = gapTokens[gap-1]
				}
				if gap < len(gapTokens) {
					next = gapTokens[gap]
				}
				vs = append(vs, viol(fmt.Sprintf("gap filler=%q between=%s|%s", f.text, prev, next), "%q\nexpected trace [%s], observed %s", src, gapWant, clip(o.String())))
			} else if gap == 0 && !f.onlyEnd {
				// line tracking through the filler: the stray ')' is on a known line
				src := "emit(1) " + f.text + ")"
				wantLine := 1 + reflex.CountEOL(f.text)
				o := run(src)
				if o.Status != "compile" || errLine(o.Err) != wantLine {
					vs = append(vs, viol(fmt.Sprintf("gap-line filler=%q", f.text), "%q: the stray ')' is on line %d; observed %s", src, wantLine, clip(o.String())))
				}
			}
			return out(vs, o.String(), true)
		}})
	return fams
}
