package main

import (
	"fmt"
	"strings"

	"verif/engine/core"
	"verif/engine/reflex"
)

// One exemplar per production / optional part of "The Complete Syntax of
// Lua" (§9).  trace: emit tuples joined by " | "; res: chunk results joined
// by ",".  The expected values are closed forms worked out by hand from the
// manual.  fail: the chunk must not load-and-run successfully (static rule).
type exemplar struct {
	name, src, trace, res string
	fail                  bool
}

var exemplars = []exemplar{
	// chunk ::= block ; block ::= {stat} [retstat] ; retstat ::= return [explist] [';']
	{name: "empty", src: ""},
	{name: "return", src: "return"},
	{name: "return-semi", src: "return;"},
	{name: "return-1", src: "return 1", res: "i:1"},
	{name: "return-1-semi", src: "return 1;", res: "i:1"},
	{name: "return-list-semi", src: "return 1, 'a', nil;", res: `i:1,s:"a",nil`},
	{name: "semicolons", src: ";;; emit(1);;; emit(2);;;", trace: "i:1 | i:2"},
	{name: "semicolons-return", src: "; ; return 3 ;", res: "i:3"},
	{name: "stats-without-separator", src: "local a = 1 local b = 2 emit(a, b) a = 5 b = a emit(a, b)", trace: "i:1,i:2 | i:5,i:5"},
	{name: "return-no-values", src: "local function f() return end local function g() return; end emit(select('#', f()), select('#', g()))", trace: "i:0,i:0"},
	{name: "return-nested-blocks", src: "local function f(x) if x then return 'y' else return 'n' end end local function g() do return 1 end end local function h() while true do return 2 end end emit(f(true), f(false), g(), h())", trace: `s:"y",s:"n",i:1,i:2`},
	{name: "return-call", src: "local function g(...) return ... end local function f() return g(1, 2) end emit(f()) emit((f()))", trace: "i:1,i:2 | i:1"},
	// stat ::= varlist '=' explist ; var ::= Name | prefixexp '[' exp ']' | prefixexp '.' Name
	{name: "assign-1", src: "local a a = 1 emit(a)", trace: "i:1"},
	{name: "assign-multi", src: "local a, b, c a, b, c = 1, 2 emit(a, b, c)", trace: "i:1,i:2,nil"},
	{name: "assign-swap", src: "local a, b = 1, 2 a, b = b, a emit(a, b)", trace: "i:2,i:1"},
	{name: "assign-fields", src: "local t = {u = {}} t.x, t[1], t.u.v, t['k'] = 1, 2, 3, 4 emit(t.x, t[1], t.u.v, t.k)", trace: "i:1,i:2,i:3,i:4"},
	{name: "assign-global", src: "G12 = 7 emit(G12) G12 = nil emit(G12)", trace: "i:7 | nil"},
	{name: "assign-call-field", src: "local t = {} local function f() return t end f().x = 5 f()[2] = 6 emit(t.x, t[2])", trace: "i:5,i:6"},
	{name: "assign-paren-field", src: "local t = {}; (t).x = 1; (t)[2] = 3 emit(t.x, t[2])", trace: "i:1,i:3"},
	// functioncall ::= prefixexp args | prefixexp ':' Name args ; args ::= '(' [explist] ')' | tableconstructor | LiteralString
	{name: "call-forms", src: `local function f(x) emit(type(x)) return f end f() f(1) f{} f"s" f's' f[[l]] f[==[m]==]`, trace: `s:"nil" | s:"number" | s:"table" | s:"string" | s:"string" | s:"string" | s:"string"`},
	{name: "call-chain", src: `local function f(x) emit(type(x)) return f end f()(1){}"s"[[l]]`, trace: `s:"nil" | s:"number" | s:"table" | s:"string" | s:"string"`},
	{name: "call-method", src: `local o = {n = 0} function o:m(x) self.n = self.n + 1 emit(self.n, type(x)) return self end o:m() o:m(1) o:m{} o:m"s" o:m[[l]] o:m():m(2)`,
		trace: `i:1,s:"nil" | i:2,s:"number" | i:3,s:"table" | i:4,s:"string" | i:5,s:"string" | i:6,s:"nil" | i:7,s:"number"`},
	{name: "call-nested-method", src: `local a = {b = {c = {}}} function a.b.c:m(x) emit(self == a.b.c, x) end a.b.c:m(4) a.b.c.m(a.b.c, 5) a["b"].c:m(6)`, trace: "true,i:4 | true,i:5 | true,i:6"},
	{name: "call-paren", src: "local function f() emit(1) end (f)(); (f)()", trace: "i:1 | i:1"},
	{name: "call-string-method", src: `emit(("abc"):upper(), ("x"):rep(3), #("ab"):rep(2))`, trace: `s:"ABC",s:"xxx",i:4`},
	{name: "call-index-result", src: "local function f() return {10, 20, x = {30}} end emit(f()[2], f().x[1], (f())[1], ({7, 8})[2], #{1, 2, 3})", trace: "i:20,i:30,i:10,i:8,i:3"},
	// label ::= '::' Name '::' ; goto Name ; break
	{name: "goto-forward", src: "goto done emit(1) ::done:: emit(2)", trace: "i:2"},
	{name: "goto-backward", src: "local i = 0 ::top:: i = i + 1 if i < 3 then goto top end emit(i)", trace: "i:3"},
	{name: "goto-continue", src: "for i = 1, 3 do if i == 2 then goto continue end emit(i) ::continue:: end", trace: "i:1 | i:3"},
	{name: "goto-out-of-nested", src: "do do goto out end emit(1) end ::out:: emit(2)", trace: "i:2"},
	{name: "goto-out-of-while", src: "local i = 0 while true do i = i + 1 if i > 2 then goto out end end ::out:: emit(i)", trace: "i:3"},
	{name: "label-placements", src: "::a:: do ::b:: ::c:: emit(1) ::d:: end ::e:: ; ::f::", trace: "i:1"},
	{name: "label-end-of-block", src: "do goto l local a = 1 emit(a) ::l:: end emit(2)", trace: "i:2"},
	{name: "label-end-of-block-void", src: "do goto l local a = 1 emit(a) ::l:: ; ::m:: ; end emit(2)", trace: "i:2"},
	{name: "break-while", src: "local i = 0 while true do i = i + 1 if i == 3 then break end end emit(i)", trace: "i:3"},
	{name: "break-repeat", src: "local i = 0 repeat i = i + 1 if i == 2 then break end until false emit(i)", trace: "i:2"},
	{name: "break-for", src: "for i = 1, 10 do if i == 4 then break end emit(i) end", trace: "i:1 | i:2 | i:3"},
	{name: "break-forin", src: "for k, v in ipairs{5, 6, 7} do if k == 2 then break end emit(k, v) end", trace: "i:1,i:5"},
	{name: "break-mid-block", src: "while true do break emit(1) end emit(2)", trace: "i:2"},
	// do / while / repeat / if
	{name: "do-empty", src: "do end do ; end emit(1)", trace: "i:1"},
	{name: "do-scope", src: "local a = 1 do local a = 2 emit(a) end emit(a)", trace: "i:2 | i:1"},
	{name: "while", src: "local i = 0 while i < 3 do i = i + 1 end emit(i)", trace: "i:3"},
	{name: "while-empty", src: "while false do end emit(1)", trace: "i:1"},
	{name: "repeat", src: "local i = 0 repeat i = i + 1 until i >= 3 emit(i)", trace: "i:3"},
	{name: "repeat-local-in-until", src: "local n = 0 repeat local x = n n = n + 1 until x == 2 emit(n)", trace: "i:3"},
	{name: "repeat-empty", src: "repeat until true emit(1)", trace: "i:1"},
	{name: "if", src: "if true then emit(1) end if false then emit(2) end if nil then end", trace: "i:1"},
	{name: "if-else", src: "if false then emit(1) else emit(2) end if 0 then emit(3) else emit(4) end", trace: "i:2 | i:3"},
	{name: "if-elseif", src: "local function c(x) if x == 1 then emit('a') elseif x == 2 then emit('b') end end c(1) c(2) c(3)", trace: `s:"a" | s:"b"`},
	{name: "if-elseif-else", src: "local function c(x) if x == 1 then emit('a') elseif x == 2 then emit('b') elseif x == 3 then emit('c') else emit('d') end end c(1) c(2) c(3) c(4)", trace: `s:"a" | s:"b" | s:"c" | s:"d"`},
	{name: "if-empty-blocks", src: "if false then elseif false then else end emit(1)", trace: "i:1"},
	// for
	{name: "for-num", src: "for i = 1, 3 do emit(i) end", trace: "i:1 | i:2 | i:3"},
	{name: "for-num-step", src: "for i = 10, 1, -4 do emit(i) end for i = 1, 2, 0.5 do emit(i) end", trace: "i:10 | i:6 | i:2 | f:1 | f:1.5 | f:2"},
	{name: "for-in-1", src: "for k in pairs{a = 1} do emit(k) end", trace: `s:"a"`},
	{name: "for-in-2", src: "for i, v in ipairs{4, 5} do emit(i, v) end", trace: "i:1,i:4 | i:2,i:5"},
	{name: "for-in-3names-3exps", src: "local function it(s, c) if c < s then return c + 1, c * 2, 'z' end end for a, b, c in it, 2, 0 do emit(a, b, c) end", trace: `i:1,i:0,s:"z" | i:2,i:2,s:"z"`},
	{name: "for-in-4exps-closing", src: "local closed = false local cv = setmetatable({}, {__close = function() closed = true end}) for i in function(s, c) if c < 1 then return c + 1 end end, nil, 0, cv do emit(i) end emit(closed)", trace: "i:1 | true"},
	// function funcname funcbody ; funcname ::= Name {'.' Name} [':' Name] ; local function
	{name: "function-stat", src: "function GF12() return 1 end emit(GF12()) GF12 = nil", trace: "i:1"},
	{name: "function-dotted", src: "local a = {b = {c = {}}} function a.f() return 1 end function a.b.f() return 2 end function a.b.c.f(x) return x end emit(a.f(), a.b.f(), a.b.c.f(3))", trace: "i:1,i:2,i:3"},
	{name: "function-method", src: "local a = {b = {c = {v = 9}}, v = 8} function a:m(x) return self.v + x end function a.b.c:m(x) return self.v + x end emit(a:m(1), a.b.c:m(1))", trace: "i:9,i:10"},
	{name: "local-function-recursive", src: "local function fact(n) if n <= 1 then return 1 end return n * fact(n - 1) end emit(fact(5))", trace: "i:120"},
	{name: "local-eq-function-scope", src: "local f12 = function() return f12 end emit(f12() == nil)", trace: "true"},
	// functiondef ; parlist ::= namelist [',' '...'] | '...'
	{name: "functiondef-params", src: "local f0 = function() return 0 end local f1 = function(a) return a end local f2 = function(a, b) return a + b end local fv = function(...) return select('#', ...) end local f1v = function(a, ...) return a, select('#', ...) end local f2v = function(a, b, ...) return a + b, ... end emit(f0(), f1(1), f2(1, 2), fv(1, 2, 3), f1v(1, 2, 3)) emit(f2v(1, 2, 3, 4))",
		trace: "i:0,i:1,i:3,i:3,i:1,i:2 | i:3,i:3,i:4"},
	{name: "vararg-chunk", src: "emit(7, ...) emit(select('#', ...)) local a, b = ... emit(a, b)", trace: "i:7 | i:0 | nil,nil"},
	// local attnamelist ['=' explist] ; attrib ::= ['<' Name '>']
	{name: "local-forms", src: "local a local b, c local d = 1 local e, f = 2, 3 local g, h = 4 emit(a, b, c, d, e, f, g, h)", trace: "nil,nil,nil,i:1,i:2,i:3,i:4,nil"},
	{name: "local-const", src: "local a <const> = 5 local b <const>, c = 6, 7 local d, e <const> = 8, 9 emit(a, b, c, d, e) c = 1 d = 2 emit(c, d)", trace: "i:5,i:6,i:7,i:8,i:9 | i:1,i:2"},
	{name: "local-close", src: "do local x <close> = setmetatable({}, {__close = function() emit('closed') end}) emit('body') end emit('after')", trace: `s:"body" | s:"closed" | s:"after"`},
	{name: "local-close-nil-false", src: "do local x <close> = nil local y <close> = false emit(1) end", trace: "i:1"},
	{name: "local-const-close-mixed", src: "do local a <const>, b <close> = 1, nil emit(a, b) end", trace: "i:1,nil"},
	{name: "attrib-spacing", src: "local a < const > = 1 local b<const> = 2 emit(a, b)", trace: "i:1,i:2"},
	// exp
	{name: "exp-constants", src: `emit(nil, false, true, 1, 1.5, 'a', "b", [[c]])`, trace: `nil,false,true,i:1,f:1.5,s:"a",s:"b",s:"c"`},
	{name: "exp-arith", src: "emit(7 + 2, 7 - 2, 7 * 2, 7 / 2, 7 // 2, 7 % 3, 2 ^ 10, -7 // 2, -7 % 3, 7 // 2.0, 7.5 // 2)", trace: "i:9,i:5,i:14,f:3.5,i:3,i:1,f:1024,i:-4,i:2,f:3,f:3"},
	{name: "exp-bitwise", src: "emit(7 & 3, 7 | 8, 7 ~ 2, ~0, 1 << 4, 256 >> 4, ~5 & 0xF, 1 << 63, 1 << 64, -1 >> 1, 3.0 | 0)", trace: "i:3,i:15,i:5,i:-1,i:16,i:16,i:10,i:-9223372036854775808,i:0,i:9223372036854775807,i:3"},
	{name: "exp-compare", src: "emit(1 < 2, 1 <= 1, 2 > 1, 2 >= 3, 1 == 1.0, 1 ~= 2, 'a' < 'b', 'a' == 'a', nil == false)", trace: "true,true,true,false,true,true,true,true,false"},
	{name: "exp-logic", src: "emit(1 and 2, nil and 2, false or 3, 1 or 2, not nil, not 0, nil or false, false and nil)", trace: "i:2,nil,i:3,i:1,true,false,false,false"},
	{name: "exp-concat-len", src: "emit('a' .. 'b' .. 'c', 1 .. 2, #'abc', #{1, 2}, #'')", trace: `s:"abc",s:"12",i:3,i:2,i:0`},
	{name: "exp-unary-chain", src: "emit(- - 2, not not nil, - ~ 0, ~ - 1, # 'ab' .. 'c', -2 ^ 2, 2 ^ -1, 2 ^ 3 ^ 2)", trace: `i:2,false,i:1,i:0,s:"2c",f:-4,f:0.5,f:512`},
	{name: "names", src: "local _ = 1 local _a1, A_ = 2, 3 local anD, End = 4, 5 emit(_, _a1, A_, anD, End)", trace: "i:1,i:2,i:3,i:4,i:5"},
	// tableconstructor ::= '{' [fieldlist] '}' ; fieldlist ::= field {fieldsep field} [fieldsep]
	{name: "table-separators", src: "emit(#{}, #{1}, #{1,}, #{1;}, #{1, 2}, #{1; 2}, #{1, 2;}, #{1; 2,})", trace: "i:0,i:1,i:1,i:1,i:2,i:2,i:2,i:2"},
	{name: "table-fields", src: "local k = 'y' local t = {[10] = 'a', x = 'b', [k] = 'c', ['z' .. 1] = 'd', 'e' ; [2 + 1] = 'f', {}} emit(t[10], t.x, t.y, t.z1, t[1], t[3], type(t[2]))",
		trace: `s:"a",s:"b",s:"c",s:"d",s:"e",s:"f",s:"table"`},
	{name: "table-multi", src: "local function f() return 1, 2, 3 end local t = {f(), f()} local u = {f(), (f())} local v = {...} emit(#t, #u, #v)", trace: "i:4,i:2,i:0"},
	{name: "table-nested", src: "local t = {{1, {2}}, a = {b = {c = 3}}} emit(t[1][1], t[1][2][1], t.a.b.c)", trace: "i:1,i:2,i:3"},
	{name: "longstring-index", src: "local t = {[ [[k]] ] = 1} emit(t[ [[k]] ], t[ [==[k]==] ])", trace: "i:1,i:1"},
	{name: "comments", src: "emit(1) -- c\n--[[ long\n]] emit(2) --[==[ ]] ]==] emit(3) --", trace: "i:1 | i:2 | i:3"},
	// static rules: must be rejected (or fail), §3.3.4, §3.3.7, §3.3.8, §3.4.11, §3.5
	{name: "FAIL-const-assign", src: "local x <const> = 1 x = 2", fail: true},
	{name: "FAIL-goto-undefined", src: "goto nowhere", fail: true},
	{name: "FAIL-label-duplicate", src: "::a:: ::a::", fail: true},
	{name: "FAIL-goto-into-local-scope", src: "goto l local a = 1 ::l:: emit(a)", fail: true},
	{name: "FAIL-unknown-attrib", src: "local x <foo> = 1", fail: true},
}

var exStyles = append([]string{"orig"}, styles...)

func exemplarSource(e exemplar, style string) (string, bool) {
	if style == "orig" {
		return e.src, true
	}
	toks, ok := reflex.Lex(e.src)
	if !ok {
		panic("exemplar does not lex: " + e.name)
	}
	if len(toks) == 0 {
		return "", false
	}
	texts := make([]string, len(toks))
	for i, t := range toks {
		texts[i] = t.Text
	}
	return joinStyle(texts, style), true
}

func statFamilies(tier string) []*core.Family {
	ns := uint64(len(exStyles))
	return []*core.Family{{Name: "statement-forms", Size: uint64(len(exemplars)) * ns,
		Show: func(i uint64) string {
			e := exemplars[i/ns]
			src, _ := exemplarSource(e, exStyles[i%ns])
			return fmt.Sprintf("%s [%s]\n%q", e.name, exStyles[i%ns], src)
		},
		Run: func(i uint64) core.Outcome {
			e, style := exemplars[i/ns], exStyles[i%ns]
			src, ok := exemplarSource(e, style)
			if !ok {
				return core.Outcome{Skipped: true}
			}
			if r := reflex.Recognise(mustLex(src)); r.ErrIdx >= 0 {
				panic(fmt.Sprintf("reference recogniser rejects exemplar %s at token %d", e.name, r.ErrIdx))
			}
			o := run(src)
			key := fmt.Sprintf("stat form=%s style=%s", e.name, style)
			var vs []*core.Violation
			if e.fail {
				if o.Status == "ok" {
					vs = append(vs, viol(key, "%q must be rejected (static rule), observed %s", src, clip(o.String())))
				}
				return out(vs, o.Status, false)
			}
			if o.Status != "ok" || strings.Join(o.Trace, " | ") != e.trace || strings.Join(o.Results, ",") != e.res {
				vs = append(vs, viol(key, "%q\nexpected trace [%s] results (%s)\nobserved %s", src, e.trace, e.res, clip(o.String())))
			}
			return out(vs, o.String(), true)
		}}}
}

func mustLex(src string) []reflex.Token {
	t, ok := reflex.Lex(src)
	if !ok {
		panic("reference lexer rejects " + src)
	}
	return t
}
