package main

import (
	"fmt"
	"sort"
	"strings"

	"verif/engine/core"
	"verif/engine/reflex"
)

// The prelude defines the observers used by the precedence chunks.
//
// RN(f) calls f(A,B,C,D,E) under eight leaf valuations: integers, numeric
// strings, floats, and five "symbolic" ones: tables whose metatable makes every
// arithmetic/bitwise/concat/length operator total and returns a new symbolic
// value named after the operation and its operands (so the final value spells
// the evaluated tree), and whose comparison metamethods log their operands;
// four of them replace some leaves by false/nil so that and/or take the other
// branch.
// RL(f) calls a function whose leaves are literals.
const precPrelude = `
local mt = {}
local function nm(x)
  local t = type(x)
  if t == "table" then return rawget(x, "n") end
  if t == "string" then return "'" .. x .. "'" end
  if t == "nil" then return "nil" end
  if t == "boolean" then if x then return "true" else return "false" end end
  return "num"
end
local function S(name) return setmetatable({n = name}, mt) end
local function bin(op) return function(x, y) return S("(" .. nm(x) .. op .. nm(y) .. ")") end end
mt.__add = bin("+")  mt.__sub = bin("-")  mt.__mul = bin("*")  mt.__div = bin("/")
mt.__mod = bin("%")  mt.__pow = bin("^")  mt.__idiv = bin("//")
mt.__band = bin("&") mt.__bor = bin("|")  mt.__bxor = bin("~")
mt.__shl = bin("<<") mt.__shr = bin(">>") mt.__concat = bin("..")
mt.__unm = function(x) return S("(-" .. nm(x) .. ")") end
mt.__bnot = function(x) return S("(~" .. nm(x) .. ")") end
mt.__len = function(x) return S("(#" .. nm(x) .. ")") end
mt.__lt = function(x, y) emit("L", "<", nm(x), nm(y)) return true end
mt.__le = function(x, y) emit("L", "<=", nm(x), nm(y)) return false end
mt.__eq = function(x, y) emit("L", "==", nm(x), nm(y)) return false end
local sa, sb, sc, sd, se = S"a", S"b", S"c", S"d", S"e"
local function fin(ok, r)
  if not ok then emit("E") elseif type(r) == "table" then emit("T", nm(r)) else emit("V", r) end
end
function RN(f)
  emit("B") fin(pcall(f, 2, 3, 5, 7, 11))
  emit("B") fin(pcall(f, "2", "3", "5", "7", "11"))
  emit("B") fin(pcall(f, 2.5, -3.0, 0.5, 4.0, -0.0))
  emit("B") fin(pcall(f, sa, sb, sc, sd, se))
  emit("B") fin(pcall(f, false, sb, sc, sd, se))
  emit("B") fin(pcall(f, sa, false, sc, sd, se))
  emit("B") fin(pcall(f, nil, false, sc, sd, se))
  emit("B") fin(pcall(f, sa, sb, false, sd, nil))
end
function RL(f) emit("B") fin(pcall(f)) end
`

var litPools = [][]string{
	{"2", "3", "5", "7", "11"},
	{"2.5", `"3"`, "0x5", `'7'`, "1e1"},
}

type pvariant struct {
	name string
	toks []string
	sty  string
	lits int // number of literal leaf pools to use
}

type pfunc struct {
	variant int
	kind    string // names | lit0 | lit1
	text    string // expression text
}

func substLits(toks []string, pool []string) []string {
	o := make([]string, len(toks))
	for i, t := range toks {
		if len(t) == 1 && t[0] >= 'A' && t[0] <= 'E' {
			o[i] = pool[t[0]-'A']
		} else {
			o[i] = t
		}
	}
	return o
}

// precVariants lists the spellings of a tree.  richness 2 (<= 2 operators):
// every style and every redundant pair, each with name and literal leaves;
// 1 (3 operators): the same spellings, literal leaves only for the plain
// ones and four styles; 0 (4 operators): fully parenthesised, minimal, minimal
// one token per line, name leaves only (compiling one function costs ~0.3 ms,
// this keeps the thorough tier
// inside its budget; sub-tree redundancy and styles are local properties
// covered exhaustively on the smaller trees).
func precVariants(n *reflex.Node, rich int) []pvariant {
	vs := []pvariant{{name: "full", toks: n.Tokens(true, nil), sty: "space", lits: 2}}
	min := n.Tokens(false, nil)
	if rich == 0 {
		vs[0].lits = 0
		vs = append(vs, pvariant{name: "min/space", toks: min, sty: "space"})
		vs = append(vs, pvariant{name: "min/nl", toks: min, sty: "nl"})
		return vs
	}
	sts := styles
	if rich == 1 {
		sts = []string{"space", "nl", "longcomment", "compact"} // the other styles: <= 2 operators and statement-forms
	}
	for _, s := range sts {
		l := 0
		if rich == 2 || s == "space" || s == "compact" {
			l = 2
		}
		vs = append(vs, pvariant{name: "min/" + s, toks: min, sty: s, lits: l})
	}
	for k, st := range n.Subtrees() {
		l := 0
		if rich == 2 {
			l = 2
		}
		vs = append(vs, pvariant{name: fmt.Sprintf("redundant@%d", k), toks: n.Tokens(false, st), sty: "space", lits: l})
	}
	return vs
}

func precChunk(vs []pvariant) (string, []pfunc) {
	var sb strings.Builder
	var fs []pfunc
	for i, v := range vs {
		body := func(toks []string) string {
			all := append(append([]string{"return"}, toks...), "end")
			return joinStyle(all, v.sty)
		}
		fmt.Fprintf(&sb, "RN(function(A,B,C,D,E) %s)\n", body(v.toks))
		fs = append(fs, pfunc{i, "names", joinStyle(v.toks, v.sty)})
		{
			for k, pool := range litPools[:v.lits] {
				lt := substLits(v.toks, pool)
				fmt.Fprintf(&sb, "RL(function() %s)\n", body(lt))
				fs = append(fs, pfunc{i, fmt.Sprintf("lit%d", k), joinStyle(lt, v.sty)})
			}
		}
	}
	return sb.String(), fs
}

// segments splits a trace at the "B" markers; inside a segment the log
// entries are sorted (the manual fixes no operand evaluation order).
func segments(trace []string) []string {
	var segs []string
	var cur []string
	flush := func() {
		if cur == nil {
			return
		}
		fin := cur[len(cur)-1]
		logs := append([]string(nil), cur[:len(cur)-1]...)
		sort.Strings(logs)
		segs = append(segs, strings.Join(logs, ";")+" => "+fin)
		cur = nil
	}
	for _, e := range trace {
		if e == `s:"B"` {
			flush()
			cur = []string{}
			continue
		}
		cur = append(cur, e)
	}
	flush()
	return segs
}

func segCount(kind string) int {
	if kind == "names" {
		return 8
	}
	return 1
}

func runPrecTree(fam string, n *reflex.Node, rich int) core.Outcome {
	vs := precVariants(n, rich)
	src, fs := precChunk(vs)
	tree := reflex.Compact(n.Tokens(true, nil))
	o := run(src)
	want := 0
	for _, f := range fs {
		want += segCount(f.kind)
	}
	segs := segments(o.Trace)
	var viols []*core.Violation
	if o.Status != "ok" || len(segs) != want {
		// some spelling was rejected (or the chunk failed): find which, one function per chunk
		for _, f := range fs {
			one := fmt.Sprintf("RL(function() return %s\nend)", f.text)
			if f.kind == "names" {
				one = fmt.Sprintf("RN(function(A,B,C,D,E) return %s\nend)", f.text)
			}
			r := run(one)
			if r.Status != "ok" || len(segments(r.Trace)) != segCount(f.kind) {
				viols = append(viols, viol(fmt.Sprintf("prec tree=%s variant=%s leaves=%s clause=rejected", tree, vs[f.variant].name, f.kind),
					"valid expression not accepted/run:\n%s\nobserved: %s", f.text, clip(r.String())))
			}
		}
		if len(viols) == 0 {
			viols = append(viols, viol(fmt.Sprintf("prec tree=%s clause=chunk-failed", tree), "chunk of all spellings failed but each spelling alone succeeds: %s\n%s", clip(o.String()), clip(src)))
		}
		return out(viols, o.Status, false)
	}
	// reference: variant 0 (fully parenthesised) of the same leaf kind
	ref := map[string][]string{}
	pos := 0
	nontrivial := false
	var sig strings.Builder
	for _, f := range fs {
		k := segCount(f.kind)
		got := segs[pos : pos+k]
		pos += k
		if f.variant == 0 {
			ref[f.kind] = got
			for _, s := range got {
				sig.WriteString(s)
				if !strings.HasSuffix(s, `=> s:"E"`) {
					nontrivial = true
				}
			}
			continue
		}
		w := ref[f.kind]
		for j := range got {
			if got[j] != w[j] {
				viols = append(viols, viol(fmt.Sprintf("prec tree=%s variant=%s leaves=%s", tree, vs[f.variant].name, f.kind),
					"spelling\n  %s\nmust denote the tree\n  %s\nvaluation %d: fully parenthesised gives %s, this spelling gives %s",
					f.text, strings.Join(vs[0].toks, " "), j, w[j], got[j]))
				break
			}
		}
	}
	return out(viols, sig.String(), nontrivial)
}

func precFamilies(tier string) []*core.Family {
	maxOps := 3
	if tier == "thorough" {
		maxOps = 4
	}
	T := reflex.CountTrees(maxOps)
	var fams []*core.Family
	for k := 1; k <= maxOps; k++ {
		k := k
		name := fmt.Sprintf("prec-%dop", k)
		rich := 2
		if k == 3 {
			rich = 1
		} else if k >= 4 {
			rich = 0
		}
		budget := 0
		if k >= 4 {
			budget = 900 // stops itself (exhaustive:false) on a loaded machine; ~7 min on 16 idle cores
		}
		fams = append(fams, &core.Family{Name: name, Size: T[k], BudgetSeconds: budget,
			Show: func(i uint64) string {
				n := reflex.Unrank(k, i)
				return fmt.Sprintf("tree %s printed as: %s", strings.Join(n.Tokens(true, nil), " "), strings.Join(n.Tokens(false, nil), " "))
			},
			Run: func(i uint64) core.Outcome {
				return runPrecTree(name, reflex.Unrank(k, i), rich)
			}})
	}
	return fams
}
