package main

import (
	"fmt"
	"strings"

	rt "github.com/arnodel/golua/runtime"

	"verif/engine/core"
)

// Multi-valuedness (§3.4.12): "If a function call is used as ... the last (or
// the only) element of a list of expressions, then no adjustment is made ...
// In all other contexts, Lua adjusts the result list to one element ... any
// expression enclosed in parentheses always results in only one value", and
// the same for the vararg expression.

// producers of k values 11,12,..,10+k
var mvProducers = []struct {
	name, text string
	vararg     bool
}{
	{"call", "f()", false},
	{"callstr", `f""`, false},
	{"calltab", "f{}", false},
	{"method", "o:m()", false},
	{"vararg", "...", true},
}

var mvParens = []string{"%s", "(%s)", "((%s))"}

// list shapes over X (the producer) and the single value 7
var mvShapes = [][]string{{"X"}, {"7", "X"}, {"X", "7"}, {"X", "X"}, {"7", "X", "7"}, {"X", "7", "X"}}

// contexts: how the expression list is received and observed
var mvContexts = []string{"args", "argsmethod", "return", "table", "tablesemi", "local", "assign", "forin", "single-operand", "single-index", "single-field", "single-cond", "single-fornum"}

// refList gives the values of an expression list: every producer yields k
// values 11.., adjusted by position and parentheses.
func refList(shape []string, k int, paren bool) []string {
	prod := func(last bool) []string {
		var vs []string
		for i := 0; i < k; i++ {
			vs = append(vs, fmt.Sprintf("i:%d", 11+i))
		}
		if last && !paren {
			return vs
		}
		if len(vs) == 0 {
			return []string{"nil"}
		}
		return vs[:1]
	}
	var out []string
	for i, e := range shape {
		if e == "X" {
			out = append(out, prod(i == len(shape)-1)...)
		} else {
			out = append(out, "i:"+e)
		}
	}
	return out
}

func adjust(vs []string, n int) []string {
	o := append([]string(nil), vs...)
	for len(o) < n {
		o = append(o, "nil")
	}
	return o[:n]
}

type mvCase struct {
	ctx, prod, paren, shape, k int
}

func mvDecode(i uint64) mvCase {
	var c mvCase
	c.k = int(i % 4)
	i /= 4
	c.paren = int(i % uint64(len(mvParens)))
	i /= uint64(len(mvParens))
	c.prod = int(i % uint64(len(mvProducers)))
	i /= uint64(len(mvProducers))
	c.shape = int(i % uint64(len(mvShapes)))
	i /= uint64(len(mvShapes))
	c.ctx = int(i)
	return c
}

// mvProgram builds the chunk and the expected trace/results; ok=false if the
// combination is excluded.
func mvProgram(c mvCase) (src string, wantTrace []string, wantRes []string, ok bool) {
	p := mvProducers[c.prod]
	x := fmt.Sprintf(mvParens[c.paren], p.text)
	shape := mvShapes[c.shape]
	elems := make([]string, len(shape))
	for i, e := range shape {
		if e == "X" {
			elems[i] = x
		} else {
			elems[i] = e
		}
	}
	list := strings.Join(elems, ", ")
	vals := refList(shape, c.k, c.paren > 0)
	ctx := mvContexts[c.ctx]
	var rets []string
	for i := 0; i < c.k; i++ {
		rets = append(rets, fmt.Sprint(11+i))
	}
	pre := fmt.Sprintf("local function f() return %s end\nlocal o = {m = function(self) return %s end}\n", strings.Join(rets, ", "), strings.Join(rets, ", "))
	first := adjust(refList([]string{"X"}, c.k, true), 1)[0]
	single := strings.HasPrefix(ctx, "single")
	if single && c.shape != 0 {
		return "", nil, nil, false
	}
	switch ctx {
	case "args":
		src = pre + "emit(" + list + ")"
		wantTrace = []string{strings.Join(vals, ",")}
	case "argsmethod":
		src = pre + "local r = {g = function(self, ...) emit(...) end}\nr:g(" + list + ")"
		wantTrace = []string{strings.Join(vals, ",")}
	case "return":
		src = pre + "return " + list
		wantRes = vals
	case "table", "tablesemi":
		sep := ", "
		end := ""
		if ctx == "tablesemi" {
			sep, end = "; ", ";"
		}
		src = pre + "local t = {" + strings.Join(elems, sep) + end + "}\nemit(t[1], t[2], t[3], t[4], t[5], t[6], t[7])"
		wantTrace = []string{strings.Join(adjust(vals, 7), ",")}
	case "local":
		src = pre + "local a, b, c, d, e, g, h = " + list + "\nemit(a, b, c, d, e, g, h)"
		wantTrace = []string{strings.Join(adjust(vals, 7), ",")}
	case "assign":
		src = pre + "local t = {}\nlocal a, b\na, t.b, t[3], b, t.e = " + list + "\nemit(a, t.b, t[3], b, t.e)"
		wantTrace = []string{strings.Join(adjust(vals, 5), ",")}
	case "forin":
		// for namelist in explist: the list is adjusted to (iterator, state, control, closing)
		if len(adjust(append([]string{"F"}, vals...), 4)) == 4 && adjust(append([]string{"F"}, vals...), 4)[3] != "nil" {
			return "", nil, nil, false // a non-nil closing value must be closable
		}
		src = pre + "for _ in function(s, c) emit(s, c) end, " + list + " do end"
		wantTrace = []string{strings.Join(adjust(vals, 2), ",")}
	case "single-operand":
		src = pre + "emit(" + x + " or 0, " + x + " == nil, not " + x + ")"
		a, b, n := first, "false", "false"
		if first == "nil" {
			a, b, n = "i:0", "true", "true"
		}
		wantTrace = []string{a + "," + b + "," + n}
	case "single-index":
		src = pre + "local t = {[11] = 'x'}\nemit(t[" + x + " or 11])"
		wantTrace = []string{`s:"x"`}
	case "single-field":
		src = pre + "local t = {k = " + x + ", [5] = " + x + ", 7}\nemit(t.k, t[5], t[1], t[2])"
		wantTrace = []string{first + "," + first + ",i:7,nil"}
	case "single-cond":
		src = pre + "if " + x + " then emit(1) else emit(2) end\nwhile " + x + " do emit(3) break end\nrepeat emit(4) until " + x + " or true"
		if first == "nil" {
			wantTrace = []string{"i:2", "i:4"}
		} else {
			wantTrace = []string{"i:1", "i:3", "i:4"}
		}
	case "single-fornum":
		if c.k == 0 {
			return "", nil, nil, false
		}
		src = pre + "for i = " + x + ", " + x + " do emit(i) end"
		wantTrace = []string{"i:11"}
	}
	return src, wantTrace, wantRes, true
}

func multivalFamilies(tier string) []*core.Family {
	size := uint64(len(mvContexts) * len(mvShapes) * len(mvProducers) * len(mvParens) * 4)
	key := func(c mvCase) string {
		return fmt.Sprintf("multival expr=%s ctx=%s shape=%s k=%d", fmt.Sprintf(mvParens[c.paren], mvProducers[c.prod].text),
			mvContexts[c.ctx], strings.Join(mvShapes[c.shape], ","), c.k)
	}
	return []*core.Family{{Name: "multival", Size: size,
		Show: func(i uint64) string {
			c := mvDecode(i)
			src, _, _, ok := mvProgram(c)
			if !ok {
				return key(c) + " (excluded)"
			}
			return key(c) + "\n" + src
		},
		Run: func(i uint64) core.Outcome {
			c := mvDecode(i)
			src, wantTrace, wantRes, ok := mvProgram(c)
			if !ok {
				return core.Outcome{Skipped: true}
			}
			var args []rt.Value
			for j := 0; j < c.k; j++ {
				args = append(args, rt.IntValue(int64(11+j)))
			}
			o := run(src, args...)
			var vs []*core.Violation
			if o.Status != "ok" || strings.Join(o.Trace, " | ") != strings.Join(wantTrace, " | ") || strings.Join(o.Results, ",") != strings.Join(wantRes, ",") {
				vs = append(vs, viol(key(c), "program (chunk called with %d arguments 11..):\n%s\nexpected trace [%s] results (%s)\nobserved %s",
					c.k, src, strings.Join(wantTrace, " | "), strings.Join(wantRes, ", "), clip(o.String())))
			}
			return out(vs, o.String(), true)
		}}}
}
