// C10 — to-be-closed variables are closed exactly once, in reverse order, on
// every exit.  Bounded-exhaustive families of small programs (package gen)
// are run by golua and by the reference interpreter reflua; the emit trace,
// the results and the error value must agree.  See NOTES.md.
package main

import (
	"verif/engine/cmd/c10/fam"
	"verif/engine/core"
)

func main() {
	core.Main(&core.Check{
		ID:    "C10",
		Level: "model_checking",
		Rule: "whenever control leaves the scope of `local x <close>` variables (end of block, break, goto, return, error, coroutine.close) " +
			"each pending value's __close runs exactly once, in reverse order of declaration, with the in-flight error (or nil), before the code that receives control; " +
			"a handler error replaces the error and the remaining handlers still run; a non-closable value raises at the declaration; " +
			"a pending close disables the tail call",
		Assumptions: []string{
			"oracle: reflua (definitional interpreter written from the Lua 5.4 manual §3.3.8, §3.3.5, §6.2), emit trace + results + error value compared exactly; error message texts are never compared",
			"the main chunk is called through Thread.CallContext (non-nil RuntimeContextDef), the way pcall calls a function; the unprotected rt.Call convention is documented by family unprotected-host-call",
			"skipped as undetermined by the manual: __close removed after the declaration, a handler that yields while the coroutine is being closed, closing a coroutine suspended inside a handler, jumps over a local to the end of a repeat body",
		},
		Families: fam.Families,
	})
}
