// Package gen builds the C10 program families: nestings of scope-introducing
// constructs with to-be-closed declarations at the statement positions of
// every level, crossed with one exit statement.  A program is described by a
// Spec, which renders to Lua text; the text is parsed by prog.Parse for the
// reference interpreter and compiled as it is by golua.  No golua import.
package gen

import (
	"fmt"
	"strings"
)

// Kind is the construct that forms one nesting level.
type Kind int

const (
	KChunk    Kind = iota // the level's body is the main chunk itself (level 1 only)
	KDo                   // do ... end
	KFor                  // for i = 1, 2 do ... end
	KWhile                // while n < 2 do n = n + 1 ... end
	KRepeat               // repeat n = n + 1 ... until U(n, v)   (v: last tbc variable of the body)
	KFunc                 // local function f() ... end  emit("ret", f())
	KPcall                // emit("pcall", pcall(function() ... end))
	KCoCreate             // coroutine.create + resume loop + coroutine.close
	KCoWrap               // coroutine.wrap + call loop
	KGenFor               // for i in it, nil, 0, <closing value> do ... end  (2 iterations)
	KXpcall               // emit("xpcall", xpcall(function() ... end, msgh))   msgh logs and passes the error on
	NKinds
)

var kindName = [...]string{"chunk", "do", "for", "while", "repeat", "func", "pcall", "cocreate", "cowrap", "genfor", "xpcall"}

func (k Kind) String() string { return kindName[k] }
func (k Kind) IsLoop() bool   { return k == KFor || k == KWhile || k == KRepeat || k == KGenFor }
func (k Kind) IsBlock() bool  { return k == KDo || k.IsLoop() }
func (k Kind) IsCo() bool     { return k == KCoCreate || k == KCoWrap }

// DKind is the kind of value (and handler) of one `local v <close>`.
type DKind int

const (
	HLog     DKind = iota // handler logs ("close", name, err)
	HRaise                // logs, then error("H"..name, 0)
	HRaiseT               // logs, declares a to-be-closed variable of its own, then error({})
	HYield                // logs, yields "H", logs ("resumed", name)
	VFalse                // local v <close> = false
	VNil                  // local v <close> = nil
	VNoMeta               // = {}                    (must raise at the declaration)
	VPlainMT              // = setmetatable({}, {})  (must raise at the declaration)
	VString               // = "s"                   (must raise)
	VNumber               // = 42                    (must raise)
	VFunc                 // = function() end        (must raise)
	VLate                 // = t, where t gets its __close only after the declaration (must raise)
	HSwap                 // handler replaced (another function) after the declaration: the current one is called
	HRemove               // __close removed after the declaration: the manual does not say what happens (reference: Unspec)
	NDKinds
)

var dkindName = [...]string{"hlog", "hraise", "hraiset", "hyield", "false", "nil", "nometa", "plainmt", "string", "number", "func", "late", "hswap", "hremove"}

func (k DKind) String() string { return dkindName[k] }

// Decl places one declaration: Level 1..d, Slot 0 (before the nested
// construct) or 1 (after it, before the exit statement).
type Decl struct {
	Level, Slot int
	Kind        DKind
}

// XKind is the exit statement.
type XKind int

const (
	XFall XKind = iota
	XBreak
	XGotoOut1
	XGotoOut2
	XGotoBack0
	XGotoBack1
	XGotoBack2
	XGotoCont0
	XGotoCont1
	XGotoCont2
	XReturn
	XReturnCall
	XError
	XCallee
	XYield        // yield "Z", then go on
	XYieldClose   // yield "Y", the driver closes the coroutine
	XYieldAbandon // yield "Y", the driver never resumes the coroutine again
	XIterErr      // the iterator of the generic for at level E raises at its next call
	NXKinds
)

var xkindName = [...]string{"fall", "break", "gotoout1", "gotoout2", "gotoback0", "gotoback1", "gotoback2",
	"gotocont0", "gotocont1", "gotocont2", "return", "returncall", "error", "callee", "yield", "yieldclose", "yieldabandon", "itererr"}

func (k XKind) String() string { return xkindName[k] }

// Spec describes one program.
type Spec struct {
	Nest  []Kind // Nest[0] is level 1 (outermost)
	Decls []Decl // in order of (Level, Slot)
	Exit  XKind
	E     int   // level whose body ends with the exit statement (1..d)
	W     int   // the exit fires at the W-th passage of the exit point (1 or 2)
	GF    DKind // kind of the closing value of every KGenFor level
}

func (s *Spec) hasGenFor() bool {
	for _, k := range s.Nest {
		if k == KGenFor {
			return true
		}
	}
	return false
}

func (s *Spec) depth() int      { return len(s.Nest) }
func (s *Spec) kind(l int) Kind { return s.Nest[l-1] } // l in 1..d
func (s *Spec) blocks(a, b int) bool { // levels a..b are all block kinds
	for l := a; l <= b; l++ {
		if !s.kind(l).IsBlock() {
			return false
		}
	}
	return true
}

// innerCo returns the innermost coroutine level <= l, or 0.
func (s *Spec) innerCo(l int) int {
	for ; l >= 1; l-- {
		if s.kind(l).IsCo() {
			return l
		}
	}
	return 0
}

func (s *Spec) hasDecl(level, slot int) bool {
	for _, d := range s.Decls {
		if d.Level == level && d.Slot == slot {
			return true
		}
	}
	return false
}

// Valid reports whether s is a canonical, compilable program of the family.
func (s *Spec) Valid() bool {
	d := s.depth()
	if d == 0 {
		return false
	}
	for l := 1; l <= d; l++ {
		if s.kind(l) == KChunk && l != 1 {
			return false
		}
	}
	for i, dc := range s.Decls {
		if dc.Level < 1 || dc.Level > d {
			return false
		}
		if i > 0 {
			p := s.Decls[i-1]
			if p.Level > dc.Level || p.Level == dc.Level && p.Slot > dc.Slot {
				return false
			}
		}
		if dc.Kind == HYield && s.innerCo(dc.Level) == 0 {
			return false // the handler would only raise "yield outside a coroutine"
		}
	}
	for l := 1; l <= d; l++ {
		if s.kind(l) == KGenFor && s.GF == HYield && s.innerCo(l) == 0 {
			return false
		}
	}
	E := s.E
	if s.Exit == XFall {
		return E == 1 && s.W == 1
	}
	if E < 1 || E > d || s.W < 1 || s.W > 2 {
		return false
	}
	if s.W == 2 {
		// a second passage needs a loop around the exit point
		loop := false
		for l := 1; l <= E; l++ {
			if s.kind(l).IsLoop() {
				loop = true
			}
		}
		if !loop {
			return false
		}
	}
	switch s.Exit {
	case XBreak:
		l := E
		for l >= 1 && s.kind(l) == KDo {
			l--
		}
		return l >= 1 && s.kind(l).IsLoop()
	case XGotoOut1, XGotoOut2:
		k := 1 + int(s.Exit-XGotoOut1)
		T := E - k
		if T < 0 {
			return false
		}
		return s.blocks(T+1, E)
	case XGotoBack0, XGotoBack1, XGotoBack2:
		k := int(s.Exit - XGotoBack0)
		T := E - k
		if T < 1 {
			return false
		}
		return s.blocks(T+1, E)
	case XGotoCont0, XGotoCont1, XGotoCont2:
		k := int(s.Exit - XGotoCont0)
		T := E - k
		if T < 1 || !s.kind(T).IsLoop() || !s.blocks(T+1, E) {
			return false
		}
		if k > 0 && s.kind(T) == KRepeat && s.hasDecl(T, 1) {
			// the jump would pass a local declaration and land in front of an
			// `until` that reads it: left open by the manual
			return false
		}
		return true
	case XIterErr:
		return s.kind(E) == KGenFor
	case XYield, XYieldAbandon:
		return s.innerCo(E) != 0
	case XYieldClose:
		c := s.innerCo(E)
		return c != 0 && s.kind(c) == KCoCreate
	}
	return true
}

// Key is the canonical descriptor used in violation keys.
func (s *Spec) Key() string {
	var sb strings.Builder
	sb.WriteString("nest=")
	for i, k := range s.Nest {
		if i > 0 {
			sb.WriteByte('/')
		}
		sb.WriteString(k.String())
	}
	sb.WriteString(" decls=")
	if len(s.Decls) == 0 {
		sb.WriteString("-")
	}
	for i, d := range s.Decls {
		if i > 0 {
			sb.WriteByte(',')
		}
		fmt.Fprintf(&sb, "%d%c:%s", d.Level, "AB"[d.Slot], d.Kind)
	}
	if s.hasGenFor() {
		fmt.Fprintf(&sb, " gf=%s", s.GF)
	}
	if s.Exit == XFall {
		sb.WriteString(" exit=fall")
	} else {
		fmt.Fprintf(&sb, " exit=%s@%d w=%d", s.Exit, s.E, s.W)
	}
	return sb.String()
}

// ---------------------------------------------------------------- rendering

type writer struct {
	sb  strings.Builder
	ind int
}

func (w *writer) ln(f string, a ...interface{}) {
	w.sb.WriteString(strings.Repeat("  ", w.ind))
	if len(a) == 0 {
		w.sb.WriteString(f)
	} else {
		fmt.Fprintf(&w.sb, f, a...)
	}
	w.sb.WriteByte('\n')
}

// Prelude lines, included only when used.
const (
	preHLog    = `local function hlog(n) return setmetatable({name = n}, {__close = function(o, e) emit("close", o.name, e) end}) end`
	preHRaise  = `local function hraise(n) return setmetatable({name = n}, {__close = function(o, e) emit("close", o.name, e) error("H" .. n, 0) end}) end`
	// (this handler also has a pending to-be-closed variable of its own when it raises)
	preHRaiseT = `local function hraiset(n) return setmetatable({name = n}, {__close = function(o, e) emit("close", o.name, e) local own <close> = setmetatable({}, {__close = function(_, e2) emit("close-own", n, e2) end}) error({}) end}) end`
	preHYield  = `local function hyield(n) return setmetatable({name = n}, {__close = function(o, e) emit("close", o.name, e) coroutine.yield("H") emit("resumed", o.name) end}) end`
	preHSwap   = `local function hswap(n) return setmetatable({name = n}, {__close = function(o, e) emit("old handler", o.name, e) end}) end`
	preRF      = `local function rf(x) emit("rf", x) return x, "r2" end`
	preBoom    = `local function boom() error("B", 0) end`
	preIt      = `local function it(s, k) emit("it", k) if k < 2 then return k + 1 end end`
	preItBad   = `local function it(s, k) emit("it", k) if bad then error("I", 0) end if k < 2 then return k + 1 end end`
	preC       = `local function C(n) emit("cond", n) return n < 2 end`
	preMsgh    = `local function msgh(e) emit("msgh", e) return e end`
	preU       = `local function U(n, o) emit("until", n, o and o.name) return n >= 2 end`
)

// Lua renders the program.
func (s *Spec) Lua() string {
	w := &writer{}
	used := map[DKind]bool{}
	for _, d := range s.Decls {
		used[d.Kind] = true
	}
	if s.hasGenFor() {
		used[s.GF] = true
		if s.Exit == XIterErr {
			w.ln("local bad = false")
			w.ln(preItBad)
		} else {
			w.ln(preIt)
		}
	}
	if used[HLog] {
		w.ln(preHLog)
	}
	if used[HRaise] {
		w.ln(preHRaise)
	}
	if used[HRaiseT] {
		w.ln(preHRaiseT)
	}
	if used[HYield] {
		w.ln(preHYield)
	}
	if used[HSwap] || used[HRemove] {
		w.ln(preHSwap)
	}
	if s.Exit == XReturnCall {
		w.ln(preRF)
	}
	if s.Exit == XCallee {
		w.ln(preBoom)
	}
	if s.Exit == XError {
		w.ln("local ET = {}")
	}
	has := map[Kind]bool{}
	for _, k := range s.Nest {
		has[k] = true
	}
	if has[KRepeat] {
		w.ln(preU)
	}
	if has[KWhile] {
		w.ln(preC)
	}
	if has[KXpcall] {
		w.ln(preMsgh)
	}
	if s.Exit != XFall {
		w.ln("local c = 0")
	}
	if s.kind(1) == KChunk {
		s.body(w, 1)
		return w.sb.String()
	}
	s.construct(w, 1)
	if s.gotoTarget("out") == 0 {
		w.ln("::out0::")
	}
	w.ln(`emit("end")`)
	return w.sb.String()
}

// gotoTarget returns the level carrying the label of the given sort for this
// spec's exit, or -1.
func (s *Spec) gotoTarget(sort string) int {
	switch {
	case sort == "out" && (s.Exit == XGotoOut1 || s.Exit == XGotoOut2):
		return s.E - 1 - int(s.Exit-XGotoOut1)
	case sort == "top" && s.Exit >= XGotoBack0 && s.Exit <= XGotoBack2:
		return s.E - int(s.Exit-XGotoBack0)
	case sort == "cont" && s.Exit >= XGotoCont0 && s.Exit <= XGotoCont2:
		return s.E - int(s.Exit-XGotoCont0)
	}
	return -1
}

func (s *Spec) declName(i int) string { return fmt.Sprintf("v%d", i+1) }

func (s *Spec) decls(w *writer, level, slot int) {
	for i, d := range s.Decls {
		if d.Level != level || d.Slot != slot {
			continue
		}
		n := s.declName(i)
		switch d.Kind {
		case HLog, HRaise, HRaiseT, HYield:
			w.ln(`local %s <close> = %s("%s")`, n, d.Kind, n)
		case VFalse:
			w.ln(`local %s <close> = false`, n)
		case VNil:
			w.ln(`local %s <close> = nil`, n)
		case VNoMeta:
			w.ln(`local %s <close> = {}`, n)
		case VPlainMT:
			w.ln(`local %s <close> = setmetatable({}, {})`, n)
		case VString:
			w.ln(`local %s <close> = "s"`, n)
		case VNumber:
			w.ln(`local %s <close> = 42`, n)
		case VFunc:
			w.ln(`local %s <close> = function() end`, n)
		case VLate:
			w.ln(`local t%s = {name = "%s"}`, n, n)
			w.ln(`local %s <close> = t%s`, n, n)
			w.ln(`setmetatable(t%s, {__close = function(o, e) emit("close", o.name, e) end})`, n)
		case HRemove:
			w.ln(`local %s <close> = hswap("%s")`, n, n)
			w.ln(`getmetatable(%s).__close = nil`, n)
		case HSwap:
			w.ln(`local %s <close> = hswap("%s")`, n, n)
			w.ln(`getmetatable(%s).__close = function(o, e) emit("close", o.name, e) end`, n)
		}
	}
}

// valueExpr is the expression for a closing value of kind k (kinds that need
// no statement of their own).
func valueExpr(k DKind, name string) string {
	switch k {
	case HLog, HRaise, HRaiseT, HYield:
		return fmt.Sprintf(`%s("%s")`, k, name)
	case VFalse:
		return "false"
	case VNil:
		return "nil"
	case VNoMeta:
		return "{}"
	case VPlainMT:
		return "setmetatable({}, {})"
	case VString:
		return `"s"`
	case VNumber:
		return "42"
	case VFunc:
		return "function() end"
	}
	panic("gen: kind has no value expression")
}

// untilVar: the last to-be-closed variable declared in the body of level l.
func (s *Spec) untilVar(l int) string {
	v := "nil"
	for i, d := range s.Decls {
		if d.Level == l {
			v = s.declName(i)
		}
	}
	return v
}

func (s *Spec) exitStmt(w *writer) {
	var x string
	switch s.Exit {
	case XBreak:
		x = "break"
	case XGotoOut1, XGotoOut2:
		x = fmt.Sprintf("goto out%d", s.gotoTarget("out"))
	case XGotoBack0, XGotoBack1, XGotoBack2:
		x = fmt.Sprintf("goto top%d", s.gotoTarget("top"))
	case XGotoCont0, XGotoCont1, XGotoCont2:
		x = fmt.Sprintf("goto cont%d", s.gotoTarget("cont"))
	case XReturn:
		x = `return "r1", "r2"`
	case XReturnCall:
		x = `return rf("a")`
	case XError:
		x = "error(ET)"
	case XCallee:
		x = "boom()"
	case XIterErr:
		x = "bad = true"
	case XYield:
		x = `coroutine.yield("Z")`
	case XYieldClose, XYieldAbandon:
		x = `coroutine.yield("Y")`
	}
	w.ln("c = c + 1")
	w.ln("if c == %d then %s end", s.W, x)
}

func (s *Spec) body(w *writer, l int) {
	if s.gotoTarget("top") == l {
		w.ln("::top%d::", l)
	}
	w.ln(`emit("in", %d)`, l)
	s.decls(w, l, 0)
	if l < s.depth() {
		s.construct(w, l+1)
		if s.gotoTarget("out") == l {
			w.ln("::out%d::", l)
		}
	}
	w.ln(`emit("mid", %d)`, l)
	s.decls(w, l, 1)
	if s.Exit != XFall && s.E == l {
		s.exitStmt(w)
	}
	w.ln(`emit("out", %d)`, l)
	if s.gotoTarget("cont") == l {
		w.ln("::cont%d::", l)
	}
}

// construct writes the statements that realise level l inside level l-1.
func (s *Spec) construct(w *writer, l int) {
	in := func() { w.ind++; s.body(w, l); w.ind-- }
	switch s.kind(l) {
	case KDo:
		w.ln("do")
		in()
		w.ln("end")
	case KFor:
		w.ln("for i%d = 1, 2 do", l)
		in()
		w.ln("end")
	case KGenFor:
		w.ln("for i%d in it, nil, 0, %s do", l, valueExpr(s.GF, fmt.Sprintf("gf%d", l)))
		in()
		w.ln("end")
	case KWhile:
		w.ln("local n%d = 0", l)
		w.ln("while C(n%d) do", l)
		w.ind++
		w.ln("n%d = n%d + 1", l, l)
		w.ind--
		in()
		w.ln("end")
	case KRepeat:
		w.ln("local n%d = 0", l)
		w.ln("repeat")
		w.ind++
		w.ln("n%d = n%d + 1", l, l)
		w.ind--
		in()
		w.ln("until U(n%d, %s)", l, s.untilVar(l))
	case KFunc:
		w.ln("local function f%d()", l)
		in()
		w.ln("end")
		w.ln(`emit("ret", f%d())`, l)
	case KPcall:
		w.ln(`emit("pcall", pcall(function()`)
		in()
		w.ln("end))")
	case KXpcall:
		w.ln(`emit("xpcall", xpcall(function()`)
		in()
		w.ln("end, msgh))")
	case KCoCreate:
		w.ln("local co%d = coroutine.create(function()", l)
		in()
		w.ln("end)")
		w.ln("for _ = 1, 30 do")
		w.ind++
		w.ln(`if coroutine.status(co%d) ~= "suspended" then break end`, l)
		w.ln("local ok, a, b = coroutine.resume(co%d)", l)
		w.ln(`emit("resume", ok, a, b)`)
		mine := s.innerCo(s.E) == l && s.Exit != XFall
		if mine && (s.Exit == XYieldClose || s.Exit == XYieldAbandon) {
			w.ln(`if ok and a == "Y" then break end`)
		}
		w.ind--
		w.ln("end")
		w.ln(`emit("status", coroutine.status(co%d))`, l)
		if !(mine && s.Exit == XYieldAbandon) {
			w.ln(`emit("coclose", coroutine.close(co%d))`, l)
			w.ln(`emit("status", coroutine.status(co%d))`, l)
		}
	case KCoWrap:
		w.ln("local w%d = coroutine.wrap(function()", l)
		in()
		w.ln("end)")
		w.ln("for _ = 1, 30 do")
		w.ind++
		w.ln("local a, b = w%d()", l)
		w.ln(`emit("wrap", a, b)`)
		w.ln(`if a ~= "H" and a ~= "Z" then break end`)
		w.ind--
		w.ln("end")
	default:
		panic("gen: bad kind")
	}
}

// ---------------------------------------------------------------- enumeration

// Nestings lists every nesting of exactly depth d over the given kinds
// (KChunk, if present in kinds, only at level 1), simplest first.
func Nestings(d int, kinds []Kind) [][]Kind {
	var out [][]Kind
	cur := make([]Kind, d)
	var rec func(l int)
	rec = func(l int) {
		if l == d {
			out = append(out, append([]Kind{}, cur...))
			return
		}
		for _, k := range kinds {
			if k == KChunk && l != 0 {
				continue
			}
			cur[l] = k
			rec(l + 1)
		}
	}
	rec(0)
	return out
}

// Exit is one (kind, level, passage) triple.
type Exit struct {
	X    XKind
	E, W int
}

// Exits lists the exit statements for depth d (XFall once), passages 1..maxW.
func Exits(d, maxW int) []Exit {
	out := []Exit{{XFall, 1, 1}}
	for w := 1; w <= maxW; w++ {
		for e := d; e >= 1; e-- {
			for x := XBreak; x < NXKinds; x++ {
				out = append(out, Exit{x, e, w})
			}
		}
	}
	return out
}

// DeclConfigs lists every placement of exactly k declarations over the 2d
// slots of a depth-d nesting (non-decreasing slot sequence) crossed with a
// kind for each, kinds taken from dk.  pick (optional) filters kind vectors.
func DeclConfigs(d, k int, dk []DKind, pick func(kinds []DKind) bool) [][]Decl {
	var out [][]Decl
	slots := 2 * d
	pos := make([]int, k)
	kv := make([]DKind, k)
	var recK func(i int)
	recK = func(i int) {
		if i == k {
			if pick != nil && !pick(kv) {
				return
			}
			ds := make([]Decl, k)
			for j := 0; j < k; j++ {
				ds[j] = Decl{Level: pos[j]/2 + 1, Slot: pos[j] % 2, Kind: kv[j]}
			}
			out = append(out, ds)
			return
		}
		for _, x := range dk {
			kv[i] = x
			recK(i + 1)
		}
	}
	var recP func(i, from int)
	recP = func(i, from int) {
		if i == k {
			recK(0)
			return
		}
		for p := from; p < slots; p++ {
			pos[i] = p
			recP(i+1, p)
		}
	}
	recP(0, 0)
	return out
}
