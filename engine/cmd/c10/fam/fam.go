// Package fam holds the C10 families and the per-case runner (shared by the
// check binary and the development tools).
package fam

import (
	"fmt"
	"os"
	"strconv"
	"strings"

	"github.com/arnodel/golua/lib"
	"github.com/arnodel/golua/lib/base"
	"github.com/arnodel/golua/lib/coroutine"
	"github.com/arnodel/golua/lib/packagelib"
	rt "github.com/arnodel/golua/runtime"

	"verif/engine/cmd/c10/gen"
	"verif/engine/core"
	"verif/engine/host"
	"verif/engine/prog"
	"verif/engine/reflua"
)

const chunkName = "chunk"

// cpuLimit turns divergence of golua into status "killed" (the reference runs
// at most 20000 evaluation steps).
const cpuLimit = 5000000

func runGolua(src string, protected bool) host.Obs {
	// a fresh runtime per case with the libraries the programs use (base,
	// coroutine; package is needed by the loaders): a coroutine that a program
	// abandons keeps its goroutine, and with it the whole runtime, alive for the
	// rest of the worker process, so the runtime is kept small
	m := host.NewMachine(true)
	cleanup := lib.LoadLibs(m.R, base.LibLoader, packagelib.LibLoader, coroutine.LibLoader)
	defer func() {
		m.Close()
		cleanup()
	}()
	if !protected {
		return m.Exec(chunkName, src, nil, nil)
	}
	// the chunk is called the way pcall calls a function: through
	// Thread.CallContext, which closes the pending variables of the main
	// chunk when it ends with an error
	def := &rt.RuntimeContextDef{HardLimits: rt.RuntimeResources{Cpu: cpuLimit}}
	return m.Exec(chunkName, src, nil, def)
}

func refRun(p *prog.Prog, keepStack bool) reflua.Result {
	return reflua.RunOpts(p, nil, reflua.Options{Ext: reflua.Ext{CoErrKeepsStack: keepStack}})
}

func refString(r reflua.Result) string {
	s := r.Status
	if r.Status == "ok" {
		s += " (" + strings.Join(r.Results, ", ") + ")"
	} else {
		s += " " + r.Err
	}
	return s + " trace=[" + strings.Join(r.Trace, " | ") + "]"
}

func clauseWord(c string) string {
	if k := strings.IndexAny(c, " ["); k >= 0 {
		c = c[:k]
	}
	return c
}

func compare(ref reflua.Result, got host.Obs) string {
	switch got.Status {
	case "ok", "err":
		return reflua.Compare(ref, reflua.Observed{Trace: got.Trace, Status: got.Status, Results: got.Results, Err: got.Err}, chunkName, nil)
	}
	return "status expected " + ref.Status + " got " + got.Status + " " + got.Err
}

// DryRun (development): only the reference runs; Why counts the outcomes.
var (
	DryRun bool
	Why    = map[string]int{}
)

// closeName returns the variable name of a handler invocation event
// `s:"close",s:"<name>",<err>` and its error argument.
func closeName(ev string) (name, arg string, ok bool) {
	const pre = `s:"close",s:"`
	if !strings.HasPrefix(ev, pre) {
		return "", "", false
	}
	rest := ev[len(pre):]
	k := strings.Index(rest, `",`)
	if k < 0 {
		return "", "", false
	}
	return rest[:k], rest[k+2:], true
}

// classify names the way in which two traces that differ disagree about the
// handler invocations: close-missing (golua called a handler fewer times than
// the reference), close-extra (more often), close-order (same invocations in
// another order), close-arg (same sequence, another error argument), else
// close-timing (same invocations, but placed differently among the other
// events) or trace (other events differ).
func classify(ref, got []string) string {
	type inv struct{ name, arg string }
	split := func(tr []string) (closes []inv, others []string, cnt map[string]int) {
		cnt = map[string]int{}
		for _, e := range tr {
			if n, a, ok := closeName(e); ok {
				closes = append(closes, inv{n, a})
				cnt[n]++
			} else {
				others = append(others, e)
			}
		}
		return
	}
	rc, ro, rn := split(ref)
	gc, gothers, gn := split(got)
	missing, extra := false, false
	for n, k := range rn {
		if gn[n] < k {
			missing = true
		}
	}
	for n, k := range gn {
		if rn[n] < k {
			extra = true
		}
	}
	switch {
	case missing:
		return "close-missing"
	case extra:
		return "close-extra"
	}
	for i := range rc {
		if rc[i].name != gc[i].name {
			return "close-order"
		}
	}
	for i := range rc {
		if !reflua.MatchCanon(rc[i].arg, gc[i].arg, chunkName, nil) {
			return "close-arg"
		}
	}
	if len(ro) == len(gothers) {
		same := true
		for i := range ro {
			if !reflua.MatchCanon(ro[i], gothers[i], chunkName, nil) {
				same = false
			}
		}
		if same {
			return "close-timing"
		}
	}
	return "trace"
}

// hasClose: the reference trace contains a handler invocation.
func hasClose(tr []string) bool {
	for _, e := range tr {
		if strings.HasPrefix(e, `s:"close"`) {
			return true
		}
	}
	return false
}

// runCase runs program src (described by key) and compares.
//
// protected=false (families unprotected-host-call*): the chunk is called with
// a plain rt.Call, no context.  The comparison is the same; every difference
// is keyed `unprotected-host-call ...` and documents golua's convention that
// an error reaching an unprotected host call closes nothing (NOTES.md, O1).
func runCase(fam, key, src string, protected bool) core.Outcome {
	p, err := prog.Parse(src)
	if err != nil {
		panic(fmt.Sprintf("c10: generator produced text the checker's parser rejects: %v\n%s", err, src))
	}
	ref := refRun(p, true)
	if DryRun {
		switch {
		case ref.Diverge:
			Why["diverge"]++
		case ref.Unspec != "":
			Why["unspec: "+ref.Unspec]++
		default:
			Why["evaluated"]++
		}
		return core.Outcome{Skipped: true}
	}
	if ref.Unspec != "" || ref.Diverge {
		if os.Getenv("VERIF_C10_WHY") != "" {
			fmt.Fprintf(os.Stderr, "%s %s skipped: unspec=%q diverge=%v\n", fam, key, ref.Unspec, ref.Diverge)
		}
		return core.Outcome{Skipped: true}
	}
	got := runGolua(src, protected)
	out := core.Outcome{Sig: core.Hash64(got.String()), NonTrivial: hasClose(ref.Trace) || ref.Status == "err"}
	clause := compare(ref, got)
	if clause == "" {
		return out
	}
	word := clauseWord(clause)
	if word == "trace" {
		word = classify(ref.Trace, got.Trace)
	}
	detail := clause
	// Is the whole difference that golua closes the variables of a coroutine
	// at the moment it dies by an error (manual: only coroutine.close does)?
	eager := refRun(p, false)
	if eager.Unspec == "" && !eager.Diverge && compare(eager, got) == "" {
		// Not a violation of C10: the property demands that the handlers run
		// exactly once, in reverse order, with the error, "before the code that
		// receives control runs" — which is what golua's eager variant does
		// (the manual's own, lazier rule for coroutines that end with an error
		// would run them after the resumer has regained control).  The
		// deviation from manual §3.3.8 is described in NOTES.md / DESIGN.md.
		return out
	}
	if !protected {
		fam = "unprotected-host-call"
	}
	out.Viol = &core.Violation{
		Key:    fmt.Sprintf("%s %s clause=%s", fam, key, word),
		Detail: fmt.Sprintf("%s\nprogram:\n%s\nreference: %s\ngolua:     %s", detail, src, refString(ref), got),
	}
	return out
}

// coErrorFamily is the only family that reports golua's eager closing of the
// variables of a coroutine that ends with an error.
const coErrorFamily = "co-error"

// ---------------------------------------------------------------- families

type nestFam struct {
	name  string
	nests [][]gen.Kind
	exits []gen.Exit
	decls [][]gen.Decl
	gfs   []gen.DKind // kinds of the generic-for closing value (nil: one, unused)
}

func (f *nestFam) ngf() uint64 {
	if len(f.gfs) == 0 {
		return 1
	}
	return uint64(len(f.gfs))
}

func (f *nestFam) size() uint64 {
	return uint64(len(f.nests)) * uint64(len(f.exits)) * uint64(len(f.decls)) * f.ngf()
}

// at: the nesting is the least significant digit, then the exit, then the
// declarations, so that a prefix of the index range covers every nesting and
// exit for the simplest declaration configurations.
func (f *nestFam) at(i uint64) *gen.Spec {
	nn, ne := uint64(len(f.nests)), uint64(len(f.exits))
	n := f.nests[i%nn]
	i /= nn
	e := f.exits[i%ne]
	i /= ne
	var gf gen.DKind
	if len(f.gfs) > 0 {
		gf = f.gfs[i%f.ngf()]
		i /= f.ngf()
	}
	s := &gen.Spec{Nest: n, Decls: f.decls[i], Exit: e.X, E: e.E, W: e.W, GF: gf}
	if !s.Valid() {
		return nil
	}
	return s
}

// scaled applies the development override VERIF_C10_BUDGET_SCALE (a factor
// for every family's BudgetSeconds, used to let a run finish on a loaded
// machine or with few workers).
func scaled(budget int) int {
	if v := os.Getenv("VERIF_C10_BUDGET_SCALE"); v != "" {
		if f, err := strconv.ParseFloat(v, 64); err == nil && f > 0 {
			return int(float64(budget) * f)
		}
	}
	return budget
}

func (f *nestFam) family(budget int, protected bool) *core.Family {
	budget = scaled(budget)
	return &core.Family{
		Name: f.name,
		Size: f.size(),
		Run: func(i uint64) core.Outcome {
			s := f.at(i)
			if s == nil {
				return core.Outcome{Skipped: true}
			}
			return runCase(f.name, s.Key(), s.Lua(), protected)
		},
		Show: func(i uint64) string {
			s := f.at(i)
			if s == nil {
				return "(not canonical)"
			}
			return s.Key() + "\n" + s.Lua()
		},
		BudgetSeconds: budget,
	}
}

var (
	allKinds   = []gen.Kind{gen.KChunk, gen.KDo, gen.KFor, gen.KWhile, gen.KRepeat, gen.KFunc, gen.KPcall, gen.KCoCreate, gen.KCoWrap}
	handlers   = []gen.DKind{gen.HLog, gen.HRaise, gen.HRaiseT, gen.HYield}
	mainKinds  = []gen.DKind{gen.HLog, gen.HRaise, gen.HRaiseT, gen.HYield, gen.VFalse}
	valueKinds = []gen.DKind{gen.VFalse, gen.VNil, gen.VNoMeta, gen.VPlainMT, gen.VString, gen.VNumber, gen.VFunc, gen.VLate, gen.HSwap, gen.HRemove}
)

func declRange(d, kmin, kmax int, dk []gen.DKind, pick func([]gen.DKind) bool) [][]gen.Decl {
	var out [][]gen.Decl
	for k := kmin; k <= kmax; k++ {
		out = append(out, gen.DeclConfigs(d, k, dk, pick)...)
	}
	return out
}

// exactlyOne(set): exactly one declaration has a kind of set, the others log.
func exactlyOneOf(set []gen.DKind) func([]gen.DKind) bool {
	in := map[gen.DKind]bool{}
	for _, k := range set {
		in[k] = true
	}
	return func(kv []gen.DKind) bool {
		n := 0
		for _, k := range kv {
			if in[k] {
				n++
			} else if k != gen.HLog {
				return false
			}
		}
		return n == 1
	}
}

// Families returns the families of a tier.
func Families(tier string) []*core.Family {
	thorough := tier == "thorough"
	var fams []*core.Family
	add := func(name string, d, maxW int, decls [][]gen.Decl, budget int) {
		f := &nestFam{name: name, nests: gen.Nestings(d, allKinds), exits: gen.Exits(d, maxW), decls: decls}
		fams = append(fams, f.family(budget, true))
	}
	withLog := append([]gen.DKind{gen.HLog}, valueKinds...)
	three := []gen.DKind{gen.HLog, gen.HRaise, gen.HYield}
	if !thorough {
		add("nest-d1", 1, 2, declRange(1, 0, 3, mainKinds, nil), 20)
		add("nest-d2-k01", 2, 2, declRange(2, 0, 1, mainKinds, nil), 20)
		add("nest-d2-k2", 2, 2, declRange(2, 2, 2, mainKinds, nil), 50)
		add("nest-d2-k3", 2, 1, declRange(2, 3, 3, three, nil), 60)
		add("values-d1", 1, 1, declRange(1, 1, 2, withLog, exactlyOneOf(valueKinds)), 15)
	} else {
		add("nest-d1", 1, 2, declRange(1, 0, 3, mainKinds, nil), 20)
		add("nest-d2-k01", 2, 2, declRange(2, 0, 1, mainKinds, nil), 20)
		add("nest-d2-k2", 2, 2, declRange(2, 2, 2, mainKinds, nil), 60)
		add("nest-d2-k3", 2, 1, declRange(2, 3, 3, handlers, nil), 120)
		add("nest-d3-k01", 3, 2, declRange(3, 0, 1, mainKinds, nil), 100)
		add("nest-d3-k2", 3, 1, declRange(3, 2, 2, handlers, nil), 500)
		add("nest-d3-k3log", 3, 1, declRange(3, 3, 3, []gen.DKind{gen.HLog}, nil), 120)
		add("values-d1", 1, 1, declRange(1, 1, 2, withLog, exactlyOneOf(valueKinds)), 15)
		add("values-d2", 2, 1, declRange(2, 1, 2, withLog, exactlyOneOf(valueKinds)), 50)
	}
	// the main chunk called WITHOUT a context (plain rt.Call)
	uf := &nestFam{name: "unprotected-host-call", nests: gen.Nestings(1, []gen.Kind{gen.KChunk}), exits: gen.Exits(1, 1),
		decls: append(declRange(1, 0, 1, []gen.DKind{gen.HLog, gen.HRaise}, nil), declRange(1, 2, 2, []gen.DKind{gen.HLog}, nil)...)}
	fams = append(fams, uf.family(15, false))
	var chunkNests [][]gen.Kind
	for _, n := range gen.Nestings(2, []gen.Kind{gen.KChunk, gen.KFunc, gen.KPcall, gen.KCoCreate}) {
		if n[0] == gen.KChunk {
			chunkNests = append(chunkNests, n)
		}
	}
	uf2 := &nestFam{name: "unprotected-host-call-d2", nests: chunkNests, exits: gen.Exits(2, 1),
		decls: declRange(2, 1, 1, []gen.DKind{gen.HLog, gen.HRaise}, nil)}
	fams = append(fams, uf2.family(15, false))
	// a coroutine that ends with an error keeps its stack: depth <= 2 nestings
	// with a coroutine level, error exits
	var coNests [][]gen.Kind
	for d := 1; d <= 2; d++ {
		for _, n := range gen.Nestings(d, []gen.Kind{gen.KDo, gen.KPcall, gen.KCoCreate}) {
			for _, k := range n {
				if k.IsCo() {
					coNests = append(coNests, n)
					break
				}
			}
		}
	}
	var coExits []gen.Exit
	for _, e := range gen.Exits(2, 1) {
		if e.X == gen.XError || e.X == gen.XFall {
			coExits = append(coExits, e)
		}
	}
	cf := &nestFam{name: coErrorFamily, nests: coNests, exits: coExits, decls: append(declRange(2, 1, 1, []gen.DKind{gen.HLog, gen.HRaise}, nil), declRange(2, 2, 2, []gen.DKind{gen.HLog}, nil)...)}
	fams = append(fams, cf.family(15, true))
	fams = append(fams, genforFamily(thorough), xpcallFamily(thorough), staticFamily())
	return fams
}

// genforFamily: the 4th value of a generic for behaves like a to-be-closed
// variable (§3.3.5): nestings that contain a generic-for level, crossed with
// the kind of its closing value, declarations in the bodies, and every exit.
func genforFamily(thorough bool) *core.Family {
	gfKinds := []gen.DKind{gen.HLog, gen.HRaise, gen.HRaiseT, gen.HYield, gen.VFalse, gen.VNil, gen.VNoMeta}
	dk := []gen.DKind{gen.HLog, gen.HRaise}
	if thorough {
		dk = handlers
	}
	return extraKindFamily("genfor", gen.KGenFor, gfKinds, dk, thorough)
}

// xpcallFamily: nestings that contain an xpcall level (the message handler
// logs the error and passes it on): the handler runs at the point of the
// error, before any variable is closed.  (Errors raised by __close handlers
// under xpcall are left to C11: the reference reports them Unspec.)
func xpcallFamily(thorough bool) *core.Family {
	dk := []gen.DKind{gen.HLog, gen.HYield}
	if thorough {
		dk = handlers
	}
	return extraKindFamily("xpcall", gen.KXpcall, []gen.DKind{gen.HLog}, dk, thorough)
}

// extraKindFamily enumerates the valid programs over nestings of depth <= 2
// that contain a level of kind extra.
func extraKindFamily(name string, extra gen.Kind, gfKinds, dk []gen.DKind, thorough bool) *core.Family {
	kinds := append(append([]gen.Kind{}, allKinds...), extra)
	var nests [][]gen.Kind
	for d := 1; d <= 2; d++ {
		for _, n := range gen.Nestings(d, kinds) {
			has, bad := false, false
			for _, k := range n {
				if k == extra {
					has = true
				} else if has && extra == gen.KXpcall && k.IsCo() {
					// a coroutine inside the xpcall: whether (and when) the message
					// handler sees an error raised in another coroutine is C11's
					// question, not decided here
					bad = true
				}
			}
			if has && !bad {
				nests = append(nests, n)
			}
		}
	}
	kmax, maxW := 1, 1
	if thorough {
		kmax, maxW = 2, 2
	}
	// two index-addressable parts (depth 1, depth 2) under one family name;
	// nothing is materialised beyond the small digit lists
	var parts []*nestFam
	for d := 1; d <= 2; d++ {
		var ns [][]gen.Kind
		for _, n := range nests {
			if len(n) == d {
				ns = append(ns, n)
			}
		}
		parts = append(parts, &nestFam{name: name, nests: ns, exits: gen.Exits(d, maxW), decls: declRange(d, 0, kmax, dk, nil), gfs: gfKinds})
	}
	at := func(i uint64) *gen.Spec {
		for _, p := range parts {
			if i < p.size() {
				return p.at(i)
			}
			i -= p.size()
		}
		return nil
	}
	var size uint64
	for _, p := range parts {
		size += p.size()
	}
	budget := 15
	if thorough {
		budget = 80
	}
	return &core.Family{
		Name: name,
		Size: size,
		Run: func(i uint64) core.Outcome {
			s := at(i)
			if s == nil {
				return core.Outcome{Skipped: true}
			}
			return runCase(name, s.Key(), s.Lua(), true)
		},
		Show: func(i uint64) string {
			s := at(i)
			if s == nil {
				return "(not canonical)"
			}
			return s.Key() + "\n" + s.Lua()
		},
		BudgetSeconds: scaled(budget),
	}
}

// staticFamily: the compile-time rules of §3.3.7/§3.3.8 for attributed
// locals.  Every program must be rejected before anything runs ("reject"), or
// must compile and run to the end ("accept").
func staticFamily() *core.Family {
	type sc struct {
		name, src string
		reject    bool
	}
	cases := []sc{
		{"assign-to-close", "local x <close> = nil; x = 1", true},
		{"assign-to-close-upvalue", "local x <close> = nil; local function f() x = 2 end", true},
		{"assign-to-close-in-list", "local a <const>, b <close> = 1, nil; b = 4", true},
		{"unknown-attribute", "local x <foo> = 1", true},
		// ("local a <close>, b <close> = nil, nil" is accepted by golua although
		// the manual allows at most one to-be-closed variable per list; no
		// sentence of C10 covers it, so it is an observation, not a case.)
		{"close-without-value", "local x <close>", false},
		{"const-and-close-in-one-list", "local a <const>, b <close> = 1, nil", false},
		{"close-then-plain-in-one-list", "local a <close>, b = nil, 2", false},
	}
	return &core.Family{
		Name: "static-rules",
		Size: uint64(len(cases)),
		Run: func(i uint64) core.Outcome {
			c := cases[i]
			src := "emit('start') " + c.src + " emit('end')"
			got := runGolua(src, true)
			out := core.Outcome{Sig: core.Hash64(got.String()), NonTrivial: true}
			ok := got.Status == "ok" && len(got.Trace) == 2
			rejected := got.Status == "compile" && len(got.Trace) == 0
			switch {
			case c.reject && !rejected:
				out.Viol = &core.Violation{Key: "static-rules case=" + c.name + " clause=accepted",
					Detail: "the program must be rejected at compile time\n" + src + "\ngolua: " + got.String()}
			case !c.reject && !ok:
				out.Viol = &core.Violation{Key: "static-rules case=" + c.name + " clause=rejected",
					Detail: "the program is valid\n" + src + "\ngolua: " + got.String()}
			}
			return out
		},
		Show: func(i uint64) string { return cases[i].name + ": " + cases[i].src },
	}
}
