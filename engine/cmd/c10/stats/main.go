// stats: development helper, not used by the check.
//
//	stats <tier> [family] [maxcases]        reference only: why cases are skipped
//	RUN=1 stats <tier> [family] [maxcases]  evenly spread cases run on golua too,
//	                                        violations grouped by family and clause
package main

import (
	"fmt"
	"os"
	"runtime"
	"sort"
	"strconv"
	"strings"

	"verif/engine/cmd/c10/fam"
)

func main() {
	tier := "quick"
	if len(os.Args) > 1 {
		tier = os.Args[1]
	}
	max := uint64(300000)
	if len(os.Args) > 3 {
		n, _ := strconv.Atoi(os.Args[3])
		max = uint64(n)
	}
	run := os.Getenv("RUN") != ""
	fam.DryRun = !run
	for _, f := range fam.Families(tier) {
		if len(os.Args) > 2 && os.Args[2] != "" && os.Args[2] != f.Name {
			continue
		}
		fam.Why = map[string]int{}
		step := uint64(1)
		if f.Size > max {
			step = f.Size / max
			if step%2 == 0 {
				step++ // odd stride: does not lock onto an even digit period
			}
		}
		evals, skipped := 0, 0
		classes := map[string][]string{}
		for i := uint64(0); i < f.Size; i += step {
			o := f.Run(i)
			if o.Skipped {
				skipped++
				continue
			}
			evals++
			if o.Viol != nil {
				k := o.Viol.Key
				c := k[strings.LastIndex(k, "clause="):]
				classes[c] = append(classes[c], fmt.Sprintf("%s   [%s:%d]", k, f.Name, i))
			}
		}
		fmt.Printf("%s size=%d step=%d evaluated=%d skipped=%d goroutines=%d\n", f.Name, f.Size, step, evals, skipped, runtime.NumGoroutine())
		var ks []string
		for k := range fam.Why {
			ks = append(ks, k)
		}
		sort.Strings(ks)
		for _, k := range ks {
			fmt.Printf("   %8d  %s\n", fam.Why[k], k)
		}
		ks = ks[:0]
		for k := range classes {
			ks = append(ks, k)
		}
		sort.Strings(ks)
		for _, k := range ks {
			fmt.Printf("   %8d  %s\n", len(classes[k]), k)
			if k != "clause=co-error-eager-close" {
				for j, e := range classes[k] {
					if j >= 12 {
						break
					}
					fmt.Printf("               %s\n", e)
				}
			}
		}
	}
}
