// stats: development helper — runs only the reference over every case of the
// families of a tier and prints why cases are skipped.  Not used by the check.
package main

import (
	"fmt"
	"os"
	"sort"

	"verif/engine/cmd/c10/fam"
)

func main() {
	tier := "quick"
	if len(os.Args) > 1 {
		tier = os.Args[1]
	}
	fam.DryRun = true
	for _, f := range fam.Families(tier) {
		if len(os.Args) > 2 && os.Args[2] != f.Name {
			continue
		}
		fam.Why = map[string]int{}
		notCanon := 0
		step := uint64(1)
		if f.Size > 300000 {
			step = f.Size / 300000
		}
		for i := uint64(0); i < f.Size; i += step {
			before := 0
			for _, v := range fam.Why {
				before += v
			}
			f.Run(i)
			after := 0
			for _, v := range fam.Why {
				after += v
			}
			if after == before {
				notCanon++
			}
		}
		fmt.Printf("%s size=%d step=%d not-canonical=%d\n", f.Name, f.Size, step, notCanon)
		var ks []string
		for k := range fam.Why {
			ks = append(ks, k)
		}
		sort.Strings(ks)
		for _, k := range ks {
			fmt.Printf("   %8d  %s\n", fam.Why[k], k)
		}
	}
}
