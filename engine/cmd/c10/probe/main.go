// probe: development helper — runs Lua files through the reference (reflua,
// via prog.Parse) and through golua (protected host call and unprotected host
// call) and prints the three observations.  Not used by the check.
package main

import (
	"fmt"
	"os"
	"strings"

	rt "github.com/arnodel/golua/runtime"

	"verif/engine/host"
	"verif/engine/prog"
	"verif/engine/reflua"
)

func main() {
	for _, f := range os.Args[1:] {
		b, err := os.ReadFile(f)
		if err != nil {
			fmt.Println(err)
			continue
		}
		src := string(b)
		fmt.Printf("== %s\n", f)
		p, perr := prog.Parse(src)
		if perr != nil {
			fmt.Println("parse:", perr)
		} else {
			r := reflua.RunOpts(p, nil, reflua.Options{Ext: reflua.Ext{CoErrKeepsStack: os.Getenv("EAGER") == ""}})
			fmt.Printf("ref:    %s (%s) err=%s unspec=%q diverge=%v\n        trace=[%s]\n", r.Status, strings.Join(r.Results, ","), r.Err, r.Unspec, r.Diverge, strings.Join(r.Trace, " | "))
		}
		m := host.NewMachine(false)
		o := m.Exec("chunk", src, nil, &rt.RuntimeContextDef{HardLimits: rt.RuntimeResources{Cpu: 10000000}})
		fmt.Printf("golua:  %s\n", o)
		m.Close()
		m = host.NewMachine(false)
		o = m.Exec("chunk", src, nil, nil)
		fmt.Printf("unprot: %s\n", o)
		m.Close()
	}
}
