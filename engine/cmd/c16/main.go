// C16 — numeric for loops: all (start, limit, step) triples of a boundary
// lattice × loop-body variants, against a reference written from §3.3.5 with
// exact (big-number) comparisons.
package main

import (
	"fmt"
	"math"
	"math/big"
	"strings"

	rt "github.com/arnodel/golua/runtime"

	"verif/engine/core"
	"verif/engine/host"
	"verif/engine/lv"
)

const iterCap = 6

func lattice(tier string) []lv.V {
	mx, mn := int64(math.MaxInt64), int64(math.MinInt64)
	ints := []int64{0, 1, -1, 2, -2, 3, 1 << 53, mx - 1, mx, mn, mn + 1}
	floats := []float64{0, math.Copysign(0, -1), 0.5, 1, -1, 2.5, 1 << 53, 0x1p63, -0x1p63, 1e308, math.Inf(1), math.Inf(-1), math.NaN()}
	if tier == "thorough" {
		ints = append(ints, 7, -7, 1<<53+1, mx-2, mn+2, 1<<62, -(1 << 62))
		floats = append(floats, -0.5, -2.5, 3, 1<<53+2, 0x1p63-1024, -0x1p63-2048, 0x1p64, -1e308, 5e-324)
	}
	var out []lv.V
	for _, n := range ints {
		out = append(out, lv.I(n))
	}
	for _, f := range floats {
		out = append(out, lv.F(f))
	}
	out = append(out, lv.S("1"), lv.S("0x10"), lv.S("1e1"), lv.NilV, lv.TableV, lv.S("x"))
	return out
}

// ----- reference (§3.3.5), no golua code

func ratOf(v lv.V) *big.Rat {
	r := new(big.Rat)
	if v.K == lv.Int {
		return r.SetInt64(v.I)
	}
	r.SetFloat64(v.F) // caller guarantees finite
	return r
}

// leq reports a <= b exactly for an integer a and a number b.
func cmpIntNum(a *big.Int, b lv.V) int { // -1,0,1 ; b must not be NaN
	if b.K == lv.Float && math.IsInf(b.F, 0) {
		if b.F > 0 {
			return -1
		}
		return 1
	}
	return new(big.Rat).SetInt(a).Cmp(ratOf(b))
}

type refResult struct {
	err      bool     // the loop statement must raise an error
	events   []string // first iterCap values as canonical strings with type
	n        int
	unspec   bool // outcome not determined by the manual: skip the case
	seqOnly  bool // only compare numeric sequence (numeric strings)
	errOrSeq bool // either an error or the sequence is acceptable (strings as control values)
}

func exactF(n int64) bool {
	f := float64(n)
	if f >= 0x1p63 || f < -0x1p63 {
		return false
	}
	return int64(f) == n
}

func refFor(start, limit, step lv.V, stepGiven bool) (r refResult) {
	if !stepGiven {
		step = lv.I(1)
	}
	// strings: the manual does not say whether they are coerced here.
	conv := func(v lv.V) (lv.V, bool) {
		if v.K == lv.Str {
			switch v.S {
			case "1":
				return lv.I(1), true
			case "0x10":
				return lv.I(16), true
			case "1e1":
				return lv.F(10), true
			}
		}
		return v, false
	}
	var c1, c2, c3 bool
	start, c1 = conv(start)
	limit, c2 = conv(limit)
	step, c3 = conv(step)
	if c1 || c2 || c3 {
		r.errOrSeq = true
	}
	if !start.IsNum() || !limit.IsNum() || !step.IsNum() {
		r.err = true
		return
	}
	if start.K == lv.Int && step.K == lv.Int {
		if step.I == 0 {
			r.err = true
			return
		}
		if limit.K == lv.Float && limit.F != limit.F {
			return // i <= NaN is false: no iteration
		}
		i := big.NewInt(start.I)
		st := big.NewInt(step.I)
		mx, mn := big.NewInt(math.MaxInt64), big.NewInt(math.MinInt64)
		for r.n < iterCap {
			c := cmpIntNum(i, limit)
			if step.I > 0 && c > 0 || step.I < 0 && c < 0 {
				return
			}
			r.events = append(r.events, "i:"+i.String()+",s:\"integer\"")
			r.n++
			i.Add(i, st)
			if i.Cmp(mx) > 0 || i.Cmp(mn) < 0 {
				return // never wraps: ends at overflow
			}
		}
		return
	}
	// float loop
	tof := func(v lv.V) (float64, bool) {
		if v.K == lv.Float {
			return v.F, true
		}
		return float64(v.I), exactF(v.I)
	}
	s, ok1 := tof(start)
	l, ok2 := tof(limit)
	d, ok3 := tof(step)
	if !ok1 || !ok2 || !ok3 {
		r.unspec = true // inexact int→float conversion: either neighbour allowed
		return
	}
	if d == 0 {
		r.err = true
		return
	}
	if d != d {
		r.unspec = true // NaN step: neither "positive" nor "negative"
		return
	}
	x := s
	for k := 0; r.n < iterCap; k++ {
		if d > 0 && !(x <= l) || d < 0 && !(x >= l) {
			return
		}
		// the manual does not fix repeated addition vs start+k*step
		if alt := s + float64(k)*d; !(alt == x || alt != alt && x != x) {
			r.unspec = true
			return
		}
		r.events = append(r.events, lv.FloatCanon(x)+",s:\"float\"")
		r.n++
		x = x + d
	}
	return
}

// ----- programs

type variant struct {
	name string
	src  string // uses chunk args a,b,c
	step bool
}

var variants = []variant{
	{"plain", `local a,b,c = ...
local n = 0
for i = a, b, c do
  emit(i, math.type(i))
  n = n + 1
  if n >= 6 then break end
end
emit("end", n)`, true},
	{"nostep", `local a,b = ...
local n = 0
for i = a, b do
  emit(i, math.type(i))
  n = n + 1
  if n >= 6 then break end
end
emit("end", n)`, false},
	{"assign", `local a,b,c = ...
local n = 0
for i = a, b, c do
  emit(i, math.type(i))
  i = 12345
  n = n + 1
  if n >= 6 then break end
  i = nil
end
emit("end", n)`, true},
	{"closure", `local a,b,c = ...
local n = 0
local fs = {}
for i = a, b, c do
  n = n + 1
  fs[n] = function() return i end
  if n >= 6 then break end
end
for k = 1, n do local v = fs[k]() emit(v, math.type(v)) end
emit("end", n)`, true},
	{"modify", `local a,b,c = ...
local n = 0
local function bump() b = 7 c = 3 end
for i = a, b, c do
  emit(i, math.type(i))
  if n % 2 == 0 then b = 1000 c = 1000 else bump() end
  n = n + 1
  if n >= 6 then break end
end
emit("end", n)`, true},
	{"inspect", `local a,b,c = ...
local b0, c0 = select(2, ...)
local n = 0
for i = a, b, c do
  emit(i, math.type(i))
  n = n + 1
  if n >= 6 then break end
end
emit("end", n)
emit("same", (b ~= b and b0 ~= b0 or rawequal(b, b0)) and math.type(b) == math.type(b0), (c ~= c and c0 ~= c0 or rawequal(c, c0)) and math.type(c) == math.type(c0), type(b), type(c))`, true},
	{"once", `local a,b,c = ...
local function ev(k, v) emit("eval", k) return v end
local n = 0
for i = ev(1,a), ev(2,b), ev(3,c) do
  emit(i, math.type(i))
  n = n + 1
  if n >= 6 then break end
end
emit("end", n)`, true},
}

func toRT(v lv.V) rt.Value {
	switch v.K {
	case lv.Int:
		return rt.IntValue(v.I)
	case lv.Float:
		return rt.FloatValue(v.F)
	case lv.Str:
		return rt.StringValue(v.S)
	case lv.Table:
		return rt.TableValue(rt.NewTable())
	}
	return rt.NilValue
}

func litSrc(a, b, c lv.V) string {
	la, _ := a.Literal()
	lb, _ := b.Literal()
	lc, _ := c.Literal()
	return fmt.Sprintf(`local n = 0
for i = %s, %s, %s do
  emit(i, math.type(i))
  n = n + 1
  if n >= 6 then break end
end
emit("end", n)`, la, lb, lc)
}

func expected(v variant, r refResult) host.Obs {
	var o host.Obs
	if v.name == "once" {
		o.Trace = append(o.Trace, `s:"eval",i:1`, `s:"eval",i:2`, `s:"eval",i:3`)
	}
	if r.err {
		o.Status = "err"
		return o
	}
	o.Status = "ok"
	o.Trace = append(o.Trace, r.events...)
	o.Trace = append(o.Trace, fmt.Sprintf(`s:"end",i:%d`, r.n))
	if v.name == "inspect" {
		o.Trace = append(o.Trace, "SAME") // compared by prefix in eqTrace callers
	}
	return o
}

func main() {
	core.Main(&core.Check{
		ID:    "C16",
		Level: "model_checking",
		Rule: "every (start,limit,step) triple of the boundary lattice x 8 loop shapes (args/literals, no step, body assigns the loop variable, body assigns the variables that gave limit and step (directly and through a closure), those variables inspected after the loop, closure per iteration, control expressions wrapped in logging calls); " +
			"non-trivial = the reference determines the outcome (not skipped as unspecified); distinct = distinct observations",
		Assumptions: []string{
			"reference semantics typed from Lua 5.4 manual §3.3.5 with math/big exact comparison",
			"triples whose outcome the manual leaves open (inexact int->float conversion, NaN step, repeated addition vs multiplication) are skipped",
			"numeric strings as control values: an error or the numeric sequence are both accepted",
			"each loop is observed for its first 6 iterations; the run is under a CPU limit so that a non-terminating loop shows as killed",
		},
		Families: func(tier string) []*core.Family {
			L := lattice(tier)
			n := uint64(len(L))
			var fams []*core.Family
			mk := func(name string, size uint64, get func(i uint64) (string, []lv.V, variant, bool)) {
				run := func(i uint64) core.Outcome {
					src, abc, v, asArgs := get(i)
					a, b, c := abc[0], abc[1], abc[2]
					r := refFor(a, b, c, v.step)
					if r.unspec {
						return core.Outcome{Skipped: true}
					}
					var args []rt.Value
					if asArgs {
						args = []rt.Value{toRT(a), toRT(b), toRT(c)}
					}
					got := host.Run(src, host.Opts{Args: args, CPU: 200000})
					want := expected(v, r)
					ok := got.Status == want.Status && (want.Status == "err" || eqTrace(got.Trace, want.Trace))
					if !ok && r.errOrSeq && got.Status == "err" {
						ok = true
					}
					if !ok && r.errOrSeq && got.Status == "ok" {
						// numeric sequence only: compare numbers, ignore math.type
						ok = eqSeq(got.Trace, want.Trace)
					}
					out := core.Outcome{NonTrivial: true, Sig: core.Hash64(got.String())}
					if !ok {
						out.Viol = &core.Violation{
							Key:    fmt.Sprintf("for %s start=%s limit=%s step=%s", v.name, a, b, stepStr(c, v.step)),
							Detail: fmt.Sprintf("program:\n%s\nargs: %v\nexpected: %s\nobserved: %s", src, abc, want, got),
						}
					}
					return out
				}
				fams = append(fams, &core.Family{Name: name, Size: size, Run: run, Show: func(i uint64) string {
					src, abc, _, _ := get(i)
					return fmt.Sprintf("(a,b,c)=%v\n%s", abc, src)
				}})
			}
			for _, v := range variants {
				v := v
				sz := n * n * n
				if !v.step {
					sz = n * n
				}
				mk("for-"+v.name, sz, func(i uint64) (string, []lv.V, variant, bool) {
					a, b, c := L[i%n], L[i/n%n], L[0]
					if v.step {
						c = L[i/n/n%n]
					}
					return v.src, []lv.V{a, b, c}, v, true
				})
			}
			mk("for-literal", n*n*n, func(i uint64) (string, []lv.V, variant, bool) {
				a, b, c := L[i%n], L[i/n%n], L[i/n/n%n]
				return litSrc(a, b, c), []lv.V{a, b, c}, variants[0], false
			})
			return fams
		},
	})
}

func stepStr(c lv.V, given bool) string {
	if !given {
		return "omitted"
	}
	return c.String()
}

func eqTrace(a, b []string) bool {
	if len(a) != len(b) {
		return false
	}
	for i := range a {
		if b[i] == "SAME" {
			// the control variables are untouched by the loop
			if !strings.HasPrefix(a[i], `s:"same",true,true,`) {
				return false
			}
			continue
		}
		if a[i] != b[i] {
			return false
		}
	}
	return true
}

// eqSeq compares traces ignoring the math.type column.
func eqSeq(a, b []string) bool {
	if len(a) != len(b) {
		return false
	}
	num := func(s string) string {
		if k := strings.Index(s, ",s:\"integer\""); k >= 0 {
			return s[2:k]
		}
		if k := strings.Index(s, ",s:\"float\""); k >= 0 {
			s = s[2:k]
			return strings.TrimSuffix(s, ".0")
		}
		return s
	}
	for i := range a {
		if b[i] == "SAME" {
			if !strings.HasPrefix(a[i], `s:"same",true,true,`) {
				return false
			}
			continue
		}
		if num(a[i]) != num(b[i]) {
			// integer 1 vs float 1 spelling
			var x, y float64
			if _, e1 := fmt.Sscan(num(a[i]), &x); e1 != nil {
				return false
			}
			if _, e2 := fmt.Sscan(num(b[i]), &y); e2 != nil {
				return false
			}
			if x != y {
				return false
			}
		}
	}
	return true
}
