// C06 — a memory limit bounds accounted and real allocation.
//
//  sweep  every program of (interception nesting x allocating workload x size)
//         under EVERY memory limit M up to its completion threshold (small
//         programs) or on the bisected flip windows (larger ones);
//  xctx   the same sweep for programs in which a coroutine is created in one
//         context and resumed / finished / closed in another one (each run in a
//         child process, because the failure mode is a dead process);
//  amp    amplification templates: a library call whose allocation depends on
//         a program chosen size N up to 2^40 under M in {1e4, 1e5}; Go heap
//         growth (runtime.MemStats.TotalAlloc) must stay below 64*M + 8 MB.
package main

import (
	"fmt"
	"os"
	"path/filepath"
	"runtime"
	"runtime/debug"
	"runtime/pprof"
	"strconv"
	"strings"
	"syscall"
	"time"

	"verif/engine/core"
)

// ---------------------------------------------------------------- xctx programs

type xprog struct {
	name string
	src  string
}

var xIn = []struct{ name, code string }{
	{"pcall", `local ok, v = pcall(F) if not ok then caught("pcall") end emit("B", ok, v)`},
	{"xpcall", `local ok, v = xpcall(F, function(e) caught("handler") return e end) if not ok then caught("xpcall") end emit("B", ok, v)`},
	{"ctxmem", `local ctx, v = runtime.callcontext({kill={memory=100000}}, F) emit("B", ctx.status, v)`},
	{"ctxcpu", `local ctx, v = runtime.callcontext({kill={cpu=100000}}, F) emit("B", ctx.status, v)`},
	{"ctxnone", `local ctx, v = runtime.callcontext({}, F) emit("B", ctx.status, v)`},
	{"co", `local v = coroutine.wrap(function() keep(coroutine.running()) return F() end)() emit("B", v)`},
}

var xAct = []struct{ name, code string }{
	{"fin", `local co = coroutine.wrap(function() keep(coroutine.running()) local x = coroutine.yield(1) emit("co end", x) return 2 end)
emit("A", co())
local function F() return co(5) end
IN
emit("post")`},
	{"deep", `local function rec(n) if n == 0 then return coroutine.yield(1) end local a, b, c, d = n, n, n, n return rec(n - 1) + a end
local co = coroutine.wrap(function() keep(coroutine.running()) local x = rec(6) emit("co end", x) return x end)
emit("A", co())
local function F() return co(5) end
IN
emit("post")`},
	{"close", `local co = coroutine.create(function()
  local c <close> = setmetatable({}, {__close = function() emit("closed") end})
  coroutine.yield(1)
  emit("not reached")
end)
keep(co)
emit("A", coroutine.resume(co))
local function F() return coroutine.close(co) end
IN
emit("post", coroutine.status(co))`},
	{"startin", `local co = coroutine.create(function(a) local b = coroutine.yield(a + 1) emit("co end", b) return b * 2 end)
keep(co)
local function F() return select(2, coroutine.resume(co, 1)) end
IN
emit("A", coroutine.resume(co, 4))`},
	{"createin", `local co
local function F()
  co = coroutine.create(function(a) local b = coroutine.yield(a + 1) emit("co end", b) return b * 2 end)
  keep(co)
  return select(2, coroutine.resume(co, 1))
end
IN
emit("A", coroutine.resume(co, 4))`},
	{"ctxswitch/pcall-yield", `local co = coroutine.wrap(function() keep(coroutine.running()) local ok, x = pcall(coroutine.yield, 1) if not ok then caught("pcall") end emit("co end", ok, x) return 2 end)
emit("A", co())
local function F() return co(5) end
IN
emit("post")`},
	{"gen", `local co = coroutine.wrap(function() keep(coroutine.running()) for i = 1, 6 do coroutine.yield(("x"):rep(i)) end return "end" end)
emit("A", co(), co())
local function F() return co() .. co() end
IN
emit("post", co(), co(), co())`},
}

var xSingles = []xprog{
	{"ctxswitch/yield-inside-pcall,main-returns", `local co = coroutine.wrap(function() keep(coroutine.running()) if not pcall(function() coroutine.yield(1) end) then caught("pcall") end return 2 end)
emit("A", co())
emit("post")`},
	{"ctxswitch/yield-inside-pcall,resumed-later", `local co = coroutine.wrap(function() keep(coroutine.running()) local ok = pcall(function() coroutine.yield(1) end) if not ok then caught("pcall") end emit("co", ok) return 2 end)
emit("A", co())
local s = ("x"):rep(100)
emit("mid", #s)
emit("B", co())
emit("post")`},
	{"ctxswitch/yield-inside-callcontext,main-returns", `local co = coroutine.wrap(function() keep(coroutine.running()) local ctx = runtime.callcontext({kill={memory=50000}}, function() coroutine.yield(1) end) emit("co", ctx.status) return 2 end)
emit("A", co())
emit("post")`},
	{"ctxswitch/yield-inside-callcontext,main-allocates", `local co = coroutine.wrap(function() keep(coroutine.running()) local ctx = runtime.callcontext({kill={memory=3000}}, function() coroutine.yield(1) end) emit("co", ctx.status) return 2 end)
emit("A", co())
local t = {} for i = 1, 20 do t[i] = ("x"):rep(200) end
emit("mid", #t)
emit("B", co())
emit("post")`},
	{"killed-in-ctx,started-outside", `local co = coroutine.wrap(function() keep(coroutine.running()) coroutine.yield(1) local s = "" for i = 1, 100 do s = s .. ("x"):rep(100) emit(i) end return 2 end)
emit("A", co())
local ctx = runtime.callcontext({kill={memory=3000}}, co)
emit("B", ctx.status)
emit("dead", (pcall(co)))
emit("post")`},
	{"two-coroutines-pingpong-in-pcall", `local a = coroutine.wrap(function() keep(coroutine.running()) for i = 1, 3 do coroutine.yield(i) end return "a" end)
local b = coroutine.wrap(function() keep(coroutine.running()) for i = 1, 3 do coroutine.yield(a()) end return "b" end)
emit("A", b())
local ok, v = pcall(function() return b() + b() end)
if not ok then caught("pcall") end
emit("B", ok, v)
emit("post", pcall(b))`},
	{"load-reader-yields", `local co = coroutine.wrap(function() keep(coroutine.running())
  local n = 0
  local f = load(function() n = n + 1 if n > 3 then return nil end coroutine.yield(n) return "x = " .. n .. " " end)
  return f ~= nil end)
emit("A", co())
local ok, v = pcall(co)
if not ok then caught("pcall") end
emit("B", ok, v)
emit("post", co(), co())`},
}

func xprogs() []xprog {
	var ps []xprog
	for _, a := range xAct {
		for _, in := range xIn {
			ps = append(ps, xprog{a.name + "-in-" + in.name, strings.Replace(a.code, "IN", in.code, 1)})
		}
	}
	ps = append(ps, xSingles...)
	return ps
}

// ---------------------------------------------------------------- families

// localRunner runs the program in this process, on a fresh runtime per run.
func localRunner(name, src string) func(m uint64) *Res {
	return func(m uint64) *Res {
		r := execJob(&Job{Name: name, Src: src, M: m, Epi: true})
		return &r
	}
}

func sweepFamily(tier string) *core.Family {
	ps := programs(tier)
	budget := devBudget(170)
	if tier == "thorough" {
		budget = devBudget(1000)
	}
	return &core.Family{
		Name: "sweep", Size: uint64(len(ps)), BudgetSeconds: budget, HangSeconds: 300,
		Show: func(i uint64) string { return ps[i].sig() + "\n" + ps[i].source() },
		Run: func(i uint64) core.Outcome {
			p := ps[i]
			src := p.source()
			s := newSweeper(p.sig(), src, localRunner("p", src))
			sum := s.run()
			if os.Getenv("C06_DEBUG") != "" {
				fmt.Fprintf(os.Stderr, "T=%d small=%v runs=%d states=%d\n", sum.T, sum.small, s.trans, len(s.states))
			}
			return s.outcome(sum)
		},
	}
}

func xctxFamily(tier string) *core.Family {
	ps := xprogs()
	return &core.Family{
		Name: "xctx", Size: uint64(len(ps)), BudgetSeconds: xctxBudget(tier), HangSeconds: 300,
		Show: func(i uint64) string { return "prog=" + ps[i].name + "\n" + ps[i].src },
		Run: func(i uint64) core.Outcome {
			p := ps[i]
			var rem *remote
			defer func() { rem.stop() }()
			runAt := func(m uint64) *Res {
				if rem == nil {
					var err error
					rem, err = startRemote()
					if err != nil {
						panic(err)
					}
				}
				r := rem.run(&Job{Name: "x", Src: p.src, M: m, Epi: true, Full: true, WatchMs: 20000}, 40*time.Second)
				if r.Status == "died" || r.Status == "timeout" {
					rem.stop()
					rem = nil
				}
				return &r
			}
			s := newSweeper("prog="+p.name, p.src, runAt)
			s.fam = "xctx"
			// no context at all: the baseline behaviour of the program
			base := runAt(0)
			s.trans++
			sum := s.run()
			if s.ref != nil && base.Status != "died" && s.ref.Status != "died" && !sameObs(base, s.ref) {
				s.viol("unlimited-differs", "none", hugeM, s.ref, "under a limit that is never reached the program behaves differently from a run without any context: "+base.obsString())
			}
			if base.Status == "died" {
				s.results[0] = base
				s.ref = base
				s.viol("process-died-without-host-limit", base.Crash, 0, base, "the process died although the host set no limit at all")
			} else if base.Status != "ok" || base.Epi != "" || len(base.Markers) > 0 {
				if s.ref == nil {
					s.ref = base
				}
				s.viol("baseline-not-ok", "none", 0, base, "without any host context the program does not complete: "+base.obsString()+" epilogue: "+base.Epi)
			}
			return s.outcome(sum)
		},
	}
}

func ampFamily(tier string) *core.Family {
	cs := ampCases(tier)
	return &core.Family{
		Name: "amp", Size: uint64(len(cs)), BudgetSeconds: ampBudget(tier), HangSeconds: 200,
		Show: func(i uint64) string {
			j := cs[i].job(filepath.Join(ampDir(), "sentinel"))
			return cs[i].sig() + "\n" + j.Pro + "\n-- measured:\n" + j.Src
		},
		Run: func(i uint64) core.Outcome { return runAmp(cs[i]) },
	}
}

// devBudget: C06_BUDGET=<seconds> overrides every family budget (development
// on a loaded machine only; registered commands do not set it).
func devBudget(def int) int {
	if b := os.Getenv("C06_BUDGET"); b != "" {
		if n, err := strconv.Atoi(b); err == nil && n > 0 {
			return n
		}
	}
	return def
}

func ampBudget(tier string) int {
	if tier == "thorough" {
		return devBudget(400)
	}
	return devBudget(120)
}

func xctxBudget(tier string) int {
	if tier == "thorough" {
		return devBudget(300)
	}
	return devBudget(90)
}

// cleanStale removes sentinel directories of dead processes.
func cleanStale() {
	ds, _ := filepath.Glob("/tmp/c06-*")
	for _, d := range ds {
		pid, err := strconv.Atoi(strings.TrimPrefix(filepath.Base(d), "c06-"))
		if err != nil {
			continue
		}
		if syscall.Kill(pid, 0) != nil {
			os.RemoveAll(d)
		}
	}
}

func main() {
	if len(os.Args) > 1 && os.Args[1] == "sub" {
		runtime.GOMAXPROCS(1)
		subMain()
		return
	}
	if pf := os.Getenv("C06_PROF"); pf != "" {
		f, _ := os.Create(pf)
		pprof.StartCPUProfile(f)
		defer pprof.StopCPUProfile()
	}
	core.Main(&core.Check{
		ID:    "C06",
		Level: "model_checking",
		Rule: "sweep/xctx: one case = one program swept over every memory limit M in 1..T+64 (T = least M at which it completes identically to the unlimited run; T <= 4096) " +
			"or over a geometric grid + bisection + every M within +-64 of each flip (larger programs); states = distinct observations (status, trace, markers, used memory), transitions = runs; " +
			"amp: one case = (template, N, M) in a fresh process; non-trivial = a threshold > 1 was found or a violation was reported",
		Assumptions: []string{
			"the unit is compiled once per program and loaded into a fresh runtime for every M (compiler map iteration cannot move costs)",
			"workers and children run with GOMAXPROCS=1: golua releases a coroutine's 2 KB after handing control back (Thread.end), which with several Ps races with the resumer; the schedule is pinned so that every run is a function of (program, M)",
			"a nested runtime.callcontext may be killed by its own limit (at most the parent's remaining budget) and the parent then carries on: by design (quotas.md), so such runs count as 'not done' but are not violations",
			"pcall/xpcall/coroutine.resume returning failure, a message handler or a __close handler seeing an error are reachable in these programs only after a termination: they call caught(kind), and any such marker is an interception",
			"amp: TotalAlloc delta around the call <= 64*M + 8 MB; a call still running after 20 s is judged on the allocation so far only (CPU is C05's business)",
			"suspended coroutines registered by the program are closed by the host after the observation was taken, so that parked goroutines do not pile up in the worker",
		},
		Init: func(tier string) {
			runtime.GOMAXPROCS(1)
			runtime.MemProfileRate = 0
			if g := os.Getenv("C06_GCMB"); g != "" {
				n, _ := strconv.Atoi(g)
				debug.SetGCPercent(-1)
				debug.SetMemoryLimit(int64(n) << 20)
			}
			initEpi()
		},
		Families: func(tier string) []*core.Family {
			cleanStale()
			return []*core.Family{sweepFamily(tier), xctxFamily(tier), ampFamily(tier)}
		},
		Extra: func(tier string) map[string]interface{} {
			return map[string]interface{}{
				"sweep_programs": len(programs(tier)),
				"xctx_programs":  len(xprogs()),
				"amp_templates":  len(ampTmpls),
				"amp_cases":      len(ampCases(tier)),
			}
		},
	})
	_ = fmt.Sprint
}
