package main

// Limit sweep of one program and its oracle.

import (
	"fmt"
	"sort"
	"strings"

	"verif/engine/core"
)

const hugeM = uint64(1) << 40

type sweeper struct {
	fam     string
	sig     string // program signature for keys
	src     string
	runAt   func(m uint64) *Res // executes the program under limit m
	ref     *Res
	results map[uint64]*Res
	verdict map[uint64]byte // 'D' done identically, 'K' killed, 'I' inner context killed, 'X' violation
	cause   map[uint64]string
	viols   map[string]*core.Violation
	order   []string
	trans   uint64
	states  map[uint64]struct{}
	crashes int
	maxCrashes int
}

func newSweeper(sig, src string, runAt func(m uint64) *Res) *sweeper {
	return &sweeper{fam: "sweep", sig: sig, src: src, runAt: runAt, results: map[uint64]*Res{}, verdict: map[uint64]byte{},
		cause: map[uint64]string{}, viols: map[string]*core.Violation{}, states: map[uint64]struct{}{}, maxCrashes: 6}
}

func (s *sweeper) viol(clause, cause string, m uint64, r *Res, extra string) {
	key := fmt.Sprintf("%s %s clause=%s cause=%s", s.fam, s.sig, clause, cause)
	if _, ok := s.viols[key]; ok {
		return
	}
	d := fmt.Sprintf("program (%s):\n%s\nmemory limit M=%d (smallest M at which this clause failed)\n%s\nobserved:  %s used=%d ticks=%d err=%s\nreference (M=%d): %s used=%d\n",
		s.sig, s.src, m, extra, r.obsString(), r.Used, r.Ticks, r.Err, hugeM, s.ref.obsString(), s.ref.Used)
	if r.Stderr != "" {
		d += "child stderr:\n" + r.Stderr
	}
	s.viols[key] = &core.Violation{Key: key, Detail: d}
	s.order = append(s.order, key)
}

func sameObs(a, b *Res) bool {
	if a.Status != b.Status || len(a.Trace) != len(b.Trace) || len(a.Results) != len(b.Results) || len(a.Markers) != len(b.Markers) {
		return false
	}
	for i := range a.Trace {
		if a.Trace[i] != b.Trace[i] {
			return false
		}
	}
	for i := range a.Results {
		if a.Results[i] != b.Results[i] {
			return false
		}
	}
	for i := range a.Markers {
		if a.Markers[i] != b.Markers[i] {
			return false
		}
	}
	return true
}

// An event whose second value is the status string "killed": a nested context
// (runtime.callcontext) reported to its parent that it was killed.
func isInnerKilled(e string) bool {
	if !strings.HasPrefix(e, `s:"`) {
		return false
	}
	k := strings.Index(e[3:], `",`)
	return k >= 0 && strings.HasPrefix(e[3+k+2:], `s:"killed"`)
}

// tracePrefixOrInner: r's trace is a prefix of the reference trace, or deviates
// from it first at an event saying that a nested context (which has its own
// limit, by design at most the remaining budget of its parent) was killed.
func tracePrefixOrInner(r, ref *Res) (ok bool, inner bool) {
	for i, e := range r.Trace {
		if i < len(ref.Trace) && ref.Trace[i] == e {
			continue
		}
		if isInnerKilled(e) {
			return true, true
		}
		return false, false
	}
	return true, false
}

// at runs (once) the program under limit m and classifies the run.
func (s *sweeper) at(m uint64) byte {
	if v, ok := s.verdict[m]; ok {
		return v
	}
	r := s.runAt(m)
	s.trans++
	s.results[m] = r
	s.states[core.Hash64(fmt.Sprintf("%s|%d|%d", r.obsString(), r.Used, r.Ticks))] = struct{}{}
	v := s.classify(m, r)
	s.verdict[m] = v
	return v
}

func (s *sweeper) classify(m uint64, r *Res) byte {
	cause := "none"
	if len(r.Markers) > 0 {
		cause = "intercept:" + r.Markers[0]
	}
	s.cause[m] = cause
	bad := false
	switch r.Status {
	case "died":
		s.crashes++
		s.viol("process-died", r.Crash, m, r, "the process running the program died")
		return 'X'
	case "timeout":
		s.crashes++
		s.viol("hang", cause, m, r, "no answer within the time limit")
		return 'X'
	case "gopanic":
		s.viol("gopanic", panicClass(r.Err), m, r, "a Go panic escaped to the host")
		bad = true
	case "compile":
		s.viol("internal-compile", "none", m, r, "")
		return 'X'
	}
	if m != 0 {
		if r.Used >= m {
			s.viol("used>=limit", cause, m, r, "accounted memory reached the limit")
			bad = true
		}
	}
	if m != 0 && r.ChainMax >= m {
		s.viol("chain-used>=limit", cause, m, r, fmt.Sprintf("at an emit event the memory accounted along the context chain (nested contexts included) was %d, the limit of the outermost context is %d: an allocation beyond the remaining budget was granted", r.ChainMax, m))
		bad = true
	}
	if r.Used > 1<<62 {
		s.viol("used-wrapped", cause, m, r, "accounted memory counter wrapped")
		bad = true
	}
	if r.Ctx != "" {
		s.viol("context-leak", cause, m, r, r.Ctx)
		bad = true
	} else if r.Epi != "" {
		s.viol("epilogue", cause, m, r, "the host could not carry on in the same runtime: "+r.Epi)
		bad = true
	}
	for _, e := range r.Trace {
		if strings.HasPrefix(e, `s:"inner",`) && strings.HasSuffix(e, ",false") {
			s.viol("inner-used>=limit", cause, m, r, "a nested context reports used.memory >= kill.memory")
			bad = true
		}
	}
	if bad {
		return 'X'
	}
	if len(r.Markers) > 0 {
		// Lua code observed a failure, which can only be a termination turned
		// into something ordinary: the kill was intercepted.
		s.viol("intercepted", cause, m, r, "Lua code ran after a termination and observed it (failure markers: "+strings.Join(r.Markers, ",")+")")
		return 'X'
	}
	prefixOK, inner := tracePrefixOrInner(r, s.ref)
	if inner {
		// A nested context was killed where it is not in the reference run:
		// from there on the parent runs a different, legitimate path.
		return 'I'
	}
	switch r.Status {
	case "ok":
		if sameObs(r, s.ref) {
			return 'D'
		}
		s.viol("done-differs", cause, m, r, "the run completed with an observation different from the unlimited one")
		return 'X'
	case "killed":
		if !prefixOK {
			s.viol("trace-not-prefix", cause, m, r, "the killed run's trace is not a prefix of the unlimited trace")
			return 'X'
		}
		return 'K'
	case "err":
		s.viol("lua-error", cause, m, r, "the run ended with a Lua error although the unlimited run has none")
		return 'X'
	}
	return 'X'
}

func panicClass(msg string) string {
	for _, k := range []string{"Too much mem released", "index out of range", "nil pointer", "slice bounds", "makeslice", "out of memory", "Closure not ready"} {
		if strings.Contains(msg, k) {
			return strings.ReplaceAll(k, " ", "-")
		}
	}
	if len(msg) > 40 {
		msg = msg[:40]
	}
	return strings.ReplaceAll(msg, " ", "-")
}

func (s *sweeper) isD(m uint64) bool { return s.at(m) == 'D' }

// bisect returns a such that lo <= a < hi, verdict D differs between a and a+1,
// given D(lo) != D(hi).
func (s *sweeper) bisect(lo, hi uint64) uint64 {
	dlo := s.isD(lo)
	for hi-lo > 1 {
		mid := lo + (hi-lo)/2
		if s.isD(mid) == dlo {
			lo = mid
		} else {
			hi = mid
		}
		if s.crashes > s.maxCrashes {
			break
		}
	}
	return lo
}

type sweepSummary struct {
	T        uint64
	small    bool
	nonTriv  bool
	skipped  bool
	note     string
}

// run performs the whole sweep.
func (s *sweeper) run() sweepSummary {
	var sum sweepSummary
	// reference: twice under a limit that is never reached
	r1 := s.runAt(hugeM)
	r2 := s.runAt(hugeM)
	s.trans += 2
	s.ref = r1
	if r1.Status == "died" || r1.Status == "timeout" || r1.Status == "gopanic" || r1.Status == "compile" {
		s.results[hugeM] = r1
		s.classify(hugeM, r1)
		return sum
	}
	if !sameObs(r1, r2) || r1.Used != r2.Used {
		// Not a function of the program alone: no threshold exists to look for.
		s.viol("nondeterministic", "none", hugeM, r2, fmt.Sprintf("two runs under the same unreachable limit differ (used %d vs %d)", r1.Used, r2.Used))
		return sum
	}
	if r1.Status != "ok" || len(r1.Markers) != 0 {
		s.viol("reference-not-ok", "none", hugeM, r1, "the program does not complete under an unreachable limit")
		return sum
	}
	s.results[hugeM] = r1
	s.verdict[hugeM] = s.classify(hugeM, r1)
	if s.verdict[hugeM] != 'D' {
		return sum
	}
	// smallest power of two at which the run is done identically
	p := uint64(64)
	for !s.isD(p) && p < hugeM && s.crashes <= s.maxCrashes {
		p *= 2
	}
	var tb uint64 // a flip found by bisection
	if s.isD(p) {
		if s.isD(1) {
			tb = 1
		} else {
			tb = s.bisect(1, p) + 1
		}
	} else {
		tb = p
	}
	sum.small = tb <= 4096
	if sum.small {
		for m := uint64(1); m <= tb+64 && s.crashes <= s.maxCrashes; m++ {
			s.at(m)
		}
	} else {
		// geometric grid, then every flip on the grid refined and swept +-64
		var grid []uint64
		for m := uint64(1); m <= 64; m++ {
			grid = append(grid, m)
		}
		for m := uint64(72); m < 4*tb; m += m / 8 {
			grid = append(grid, m)
		}
		for i := range grid {
			if s.crashes > s.maxCrashes {
				break
			}
			s.at(grid[i])
			if i > 0 && s.isD(grid[i-1]) != s.isD(grid[i]) {
				a := s.bisect(grid[i-1], grid[i])
				lo := uint64(1)
				if a > 64 {
					lo = a - 64
				}
				for m := lo; m <= a+65 && s.crashes <= s.maxCrashes; m++ {
					s.at(m)
				}
			}
		}
	}
	// far above the threshold, and integer edge cases of the limit
	// (limits >= 2^63 cannot be expressed from Lua and ctx.kill.memory shows them
	// as negative numbers: truthful reporting is C07's subject, not used here)
	for _, m := range []uint64{2 * tb, 3*tb + 1, 1 << 16, 1 << 20, 1<<31 - 1, 1 << 32, 1 << 53, 1<<63 - 1} {
		if s.crashes <= s.maxCrashes {
			s.at(m)
		}
	}
	// determinism at the threshold
	for _, m := range []uint64{tb, tb - 1} {
		if m == 0 || s.crashes > s.maxCrashes {
			continue
		}
		r := s.runAt(m)
		s.trans++
		if o := s.results[m]; o != nil && (!sameObs(o, r) || o.Used != r.Used) {
			s.viol("nondeterministic", "none", m, r, fmt.Sprintf("two runs at the same limit differ; first: %s used=%d", o.obsString(), o.Used))
		}
	}
	// monotonicity over everything evaluated
	ms := make([]uint64, 0, len(s.verdict))
	for m := range s.verdict {
		ms = append(ms, m)
	}
	sort.Slice(ms, func(i, j int) bool { return ms[i] < ms[j] })
	// A nested context killed by its own limit already in the reference run:
	// its effective limit is min(own limit, parent's remaining budget), so for
	// small M the nested computation stops at an M dependent point while the
	// parent carries on by design; no monotonicity is promised then.
	refInner := false
	for _, e := range s.ref.Trace {
		if isInnerKilled(e) {
			refInner = true
		}
	}
	var T, Tok uint64
	for _, m := range ms {
		if refInner {
			if s.verdict[m] == 'D' && T == 0 {
				T = m
			}
			continue
		}
		r := s.results[m]
		if s.verdict[m] == 'D' {
			if T == 0 {
				T = m
			}
		} else if T != 0 {
			// every done run has the identical observation for all M >= T
			s.viol("done-not-stable", s.cause[m], m, r,
				fmt.Sprintf("the program completes identically to the unlimited run at M=%d but not at the larger M=%d (verdict %c)", T, m, s.verdict[m]))
		}
		// the property's own wording: never done(M) and killed(M') with M < M'
		// (a run in which a nested context was killed by design is not "done")
		if r.Status == "ok" && s.verdict[m] != 'I' && Tok == 0 {
			Tok = m
		}
		if r.Status == "killed" && Tok != 0 {
			c := s.cause[Tok]
			if c == "none" {
				c = s.cause[m]
			}
			s.viol("non-monotone", c, m, r,
				fmt.Sprintf("the program completes at M=%d (%s) but is killed at the larger M=%d", Tok, s.results[Tok].obsString(), m))
		}
	}
	sum.T = T
	sum.nonTriv = T > 1
	return sum
}

func (s *sweeper) outcome(sum sweepSummary) core.Outcome {
	var o core.Outcome
	for _, k := range s.order {
		o.Viols = append(o.Viols, s.viols[k])
	}
	o.States = uint64(len(s.states))
	o.Trans = s.trans
	o.NonTrivial = sum.nonTriv || len(o.Viols) > 0
	ref := ""
	if s.ref != nil {
		ref = s.ref.obsString()
	}
	o.Sig = core.Hash64(fmt.Sprintf("%s|T=%d|%s|%d", s.sig, sum.T, ref, len(s.order)))
	return o
}
