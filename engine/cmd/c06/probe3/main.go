package main

import (
	"fmt"
	"os"
	"runtime"
	"runtime/pprof"
	"time"

	rt "github.com/arnodel/golua/runtime"

	"verif/engine/host"
)

func main() {
	if len(os.Args) > 1 {
		runtime.GOMAXPROCS(1)
	}
	f, _ := os.Create("/tmp/c06/cpu.prof")
	pprof.StartCPUProfile(f)
	t0 := time.Now()
	for i := 0; i < 2000; i++ {
		m := host.NewMachine(false)
		m.Exec("p", "emit(1)", nil, &rt.RuntimeContextDef{HardLimits: rt.RuntimeResources{Memory: 1 << 20}})
		m.Close()
	}
	pprof.StopCPUProfile()
	fmt.Println(time.Since(t0) / 2000)
}
