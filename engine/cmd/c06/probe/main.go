package main

import (
	"fmt"
	"os"
	"runtime"
	"strconv"

	rt "github.com/arnodel/golua/runtime"

	"verif/engine/host"
)

func main() {
	src, _ := os.ReadFile(os.Args[1])
	for _, a := range os.Args[2:] {
		m, _ := strconv.ParseUint(a, 10, 64)
		var ms0, ms1 runtime.MemStats
		mc := host.NewMachine(false)
		runtime.ReadMemStats(&ms0)
		var def *rt.RuntimeContextDef
		if m > 0 {
			def = &rt.RuntimeContextDef{HardLimits: rt.RuntimeResources{Memory: m}}
		}
		o := mc.Exec("p", string(src), nil, def)
		runtime.ReadMemStats(&ms1)
		fmt.Printf("M=%d status=%s usedmem=%d usedcpu=%d ticks=%d alloc=%d\n   %s\n", m, o.Status, o.UsedMem, o.UsedCPU, o.Ticks, ms1.TotalAlloc-ms0.TotalAlloc, o)
		o2 := mc.Exec("e", "emit('epilogue', #('x'):rep(10))", nil, nil)
		fmt.Printf("   epilogue: %s\n", o2)
	}
}
