package main

// Execution of one job (program + limits) on the real golua runtime, either in
// this process (bulk sweeps) or in a child process (cases that may kill the
// process: cross-context releases, allocation bombs).

import (
	"bufio"
	"encoding/json"
	"fmt"
	"io"
	"os"
	"os/exec"
	"regexp"
	"runtime"
	"runtime/debug"
	"strings"
	"sync"
	"sync/atomic"
	"syscall"
	"time"

	"github.com/arnodel/golua/code"
	"github.com/arnodel/golua/lib"
	"github.com/arnodel/golua/lib/base"
	"github.com/arnodel/golua/lib/coroutine"
	"github.com/arnodel/golua/lib/mathlib"
	"github.com/arnodel/golua/lib/packagelib"
	"github.com/arnodel/golua/lib/runtimelib"
	"github.com/arnodel/golua/lib/stringlib"
	"github.com/arnodel/golua/lib/tablelib"
	"github.com/arnodel/golua/lib/utf8lib"
	rt "github.com/arnodel/golua/runtime"

	"verif/engine/host"
)

// Job is one execution: Src runs under a context with hard memory limit M
// (M == 0: no context at all).  Pro, if not empty, runs first in the same
// runtime with no limit and is not part of the observation.
type Job struct {
	Name    string `json:"name"`
	Pro     string `json:"pro,omitempty"`
	Src     string `json:"src"`
	M       uint64 `json:"m"`
	ArgRep  string `json:"argrep,omitempty"` // chunk argument: ArgRep repeated up to ArgN bytes, built by the host
	ArgN    int    `json:"argn,omitempty"`
	Epi     bool   `json:"epi"`
	Measure bool   `json:"measure"` // report the TotalAlloc delta around the call
	Full    bool   `json:"full"`    // load every library (io, os, debug, golib too)
	WatchMs int    `json:"watchms,omitempty"`
}

// Res is what the host observed.
type Res struct {
	Status  string   `json:"status"` // ok | err | killed | gopanic | compile | died | timeout
	Err     string   `json:"err,omitempty"`
	Trace   []string `json:"trace,omitempty"`
	Results []string `json:"results,omitempty"`
	ChainMax uint64 `json:"chain_max,omitempty"` // max over emit events of the memory accounted along the context chain below the root
	Markers []string `json:"markers,omitempty"` // caught(kind) calls: Lua code observed a failure
	Ticks   int      `json:"ticks"`
	Used    uint64   `json:"used"`
	Epi     string   `json:"epi,omitempty"` // "" = epilogue fine
	Ctx     string   `json:"ctx,omitempty"` // "" = the context stack is back at the root
	Alloc   uint64   `json:"alloc"`         // TotalAlloc delta around the call
	Sys     uint64   `json:"sys"`           // MemStats.Sys after the call
	Crash   string   `json:"crash,omitempty"`
	Suspended int    `json:"-"`
	Stderr  string   `json:"stderr,omitempty"`
}

func (r *Res) obsString() string {
	return r.Status + " (" + strings.Join(r.Results, ",") + ") [" + strings.Join(r.Trace, " | ") + "] markers=" + strings.Join(r.Markers, ",")
}

type machine struct {
	*host.Machine
	markers []string
	kept    []*rt.Thread
	cleanup func()
	chainMax uint64
}

func (m *machine) Close() {
	m.Machine.Close()
	if m.cleanup != nil {
		m.cleanup()
	}
}

// newMachine: full = every library as lib.LoadAll does; otherwise the
// libraries the sweep programs use (iolib allocates three 64 KB buffers and
// fsyncs stdout on close, which dominates the cost of a run).
func newMachine(full bool) *machine {
	m := &machine{Machine: host.NewMachine(true)}
	r := m.R
	if full {
		m.cleanup = lib.LoadAll(r)
	} else {
		m.cleanup = lib.LoadLibs(r, base.LibLoader, packagelib.LibLoader, coroutine.LibLoader, stringlib.LibLoader,
			tablelib.LibLoader, mathlib.LibLoader, utf8lib.LibLoader, runtimelib.LibLoader)
	}
	env := r.GlobalEnv()
	caught := r.SetEnvGoFunc(env, "caught", func(t *rt.Thread, c *rt.GoCont) (rt.Cont, error) {
		k := "?"
		if c.NArgs() > 0 {
			if s, ok := c.Arg(0).TryString(); ok {
				k = s
			}
		}
		m.markers = append(m.markers, k)
		m.Ticks++
		return c.Next(), nil
	}, 1, false)
	// emit as host.Machine defines it, plus: the memory accounted at this
	// moment to the outermost limited context, i.e. the sum of used.memory over
	// the chain of contexts below the root (a nested context's usage is only
	// charged to its parent when it ends)
	emit := r.SetEnvGoFunc(env, "emit", func(t *rt.Thread, c *rt.GoCont) (rt.Cont, error) {
		m.Trace = append(m.Trace, strings.Join(m.Canon.Values(c.Etc()), ","))
		var sum uint64
		for ctx := t.RuntimeContext(); ctx != nil && ctx.Parent() != nil; ctx = ctx.Parent() {
			sum += ctx.UsedResources().Memory
		}
		if sum > m.chainMax {
			m.chainMax = sum
		}
		return c.Next(), nil
	}, 0, true)
	rt.SolemnlyDeclareCompliance(rt.ComplyCpuSafe|rt.ComplyMemSafe|rt.ComplyIoSafe|rt.ComplyTimeSafe, emit)
	keep := r.SetEnvGoFunc(env, "keep", func(t *rt.Thread, c *rt.GoCont) (rt.Cont, error) {
		if c.NArgs() > 0 {
			if th, ok := c.Arg(0).TryThread(); ok && th != r.MainThread() {
				m.kept = append(m.kept, th)
			}
		}
		return c.Next(), nil
	}, 1, false)
	rt.SolemnlyDeclareCompliance(rt.ComplyCpuSafe|rt.ComplyMemSafe|rt.ComplyIoSafe|rt.ComplyTimeSafe, caught, keep)
	if os.Getenv("C06_SHIM") != "" {
		installDetCoroutine(r)
	}
	return m
}

// settle lets the goroutine of a coroutine that has just died run to its end
// before the resumer carries on.  golua's Thread.end releases the coroutine's
// 2 KB *after* handing control back, so without this the release lands at
// whatever moment the Go scheduler picks (under GOMAXPROCS=1: whenever the
// resumer is next descheduled), and accounted memory is not a function of the
// program.  With one P, Gosched runs every runnable goroutine before returning.
func settle(co *rt.Thread) {
	if co.Status() == rt.ThreadDead {
		for i := 0; i < 4; i++ {
			runtime.Gosched()
		}
	}
}

// installDetCoroutine replaces coroutine.resume/wrap/close by copies of golua's
// own wrappers (lib/coroutine/coroutine.go) that additionally call settle.
func installDetCoroutine(r *rt.Runtime) {
	pkgV := r.GlobalEnv().Get(rt.StringValue("coroutine"))
	pkg, ok := pkgV.TryTable()
	if !ok {
		return
	}
	resume := func(t *rt.Thread, c *rt.GoCont) (rt.Cont, error) {
		var co *rt.Thread
		err := c.Check1Arg()
		if err == nil {
			co, err = c.ThreadArg(0)
		}
		if err != nil {
			return nil, err
		}
		defer settle(co)
		res, err := co.Resume(t, c.Etc())
		next := c.Next()
		if err == nil {
			t.Push1(next, rt.BoolValue(true))
			t.Push(next, res...)
		} else {
			t.Push1(next, rt.BoolValue(false))
			t.Push1(next, rt.ErrorValue(err))
		}
		return next, nil
	}
	wrap := func(t *rt.Thread, c *rt.GoCont) (rt.Cont, error) {
		var f rt.Callable
		err := c.Check1Arg()
		if err == nil {
			f, err = c.CallableArg(0)
		}
		if err != nil {
			return nil, err
		}
		co := rt.NewThread(t.Runtime)
		co.Start(f)
		w := rt.NewGoFunction(func(t *rt.Thread, c *rt.GoCont) (rt.Cont, error) {
			defer settle(co)
			res, err := co.Resume(t, c.Etc())
			if err != nil {
				return nil, err
			}
			return c.PushingNext(t.Runtime, res...), nil
		}, "wrap", 0, true)
		w.SolemnlyDeclareCompliance(rt.ComplyCpuSafe | rt.ComplyMemSafe | rt.ComplyTimeSafe | rt.ComplyIoSafe)
		next := c.Next()
		t.Push1(next, rt.FunctionValue(w))
		return next, nil
	}
	closef := func(t *rt.Thread, c *rt.GoCont) (rt.Cont, error) {
		if err := c.Check1Arg(); err != nil {
			return nil, err
		}
		co, err := c.ThreadArg(0)
		if err != nil {
			return nil, err
		}
		defer settle(co)
		ok, err := co.Close(t)
		if !ok {
			return nil, fmt.Errorf("cannot close non-suspended thread")
		}
		next := c.Next()
		t.Push1(next, rt.BoolValue(err == nil))
		if err != nil {
			t.Push1(next, rt.ErrorValue(err))
		}
		return next, nil
	}
	rt.SolemnlyDeclareCompliance(rt.ComplyCpuSafe|rt.ComplyMemSafe|rt.ComplyTimeSafe|rt.ComplyIoSafe,
		r.SetEnvGoFunc(pkg, "resume", resume, 1, true),
		r.SetEnvGoFunc(pkg, "wrap", wrap, 1, false),
		r.SetEnvGoFunc(pkg, "close", closef, 1, false),
	)
}

// closeKept closes the coroutines the program registered, so that their
// goroutines do not accumulate in the worker (golua parks a goroutine per
// suspended coroutine for ever).
func (m *machine) closeKept() {
	for _, th := range m.kept {
		func() {
			defer func() { recover() }()
			if th.Status() == rt.ThreadSuspended {
				th.Close(m.R.MainThread())
				settle(th)
			}
		}()
	}
	m.kept = nil
}

var unitCache = map[string]*code.Unit{}
var compileRT *rt.Runtime

// compileOnce compiles src once per process: the same unit is loaded into a
// fresh runtime for every limit, so that map iteration order inside the
// compiler cannot move costs between runs of one sweep.
func compileOnce(name, src string) (*code.Unit, error) {
	if u, ok := unitCache[src]; ok {
		return u, nil
	}
	if compileRT == nil {
		compileRT = rt.New(nil)
		runtime.SetFinalizer(compileRT, nil)
	}
	u, _, err := compileRT.CompileLuaChunk(name, []byte(src))
	if err != nil {
		return nil, err
	}
	if len(unitCache) > 64 {
		unitCache = map[string]*code.Unit{}
	}
	unitCache[src] = u
	return u, nil
}

const epiSrc = `local t = {} for i = 1, 10 do t[i] = ("x"):rep(i) end
local co = coroutine.wrap(function(a) local b = coroutine.yield(a + 1) return b * 2 end)
emit("epi", #table.concat(t), co(1), co(4), (pcall(error, "e")))`

const epiWant = `s:"epi",i:55,i:2,i:8,false`

var epiUsed uint64 // accounted memory of the epilogue in a pristine runtime (set lazily)

func runEpilogue(m *machine) (string, uint64) {
	u, err := compileOnce("epi", epiSrc)
	if err != nil {
		return "epilogue does not compile: " + err.Error(), 0
	}
	m.Trace = nil
	clos := m.R.LoadLuaUnit(u, rt.TableValue(m.R.GlobalEnv()))
	def := &rt.RuntimeContextDef{HardLimits: rt.RuntimeResources{Memory: 1 << 20}}
	o := m.Call(rt.FunctionValue(clos), nil, def)
	if o.Status != "ok" || len(o.Trace) != 1 || o.Trace[0] != epiWant {
		return "epilogue: " + o.String(), o.UsedMem
	}
	return "", o.UsedMem
}

// callStartAlloc is MemStats.TotalAlloc when the measured call started (0 =
// no measured call is running); read by the child's watchdog.
var callStartAlloc atomic.Uint64

// execJob runs a job in this process on a fresh runtime.
func execJob(j *Job) (res Res) {
	m := newMachine(j.Full)
	res = runOn(m, j)
	m.Close()
	return
}

// runOn runs a job on the given machine (which the caller closes).
func runOn(m *machine, j *Job) (res Res) {
	defer func() {
		if p := recover(); p != nil {
			res.Status = "gopanic"
			res.Err = "outside the call: " + firstLine(fmt.Sprint(p))
		}
	}()
	m.Trace, m.Ticks, m.markers, m.chainMax = nil, 0, nil, 0
	if j.Pro != "" {
		o := m.Exec("pro", j.Pro, nil, nil)
		if o.Status != "ok" {
			res.Status = "compile"
			res.Err = "prologue failed: " + o.String()
			return
		}
		m.Trace, m.Ticks, m.markers, m.chainMax = nil, 0, nil, 0
	}
	u, err := compileOnce(j.Name, j.Src)
	if err != nil {
		res.Status = "compile"
		res.Err = err.Error()
		return
	}
	var args []rt.Value
	if j.ArgN > 0 {
		rep := j.ArgRep
		if rep == "" {
			rep = "x"
		}
		s := strings.Repeat(rep, j.ArgN/len(rep)+1)[:j.ArgN]
		args = []rt.Value{rt.StringValue(s)}
	}
	clos := m.R.LoadLuaUnit(u, rt.TableValue(m.R.GlobalEnv()))
	var def *rt.RuntimeContextDef
	if j.M > 0 {
		def = &rt.RuntimeContextDef{HardLimits: rt.RuntimeResources{Memory: j.M}}
	}
	var ms0, ms1 runtime.MemStats
	if j.Measure {
		runtime.ReadMemStats(&ms0)
		callStartAlloc.Store(ms0.TotalAlloc)
	}
	o := m.Call(rt.FunctionValue(clos), args, def)
	callStartAlloc.Store(0)
	if j.Measure {
		runtime.ReadMemStats(&ms1)
		res.Alloc = ms1.TotalAlloc - ms0.TotalAlloc
		res.Sys = ms1.Sys
	}
	res.Status, res.Err, res.Results = o.Status, o.Err, o.Results
	res.Trace = append([]string(nil), o.Trace...)
	res.Markers = append([]string(nil), m.markers...)
	res.ChainMax = m.chainMax
	res.Ticks = o.Ticks
	res.Used = o.UsedMem
	if hl, u := m.R.HardLimits(), m.R.UsedResources(); hl.Memory != 0 || u.Memory != 0 {
		res.Ctx = fmt.Sprintf("after the call returned to the host the current context is not the root context: kill.memory=%d used.memory=%d", hl.Memory, u.Memory)
	}
	res.Suspended = len(m.kept)
	m.closeKept()
	if j.Epi {
		var used uint64
		res.Epi, used = runEpilogue(m)
		if res.Epi == "" && epiUsed != 0 && used != epiUsed {
			res.Epi = fmt.Sprintf("epilogue accounted %d bytes, %d in a pristine runtime", used, epiUsed)
		}
	}
	return
}

// initEpi measures the accounted cost of the epilogue in a pristine runtime.
func initEpi() {
	if epiUsed != 0 {
		return
	}
	m := newMachine(false)
	_, epiUsed = runEpilogue(m)
	m.Close()
}

func firstLine(s string) string {
	if k := strings.IndexByte(s, '\n'); k >= 0 {
		s = s[:k]
	}
	if len(s) > 200 {
		s = s[:200]
	}
	return s
}

// ---------------------------------------------------------------- child mode

// subMain serves jobs read as JSON lines on stdin.
func subMain() {
	var lim syscall.Rlimit
	lim.Cur, lim.Max = 12<<30, 12<<30
	syscall.Setrlimit(syscall.RLIMIT_AS, &lim)
	debug.SetMaxStack(256 << 20)
	initEpi()
	in := bufio.NewReaderSize(os.Stdin, 1<<20)
	out := bufio.NewWriter(os.Stdout)
	enc := json.NewEncoder(out)
	for {
		line, err := in.ReadBytes('\n')
		if len(line) > 0 {
			var j Job
			if json.Unmarshal(line, &j) != nil {
				os.Exit(3)
			}
			var wd *time.Timer
			if j.WatchMs > 0 {
				wd = time.AfterFunc(time.Duration(j.WatchMs)*time.Millisecond, func() {
					// Still running: report how much the measured call allocated so far
					// (nothing if it has not even started: building the input took too long).
					var ms1 runtime.MemStats
					runtime.ReadMemStats(&ms1)
					r := Res{Status: "timeout", Sys: ms1.Sys, Err: "measured call not started"}
					if a := callStartAlloc.Load(); a != 0 {
						r.Alloc = ms1.TotalAlloc - a
						r.Err = "measured call still running"
					}
					enc.Encode(r)
					out.Flush()
					os.Exit(0)
				})
			}
			r := execJob(&j)
			if wd != nil {
				if !wd.Stop() {
					select {} // the watchdog is reporting
				}
			}
			enc.Encode(r)
			out.Flush()
		}
		if err != nil {
			return
		}
	}
}

// remote is a persistent child process serving jobs.
type remote struct {
	cmd    *exec.Cmd
	in     io.WriteCloser
	out    *bufio.Reader
	stderr *capBuf
}

type capBuf struct {
	mu  sync.Mutex
	buf []byte
}

func (c *capBuf) Write(b []byte) (int, error) {
	c.mu.Lock()
	defer c.mu.Unlock()
	if len(c.buf) < 16000 {
		k := 16000 - len(c.buf)
		if k > len(b) {
			k = len(b)
		}
		c.buf = append(c.buf, b[:k]...)
	}
	return len(b), nil
}
func (c *capBuf) String() string { c.mu.Lock(); defer c.mu.Unlock(); return string(c.buf) }

func startRemote() (*remote, error) {
	exe, err := os.Executable()
	if err != nil {
		return nil, err
	}
	cmd := exec.Command(exe, "sub")
	cmd.Env = append(os.Environ(), "GOTRACEBACK=single")
	in, _ := cmd.StdinPipe()
	outp, _ := cmd.StdoutPipe()
	eb := &capBuf{}
	cmd.Stderr = eb
	if err := cmd.Start(); err != nil {
		return nil, err
	}
	return &remote{cmd: cmd, in: in, out: bufio.NewReaderSize(outp, 1<<20), stderr: eb}, nil
}

func (r *remote) stop() {
	if r == nil {
		return
	}
	r.in.Close()
	done := make(chan struct{})
	go func() { r.cmd.Wait(); close(done) }()
	select {
	case <-done:
	case <-time.After(2 * time.Second):
		r.cmd.Process.Kill()
		<-done
	}
}

var golFrame = regexp.MustCompile(`^github\.com/arnodel/golua/([A-Za-z0-9_/]+)\.(\(\*?[A-Za-z0-9_]+\)\.)?([A-Za-z0-9_]+)`)

// crashSignature reduces a Go crash dump to "<reason> @ <first golua frame that
// is not part of the accounting plumbing>[<-Thread.end]"; numbers and
// addresses are masked.
func crashSignature(stderr string) string {
	reason := ""
	site := ""
	inEnd := false
	sawPanicCall := false
	skip := map[string]bool{"ReleaseMem": true, "ReleaseArrSize": true, "ReleaseBytes": true, "ReleaseSize": true,
		"RequireMem": true, "requireMem": true, "RequireBytes": true, "RequireArrSize": true, "RequireSize": true,
		"TerminateContext": true, "KillContext": true, "requireCPU": true, "RequireCPU": true, "LinearRequire": true}
	lines := strings.Split(stderr, "\n")
	for i, ln := range lines {
		t := strings.TrimSpace(ln)
		if strings.HasPrefix(t, "panic:") || strings.HasPrefix(t, "fatal error:") || strings.HasPrefix(t, "runtime: goroutine stack exceeds") {
			if i == 0 || reason == "" || strings.HasPrefix(lines[i-1], "panic:") || strings.HasPrefix(strings.TrimSpace(lines[i-1]), "panic:") {
				// the last line of the initial panic chain is the one that killed the process
				reason = strings.TrimSuffix(firstLine(t), " [recovered]")
			}
			continue
		}
		if reason == "" {
			continue
		}
		if strings.HasPrefix(ln, "panic(") {
			sawPanicCall = true
		}
		if strings.HasPrefix(ln, "goroutine ") && site != "" {
			break
		}
		if !sawPanicCall && strings.Contains(ln, "runtime.(*Thread).end(") {
			inEnd = true
		}
		if site == "" {
			if mm := golFrame.FindStringSubmatch(ln); mm != nil {
				fn := mm[3]
				if skip[fn] || strings.Contains(ln, ".Start.func") {
					continue
				}
				site = mm[2] + fn
			}
		}
	}
	if reason == "" {
		reason = "unknown"
	}
	reason = maskNumbers(reason)
	if site != "" {
		if inEnd {
			site = "(*Thread).end"
		}
		return reason + " @ " + site
	}
	return reason
}

var numRe = regexp.MustCompile(`0x[0-9a-fA-F]+|[0-9]+`)

func maskNumbers(s string) string { return numRe.ReplaceAllString(s, "N") }

// run executes j in the child; a dead child is reported as Status "died".
// The caller must start a new remote after "died"/"timeout".
func (r *remote) run(j *Job, timeout time.Duration) Res {
	b, _ := json.Marshal(j)
	b = append(b, '\n')
	type rd struct {
		line []byte
		err  error
	}
	ch := make(chan rd, 1)
	go func() {
		if _, err := r.in.Write(b); err != nil {
			ch <- rd{nil, err}
			return
		}
		line, err := r.out.ReadBytes('\n')
		ch <- rd{line, err}
	}()
	select {
	case x := <-ch:
		var res Res
		if len(x.line) > 0 && json.Unmarshal(x.line, &res) == nil {
			return res
		}
		r.cmd.Process.Kill()
		werr := r.cmd.Wait()
		se := r.stderr.String()
		return Res{Status: "died", Err: fmt.Sprint(werr), Crash: crashSignature(se), Stderr: head(se, 2500)}
	case <-time.After(timeout):
		r.cmd.Process.Kill()
		r.cmd.Wait()
		return Res{Status: "timeout", Err: "child did not answer", Alloc: 0}
	}
}

func head(s string, n int) string {
	if len(s) > n {
		return s[:n]
	}
	return s
}
