package main

// Program family of the limit sweep: allocating workloads wrapped in
// interception nestings.

import (
	"fmt"
	"strings"
)

// A nest wraps a callable f into a new callable.  Failure paths (something
// that can only be reached when a termination was turned into an ordinary
// Lua-visible outcome) call caught(kind).
type nest struct {
	name string
	def  string
}

var nests = []nest{
	{"pcall", `local function n_pcall(f) return function()
  local ok, r = pcall(f)
  if not ok then caught("pcall") end
  emit("pcall", ok)
  return r
end end`},
	{"xpcall", `local function n_xpcall(f) return function()
  local ok, r = xpcall(f, function(e) caught("handler") return e end)
  if not ok then caught("xpcall") end
  emit("xpcall", ok)
  return r
end end`},
	{"ploop", `local function n_ploop(f) return function()
  local n, ok, r = 0
  repeat
    n = n + 1
    ok, r = pcall(f)
    if not ok then caught("pcall") end
  until ok or n >= 3
  emit("ploop", n)
  return r
end end`},
	{"cowrap", `local function n_cowrap(f) return function()
  local done, r = false
  local co = coroutine.wrap(function() keep(coroutine.running()) local x = f() done = true return x end)
  repeat r = co() until done
  emit("cowrap")
  return r
end end`},
	{"cores", `local function n_cores(f) return function()
  local co = coroutine.create(function() return f() end)
  keep(co)
  local ok, r
  repeat
    ok, r = coroutine.resume(co)
    if not ok then caught("resume") end
  until coroutine.status(co) == "dead"
  emit("cores", ok)
  return r
end end`},
	{"coyield", `local function n_coyield(f) return function()
  local co = coroutine.create(function() return f() end)
  keep(co)
  local old = step
  step = coroutine.yield
  local ok, r, n = true, nil, 0
  repeat
    ok, r = coroutine.resume(co)
    n = n + 1
    if not ok then caught("resume") end
  until coroutine.status(co) == "dead"
  step = old
  emit("coyield", n)
  return r
end end`},
	{"close", `local function n_close(f) return function()
  local finished = false
  local c <close> = setmetatable({}, {__close = function(_, e)
    if e ~= nil or not finished then caught("close") end
    emit("closed")
  end})
  local r = f()
  finished = true
  return r
end end`},
	{"closealloc", `local function n_closealloc(f) return function()
  local finished = false
  local c <close> = setmetatable({}, {__close = function(_, e)
    if e ~= nil or not finished then caught("close") end
    local s = ("x"):rep(3000)
    emit("closed", #s)
  end})
  local r = f()
  finished = true
  return r
end end`},
	{"ctxbig", `local function n_ctxbig(f) return function()
  local ctx, r = runtime.callcontext({kill={memory=10000000}}, f)
  local st = ctx.status
  emit("inner", st, (ctx.used.memory or 0) < ctx.kill.memory)
  if st == "error" then caught("ctxerr") end
  return r
end end`},
	{"ctxsmall", `local function n_ctxsmall(f) return function()
  local ctx, r = runtime.callcontext({kill={memory=1500}}, f)
  local st = ctx.status
  emit("inner", st, (ctx.used.memory or 0) < ctx.kill.memory)
  if st == "error" then caught("ctxerr") end
  return r
end end`},
	{"meta", `local function n_meta(f) return function()
  local t = setmetatable({}, {__index = function(_, k) return f() end})
  return t.x
end end`},
	{"errpre", `local function n_errpre(f) return function()
  local ok = pcall(error, "boom")
  emit("errpre", ok)
  return f()
end end`},
	// the outer context has already used part of its budget when the inner
	// callable (typically a nested context) starts
	{"prealloc", `local function n_prealloc(f) return function()
  local held = ("p"):rep(2000)
  local r = f()
  emit("prealloc", #held)
  return r
end end`},
	// thorough only (index >= nQuickNests)
	{"ctxcpu", `local function n_ctxcpu(f) return function()
  local ctx, r = runtime.callcontext({kill={cpu=10000000}}, f)
  local st = ctx.status
  emit("inner", st, (ctx.used.memory or 0) < ctx.kill.memory)
  if st == "error" then caught("ctxerr") end
  return r
end end`},
	{"ctx600", `local function n_ctx600(f) return function()
  local ctx, r = runtime.callcontext({kill={memory=600}}, f)
  local st = ctx.status
  emit("inner", st, (ctx.used.memory or 0) < ctx.kill.memory)
  if st == "error" then caught("ctxerr") end
  return r
end end`},
	{"rethrow", `local function n_rethrow(f) return function()
  local ok, r = pcall(f)
  if not ok then caught("pcall") error(r, 0) end
  return r
end end`},
}

const nQuickNests = 13

// A workload is the body of function work(); %K is replaced by the size.
type workload struct {
	name string
	body string
}

var workloads = []workload{
	{"concat", `local s = ""
  for i = 1, %K do s = s .. "abcdefgh" emit(i, #s) step() end
  return #s`},
	{"rep", `local n = 0
  for i = 1, %K do local s = string.rep("ab", 16 * i) n = n + #s emit(i, n) step() end
  return n`},
	{"tarr", `local t = {}
  for i = 1, %K do for j = 1, 4 do t[#t + 1] = j end emit(i, #t) step() end
  return #t`},
	{"thash", `local t, n = {}, 0
  for i = 1, %K do t["k" .. i] = i t[i + 0.5] = i n = n + 2 emit(i, n) step() end
  return n`},
	{"clos", `local fs = {}
  for i = 1, %K do fs[i] = function() return i end emit(i, fs[i]()) step() end
  return #fs`},
	{"vararg", `local base = {1, 2, 3, 4, 5, 6, 7, 8, 9, 10, 11, 12}
  local function f(...) local t = {...} return select("#", ...) + #t end
  local n = 0
  for i = 1, %K do n = n + f(table.unpack(base, 1, 2 * i)) emit(i, n) step() end
  return n`},
	{"cocreate", `local n = 0
  for i = 1, %K do
    local co = coroutine.wrap(function(a) keep(coroutine.running()) local b = coroutine.yield(a + 1) return b * 2 end)
    n = n + co(i) + co(i)
    emit(i, n) step()
  end
  return n`},
	{"load", `local n = 0
  for i = 1, %K do
    local f = load("return " .. i .. (" + 1"):rep(i))
    n = n + f()
    emit(i, n) step()
  end
  return n`},
	{"tctor", `local n = 0
  for i = 1, %K do local t = {i, i + 1, i + 2, x = i, y = {}} n = n + #t emit(i, n) step() end
  return n`},
	{"format", `local s = ""
  for i = 1, %K do s = string.format("%5d|%s", i, s) emit(i, #s) step() end
  return #s`},
	{"tconcat", `local t = {}
  for i = 1, %K do t[i] = ("x"):rep(i) local s = table.concat(t, ", ") emit(i, #s) step() end
  return #t`},
	{"cosusp", `local cs = {}
  for i = 1, %K do
    local co = coroutine.create(function(a) coroutine.yield(a) return a end)
    keep(co)
    cs[i] = co
    emit(i, coroutine.resume(co, i)) step()
  end
  return #cs`},
}

type program struct {
	nest []int // outermost first
	wl   int
	k    int
}

func (p program) nestName() string {
	if len(p.nest) == 0 {
		return "plain"
	}
	s := ""
	for i := len(p.nest) - 1; i >= 0; i-- {
		if s == "" {
			s = nests[p.nest[i]].name
		} else {
			s = nests[p.nest[i]].name + "(" + s + ")"
		}
	}
	return s
}

func (p program) sig() string {
	return fmt.Sprintf("nest=%s wl=%s/%d", p.nestName(), workloads[p.wl].name, p.k)
}

func (p program) source() string {
	var sb strings.Builder
	sb.WriteString("local step = function() end\n")
	used := map[int]bool{}
	for _, n := range p.nest {
		if !used[n] {
			used[n] = true
			sb.WriteString(nests[n].def)
			sb.WriteString("\n")
		}
	}
	sb.WriteString("local function work()\n  ")
	sb.WriteString(strings.ReplaceAll(workloads[p.wl].body, "%K", fmt.Sprint(p.k)))
	sb.WriteString("\nend\n")
	call := "work"
	for i := len(p.nest) - 1; i >= 0; i-- {
		call = "n_" + nests[p.nest[i]].name + "(" + call + ")"
	}
	sb.WriteString("local g = " + call + "\n")
	sb.WriteString("local r = g()\nemit(\"post\", r)\nreturn r\n")
	return sb.String()
}

// programs enumerates the family, simplest first.
func programs(tier string) []program {
	var ps []program
	nn := nQuickNests
	ks1 := []int{1, 3}   // depth <= 1
	ks2 := []int{2}      // depth 2
	wl2 := len(workloads) // workloads used at depth 2
	if tier == "thorough" {
		nn = len(nests)
		ks1 = []int{0, 1, 2, 3, 5, 8}
		ks2 = []int{1, 3}
	} else {
		wl2 = 8
	}
	for _, k := range ks1 {
		for w := range workloads {
			ps = append(ps, program{nil, w, k})
		}
	}
	for _, k := range ks1 {
		for w := range workloads {
			for a := 0; a < nn; a++ {
				ps = append(ps, program{[]int{a}, w, k})
			}
		}
	}
	for _, k := range ks2 {
		for w := 0; w < wl2; w++ {
			for a := 0; a < nn; a++ {
				for b := 0; b < nn; b++ {
					ps = append(ps, program{[]int{a, b}, w, k})
				}
			}
		}
	}
	return ps
}
