package main

// Amplification templates: one library call (or tiny loop) whose allocation
// depends on a program-chosen size N, run under a small memory limit M.

import (
	"fmt"
	"os"
	"path/filepath"
	"strings"
	"time"

	"verif/engine/core"
)

type ampTmpl struct {
	name string
	// src is the program; it sees `local N = <N>`, `local PATH = <sentinel file>`
	// (when file != 0) and the host made string as `...` (when arg != "").
	src string
	// pro runs before, unlimited, in the same runtime (it also sees N).
	pro string
	// maxN: largest N for which the template makes sense (0 = all).
	maxN uint64
	// minN: smallest sensible N.
	minN uint64
	// arg: the host builds a string of N bytes by repeating arg and passes it as chunk argument.
	arg string
	// file: 1 = the sentinel file has N bytes (sparse zeros); 2 = N bytes of 100 byte lines; 3 = 1000 bytes whatever N
	file int
	// retBytes: a numeric result is the byte length of a string created inside
	// the context, which therefore has to be smaller than M.
	retBytes bool
}

var ampNs = []uint64{1000, 1000000, 100000000, 1 << 31, 1 << 40}
var ampMs = []uint64{10000, 100000}

var ampTmpls = []ampTmpl{
	// ---- string building and repetition
	{name: "string.rep(x,N)", src: `return #string.rep("x", N)`, retBytes: true},
	{name: "string.rep(s10,N/10)", src: `return #string.rep("abcdefghij", N // 10)`, retBytes: true},
	{name: "string.rep(x,N/2,sep)", src: `return #string.rep("x", N // 2, ",")`, retBytes: true},
	{name: "string.rep(s,N/100,sep100)", src: `return #string.rep("ab", N // 100, ("-"):rep(98))`, retBytes: true},
	{name: "rep(N):upper", src: `local s = ("x"):rep(N) return #s:upper()`, retBytes: true},
	{name: "rep(N):lower", src: `local s = ("X"):rep(N) return #s:lower()`, retBytes: true},
	{name: "rep(N):reverse", src: `local s = ("x"):rep(N) return #s:reverse()`, retBytes: true},
	{name: "arg:upper", src: `local s = ... return #s:upper()`, arg: "x", maxN: 100000000, retBytes: true},
	{name: "arg:lower", src: `local s = ... return #s:lower()`, arg: "X", maxN: 100000000, retBytes: true},
	{name: "arg:reverse", src: `local s = ... return #s:reverse()`, arg: "x", maxN: 100000000, retBytes: true},
	{name: "arg:rep(3)", src: `local s = ... return #s:rep(3)`, arg: "x", maxN: 100000000, retBytes: true},
	{name: "arg..arg", src: `local s = ... return #(s .. s)`, arg: "x", maxN: 100000000, retBytes: true},
	{name: "arg:sub(2)", src: `local s = ... return #s:sub(2)`, arg: "x", maxN: 100000000},
	{name: "arg:gsub(x,yy)", src: `local s = ... return #(s:gsub("x", "yy"))`, arg: "x", maxN: 100000000, retBytes: true},
	{name: "arg:gsub(.,%0%0)", src: `local s = ... return #(s:gsub(".", "%0%0"))`, arg: "x", maxN: 100000000, retBytes: true},
	{name: "arg:gsub(^.*$,%0x100)", src: `local s = ... return #(s:gsub("^.*$", ("%0"):rep(100)))`, arg: "x", maxN: 1000000, retBytes: true},
	{name: "arg:gsub((.*),%1x100)", src: `local s = ... return #(s:gsub("^(.*)$", ("%1"):rep(100)))`, arg: "x", maxN: 1000000, retBytes: true},
	{name: "rep(N/100):gsub(^.*$,%0x100)", src: `local s = ("x"):rep(N // 100) return #(s:gsub("^.*$", ("%0"):rep(100)))`, retBytes: true},
	{name: "arg:gsub(x,fn)", src: `local s = ... return #(s:gsub("x", function(c) return "zz" end))`, arg: "x", maxN: 1000000, retBytes: true},
	{name: "arg:gsub(x,tbl)", src: `local s = ... return #(s:gsub("x", {x = "zz"}))`, arg: "x", maxN: 100000000, retBytes: true},
	{name: "arg:byte(1,-1)", src: `local s = ... return select("#", s:byte(1, -1))`, arg: "x", maxN: 100000000},
	{name: "arg:match((.*))", src: `local s = ... return #s:match("(.*)")`, arg: "x", maxN: 100000000},
	{name: "arg:find-captures", src: `local s = ... return select("#", s:find("(.*)(.*)(.*)(.*)"))`, arg: "x", maxN: 1000000},
	{name: "arg:gmatch(.+)", src: `local s = ... local n = 0 for w in s:gmatch("x+") do n = n + #w end return n`, arg: "x", maxN: 100000000},
	{name: "arg:gmatch(word)", src: `local s = ... local n = 0 for w in s:gmatch("%a+") do n = n + #w end return n`, arg: "abcdefghi ", maxN: 100000000},
	{name: "tostring..loop", src: `local s = "" for i = 1, N do s = s .. "x" end return #s`, retBytes: true},
	{name: "double..64", src: `local s = "x" for i = 1, 64 do s = s .. s end return #s`, maxN: 1000, retBytes: true},
	{name: "rep(N/100):gsub(x,y100)", src: `local s = ("x"):rep(N // 100) return #(s:gsub("x", ("y"):rep(100)))`, retBytes: true},
	// ---- memory held across failing loads (a failing compile must not release
	// more than it required); the result is the number of bytes held
	{name: "hold+load(compile-error)", src: `local keep, total = {}, 0
local bad = "goto nowhere --" .. ("y"):rep(N // 50)
for i = 1, 200 do keep[i] = ("a"):rep(N // 100) .. i total = total + #keep[i] assert(not load(bad)) end
return total`, maxN: 100000000, retBytes: true},
	{name: "hold+load(syntax-error)", src: `local keep, total = {}, 0
local bad = "x = = --" .. ("y"):rep(N // 50)
for i = 1, 200 do keep[i] = ("a"):rep(N // 100) .. i total = total + #keep[i] assert(not load(bad)) end
return total`, maxN: 100000000, retBytes: true},
	{name: "hold+load(binary-garbage)", src: `local keep, total = {}, 0
local bad = string.dump(function() end):sub(1, 20) .. ("y"):rep(N // 50)
for i = 1, 200 do keep[i] = ("a"):rep(N // 100) .. i total = total + #keep[i] pcall(load, bad, "b", "b") end
return total`, maxN: 100000000, retBytes: true},
	// ---- format
	{name: "format(%Nd)", src: `return #string.format("%" .. N .. "d", 1)`, retBytes: true},
	{name: "format(%Ns)", src: `return #string.format("%" .. N .. "s", "x")`, retBytes: true},
	{name: "format(%-Ns)", src: `return #string.format("%-" .. N .. "s", "x")`, retBytes: true},
	{name: "format(%0Nd)", src: `return #string.format("%0" .. N .. "d", 1)`, retBytes: true},
	{name: "format(%.Nf)", src: `return #string.format("%." .. N .. "f", 1.5)`, retBytes: true},
	{name: "format(%.Nd)", src: `return #string.format("%." .. N .. "d", 1)`, retBytes: true},
	{name: "format(%Nx)", src: `return #string.format("%" .. N .. "x", 255)`, retBytes: true},
	{name: "format(%99d x N/100)", src: `local f = ("%99d"):rep(N // 100) return #f:format(1)`, retBytes: true},
	{name: "format(%s,arg)", src: `local s = ... return #string.format("%s|%s|%s|%s", s, s, s, s)`, arg: "x", maxN: 100000000, retBytes: true},
	{name: "format(%q,arg)", src: `local s = ... return #string.format("%q", s)`, arg: "\n", maxN: 100000000, retBytes: true},
	// ---- pack
	{name: "pack(cN)", src: `return #string.pack("c" .. N, "x")`, retBytes: true},
	{name: "pack(i16)", src: `return #string.pack("i16", N)`, maxN: 1000},
	{name: "pack(!16 b Xi16 xN)", src: `return #string.pack("!16 b Xi16 b Xi16 b Xi16 b", 1, 2, 3, 4)`, maxN: 1000},
	{name: "pack(x*N)", src: `return #string.pack(("x"):rep(N))`, retBytes: true},
	{name: "pack(arg=x*N)", src: `local f = ... return #string.pack(f)`, arg: "x", maxN: 100000000, retBytes: true},
	{name: "pack(arg=bXi16*N)", src: `local f = ... return #string.pack(f)`, arg: "!16xXi16 ", maxN: 100000000, retBytes: true},
	{name: "pack(s,rep(N))", src: `return #string.pack("s", ("x"):rep(N))`, retBytes: true},
	{name: "pack(s,arg)", src: `local s = ... return #string.pack("s", s)`, arg: "x", maxN: 100000000, retBytes: true},
	{name: "pack(z,arg)", src: `local s = ... return #string.pack("z", s)`, arg: "x", maxN: 100000000, retBytes: true},
	{name: "pack(s4s4s4s4,arg)", src: `local s = ... return #string.pack("s4s4s4s4", s, s, s, s)`, arg: "x", maxN: 100000000, retBytes: true},
	{name: "packsize(cN)", src: `return string.packsize("c" .. N)`},
	{name: "unpack(cN)", src: `return #string.unpack("c" .. N, "x")`},
	{name: "unpack(s,arg)", src: `local s = ... return #string.unpack("c" .. (#s), s)`, arg: "x", maxN: 100000000},
	{name: "unpack(z,arg)", src: `local s = ... return #string.unpack("z", s)`, arg: "x", maxN: 100000000},
	{name: "unpack(b*N,arg)", src: `local s = ... return select("#", string.unpack(("b"):rep(1000), s))`, arg: "x", maxN: 1000000},
	// ---- table.concat
	{name: "concat(__index,N/1000)", src: `local s = ("x"):rep(1000)
local t = setmetatable({}, {__index = function() return s end})
return #table.concat(t, "", 1, N // 1000)`, retBytes: true},
	{name: "concat(100 x N/100)", src: `local s = ("x"):rep(N // 100)
local t = {} for i = 1, 100 do t[i] = s end
return #table.concat(t)`, retBytes: true},
	{name: "concat(sep=N/100)", src: `local sep = ("x"):rep(N // 100)
local t = {} for i = 1, 101 do t[i] = "" end
return #table.concat(t, sep)`, retBytes: true},
	{name: "concat(100 x arg)", src: `local s = ... local t = {} for i = 1, 100 do t[i] = s end
return #table.concat(t)`, arg: "x", maxN: 1000000, retBytes: true},
	{name: "concat(numbers 1..N)", src: `local t = setmetatable({}, {__index = function(_, i) return i end})
return #table.concat(t, ",", 1, N)`, retBytes: true},
	// ---- argument lists
	{name: "select#(unpack({},1,N))", src: `return select("#", table.unpack({}, 1, N))`},
	{name: "{unpack({},1,N)}", src: `local t = {table.unpack({}, 1, N)} return #t`},
	{name: "f(unpack({},1,N))", src: `local function f(...) return select("#", ...) end return f(table.unpack({}, 1, N))`},
	{name: "pack(unpack({},1,N))", src: `return table.pack(table.unpack({}, 1, N)).n`},
	{name: "unpack({},-N,0)", src: `return select("#", table.unpack({}, -N, 0))`},
	{name: "unpack(t,1,N)x3", src: `local t = {1, 2, 3} local function f(...) return ... end return select("#", f(f(f(table.unpack(t, 1, N)))))`},
	{name: "string.char(unpack)", src: `local t = {} for i = 1, N do t[i] = 65 end return #string.char(table.unpack(t))`, retBytes: true},
	{name: "utf8.char(unpack)", src: `local t = {} for i = 1, N do t[i] = 0x7FFFFFFF end return #utf8.char(table.unpack(t))`, retBytes: true},
	{name: "utf8.char(__index,N)", src: `local t = setmetatable({}, {__index = function() return 65 end}) return #utf8.char(table.unpack(t, 1, N))`, retBytes: true},
	{name: "string.char(__index,N)", src: `local t = setmetatable({}, {__index = function() return 65 end}) return #string.char(table.unpack(t, 1, N))`, retBytes: true},
	{name: "utf8.codepoint(arg,1,-1)", src: `local s = ... return select("#", utf8.codepoint(s, 1, -1))`, arg: "x", maxN: 100000000},
	{name: "utf8.len(arg)", src: `local s = ... return utf8.len(s)`, arg: "x", maxN: 100000000},
	{name: "utf8.codes(arg)", src: `local s = ... local n = 0 for p, c in utf8.codes(s) do n = n + 1 end return n`, arg: "x", maxN: 1000000},
	{name: "recursion(N)", src: `local function r(n) if n == 0 then return 0 end return 1 + r(n - 1) end return r(N)`},
	{name: "vararg-recursion(N)", src: `local function r(n, ...) if n == 0 then return select("#", ...) end return r(n - 1, n, ...) end return r(N)`},
	// ---- table growth
	{name: "t[N]=1", src: `local t = {} t[N] = 1 return 1`},
	{name: "{1,2,3}[N]=1", src: `local t = {1, 2, 3} t[N] = 1 return #t`},
	{name: "t[N..N-40]=i", src: `local t = {} for i = N, N - 40, -1 do t[i] = i end return 1`},
	{name: "t[2^k<=N]=i", src: `local t = {} local i = 1 while i <= N and i > 0 do t[i] = i i = i * 2 end return 1`},
	{name: "dense100+t[N]", src: `local t = {} for i = 1, 100 do t[i] = i end t[N] = 1 for i = 101, 200 do t[i] = i end return #t`},
	{name: "t[N-i]dense-from-top", src: `local t = {} for i = 0, 300 do t[N - i] = i end for i = 1, 300 do t[i] = i end return 1`},
	{name: "insert(t,N,v)", src: `local t = {} return pcall(table.insert, t, N, 1)`},
	{name: "insert-append-loop", src: `local t = {} for i = 1, N do table.insert(t, i) end return #t`},
	{name: "insert-front-loop", src: `local t = {} for i = 1, N do table.insert(t, 1, i) end return #t`, maxN: 1000000},
	{name: "move({1},1,1,N)", src: `local t = table.move({1}, 1, 1, N) return 1`},
	{name: "move(t,1,300,N)", src: `local t = {} for i = 1, 300 do t[i] = i end table.move(t, 1, 300, N) return 1`},
	{name: "move({},1,N,2)", src: `table.move({}, 1, N, 2) return 1`, maxN: 1000000},
	{name: "move(__index,1,N,1,{})", src: `local src = setmetatable({}, {__index = function(_, i) return i end})
return #table.move(src, 1, N, 1, {})`},
	{name: "grow-array-loop", src: `local t = {} for i = 1, N do t[i] = i end return #t`},
	{name: "grow-hash-loop", src: `local t = {} for i = 1, N do t[i + 0.5] = i end return 1`},
	{name: "grow-string-keys", src: `local t = {} for i = 1, N do t["k" .. i] = i end return 1`},
	{name: "ctor-loop", src: `local n = 0 for i = 1, N do local t = {i, i, i, i} n = n + #t end return n`},
	{name: "closure-loop", src: `local t = {} for i = 1, N do t[i] = function() return i end end return #t`},
	{name: "table.remove-shrink-regrow", src: `local t = {} for r = 1, N do for i = 1, 64 do t[i] = i end for i = 64, 1, -1 do t[i] = nil end end return 1`, maxN: 1000000},
	// ---- loading code
	{name: "load(arg text stmts)", src: `local s = ... return load(s) ~= nil`, arg: "x=1 ", maxN: 100000000},
	{name: "load(arg text expr)", src: `local s = ... return load("return " .. "(" .. s .. "0)") ~= nil`, arg: "1+", maxN: 1000000},
	{name: "load(arg long string)", src: `local s = ... return load(s) ~= nil`, arg: "--", maxN: 100000000},
	{name: "load(arg garbage)", src: `local s = ... return load(s) ~= nil`, arg: "\x01\x02", maxN: 100000000},
	{name: "load(reader N/1000)", src: `local piece, n = ("x=1 "):rep(250), 0
return load(function() n = n + 1 if n > N // 1000 then return nil end return piece end) ~= nil`},
	{name: "load(rep(N))", src: `return load(("x=1 "):rep(N // 4)) ~= nil`},
	{name: "load(dump image)", pro: `IMG = string.dump(load("return '" .. ("x"):rep(N) .. "'"))`, src: `return load(IMG) ~= nil`, maxN: 1000000},
	{name: "load(dump image many consts)", pro: `local t = {} for i = 1, N // 20 do t[i] = "x" .. i .. "=" .. i + 0.5 end IMG = string.dump(load(table.concat(t, " ")))`, src: `return load(IMG) ~= nil`, maxN: 1000000},
	{name: "load(truncated image)", pro: `IMG = string.dump(load("return '" .. ("x"):rep(N) .. "'")) IMG = IMG:sub(1, #IMG // 2)`, src: `return load(IMG) ~= nil`, maxN: 1000000},
	{name: "dump(big function)", pro: `F = load("return '" .. ("x"):rep(N) .. "'")`, src: `return #string.dump(F)`, maxN: 1000000, retBytes: true},
	{name: "loadfile(N bytes)", src: `return loadfile(PATH) ~= nil`, file: 2, maxN: 100000000},
	{name: "dofile(N bytes)", src: `return pcall(dofile, PATH)`, file: 2, maxN: 1000000},
	// ---- coroutines
	{name: "coroutine.create x N", src: `local t = {} for i = 1, N do t[i] = coroutine.create(function() end) end return #t`},
	{name: "coroutine.wrap+start x N", src: `local t = {} for i = 1, N do local co = coroutine.wrap(function() coroutine.yield() end) co() t[i] = co end return #t`},
	{name: "coroutine nest N", src: `local function nest(n) if n == 0 then return 0 end return 1 + coroutine.wrap(nest)(n - 1) end return nest(N)`},
	{name: "coroutine create-finish x N", src: `local n = 0 for i = 1, N do n = n + coroutine.wrap(function() return 1 end)() end return n`, maxN: 1000000},
	// ---- buffered IO on a sentinel file
	{name: "f:read(N) small file", src: `local f = io.open(PATH) local s = f:read(N) f:close() return #s`, file: 3, retBytes: true},
	{name: "f:read(N) file=N", src: `local f = io.open(PATH) local s = f:read(N) f:close() return #s`, file: 1, maxN: 100000000, retBytes: true},
	{name: "f:read(a) file=N", src: `local f = io.open(PATH) local s = f:read("a") f:close() return #s`, file: 1, maxN: 100000000, retBytes: true},
	{name: "f:read(l) file=N one line", src: `local f = io.open(PATH) local s = f:read("l") f:close() return #s`, file: 1, maxN: 100000000, retBytes: true},
	{name: "f:read(L) file=N one line", src: `local f = io.open(PATH) local s = f:read("L") f:close() return #s`, file: 1, maxN: 100000000, retBytes: true},
	{name: "io.lines file=N one line", src: `local n = 0 for l in io.lines(PATH) do n = n + #l end return n`, file: 1, maxN: 100000000, retBytes: true},
	{name: "io.lines file=N lines", src: `local n = 0 for l in io.lines(PATH) do n = n + #l end return n`, file: 2, maxN: 100000000, retBytes: true},
	{name: "io.lines(4096) file=N", src: `local n = 0 for b in io.lines(PATH, 4096) do n = n + #b end return n`, file: 1, maxN: 100000000, retBytes: true},
	{name: "io.lines(N) small file", src: `local n = 0 for b in io.lines(PATH, N) do n = n + #b end return n`, file: 3},
	{name: "f:lines(a) file=N", src: `local f = io.open(PATH) local n = 0 for b in f:lines("a") do n = n + #b if #b == 0 then break end end f:close() return n`, file: 1, maxN: 100000000, retBytes: true},
	{name: "io.read(a) via io.input file=N", src: `io.input(PATH) local s = io.read("a") io.close(io.input()) return #s`, file: 1, maxN: 100000000, retBytes: true},
	{name: "f:read(n,n,n..) file=N", src: `local f = io.open(PATH) local k = select("#", f:read(1000, 1000, 1000, 1000, 1000, 1000, 1000, 1000, 1000, 1000, 1000, 1000, 1000, 1000, 1000, 1000, 1000, 1000, 1000, 1000)) f:close() return k * 1000`, file: 1, minN: 1000000, maxN: 1000000, retBytes: true},
	{name: "f:setvbuf(full,N)", src: `local f = io.tmpfile() local ok = f:setvbuf("full", N) f:close() return ok`},
	{name: "f:seek(set,N)+read", src: `local f = io.open(PATH) f:seek("set", N) local s = f:read(10) f:close() return s == nil`, file: 3},
}

type ampCase struct {
	t *ampTmpl
	n uint64
	m uint64
}

func ampCases(tier string) []ampCase {
	var cs []ampCase
	for _, n := range ampNs {
		for i := range ampTmpls {
			t := &ampTmpls[i]
			if t.maxN != 0 && n > t.maxN || n < t.minN {
				continue
			}
			for _, m := range ampMs {
				cs = append(cs, ampCase{t, n, m})
			}
		}
	}
	return cs
}

func (c ampCase) sig() string {
	return fmt.Sprintf("amp tmpl=%s N=%d M=%d", c.t.name, c.n, c.m)
}

func ampDir() string { return fmt.Sprintf("/tmp/c06-%d", os.Getpid()) }

func (c ampCase) job(path string) *Job {
	pre := fmt.Sprintf("local N = %d\n", c.n)
	if c.t.file != 0 {
		pre += fmt.Sprintf("local PATH = %q\n", path)
	}
	j := &Job{Name: "amp", Src: pre + c.t.src, M: c.m, Epi: true, Measure: true, Full: true, WatchMs: 20000}
	if c.t.pro != "" {
		j.Pro = fmt.Sprintf("local N = %d\n", c.n) + c.t.pro
	}
	if c.t.arg != "" {
		j.ArgRep, j.ArgN = c.t.arg, int(c.n)
	}
	return j
}

func makeSentinel(kind int, n uint64) (string, error) {
	dir := ampDir()
	if err := os.MkdirAll(dir, 0755); err != nil {
		return "", err
	}
	path := filepath.Join(dir, fmt.Sprintf("sentinel-%d-%d", kind, n))
	f, err := os.Create(path)
	if err != nil {
		return "", err
	}
	defer f.Close()
	switch kind {
	case 1: // n zero bytes, sparse
		err = f.Truncate(int64(n))
	case 2: // n bytes of Lua text, 100 bytes per line
		line := append([]byte("x = 1 --"), []byte(strings.Repeat("p", 100-9)+"\n")...)
		buf := make([]byte, 0, 1<<20)
		left := int64(n)
		for left > 0 {
			buf = buf[:0]
			for len(buf)+len(line) <= cap(buf) && int64(len(buf)) < left {
				buf = append(buf, line...)
			}
			if int64(len(buf)) > left {
				buf = buf[:left]
			}
			if _, err = f.Write(buf); err != nil {
				break
			}
			left -= int64(len(buf))
		}
	case 3:
		_, err = f.Write([]byte(strings.Repeat("0123456789", 100)))
	}
	return path, err
}

func runAmp(c ampCase) core.Outcome {
	var out core.Outcome
	path := ""
	if c.t.file != 0 {
		var err error
		path, err = makeSentinel(c.t.file, c.n)
		defer os.RemoveAll(ampDir())
		if err != nil {
			return core.Outcome{Skipped: true}
		}
	}
	rem, err := startRemote()
	if err != nil {
		panic(err)
	}
	defer rem.stop()
	j := c.job(path)
	r := rem.run(j, 60*time.Second)
	bound := 64*c.m + 8<<20
	add := func(clause, cause, why string) {
		d := fmt.Sprintf("template %s with N=%d under memory limit M=%d\nprogram:\n%s\n%s\nobserved: status=%s results=%v err=%s used=%d TotalAlloc delta=%d (bound 64*M+8MB=%d) Sys=%d epilogue=%q\n",
			c.t.name, c.n, c.m, j.Pro+"\n-- measured part:\n"+j.Src, why, r.Status, r.Results, r.Err, r.Used, r.Alloc, bound, r.Sys, r.Epi)
		if r.Stderr != "" {
			d += "child stderr:\n" + r.Stderr
		}
		out.Viols = append(out.Viols, &core.Violation{Key: fmt.Sprintf("%s clause=%s cause=%s", c.sig(), clause, cause), Detail: d})
	}
	out.States, out.Trans = 1, 1
	out.NonTrivial = true
	out.Sig = core.Hash64(c.t.name + "|" + r.Status + "|" + strings.Join(r.Results, ","))
	switch r.Status {
	case "died":
		add("process-died", r.Crash, "the process died")
		return out
	case "timeout":
		if r.Alloc > bound {
			add("heap-growth", "none", "still running after 20 s and already over the allocation bound (Go heap allocation caused by the call exceeds 64*M + 8MB)")
		}
		// CPU without a limit is not this property's business.
		out.Sig = core.Hash64(c.t.name + "|timeout")
		return out
	case "compile":
		// prologue could not build its input (e.g. a literal too large): nothing was measured
		return core.Outcome{Skipped: true}
	case "gopanic":
		add("gopanic", panicClass(r.Err), "a Go panic escaped to the host")
	}
	if r.Alloc > bound {
		add("heap-growth", "none", "Go heap allocation caused by the call exceeds 64*M + 8MB")
	}
	if r.Used >= c.m {
		add("used>=limit", "none", "accounted memory reached the limit")
	}
	if r.Ctx != "" {
		add("context-leak", "none", r.Ctx)
	} else if r.Epi != "" {
		add("epilogue", "none", "the host could not carry on in the same runtime")
	}
	if r.Status == "ok" && c.t.retBytes && len(r.Results) > 0 && strings.HasPrefix(r.Results[0], "i:") {
		var v uint64
		fmt.Sscan(r.Results[0][2:], &v)
		if v >= c.m {
			add("result-exceeds-limit", "none", fmt.Sprintf("the call completed and produced %d bytes of string under a limit of %d", v, c.m))
		}
	}
	return out
}
