// probe: development helper — runs a Lua file on golua through the host
// package and prints the observation.  Not used by the check.
package main

import (
	"fmt"
	"os"

	"verif/engine/host"
)

func main() {
	for _, f := range os.Args[1:] {
		b, err := os.ReadFile(f)
		if err != nil {
			fmt.Println(err)
			continue
		}
		o := host.Run(string(b), host.Opts{ChunkName: "chunk", CPU: 10000000})
		fmt.Printf("%s: %s\n", f, o)
	}
}
