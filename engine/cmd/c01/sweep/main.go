// sweep: development helper — runs every stride-th case of the named
// families (all when none is named) in this process and prints the violation
// keys.  It is NOT the check (the check enumerates exhaustively); it exists to
// look for new kinds of disagreement in the thorough-only part of the index
// space when the machine is too loaded for a full thorough run.
//
//	sweep <tier> <cases-per-family> [family ...]
package main

import (
	"fmt"
	"os"
	"strconv"
	"sync"

	"verif/engine/cmd/c01/run"
	"verif/engine/progfam"
)

func main() {
	tier := os.Args[1]
	n, _ := strconv.Atoi(os.Args[2])
	want := map[string]bool{}
	for _, a := range os.Args[3:] {
		want[a] = true
	}
	for _, f := range progfam.All(tier) {
		if len(want) > 0 && !want[f.Name] {
			continue
		}
		stride := f.Size / uint64(n)
		if stride == 0 {
			stride = 1
		}
		var mu sync.Mutex
		var wg sync.WaitGroup
		evals, skipped := 0, 0
		keys := map[string]uint64{}
		const W = 4
		for w := 0; w < W; w++ {
			wg.Add(1)
			go func(w int) {
				defer wg.Done()
				for k := uint64(w); k*stride < f.Size; k += W {
					i := k*stride + (k*7919)%stride // not only multiples of the stride
					if i >= f.Size {
						continue
					}
					o := run.Case(tier, f, i)
					mu.Lock()
					if o.Skipped {
						skipped++
					} else {
						evals++
					}
					for _, v := range o.Viols {
						if _, ok := keys[v.Key]; !ok {
							keys[v.Key] = i
						}
					}
					mu.Unlock()
				}
			}(w)
		}
		wg.Wait()
		fmt.Printf("%-26s evals=%d skipped=%d violations=%d\n", f.Name, evals, skipped, len(keys))
		for k, i := range keys {
			fmt.Printf("   %s:%d  %s\n", f.Name, i, k)
		}
	}
}
