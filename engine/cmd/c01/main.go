// C01 — compiled programs behave as the Lua 5.4 manual prescribes.
//
// Every program of the progfam families (F1..F8 of DESIGN §4) is rendered to
// source text in several spellings, compiled and run by the real golua
// pipeline in a fresh runtime, and its observation (emit trace, results or
// error value) is compared with the definitional reference interpreter reflua
// evaluating the same program AST.  The first spelling is compiled three times
// in one process and the three observations must be identical (golua's
// compiler iterates Go maps).
package main

import (
	"flag"
	"fmt"
	"os"
	"runtime"
	"strings"

	rt "github.com/arnodel/golua/runtime"

	"verif/engine/core"
	"verif/engine/host"
	"verif/engine/prog"
	"verif/engine/progfam"
	"verif/engine/reflua"
)

const chunkName = "chunk"

// cpuLimit bounds a golua run; the reference runs at most 20000 evaluation
// steps, so a program that the reference finishes and golua does not is
// reported as status killed.
const cpuLimit = 5000000

func toRT(v interface{}) rt.Value {
	switch x := v.(type) {
	case nil:
		return rt.NilValue
	case bool:
		return rt.BoolValue(x)
	case int64:
		return rt.IntValue(x)
	case int:
		return rt.IntValue(int64(x))
	case float64:
		return rt.FloatValue(x)
	case string:
		return rt.StringValue(x)
	}
	panic(fmt.Sprintf("c01: bad chunk argument %T", v))
}

func toRef(v interface{}) reflua.Value {
	if n, ok := v.(int); ok {
		return int64(n)
	}
	return v
}

func runGolua(src string, args []interface{}) host.Obs {
	m := host.NewMachine(false)
	defer m.Close()
	var a []rt.Value
	for _, v := range args {
		a = append(a, toRT(v))
	}
	def := &rt.RuntimeContextDef{HardLimits: rt.RuntimeResources{Cpu: cpuLimit}}
	return m.Exec(chunkName, src, a, def)
}

func observed(o host.Obs) reflua.Observed {
	return reflua.Observed{Trace: o.Trace, Status: o.Status, Results: o.Results, Err: o.Err}
}

func stylesFor(tier string, i uint64) []prog.Style {
	if tier == "thorough" {
		return []prog.Style{prog.Plain, prog.Parens, prog.OneLine, prog.TokLine, prog.AltLit, prog.CRLF}
	}
	return []prog.Style{prog.Plain, prog.Style(1 + i%uint64(prog.NStyles-1))}
}

func lineFn(spans map[int]*prog.Span, st prog.Style) reflua.LineFn {
	return func(node int) (int, bool) {
		sp, ok := spans[node]
		if !ok {
			return 0, false
		}
		return sp.First, st.LinesExact() && sp.First == sp.Last
	}
}

func clauseWord(c string) string {
	w := c
	if k := strings.IndexAny(w, " ["); k >= 0 {
		w = w[:k]
	}
	return w
}

func argsStr(args []interface{}) string {
	parts := make([]string, len(args))
	for i, a := range args {
		parts[i] = fmt.Sprintf("%#v", a)
	}
	return "(" + strings.Join(parts, ", ") + ")"
}

func refString(r reflua.Result) string {
	s := r.Status
	if r.Status == "ok" {
		s += " (" + strings.Join(r.Results, ", ") + ")"
	} else {
		s += " " + r.Err
	}
	return s + " trace=[" + strings.Join(r.Trace, " | ") + "]"
}

func runCase(tier string, fam progfam.Fam, i uint64) core.Outcome {
	p := fam.At(i)
	if p == nil {
		return core.Outcome{Skipped: true}
	}
	var rargs []reflua.Value
	for _, a := range p.Args {
		rargs = append(rargs, toRef(a))
	}
	ref := reflua.Run(p, rargs)
	if ref.Unspec != "" || ref.Diverge {
		if os.Getenv("VERIF_C01_WHY") != "" { // development aid: why was the case excluded
			fmt.Fprintf(os.Stderr, "%s:%d skipped: unspec=%q diverge=%v\n", fam.Name, i, ref.Unspec, ref.Diverge)
		}
		return core.Outcome{Skipped: true}
	}
	var out core.Outcome
	out.NonTrivial = len(ref.Trace) > 0 || ref.Status == "err"
	plainOK := true
	for si, st := range stylesFor(tier, i) {
		src, spans := prog.Render(p, st)
		got := runGolua(src, p.Args)
		if si == 0 {
			out.Sig = core.Hash64(got.String())
			for k := 0; k < 2; k++ {
				again := runGolua(src, p.Args)
				if again.String() != got.String() {
					out.Viols = append(out.Viols, &core.Violation{
						Key: fmt.Sprintf("%s %s clause=recompile-differs", fam.Name, p.Key),
						Detail: fmt.Sprintf("the same source compiled and run twice in one process gave two observations\nprogram (%s):\n%s\nargs: %s\nfirst:  %s\nsecond: %s",
							st, src, argsStr(p.Args), got, again),
					})
					break
				}
			}
		}
		var clause string
		switch got.Status {
		case "ok", "err":
			clause = reflua.Compare(ref, observed(got), chunkName, lineFn(spans, st))
		default:
			clause = "status expected " + ref.Status + " got " + got.Status + " " + got.Err
		}
		if clause == "" {
			continue
		}
		if si == 0 {
			plainOK = false
		}
		key := fmt.Sprintf("%s %s clause=%s", fam.Name, p.Key, clauseWord(clause))
		if plainOK {
			key += " style=" + st.String()
		}
		out.Viols = append(out.Viols, &core.Violation{
			Key: key,
			Detail: fmt.Sprintf("%s\nprogram (%s):\n%s\nargs: %s\nreference: %s\ngolua:     %s",
				clause, st, src, argsStr(p.Args), refString(ref), got),
		})
		if !plainOK {
			break // one report per program; other spellings repeat it
		}
	}
	return out
}

// budget (seconds of wall time) after which a family stops itself and the
// run is reported as not exhaustive.
func budget(tier, fam string) int {
	if tier != "thorough" {
		return 400
	}
	switch fam {
	case "F1-scope-closure-len5":
		return 1500
	case "F1-scope-closure", "F3-jumps-free", "F3-jumps-nested", "F8-trees", "F2-call-protocol":
		return 900
	}
	return 400
}

func main() {
	core.Main(&core.Check{
		Init: func(tier string) {
			// 16 worker processes each with 16 GC threads oversubscribe the box:
			// one mutator thread plus one for the collector is what a worker needs.
			if f := flag.Lookup("worker"); f != nil && f.Value.String() == "true" {
				runtime.GOMAXPROCS(2)
			}
		},
		ID:    "C01",
		Level: "model_checking",
		Rule: "every program of families F1..F8 (token strings / mixed-radix products, simplest first) x >=2 (quick) / 6 (thorough) textual renderings, " +
			"each run on golua in a fresh runtime and compared with the reference interpreter reflua (emit trace, results, error value); first rendering compiled 3x; " +
			"non-trivial = the reference emits at least one event or raises an error; distinct = distinct golua observations of the plain rendering",
		Assumptions: []string{
			"reference semantics (engine/reflua) typed from the Lua 5.4 manual §2.4, §3, §6.1; it imports nothing from golua",
			"programs whose outcome the manual leaves open (reference raises Unspec) or that exceed the reference step budget are skipped, never compared",
			"texts of errors generated by the VM or library are not compared (any string matches); strings raised by error(msg,1|2) must read chunk:LINE: msg, LINE checked only when the rendering puts the call on one line",
			"function values are compared only as 'is a function' (§3.4.4 leaves closure identity open)",
			"golua runs under a CPU limit of 5e6 units inside a runtime context so that divergence shows as status killed",
		},
		Families: func(tier string) []*core.Family {
			var fams []*core.Family
			for _, f := range progfam.All(tier) {
				f := f
				fams = append(fams, &core.Family{
					Name: f.Name,
					Size: f.Size,
					Run:  func(i uint64) core.Outcome { return runCase(tier, f, i) },
					Show: func(i uint64) string {
						p := f.At(i)
						if p == nil {
							return "(index does not denote a canonical program)"
						}
						src, _ := prog.Render(p, prog.Plain)
						return fmt.Sprintf("%s args=%s\n%s", p.Key, argsStr(p.Args), src)
					},
					HangSeconds:   60,
					BudgetSeconds: budget(tier, f.Name),
				})
			}
			return fams
		},
	})
}
