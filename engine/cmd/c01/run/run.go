// Package run executes one C01 case: reference run, renderings, golua runs,
// comparison.  It is shared by the check binary (cmd/c01) and the development
// sweep (cmd/c01/sweep).
package run

import (
	"fmt"
	"os"
	"strings"

	rt "github.com/arnodel/golua/runtime"

	"verif/engine/core"
	"verif/engine/host"
	"verif/engine/prog"
	"verif/engine/progfam"
	"verif/engine/reflua"
)

const chunkName = "chunk"

// cpuLimit bounds a golua run; the reference runs at most 20000 evaluation
// steps, so a program that the reference finishes and golua does not is
// reported as status killed.
const cpuLimit = 5000000

func toRT(v interface{}) rt.Value {
	switch x := v.(type) {
	case nil:
		return rt.NilValue
	case bool:
		return rt.BoolValue(x)
	case int64:
		return rt.IntValue(x)
	case int:
		return rt.IntValue(int64(x))
	case float64:
		return rt.FloatValue(x)
	case string:
		return rt.StringValue(x)
	}
	panic(fmt.Sprintf("c01: bad chunk argument %T", v))
}

func toRef(v interface{}) reflua.Value {
	if n, ok := v.(int); ok {
		return int64(n)
	}
	return v
}

func runGolua(src string, args []interface{}) host.Obs {
	m := host.NewMachine(false)
	defer m.Close()
	var a []rt.Value
	for _, v := range args {
		a = append(a, toRT(v))
	}
	def := &rt.RuntimeContextDef{HardLimits: rt.RuntimeResources{Cpu: cpuLimit}}
	return m.Exec(chunkName, src, a, def)
}

func observed(o host.Obs) reflua.Observed {
	return reflua.Observed{Trace: o.Trace, Status: o.Status, Results: o.Results, Err: o.Err}
}

func stylesFor(tier string, i uint64) []prog.Style {
	if tier == "thorough" {
		return []prog.Style{prog.Plain, prog.Parens, prog.OneLine, prog.TokLine, prog.AltLit, prog.CRLF}
	}
	return []prog.Style{prog.Plain, prog.Style(1 + i%uint64(prog.NStyles-1))}
}

func lineFn(spans map[int]*prog.Span, st prog.Style) reflua.LineFn {
	return func(node int) (int, bool) {
		sp, ok := spans[node]
		if !ok {
			return 0, false
		}
		return sp.First, st.LinesExact() && sp.First == sp.Last
	}
}

func clauseWord(c string) string {
	w := c
	if k := strings.IndexAny(w, " ["); k >= 0 {
		w = w[:k]
	}
	return w
}

// ArgsStr renders chunk arguments for messages.
func ArgsStr(args []interface{}) string {
	parts := make([]string, len(args))
	for i, a := range args {
		parts[i] = fmt.Sprintf("%#v", a)
	}
	return "(" + strings.Join(parts, ", ") + ")"
}

func refString(r reflua.Result) string {
	s := r.Status
	if r.Status == "ok" {
		s += " (" + strings.Join(r.Results, ", ") + ")"
	} else {
		s += " " + r.Err
	}
	return s + " trace=[" + strings.Join(r.Trace, " | ") + "]"
}

// Case runs case i of family fam for the given tier.
func Case(tier string, fam progfam.Fam, i uint64) core.Outcome {
	p := fam.At(i)
	if p == nil {
		return core.Outcome{Skipped: true}
	}
	var rargs []reflua.Value
	for _, a := range p.Args {
		rargs = append(rargs, toRef(a))
	}
	ref := reflua.Run(p, rargs)
	if ref.Unspec != "" || ref.Diverge {
		if os.Getenv("VERIF_C01_WHY") != "" { // development aid: why was the case excluded
			fmt.Fprintf(os.Stderr, "%s:%d skipped: unspec=%q diverge=%v\n", fam.Name, i, ref.Unspec, ref.Diverge)
		}
		return core.Outcome{Skipped: true}
	}
	var out core.Outcome
	out.NonTrivial = len(ref.Trace) > 0 || ref.Status == "err"
	plainOK := true
	for si, st := range stylesFor(tier, i) {
		src, spans := prog.Render(p, st)
		got := runGolua(src, p.Args)
		if si == 0 {
			out.Sig = core.Hash64(got.String())
			for k := 0; k < 2; k++ {
				again := runGolua(src, p.Args)
				if again.String() != got.String() {
					out.Viols = append(out.Viols, &core.Violation{
						Key: fmt.Sprintf("%s %s clause=recompile-differs", fam.Name, p.Key),
						Detail: fmt.Sprintf("the same source compiled and run twice in one process gave two observations\nprogram (%s):\n%s\nargs: %s\nfirst:  %s\nsecond: %s",
							st, src, ArgsStr(p.Args), got, again),
					})
					break
				}
			}
		}
		var clause string
		switch got.Status {
		case "ok", "err":
			clause = reflua.Compare(ref, observed(got), chunkName, lineFn(spans, st))
		default:
			clause = "status expected " + ref.Status + " got " + got.Status + " " + got.Err
		}
		if clause == "" {
			continue
		}
		if si == 0 {
			plainOK = false
		}
		key := fmt.Sprintf("%s %s clause=%s", fam.Name, p.Key, clauseWord(clause))
		if plainOK {
			key += " style=" + st.String()
		}
		out.Viols = append(out.Viols, &core.Violation{
			Key: key,
			Detail: fmt.Sprintf("%s\nprogram (%s):\n%s\nargs: %s\nreference: %s\ngolua:     %s",
				clause, st, src, ArgsStr(p.Args), refString(ref), got),
		})
		if !plainOK {
			break // one report per program; other spellings repeat it
		}
	}
	return out
}
