// bench: development helper — CPU cost per program of each progfam family
// (reference run, rendering, golua runs), measured with getrusage so that a
// loaded machine does not distort it.
//
//	go run ./cmd/c01/bench [tier] [samples-per-family]
package main

import (
	"fmt"
	"os"
	"strconv"
	"syscall"
	"time"

	rt "github.com/arnodel/golua/runtime"

	"verif/engine/host"
	"verif/engine/prog"
	"verif/engine/progfam"
	"verif/engine/reflua"
)

func cpu() time.Duration {
	var ru syscall.Rusage
	syscall.Getrusage(syscall.RUSAGE_SELF, &ru)
	return time.Duration(ru.Utime.Nano() + ru.Stime.Nano())
}

func main() {
	tier := "quick"
	n := 300
	if len(os.Args) > 1 {
		tier = os.Args[1]
	}
	if len(os.Args) > 2 {
		n, _ = strconv.Atoi(os.Args[2])
	}
	var total time.Duration
	for _, f := range progfam.All(tier) {
		step := f.Size / uint64(n)
		if step == 0 {
			step = 1
		}
		var ps []*prog.Prog
		var nilc, cnt uint64
		t0 := cpu()
		for i := uint64(0); i < f.Size; i += step {
			cnt++
			if p := f.At(i); p != nil {
				ps = append(ps, p)
			} else {
				nilc++
			}
		}
		tAt := cpu() - t0
		t0 = cpu()
		skipped := 0
		for _, p := range ps {
			var a []reflua.Value
			for _, v := range p.Args {
				a = append(a, v)
			}
			r := reflua.Run(p, a)
			if r.Unspec != "" || r.Diverge {
				skipped++
			}
		}
		tRef := cpu() - t0
		t0 = cpu()
		var srcs []string
		for _, p := range ps {
			s, _ := prog.Render(p, prog.Plain)
			srcs = append(srcs, s)
		}
		tRender := cpu() - t0
		t0 = cpu()
		for _, s := range srcs {
			m := host.NewMachine(false)
			m.Exec("chunk", s, nil, &rt.RuntimeContextDef{HardLimits: rt.RuntimeResources{Cpu: 5000000}})
			m.Close()
		}
		tRun := cpu() - t0
		np := time.Duration(len(ps))
		if np == 0 {
			np = 1
		}
		valid := float64(len(ps)) / float64(cnt)
		perProg := tRef/np + 8*tRender/np + 4*tRun/np
		if tier == "thorough" {
			perProg = tRef/np + 6*tRender/np + 8*tRun/np
		}
		est := time.Duration(float64(f.Size)*valid)*perProg + time.Duration(f.Size)*(tAt/time.Duration(cnt))
		total += est
		fmt.Printf("%-26s size=%-9d valid=%.2f refskip=%d/%d  At=%v ref=%v render=%v run=%v  est.cpu=%v\n",
			f.Name, f.Size, valid, skipped, len(ps), tAt/time.Duration(cnt), tRef/np, tRender/np, tRun/np, est.Round(time.Second))
	}
	fmt.Printf("total estimated CPU %v  (= %v on 16 cores)\n", total.Round(time.Second), (total / 16).Round(time.Second))
}
