// bench: development helper — times the stages of one C01 case.
package main

import (
	"fmt"
	"time"

	rt "github.com/arnodel/golua/runtime"

	"verif/engine/host"
	"verif/engine/prog"
	"verif/engine/progfam"
	"verif/engine/reflua"
)

func main() {
	f := progfam.All("quick")[0]
	const N = 2000
	var ps []*prog.Prog
	for i := uint64(100000); len(ps) < N; i++ {
		if p := f.At(i); p != nil {
			ps = append(ps, p)
		}
	}
	t0 := time.Now()
	for _, p := range ps {
		reflua.Run(p, nil)
	}
	fmt.Println("reflua", time.Since(t0)/N)
	t0 = time.Now()
	var srcs []string
	for _, p := range ps {
		s, _ := prog.Render(p, prog.Plain)
		srcs = append(srcs, s)
	}
	fmt.Println("render", time.Since(t0)/N)
	t0 = time.Now()
	for range ps {
		m := host.NewMachine(false)
		m.Close()
	}
	fmt.Println("machine", time.Since(t0)/N)
	t0 = time.Now()
	for _, s := range srcs {
		m := host.NewMachine(false)
		m.Exec("chunk", s, nil, &rt.RuntimeContextDef{HardLimits: rt.RuntimeResources{Cpu: 5000000}})
		m.Close()
	}
	fmt.Println("machine+exec", time.Since(t0)/N)
	m := host.NewMachine(false)
	t0 = time.Now()
	for _, s := range srcs {
		m.Exec("chunk", s, nil, nil)
	}
	fmt.Println("exec only (shared machine)", time.Since(t0)/N)
}
