package main

// Thorough tier: the same calls under `strace -f`, so that access to the
// outside is seen at the system-call level (also outside the sentinel
// directory, also read-only opens).  One family case = one traced
// sub-process running a slice of the iosafe regions; every region is
// delimited by two marker system calls (openat of /C08MARK/b/<n> and
// /C08MARK/e/<n>, which fail with ENOENT).  Inside a region no execve, no
// write-mode or sentinel-path open, no unlink/rename/mkdir/link, no
// socket/connect may occur — whoever issues it (golua or a child process).

import (
	"bufio"
	"fmt"
	"os"
	"os/exec"
	"path/filepath"
	"regexp"
	"strconv"
	"strings"
	"syscall"

	rt "github.com/arnodel/golua/runtime"

	"verif/engine/core"
)

const straceShards = 512 // small sub-runs: a violation is reproduced by re-running one of them

// required-flag subsets exercised under strace: iosafe alone, iosafe with the
// two flags the IO library also declares, all four.
var straceReq = []rt.ComplianceFlags{
	rt.ComplyIoSafe,
	rt.ComplyIoSafe | rt.ComplyCpuSafe | rt.ComplyMemSafe,
	allFlags,
}

const traceSet = "trace=execve,execveat,openat,open,creat,unlink,unlinkat,rename,renameat,renameat2,mkdir,mkdirat,rmdir,link,linkat,symlink,symlinkat,truncate,socket,connect"

type sCase struct {
	fn, tp, sp int
	req        rt.ComplianceFlags
}

func straceDecode(i uint64) sCase {
	nS, nT, nR := uint64(len(spellings)), uint64(len(quickTuples)), uint64(len(straceReq))
	var c sCase
	c.sp = int(i % nS)
	i /= nS
	c.tp = int(i % nT)
	i /= nT
	c.req = straceReq[i%nR]
	c.fn = int(i / nR)
	return c
}

func straceTotal(nF int) uint64 {
	return uint64(nF) * uint64(len(straceReq)) * uint64(len(quickTuples)) * uint64(len(spellings))
}

func straceShow(funcs []fnRec, i uint64) string {
	c := straceDecode(i)
	f := funcs[c.fn]
	return fmt.Sprintf("fn=%s declared=%s required=%s args=%s spelling=%s", f.name, flagNames(f.declared), flagNames(c.req), quickTuples[c.tp], spellings[c.sp].name)
}

func mark(kind byte, n uint64) {
	syscall.Open(fmt.Sprintf("/C08MARK/%c/%d", kind, n), syscall.O_RDONLY, 0)
}

// straceInner is the traced sub-process: regions shard, shard+of, ...
func straceInner(shard, of uint64) {
	funcs := discover()
	total := straceTotal(len(funcs))
	sent.init()
	for i := shard; i < total; i += of {
		c := straceDecode(i)
		f := &funcs[c.fn]
		func() {
			defer func() { recover() }()
			sent.ensure()
			mc := newMachine()
			closed := false
			defer func() {
				if !closed {
					mc.close()
				}
			}()
			mc.prepare(c.req)
			fv, err := mc.resolve(funcs, f)
			if err != nil {
				return
			}
			bargs := spellArgs(mc, fv, quickTuples[c.tp], c.sp, false)
			drainChildren()
			mark('b', i)
			mc.enter(i%2 == 1, c.req, bargs)
			mc.close()
			closed = true
			drainChildren()
			mark('e', i)
			sent.note(sent.snap())
		}()
	}
	sent.remove()
}

var (
	reLine = regexp.MustCompile(`^(\d+)\s+(\w+)\((.*)$`)
	reStr  = regexp.MustCompile(`"((?:[^"\\]|\\.)*)"`)
)

// classify returns the violated clause for a traced call inside a region ("" = fine).
func classify(name, rest, sentRoot string) string {
	switch name {
	case "execve", "execveat":
		return "strace:execve"
	case "socket", "connect":
		return "strace:" + name
	case "unlink", "unlinkat", "rmdir", "rename", "renameat", "renameat2", "mkdir", "mkdirat", "link", "linkat", "symlink", "symlinkat", "truncate", "creat":
		return "strace:" + strings.TrimSuffix(strings.TrimSuffix(name, "at2"), "at")
	case "open", "openat":
		m := reStr.FindStringSubmatchIndex(rest)
		if m == nil {
			return ""
		}
		path := rest[m[2]:m[3]]
		flags := rest[m[1]:]
		if strings.HasPrefix(path, sentRoot) {
			return "strace:open-sentinel-path"
		}
		for _, w := range []string{"O_WRONLY", "O_RDWR", "O_CREAT", "O_TRUNC", "O_APPEND"} {
			if strings.Contains(flags, w) {
				return "strace:open-for-writing"
			}
		}
	}
	return ""
}

func straceFamily(funcs []fnRec, tuples []tuple) []*core.Family {
	run := func(shard uint64) core.Outcome {
		stracePath, err := exec.LookPath("strace")
		if err != nil {
			return core.Outcome{Skipped: true}
		}
		sent.init() // scratch root exists
		if os.Getenv(funcFileEnv) == "" {
			publishFuncs(true) // manual -case run: spare the sub-process its own discovery
		}
		trace := filepath.Join(scratchRoot, fmt.Sprintf("trace-%d-%d.txt", os.Getpid(), shard))
		defer os.Remove(trace)
		exe, _ := os.Executable()
		cmd := exec.Command(stracePath, "-f", "--seccomp-bpf", "-qq", "-s", "4096", "-e", "signal=none", "-e", traceSet, "-o", trace,
			exe, "-straceinner", fmt.Sprint(shard), fmt.Sprint(straceShards))
		cmd.Stdout, cmd.Stderr = nil, nil
		if err := cmd.Run(); err != nil {
			if _, statErr := os.Stat(trace); statErr != nil {
				return core.Outcome{Skipped: true} // tracing not permitted here
			}
		}
		fh, err := os.Open(trace)
		if err != nil {
			return core.Outcome{Skipped: true}
		}
		defer fh.Close()
		// the traced process has its own sentinel: /tmp/c08/<its pid>; every
		// path under the scratch root counts as sentinel
		var viols []*core.Violation
		seen := map[string]bool{}
		var regions, lines uint64
		in := false
		var cur uint64
		sc := bufio.NewScanner(fh)
		sc.Buffer(make([]byte, 1<<20), 1<<26)
		for sc.Scan() {
			m := reLine.FindStringSubmatch(sc.Text())
			if m == nil {
				continue
			}
			name, rest := m[2], m[3]
			if name == "openat" && strings.Contains(rest, `"/C08MARK/`) {
				sm := reStr.FindStringSubmatch(rest)
				parts := strings.Split(sm[1], "/")
				n, _ := strconv.ParseUint(parts[len(parts)-1], 10, 64)
				if parts[2] == "b" {
					in, cur = true, n
					regions++
				} else {
					in = false
				}
				continue
			}
			if !in {
				continue
			}
			lines++
			cl := classify(name, rest, scratchRoot+"/")
			if cl == "" {
				continue
			}
			c := straceDecode(cur)
			f := funcs[c.fn]
			e := refExpect(f.declared, effective(c.req, c.sp))
			key := fmt.Sprintf("fn=%s %s sp=%s clause=%s", f.name, e.class, spellings[c.sp].class, cl)
			if seen[key] {
				continue
			}
			seen[key] = true
			viols = append(viols, &core.Violation{Key: key,
				Detail: fmt.Sprintf("%s\nsystem call inside the iosafe region (strace -f):\n%s", straceShow(funcs, cur), sc.Text())})
		}
		total := straceTotal(len(funcs))
		want := (total - shard + straceShards - 1) / straceShards
		out := core.Outcome{Viols: viols, NonTrivial: true, States: regions, Trans: lines,
			Sig: core.Hash64(fmt.Sprintf("violations=%d", len(viols)))}
		if regions != want {
			out.Viols = append(out.Viols, &core.Violation{
				Key:    "strace harness: traced sub-process did not complete its regions",
				Detail: fmt.Sprintf("shard %d: %d of %d regions seen in the trace", shard, regions, want)})
		}
		return out
	}
	return []*core.Family{{
		Name: "strace", Size: straceShards, Run: run, HangSeconds: 1200,
		Show: func(i uint64) string {
			return fmt.Sprintf("strace -f of regions %d, %d+%d, ... of %d (fn x {iosafe, iosafe+cpusafe+memsafe, all} x quick tuples x spellings)", i, i, straceShards, straceTotal(len(funcs)))
		},
	}}
}
