package main

import "verif/engine/core"

func straceFamily(funcs []fnRec, tuples []tuple) []*core.Family { return nil }
