package main

// The IO-oriented argument pool: atoms (materialised afresh in every machine)
// and the tuples built from them.

import (
	"strings"

	rt "github.com/arnodel/golua/runtime"
)

type atomID int

const (
	aPS   atomID = iota // path of the existing file holding the secret
	aPG                 // path of the file the host has granted (read handle aHR)
	aPM                 // path of a missing file
	aPD                 // path of a directory
	aCMD                // shell command leaving a marker file in the sentinel
	aMOD                // module name resolvable through package.path (file holds the secret)
	aTPL                // search path template inside the sentinel
	aR                  // "r"
	aW                  // "w"
	aA                  // "a"
	aI0                 // 0
	aI1                 // 1
	aI7                 // 7
	aTBL                // fresh empty table
	aFN                 // Lua function recording that it was called
	aNIL                // nil
	aHR                 // read handle on the granted file, opened by the host before the context
	aHW                 // write handle on the write-granted file, opened by the host
	aCTX                // runtime.context() object taken before the context
	aCO                 // suspended coroutine
	aSET                // "set"
	aDOT                // "."
	aT                  // "t"
	aTRUE               // true
	nAtoms
)

var atomSym = [...]string{"SECRET", "GRANTED", "MISSING", "DIR", "CMD", "MOD", "TPL", `"r"`, `"w"`, `"a"`, "0", "1", "7",
	"TBL", "FN", "nil", "HR", "HW", "CTX", "CO", `"set"`, `"."`, `"t"`, "true"}

type tuple []atomID

func (t tuple) String() string {
	s := make([]string, len(t))
	for i, a := range t {
		s[i] = atomSym[a]
	}
	return "(" + strings.Join(s, ", ") + ")"
}

func (t tuple) has(a atomID) bool {
	for _, x := range t {
		if x == a {
			return true
		}
	}
	return false
}

// quickTuples is the curated pool: every shape an IO function of the standard
// library takes (path; path+mode; command+mode; old+new; name+template;
// handle+format; table/function/number fillers).
var quickTuples = []tuple{
	{},
	{aPS}, {aPG}, {aPM}, {aPD}, {aCMD}, {aMOD},
	{aPS, aR}, {aPS, aW}, {aPS, aA}, {aPM, aW}, {aPM, aA}, {aPD, aR},
	{aCMD, aR}, {aCMD, aW},
	{aPS, aPM}, {aPM, aPS},
	{aMOD, aTPL},
	{aHR}, {aHR, aA}, {aHR, aI1}, {aHW}, {aHW, aW},
	{aTBL}, {aTBL, aFN}, {aFN}, {aFN, aPS},
	{aI1}, {aI0}, {aI1, aPS}, {aTBL, aPS},
	{aCO}, {aNIL, aPS}, {aPS, aI1}, {aTRUE},
}

// thoroughTuples: the quick pool first (same indices), then every single
// atom, every pair over the core atoms and the three-argument shapes of the
// standard library.  aCTX (a foreign userdata) is left out of all tuples:
// io.type/io.close/file methods do an unchecked type assertion on userdata
// arguments and the resulting Go panic, when raised inside a coroutine, kills
// the process (a C04 matter, reported separately).
func thoroughTuples() []tuple {
	out := append([]tuple(nil), quickTuples...)
	seen := map[string]bool{}
	for _, t := range out {
		seen[t.String()] = true
	}
	add := func(t tuple) {
		if !seen[t.String()] && !t.has(aCTX) {
			seen[t.String()] = true
			out = append(out, t)
		}
	}
	for a := atomID(0); a < nAtoms; a++ {
		add(tuple{a})
	}
	core := []atomID{aPS, aPG, aPM, aPD, aCMD, aMOD, aR, aW, aI1, aTBL, aFN, aNIL, aHR, aHW}
	for _, a := range core {
		for _, b := range core {
			add(tuple{a, b})
		}
	}
	for _, t := range []tuple{
		{aPS, aT, aTBL}, {aPS, aW, aTBL}, {aPM, aW, aI1},
		{aHR, aSET, aI0}, {aHW, aSET, aI0}, {aHW, aW, aI7},
		{aMOD, aTPL, aDOT}, {aCMD, aR, aTBL}, {aCMD, aW, aI1},
		{aTBL, aI1, aPS}, {aTBL, aPS, aFN}, {aFN, aFN, aPS},
		{aPS, aPM, aTRUE}, {aHR, aA, aA}, {aI1, aPS, aCMD},
	} {
		add(t)
	}
	return out
}

func tuplesFor(tier string) []tuple {
	if tier == "thorough" {
		return thoroughTuples()
	}
	return quickTuples
}

// argEnv materialises atoms in one machine.
type argEnv struct {
	mc  *machine
	tbl rt.Value // the TBL instance handed out (one per tuple), nil if none
}

func (e *argEnv) value(a atomID) rt.Value {
	mc := e.mc
	switch a {
	case aPS:
		return rt.StringValue(sent.PS())
	case aPG:
		return rt.StringValue(sent.PG())
	case aPM:
		return rt.StringValue(sent.PM())
	case aPD:
		return rt.StringValue(sent.PD())
	case aCMD:
		return rt.StringValue(sent.CMD())
	case aMOD:
		return rt.StringValue("mod")
	case aTPL:
		return rt.StringValue(sent.TPL())
	case aR:
		return rt.StringValue("r")
	case aW:
		return rt.StringValue("w")
	case aA:
		return rt.StringValue("a")
	case aSET:
		return rt.StringValue("set")
	case aDOT:
		return rt.StringValue(".")
	case aT:
		return rt.StringValue("t")
	case aTRUE:
		return rt.BoolValue(true)
	case aI0:
		return rt.IntValue(0)
	case aI1:
		return rt.IntValue(1)
	case aI7:
		return rt.IntValue(7)
	case aTBL:
		if e.tbl.IsNil() {
			e.tbl = rt.TableValue(rt.NewTable())
		}
		return e.tbl
	case aFN:
		return mc.cbFn
	case aNIL:
		return rt.NilValue
	case aHR:
		return mc.hostCall1("io.open", rt.StringValue(sent.PG()), rt.StringValue("r"))
	case aHW:
		return mc.hostCall1("io.open", rt.StringValue(sent.PGW()), rt.StringValue("w"))
	case aCTX:
		return mc.hostCall1("runtime.context")
	case aCO:
		return mc.hostCall1("coroutine.create", mc.cbFn)
	}
	panic("c08 harness: unknown atom")
}

func (e *argEnv) values(t tuple) []rt.Value {
	out := make([]rt.Value, len(t))
	for i, a := range t {
		out[i] = e.value(a)
	}
	return out
}

// tryValues is values() that reports a failed set-up instead of panicking.
func (e *argEnv) tryValues(t tuple) (out []rt.Value, ok bool) {
	defer func() {
		if recover() != nil {
			out, ok = nil, false
		}
	}()
	return e.values(t), true
}
