package main

// The sentinel directory and the process oracle: everything the check can see
// of "the outside" without tracing system calls.

import (
	"fmt"
	"os"
	"path/filepath"
	"sort"
	"strconv"
	"strings"
	"syscall"
)

const (
	secret  = "S3CR3T"
	granted = "GR4NTED"
)

const scratchRoot = "/tmp/c08"

type sentinel struct {
	root     string
	pristine snapshot
	made     bool
	dirty    bool // the directory may differ from pristine
}

// ensure makes the sentinel pristine again if a previous run changed it.
func (s *sentinel) ensure() {
	if s.dirty {
		s.rebuild()
	}
}

// note records the state seen after a run.
func (s *sentinel) note(now snapshot) {
	s.dirty = !now.equal(s.pristine)
}

var sent = &sentinel{}

func (s *sentinel) path(rel string) string { return filepath.Join(s.root, rel) }

// symbolic path names used by the argument pool
func (s *sentinel) PS() string  { return s.path("secret.txt") }
func (s *sentinel) PG() string  { return s.path("granted.txt") }
func (s *sentinel) PGW() string { return s.path("grantedw.txt") }
func (s *sentinel) PM() string  { return s.path("missing.txt") }
func (s *sentinel) PD() string  { return s.path("dir") }
func (s *sentinel) TMP() string { return s.path("tmp") }
func (s *sentinel) CMD() string { return "echo x > " + s.path("popen") }
func (s *sentinel) TPL() string { return s.path("?.lua") }

// cleanStale removes scratch directories of processes that no longer exist.
func cleanStale() {
	ents, err := os.ReadDir(scratchRoot)
	if err != nil {
		return
	}
	for _, e := range ents {
		name := strings.TrimSuffix(strings.TrimPrefix(e.Name(), "funcs-"), ".json")
		if strings.HasPrefix(name, "trace-") {
			name = strings.SplitN(strings.TrimPrefix(name, "trace-"), "-", 2)[0]
		}
		pid, err := strconv.Atoi(name)
		if err != nil || pid == os.Getpid() {
			continue
		}
		if err := syscall.Kill(pid, 0); err == syscall.ESRCH {
			os.RemoveAll(filepath.Join(scratchRoot, e.Name()))
		}
	}
}

func (s *sentinel) init() {
	if s.made {
		return
	}
	cleanStale()
	s.root = filepath.Join(scratchRoot, strconv.Itoa(os.Getpid()))
	s.rebuild()
	s.made = true
	os.Setenv("TMPDIR", s.TMP())
}

func must(err error) {
	if err != nil {
		panic(fmt.Sprintf("c08 harness: %v", err))
	}
}

// rebuild recreates the sentinel from scratch (new inodes: handles that older
// machines still hold cannot touch the new files).
func (s *sentinel) rebuild() {
	os.RemoveAll(s.root)
	must(os.MkdirAll(s.path("dir"), 0755))
	must(os.MkdirAll(s.path("tmp"), 0755))
	// a valid Lua chunk: dofile/loadfile/loadlua on it hand the secret over
	must(os.WriteFile(s.PS(), []byte("return \""+secret+"\"\n"), 0644))
	must(os.WriteFile(s.PG(), []byte(granted+"\n"), 0644))
	must(os.WriteFile(s.PGW(), nil, 0644))
	must(os.WriteFile(s.path("mod.lua"), []byte("C08_MOD_LOADED = true\nreturn \""+secret+"\"\n"), 0644))
	must(os.WriteFile(s.path("dir/inner.txt"), []byte(secret+"-inner\n"), 0644))
	s.pristine = s.snap()
	s.dirty = false
}

func (s *sentinel) remove() {
	if s.made {
		os.RemoveAll(s.root)
		os.Remove(scratchRoot) // only succeeds when empty
		s.made = false
	}
}

// snapshot maps relative path -> "d" (directory) or "f:<content>".
type snapshot map[string]string

func (s *sentinel) snap() snapshot {
	out := snapshot{}
	s.snapDir("", out)
	return out
}

// snapDir uses raw system calls (open/getdents/read/close): a snapshot is
// taken several times per case.
func (s *sentinel) snapDir(rel string, out snapshot) {
	ents, err := os.ReadDir(filepath.Join(s.root, rel))
	if err != nil {
		out[rel+"/?"] = "unreadable-dir"
		return
	}
	var buf [4096]byte
	for _, d := range ents {
		r := d.Name()
		if rel != "" {
			r = rel + "/" + r
		}
		switch {
		case d.IsDir():
			out[r] = "d"
			s.snapDir(r, out)
		case !d.Type().IsRegular():
			out[r] = "o:" + d.Type().String()
		default:
			fd, err := syscall.Open(filepath.Join(s.root, r), syscall.O_RDONLY|syscall.O_CLOEXEC, 0)
			if err != nil {
				out[r] = "unreadable"
				continue
			}
			var content []byte
			for {
				n, err := syscall.Read(fd, buf[:])
				if n > 0 {
					content = append(content, buf[:n]...)
				}
				if err == syscall.EINTR {
					continue
				}
				if n < len(buf) || err != nil {
					break
				}
			}
			syscall.Close(fd)
			out[r] = "f:" + string(content)
		}
	}
}

// diff lists the differences between two snapshots, sorted.  Names of
// temporary files (random) are normalised.  If allowGranted is set, the
// content (not the existence) of the write-granted file may differ.
func (a snapshot) diff(b snapshot, allowGranted bool) []string {
	var out []string
	norm := func(k string) string {
		if strings.HasPrefix(k, "tmp/") {
			return "tmp/*"
		}
		return k
	}
	for k, va := range a {
		vb, ok := b[k]
		switch {
		case !ok:
			out = append(out, "removed:"+norm(k))
		case va != vb:
			if allowGranted && k == "grantedw.txt" && va[0] == 'f' && vb[0] == 'f' {
				continue
			}
			out = append(out, "changed:"+norm(k))
		}
	}
	for k := range b {
		if _, ok := a[k]; !ok {
			out = append(out, "created:"+norm(k))
		}
	}
	sort.Strings(out)
	return out
}

func (a snapshot) equal(b snapshot) bool {
	if len(a) != len(b) {
		return false
	}
	for k, v := range a {
		if w, ok := b[k]; !ok || w != v {
			return false
		}
	}
	return true
}

// ---- process oracle

// drainChildren waits for and reaps every child process of this process and
// returns how many there were.  It blocks until they have all exited (no
// deadline: every command of the pool terminates by itself; a child that does
// not is caught by the driver's hang watchdog).  A child that golua itself
// already waited for is seen by childUsage instead.
func drainChildren() (n int, stuck bool) {
	for {
		var ws syscall.WaitStatus
		pid, err := syscall.Wait4(-1, &ws, 0, nil)
		switch {
		case err == syscall.EINTR:
			continue
		case err != nil: // ECHILD: no children (left)
			return n, false
		case pid > 0:
			n++
		}
	}
}

// childUsage returns the accumulated resource usage of waited-for children; it
// changes whenever any child has been started and reaped.
func childUsage() syscall.Rusage {
	var ru syscall.Rusage
	syscall.Getrusage(syscall.RUSAGE_CHILDREN, &ru)
	return ru
}
