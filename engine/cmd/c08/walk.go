package main

// Enumeration of every Go function a Lua program can get hold of: a graph
// walk from the global environment and the string metatable (tables, their
// metatables, userdata metatables), from the values of a list of producer
// expressions (file handles, coroutines, context objects, iterators), and
// from the results of calling every statically reachable function on every
// pool tuple (one level: closures returned by library functions).

import (
	"encoding/json"
	"fmt"
	"os"
	"path/filepath"
	"sort"
	"strings"
	"sync"
	"time"

	rt "github.com/arnodel/golua/runtime"
)

type step struct {
	meta bool     // take the metatable
	key  rt.Value // else: index the table with this key (string or integer)
}

type accKind int

const (
	accStatic  accKind = iota // from the global environment
	accStrMeta                // from the string metatable
	accSnippet                // from result #res of snippet #idx
	accCall                   // from result #res of funcs[idx](tuple) called by the host
)

type accessor struct {
	kind  accKind
	idx   int
	tup   tuple
	res   int
	steps []step
}

type fnRec struct {
	name     string
	declared rt.ComplianceFlags
	iname    string
	acc      accessor
	danger   bool // terminates the process / builds plugins: only called where it must be refused
}

// names registered by the harness host package, not part of golua
var hostGlobals = map[string]bool{"emit": true, "tick": true}

var dangerous = map[string]bool{"os.exit": true, "golib.import": true}

// snippets: expressions whose values are walked too.  `tag` is the statically
// reachable function that produces the value (so that call discovery does not
// list the same closure twice).
type snippet struct {
	src string // body of a chunk receiving PG (granted path)
	tag string
}

var snippets = []snippet{
	{`return io.stdout`, ""},
	{`return io.open(PG)`, "io.open"},
	{`return io.tmpfile()`, "io.tmpfile"},
	{`return coroutine.create(function() end)`, "coroutine.create"},
	{`return coroutine.running()`, "coroutine.running"},
	{`return runtime.context()`, "runtime.context"},
	{`return (runtime.callcontext({}, function() end))`, "runtime.callcontext"},
	{`return runtime.context().killnow`, ""},
	{`return runtime.context().stopnow`, ""},
	{`return runtime.context().kill`, ""},
	{`return runtime.context().stop`, ""},
	{`return runtime.context().used`, ""},
	{`return (io.lines(PG))`, "io.lines"},
	{`return (io.open(PG):lines())`, "file:lines"},
	{`return (string.gmatch("a", "a"))`, "string.gmatch"},
	{`return coroutine.wrap(function() end)`, "coroutine.wrap"},
	{`return (utf8.codes("a"))`, "utf8.codes"},
	{`return (ipairs({}))`, "ipairs"},
	{`return (pairs({}))`, "pairs"},
	{`return (package.searchers[2]("mod"))`, "package.searchers[2]"},
}

// cosmetic: the file metatable is first reached through io.stderr
var prettyPrefix = [][2]string{
	{"io.stderr<mt>.__index.", "file:"},
	{"io.stderr<mt>.", "file<mt>."},
}

func pretty(name string) string {
	for _, p := range prettyPrefix {
		if strings.HasPrefix(name, p[0]) {
			return p[1] + name[len(p[0]):]
		}
	}
	return name
}

type walker struct {
	mc     *machine
	seenT  map[*rt.Table]bool
	seenU  map[*rt.UserData]bool
	seenF  map[*rt.GoFunction]string // -> name
	seenID map[string]bool           // derived identity
	names  map[string]bool
	out    []fnRec
	notes  []string
}

func newWalker(mc *machine) *walker {
	return &walker{mc: mc, seenT: map[*rt.Table]bool{}, seenU: map[*rt.UserData]bool{}, seenF: map[*rt.GoFunction]string{}, seenID: map[string]bool{}, names: map[string]bool{}}
}

type qitem struct {
	v     rt.Value
	name  string
	steps []step
}

func keyName(parent string, k rt.Value, top bool) string {
	if s, ok := k.TryString(); ok {
		if top {
			return s
		}
		return parent + "." + s
	}
	n, _ := k.TryInt()
	return fmt.Sprintf("%s[%d]", parent, n)
}

// walk explores breadth first (sorted keys), so every function gets its
// shortest, then lexicographically first, name.  `derive` decides whether a
// newly found Go function is recorded (identity for per-call closures).
func (w *walker) walk(root rt.Value, rootName string, top bool, base accessor, derivedTag string) {
	queue := []qitem{{root, rootName, nil}}
	for len(queue) > 0 {
		it := queue[0]
		queue = queue[1:]
		push := func(v rt.Value, name string, st step) {
			steps := append(append([]step(nil), it.steps...), st)
			queue = append(queue, qitem{v, name, steps})
		}
		switch it.v.Type() {
		case rt.TableType:
			t := it.v.AsTable()
			if w.seenT[t] {
				continue
			}
			w.seenT[t] = true
			type kv struct {
				k, v rt.Value
				s    string
			}
			var ents []kv
			k := rt.NilValue
			for {
				nk, nv, ok := t.Next(k)
				if !ok || nk.IsNil() {
					break
				}
				k = nk
				if s, ok := nk.TryString(); ok {
					if top && it.name == rootName && hostGlobals[s] {
						continue
					}
					ents = append(ents, kv{nk, nv, "s" + s})
				} else if n, ok := nk.TryInt(); ok {
					ents = append(ents, kv{nk, nv, fmt.Sprintf("i%020d", n)})
				}
			}
			sort.Slice(ents, func(a, b int) bool { return ents[a].s < ents[b].s })
			for _, e := range ents {
				push(e.v, keyName(it.name, e.k, top && it.name == rootName), step{key: e.k})
			}
			if mt := t.Metatable(); mt != nil {
				push(rt.TableValue(mt), it.name+"<mt>", step{meta: true})
			}
		case rt.UserDataType:
			u := it.v.AsUserData()
			if w.seenU[u] {
				continue
			}
			w.seenU[u] = true
			if mt := u.Metatable(); mt != nil {
				push(rt.TableValue(mt), it.name+"<mt>", step{meta: true})
			}
		case rt.FunctionType:
			c, _ := it.v.TryCallable()
			g, ok := c.(*rt.GoFunction)
			if !ok {
				continue // Lua closure
			}
			if _, ok := w.seenF[g]; ok {
				continue
			}
			name := pretty(it.name)
			if derivedTag != "" {
				// value produced by a call: identity = producer + path + internal name + flags
				id := fmt.Sprintf("%s|%s|%s|%d", derivedTag, stepsString(it.steps), internalName(g), declaredOf(g))
				if w.seenID[id] {
					w.seenF[g] = "dup"
					continue
				}
				w.seenID[id] = true
				name = derivedTag + "()" + stepsString(it.steps)
				if len(it.steps) == 0 {
					in := internalName(g)
					name += "->" + in[:strings.IndexByte(in, '/')]
				}
			}
			for w.names[name] {
				name += "~"
			}
			w.names[name] = true
			w.seenF[g] = name
			acc := base
			acc.steps = it.steps
			w.out = append(w.out, fnRec{name: name, declared: declaredOf(g), iname: internalName(g), acc: acc, danger: dangerous[name]})
		}
	}
}

func stepsString(st []step) string {
	var sb strings.Builder
	for _, s := range st {
		if s.meta {
			sb.WriteString("<mt>")
		} else if k, ok := s.key.TryString(); ok {
			sb.WriteString("." + k)
		} else {
			n, _ := s.key.TryInt()
			fmt.Fprintf(&sb, "[%d]", n)
		}
	}
	return sb.String()
}

func (mc *machine) runSnippet(i int) ([]rt.Value, error) {
	src := "local PG = ...\n" + snippets[i].src
	clos := mc.loadChunk("snippet", src)
	return mc.hostCallN(rt.FunctionValue(clos), rt.StringValue(sent.PG()))
}

// staticWalk walks globals, the string metatable and the snippets.
func (w *walker) staticWalk(withSnippets bool) {
	r := w.mc.r
	w.walk(rt.TableValue(r.GlobalEnv()), "", true, accessor{kind: accStatic}, "")
	if sm := r.RawMetatable(rt.StringValue("")); sm != nil {
		w.walk(rt.TableValue(sm), "<string-mt>", false, accessor{kind: accStrMeta}, "")
	}
	if !withSnippets {
		return
	}
	for i, sn := range snippets {
		res, err := w.mc.runSnippet(i)
		if err != nil {
			w.notes = append(w.notes, fmt.Sprintf("snippet %q failed: %v", sn.src, err))
			continue
		}
		label := "{" + strings.TrimSuffix(strings.TrimPrefix(sn.src, "return "), "") + "}"
		for k, v := range res {
			nm := label
			if len(res) > 1 {
				nm = fmt.Sprintf("%s#%d", label, k+1)
			}
			w.walk(v, nm, false, accessor{kind: accSnippet, idx: i, res: k}, sn.tag)
		}
	}
}

// resolve re-creates the function of a record in a fresh machine.
func (mc *machine) resolve(funcs []fnRec, f *fnRec) (rt.Value, error) {
	var v rt.Value
	switch f.acc.kind {
	case accStatic:
		v = rt.TableValue(mc.r.GlobalEnv())
	case accStrMeta:
		v = rt.TableValue(mc.r.RawMetatable(rt.StringValue("")))
	case accSnippet:
		res, err := mc.runSnippet(f.acc.idx)
		if err != nil || f.acc.res >= len(res) {
			return rt.NilValue, fmt.Errorf("snippet failed: %v", err)
		}
		v = res[f.acc.res]
	case accCall:
		pf, err := mc.resolve(funcs, &funcs[f.acc.idx])
		if err != nil {
			return rt.NilValue, err
		}
		env := &argEnv{mc: mc}
		res, err := mc.hostCallN(pf, env.values(f.acc.tup)...)
		if err != nil || f.acc.res >= len(res) {
			return rt.NilValue, fmt.Errorf("producer call failed: %v", err)
		}
		v = res[f.acc.res]
	}
	for _, st := range f.acc.steps {
		if st.meta {
			mt := mc.r.RawMetatable(v)
			if mt == nil {
				return rt.NilValue, fmt.Errorf("no metatable")
			}
			v = rt.TableValue(mt)
		} else {
			t, ok := v.TryTable()
			if !ok {
				return rt.NilValue, fmt.Errorf("not a table")
			}
			v = t.Get(st.key)
		}
	}
	c, ok := v.TryCallable()
	if !ok {
		return rt.NilValue, fmt.Errorf("not callable: %s", v.TypeName())
	}
	g, ok := c.(*rt.GoFunction)
	if !ok {
		return rt.NilValue, fmt.Errorf("not a Go function")
	}
	if internalName(g) != f.iname || declaredOf(g) != f.declared {
		return rt.NilValue, fmt.Errorf("resolved to a different function (%s flags=%d, want %s flags=%d)", internalName(g), declaredOf(g), f.iname, f.declared)
	}
	return v, nil
}

var (
	discOnce  sync.Once
	discFuncs []fnRec
	discNotes []string
)

// discover builds the function list (once per process; deterministic).
func discover() []fnRec {
	discOnce.Do(func() {
		sent.init()
		if loadFuncFile() {
			return
		}
		mc := newMachine()
		mc.prepare(0)
		w := newWalker(mc)
		w.staticWalk(true)
		funcs := w.out
		notes := w.notes
		mc.close()
		drainChildren()
		nStatic := len(funcs)

		// call discovery: every function found so far x pool tuple, called by
		// the host outside any context in a machine of its own.
		seenID, names := w.seenID, w.names
		for fi := 0; fi < nStatic; fi++ {
			f := funcs[fi]
			if f.danger {
				continue
			}
			tf := time.Now()
			m2 := newMachine()
			m2.prepare(0)
			w2 := newWalker(m2)
			w2.seenID, w2.names = seenID, map[string]bool{}
			w2.staticWalk(true) // the pointers already known, as they are in this machine
			w2.names = names
			base := len(w2.out)
			fv, err := m2.resolve(funcs, &f)
			if err != nil {
				notes = append(notes, fmt.Sprintf("cannot re-resolve %s: %v", f.name, err))
				m2.close()
				continue
			}
			for _, tp := range quickTuples {
				if tp.has(aPS) {
					continue // a file opened by the host is a granted file: never the secret one
				}
				env := &argEnv{mc: m2}
				args, ok := env.tryValues(tp)
				if !ok { // an earlier call damaged the sentinel
					sent.rebuild()
					env = &argEnv{mc: m2}
					args = env.values(tp)
				}
				var res []rt.Value
				func() {
					defer func() { recover() }()
					term := rt.NewTerminationWith(nil, 0, true)
					m2.r.MainThread().CallContext(rt.RuntimeContextDef{}, func() error {
						err := rt.Call(m2.r.MainThread(), fv, args, term)
						if err == nil {
							res = term.Etc()
						}
						return err
					})
				}()
				for k, v := range res {
					w2.walk(v, "?", false, accessor{kind: accCall, idx: fi, tup: tp, res: k}, f.name)
				}
			}
			funcs = append(funcs, w2.out[base:]...)
			m2.close()
			drainChildren()
			if os.Getenv("C08_DEBUG") != "" {
				fmt.Fprintf(os.Stderr, "disc %-30s %v\n", f.name, time.Since(tf))
			}
			if !sent.snap().equal(sent.pristine) {
				sent.rebuild()
			}
		}
		// validate every record by replaying its accessor in a fresh machine
		var kept []fnRec
		remap := map[int]int{}
		for i := range funcs {
			if funcs[i].acc.kind == accStatic || funcs[i].acc.kind == accStrMeta {
				remap[i] = len(kept)
				kept = append(kept, funcs[i])
				continue
			}
			m3 := newMachine()
			m3.prepare(0)
			_, err := m3.resolve(funcs, &funcs[i])
			m3.close()
			drainChildren()
			if err != nil {
				notes = append(notes, fmt.Sprintf("dropped %s: accessor does not replay: %v", funcs[i].name, err))
				continue
			}
			remap[i] = len(kept)
			kept = append(kept, funcs[i])
		}
		for i := range kept {
			if kept[i].acc.kind == accCall {
				kept[i].acc.idx = remap[kept[i].acc.idx]
			}
		}
		sent.note(sent.snap())
		sent.ensure()
		kept = relevanceOrder(kept)
		discFuncs, discNotes = kept, notes
		saveFuncFile()
	})
	return discFuncs
}

// relevanceOrder puts the functions that do not declare all four flags (the
// ones the gate can refuse, which include the whole io library) first, so
// that a run cut short by its budget has covered them; the order within each
// group is the discovery order.
func relevanceOrder(fs []fnRec) []fnRec {
	idx := make([]int, len(fs))
	for i := range idx {
		idx[i] = i
	}
	sort.SliceStable(idx, func(a, b int) bool {
		return fs[idx[a]].declared != allFlags && fs[idx[b]].declared == allFlags
	})
	pos := make([]int, len(fs))
	for newI, oldI := range idx {
		pos[oldI] = newI
	}
	out := make([]fnRec, len(fs))
	for newI, oldI := range idx {
		out[newI] = fs[oldI]
		if out[newI].acc.kind == accCall {
			out[newI].acc.idx = pos[out[newI].acc.idx]
		}
	}
	return out
}

// ---- handing the list from the driver process to its workers

type stepJSON struct {
	Meta  bool   `json:"m,omitempty"`
	IsInt bool   `json:"n,omitempty"`
	S     string `json:"s,omitempty"`
	I     int64  `json:"i,omitempty"`
}

type fnJSON struct {
	Name     string     `json:"name"`
	Declared uint16     `json:"declared"`
	Iname    string     `json:"iname"`
	Kind     int        `json:"kind"`
	Idx      int        `json:"idx"`
	Tup      []int      `json:"tup"`
	Res      int        `json:"res"`
	Steps    []stepJSON `json:"steps"`
	Danger   bool       `json:"danger"`
}

type funcFile struct {
	Funcs []fnJSON `json:"funcs"`
	Notes []string `json:"notes"`
}

const funcFileEnv = "C08_FUNCFILE"

func saveFuncFile() { publishFuncs(false) }

// publishFuncs writes the list for child processes; unless forced only the
// driver process does so.
func publishFuncs(force bool) {
	if !force && runsCases() {
		return
	}
	if funcFilePath != "" || os.Getenv(funcFileEnv) != "" && !force {
		return
	}
	var ff funcFile
	ff.Notes = discNotes
	for _, f := range discFuncs {
		j := fnJSON{Name: f.name, Declared: uint16(f.declared), Iname: f.iname, Kind: int(f.acc.kind), Idx: f.acc.idx, Res: f.acc.res, Danger: f.danger}
		for _, a := range f.acc.tup {
			j.Tup = append(j.Tup, int(a))
		}
		for _, st := range f.acc.steps {
			sj := stepJSON{Meta: st.meta}
			if !st.meta {
				if s, ok := st.key.TryString(); ok {
					sj.S = s
				} else {
					sj.IsInt = true
					sj.I, _ = st.key.TryInt()
				}
			}
			j.Steps = append(j.Steps, sj)
		}
		ff.Funcs = append(ff.Funcs, j)
	}
	b, err := json.Marshal(ff)
	if err != nil {
		return
	}
	path := filepath.Join(scratchRoot, fmt.Sprintf("funcs-%d.json", os.Getpid()))
	if os.WriteFile(path, b, 0644) == nil {
		os.Setenv(funcFileEnv, path)
		funcFilePath = path
	}
}

var funcFilePath string

func removeFuncFile() {
	if funcFilePath != "" {
		os.Remove(funcFilePath)
		os.Remove(scratchRoot)
	}
}

func loadFuncFile() bool {
	path := os.Getenv(funcFileEnv)
	if path == "" {
		return false
	}
	b, err := os.ReadFile(path)
	if err != nil {
		return false
	}
	var ff funcFile
	if json.Unmarshal(b, &ff) != nil || len(ff.Funcs) == 0 {
		return false
	}
	var out []fnRec
	for _, j := range ff.Funcs {
		f := fnRec{name: j.Name, declared: rt.ComplianceFlags(j.Declared), iname: j.Iname, danger: j.Danger,
			acc: accessor{kind: accKind(j.Kind), idx: j.Idx, res: j.Res}}
		for _, a := range j.Tup {
			f.acc.tup = append(f.acc.tup, atomID(a))
		}
		for _, sj := range j.Steps {
			st := step{meta: sj.Meta}
			if !sj.Meta {
				if sj.IsInt {
					st.key = rt.IntValue(sj.I)
				} else {
					st.key = rt.StringValue(sj.S)
				}
			}
			f.acc.steps = append(f.acc.steps, st)
		}
		out = append(out, f)
	}
	discFuncs, discNotes = out, ff.Notes
	return true
}
