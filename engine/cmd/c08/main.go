// C08 — compliance flags gate every Go function; iosafe means no access to
// the outside.
//
// Enumerated: every Go function reachable from the global environment, the
// string metatable, file/coroutine/context objects and the closures library
// functions return (found by a graph walk at check time) x all 16 subsets of
// required flags x an IO-oriented argument pool x 11 call spellings x the two
// ways of entering a context (RuntimeContextDef.RequiredFlags and
// runtime.callcontext{flags=...}).
//
// Reference model (plain Go, below): `refExpect` — from the declared flags D
// of the function and the required flags R of the context it derives what the
// property prescribes: refusal with an ordinary error and no effect at all if
// R is not a subset of D; no access to the outside whatever happens if iosafe
// is in R.  Effects are observed on a sentinel directory, the process table
// (wait4 / RUSAGE_CHILDREN), the call-backs and tables handed in, and by
// scanning every returned value and error message for the secret.
package main

import (
	"fmt"
	"os"
	"runtime/pprof"
	"sort"
	"strings"
	"time"

	rt "github.com/arnodel/golua/runtime"

	"verif/engine/core"
)

// ---- call spellings

type spelling struct {
	name  string
	class string
}

var spellings = []spelling{
	0: {"direct", "direct"},        // id(f(...)) in a Lua function
	1: {"tailcall", "direct"},      // return f(...)
	2: {"pcall", "pcall"},          // pcall(f, ...)
	3: {"mm-index", "metamethod"},  // a1[a2] with __index = f
	4: {"mm-call", "metamethod"},   // a1(a2, ...) with __call = f
	5: {"mm-concat", "metamethod"}, // a1 .. proxy with __concat = f
	6: {"coroutine", "coroutine"},  // inside a coroutine body
	7: {"co-body", "coroutine"},    // f is the coroutine body
	8: {"load", "load"},            // load("return f(...)") with f a global of the chunk
	9: {"gc", "finalizer"},         // called by a __gc finalizer created inside the context
	10: {"nested", "nested"},       // called inside a nested runtime.callcontext({kill={cpu=...}}) (requires cpusafe too)
}

// effective: the flags in force where the spelling makes the call.
func effective(required rt.ComplianceFlags, sp int) rt.ComplianceFlags {
	if sp == 10 {
		return required | rt.ComplyCpuSafe
	}
	return required
}

// ---- reference model: what the property prescribes

type expect struct {
	mustRefuse bool // R not a subset of D: ordinary error, no effect, context live
	noOutside  bool // iosafe in R: no access to the outside, whatever the outcome
	class      string
}

func refExpect(declared, required rt.ComplianceFlags) expect {
	missing := required &^ declared
	e := expect{mustRefuse: missing != 0, noOutside: required&rt.ComplyIoSafe != 0}
	switch {
	case e.mustRefuse:
		e.class = "miss=" + flagNames(missing)
	case e.noOutside:
		e.class = "need=iosafe"
	default:
		e.class = "unconstrained"
	}
	return e
}

// ---- one execution

type runObs struct {
	started, after bool
	statusB        string
	statusA        string
	watch          string
	gotRes, ok     bool
	resTypes       []string
	secretIn       string // where the secret was seen ("" = nowhere)
	cb             int
	final          string
	gopanic        string
	diff           []string // sentinel differences (strict)
	diffGranted    []string // sentinel differences allowing the granted file's content
	children       int
	stuck          bool
	reaped         bool // RUSAGE_CHILDREN changed during the call
	setupErr       string
}

func (o *runObs) summary() string {
	return fmt.Sprintf("started=%v after=%v statusB=%s statusA=%s watch=%s ok=%v/%v res=%v secret=%q cb=%d final=%s panic=%q diff=%v children=%d reaped=%v",
		o.started, o.after, o.statusB, o.statusA, o.watch, o.gotRes, o.ok, o.resTypes, o.secretIn, o.cb, o.final, o.gopanic, o.diff, o.children, o.reaped)
}

// agreeKey is what the two context spellings must agree on.
func (o *runObs) agreeKey() string {
	// (the number of results is left out: for self-recursive spellings such as
	// pcall as its own __call it depends on the Go stack depth at entry)
	return fmt.Sprintf("started=%v after=%v statusB=%s statusA=%s ok=%v/%v final=%s diff=%v proc=%v",
		o.started, o.after, o.statusB, o.statusA, o.gotRes, o.ok, o.final, o.diff, o.children > 0 || o.reaped)
}

func scanSecret(v rt.Value, depth int, seen map[*rt.Table]bool) bool {
	switch v.Type() {
	case rt.StringType:
		return strings.Contains(v.AsString(), secret)
	case rt.TableType:
		t := v.AsTable()
		if depth > 3 || seen[t] {
			return false
		}
		seen[t] = true
		k := rt.NilValue
		for n := 0; n < 1000; n++ {
			nk, nv, ok := t.Next(k)
			if !ok || nk.IsNil() {
				break
			}
			k = nk
			if scanSecret(nk, depth+1, seen) || scanSecret(nv, depth+1, seen) {
				return true
			}
		}
	}
	return false
}

func runOne(funcs []fnRec, f *fnRec, required rt.ComplianceFlags, tp tuple, sp int, luaCtx bool) (o runObs) {
	sent.ensure()
	mc := newMachine()
	closed := false
	defer func() {
		if !closed {
			mc.close()
		}
	}()
	mc.prepare(required)
	fv, err := mc.resolve(funcs, f)
	if err != nil {
		panic(fmt.Sprintf("c08 harness: cannot resolve %s: %v", f.name, err))
	}
	e := refExpect(f.declared, effective(required, sp))
	bargs := spellArgs(mc, fv, tp, sp, e.noOutside && !e.mustRefuse)

	// set-up that may itself touch the sentinel: producer calls, snippets
	s0 := sent.pristine
	if f.acc.kind == accCall || f.acc.kind == accSnippet {
		drainChildren()
		s0 = sent.snap()
	}
	ru0 := childUsage()

	o.final, o.gopanic = mc.enter(luaCtx, required, bargs)

	o.reaped = childUsage() != ru0
	mc.close()
	closed = true
	o.children, o.stuck = drainChildren()
	s1 := sent.snap()
	sent.note(s1)
	o.diff = s0.diff(s1, false)
	o.diffGranted = s0.diff(s1, true)

	o.statusB, o.started = mc.mark("B")
	o.statusA, o.after = mc.mark("A")
	o.watch, _ = mc.mark("W")
	o.gotRes, o.ok, o.cb = mc.gotRes, mc.ok, mc.cb
	seen := map[*rt.Table]bool{}
	for i, v := range mc.results {
		o.resTypes = append(o.resTypes, v.TypeName())
		if o.secretIn == "" && scanSecret(v, 0, seen) {
			if mc.ok {
				o.secretIn = fmt.Sprintf("result #%d", i+1)
			} else {
				o.secretIn = "error message"
			}
		}
	}
	for _, fu := range mc.follow {
		for _, v := range fu.vals {
			if o.secretIn == "" && scanSecret(v, 0, seen) {
				if fu.from == 0 {
					o.secretIn = `io.read("a") after the call`
				} else {
					o.secretIn = fmt.Sprintf("calling/reading result #%d", fu.from)
				}
			}
		}
	}
	return o
}

// spellArgs materialises the tuple and prepares the spelling: for the
// metamethod spellings the subject is the first argument when it can carry a
// metatable of its own (string, table), else a proxy table.
func spellArgs(mc *machine, fv rt.Value, tp tuple, sp int, probe bool) []rt.Value {
	env := &argEnv{mc: mc}
	args := env.values(tp)
	r := mc.r
	tgt := rt.NilValue
	rest := args
	mm := func(field string) {
		meta := rt.NewTable()
		meta.Set(rt.StringValue(field), fv)
		if len(args) > 0 && (args[0].Type() == rt.StringType || args[0].Type() == rt.TableType) {
			tgt, rest = args[0], args[1:]
		} else {
			tgt = rt.TableValue(rt.NewTable())
		}
		r.SetRawMetatable(tgt, meta)
	}
	switch sp {
	case 3:
		mm("__index")
	case 4:
		mm("__call")
	case 5:
		meta := rt.NewTable()
		meta.Set(rt.StringValue("__concat"), fv)
		tgt = rt.TableValue(rt.NewTable())
		r.SetRawMetatable(tgt, meta)
		if len(rest) > 1 {
			rest = rest[:1]
		}
	}
	return append([]rt.Value{rt.IntValue(int64(sp)), rt.BoolValue(probe), fv, tgt, env.tbl}, rest...)
}

// judge applies the reference expectation to one observation.
func judge(e expect, o *runObs) (clauses []string) {
	add := func(c string) { clauses = append(clauses, c) }
	proc := o.children > 0 || o.reaped
	if e.mustRefuse {
		switch {
		case o.gopanic != "":
			add("refusal:go-panic")
		case !o.started:
			add("refusal:harness-not-started")
		case !o.gotRes || !o.after || o.statusA != "live" || o.final != "done":
			add("refusal:context-not-live")
		case o.ok:
			add("refusal:no-error")
		}
		if o.secretIn != "" {
			add("refusal:effect-secret-read")
		}
		if o.cb > 0 {
			add("refusal:effect-callback-ran")
		}
		if o.watch == "false" {
			add("refusal:effect-argument-mutated")
		}
		if len(o.diff) > 0 {
			add("refusal:effect-sentinel")
		}
		if proc {
			add("refusal:effect-process")
		}
		return
	}
	if e.noOutside {
		if len(o.diffGranted) > 0 {
			add("iosafe:sentinel-changed")
		}
		if o.secretIn != "" {
			add("iosafe:secret-read")
		}
		if proc {
			add("iosafe:process-started")
		}
	}
	return
}

type caseID struct {
	fn       int
	required rt.ComplianceFlags
	tp       int
	sp       int
}

func main() {
	initStdio()
	defer sent.remove()
	defer removeFuncFile()
	if len(os.Args) > 3 && os.Args[1] == "-straceinner" {
		var a, n uint64
		fmt.Sscan(os.Args[2], &a)
		fmt.Sscan(os.Args[3], &n)
		straceInner(a, n)
		return
	}
	if len(os.Args) > 3 && os.Args[1] == "-bench" { // -bench <start> <count> [tier]
		tier := "quick"
		if len(os.Args) > 4 {
			tier = os.Args[4]
		}
		fam := families(tier)[0]
		var a, n uint64
		fmt.Sscan(os.Args[2], &a)
		fmt.Sscan(os.Args[3], &n)
		sent.init()
		if pf := os.Getenv("C08_PROF"); pf != "" {
			fh, _ := os.Create(pf)
			pprof.StartCPUProfile(fh)
			defer pprof.StopCPUProfile()
		}
		t0 := time.Now()
		nv := 0
		for i := a; i < a+n && i < fam.Size; i++ {
			o := fam.Run(i)
			for _, v := range o.Viols {
				nv++
				if nv <= 1000000 {
					fmt.Println(v.Key)
				}
			}
		}
		fmt.Printf("%d cases in %v (%v per case), %d violations\n", n, time.Since(t0), time.Since(t0)/time.Duration(n), nv)
		return
	}
	if len(os.Args) > 1 && os.Args[1] == "-funcs" {
		t0 := time.Now()
		if pf := os.Getenv("C08_PROF"); pf != "" {
			fh, _ := os.Create(pf)
			pprof.StartCPUProfile(fh)
			defer pprof.StopCPUProfile()
		}
		for i, f := range discover() {
			fmt.Printf("%3d %-52s %-36s %s\n", i, f.name, flagNames(f.declared), f.iname)
		}
		for _, n := range discNotes {
			fmt.Println("note:", n)
		}
		fmt.Println("discovery took", time.Since(t0))
		return
	}
	core.Main(&core.Check{
		ID:    "C08",
		Level: "model_checking",
		Rule: "every Go function found by walking globals, package.loaded, the string/file/context metatables and closures returned by library calls " +
			"x 16 required-flag subsets x IO argument pool x 11 call spellings, each entered through RuntimeContextDef and through runtime.callcontext; " +
			"non-trivial = the property constrains the case (a required flag is undeclared, or iosafe is required); distinct = distinct observation summaries",
		Assumptions: []string{
			"declared flags are read from GoFunction.safetyFlags by reflection (read-only); the gate is judged against them",
			"outside = a per-worker sentinel directory (secret file, missing file, directory, module file, TMPDIR) + the worker's child processes (wait4, RUSAGE_CHILDREN); writes elsewhere are only seen by the strace family (thorough)",
			"a file handle opened by the host before the context is a grant: reading/writing that one file through its handle inside an iosafe context is not flagged (golua's own lib/iolib/lua/safeio.quotas.lua states this intent); every other file must stay untouched and the secret must not appear",
			"writing to the process's stdout/stderr and reading environment variables are not counted as access to the outside (not listed in the property)",
			"os.exit and golib.import are only called in contexts where they must be refused",
			"harness helpers used inside the context (pcall, coroutine.wrap, load, runtime.context, tostring, next, getmetatable, rawequal) declare all four flags — verified at start-up",
		},
		Families: families,
		Extra:    extra,
	})
}

var famCache = map[string][]*core.Family{}

func families(tier string) []*core.Family {
	if f, ok := famCache[tier]; ok {
		return f
	}
	funcs := discover()
	if !runsCases() {
		sent.remove() // the driver process only needs the function list
	}
	tuples := tuplesFor(tier)
	nF, nT, nS := uint64(len(funcs)), uint64(len(tuples)), uint64(len(spellings))

	// assumption check: harness helpers are callable under every subset
	{
		byName := map[string]rt.ComplianceFlags{}
		for _, f := range funcs {
			byName[f.name] = f.declared
		}
		for _, h := range harnessHelpers {
			if d, ok := byName[h]; !ok || d != allFlags {
				panic(fmt.Sprintf("c08 harness assumption violated: helper %s declares %s", h, flagNames(d)))
			}
		}
	}

	// index layout: first the block of the quick tuples (all functions), then
	// the block of the additional thorough tuples; inside a block
	// function-major, then flags, tuple, spelling
	nQ := uint64(len(quickTuples))
	if nQ > nT {
		nQ = nT
	}
	blockA := nF * 16 * nQ * nS
	decode := func(i uint64) caseID {
		var c caseID
		n, off := nQ, uint64(0)
		if i >= blockA {
			i -= blockA
			n, off = nT-nQ, nQ
		}
		c.sp = int(i % nS)
		i /= nS
		c.tp = int(i%n + off)
		i /= n
		c.required = rt.ComplianceFlags(i % 16)
		c.fn = int(i / 16)
		return c
	}
	show := func(i uint64) string {
		c := decode(i)
		f := funcs[c.fn]
		return fmt.Sprintf("fn=%s declared=%s required=%s args=%s spelling=%s\nLua equivalent (SENT = sentinel directory):\n%s",
			f.name, flagNames(f.declared), flagNames(c.required), tuples[c.tp], spellings[c.sp].name, luaRepro(&f, c.required, tuples[c.tp], c.sp))
	}
	run := func(i uint64) core.Outcome {
		c := decode(i)
		f := &funcs[c.fn]
		e := refExpect(f.declared, effective(c.required, c.sp))
		if f.danger && !e.mustRefuse {
			return core.Outcome{Skipped: true}
		}
		extraTuple := c.tp >= len(quickTuples)
		if (tier != "thorough" || extraTuple) && !e.mustRefuse && !e.noOutside {
			// the property says nothing about this (function, flags) pair;
			// the thorough tier still runs it on the quick pool for the
			// context-spelling agreement
			return core.Outcome{Skipped: true}
		}
		ways := []bool{false, true}
		if extraTuple {
			ways = []bool{i%2 == 1} // the additional tuples alternate between the two context entries
		}
		var obs [2]runObs
		var viols []*core.Violation
		seen := map[string]bool{}
		for k, lua := range ways {
			obs[k] = runOne(funcs, f, c.required, tuples[c.tp], c.sp, lua)
			for _, cl := range judge(e, &obs[k]) {
				key := fmt.Sprintf("fn=%s %s sp=%s clause=%s", f.name, e.class, spellings[c.sp].class, cl)
				if seen[key] {
					continue
				}
				seen[key] = true
				viols = append(viols, &core.Violation{Key: key, Detail: detail(show(i), lua, e, &obs[k])})
			}
			if obs[k].stuck {
				viols = append(viols, &core.Violation{Key: fmt.Sprintf("fn=%s %s sp=%s clause=child-still-running", f.name, e.class, spellings[c.sp].class),
					Detail: detail(show(i), lua, e, &obs[k])})
			}
		}
		if a, b := obs[0].agreeKey(), obs[1].agreeKey(); len(ways) == 2 && a != b {
			viols = append(viols, &core.Violation{
				Key:    fmt.Sprintf("fn=%s %s sp=%s clause=context-spellings-disagree", f.name, e.class, spellings[c.sp].class),
				Detail: fmt.Sprintf("%s\nRuntimeContextDef{RequiredFlags}: %s\nruntime.callcontext{flags=}:     %s", show(i), a, b),
			})
		}
		out := core.Outcome{Viols: viols, NonTrivial: e.mustRefuse || e.noOutside}
		out.Sig = core.Hash64(e.class + "|" + obs[0].agreeKey() + "|" + strings.Join(obs[0].resTypes, ","))
		return out
	}
	fams := []*core.Family{{
		Name: "gate", Size: nF * 16 * nT * nS, Run: run, Show: show, HangSeconds: 300,
	}}
	fams[0].BudgetSeconds = 240
	if tier == "thorough" {
		fams[0].BudgetSeconds = 13 * 60
		fams = append(fams, straceFamily(funcs, tuples)...)
	}
	famCache[tier] = fams
	return fams
}

func detail(show string, lua bool, e expect, o *runObs) string {
	entry := "RuntimeContextDef{RequiredFlags}"
	if lua {
		entry = "runtime.callcontext{flags=...}"
	}
	want := "no access to the outside (sentinel unchanged apart from the granted file, secret never returned, no process)"
	if e.mustRefuse {
		want = "refused with an ordinary error before any effect, context still live (" + e.class + ")"
	}
	return fmt.Sprintf("%s\ncontext entered via %s\nsentinel=%s\nexpected: %s\nobserved: %s", show, entry, sent.root, want, o.summary())
}

func extra(tier string) map[string]interface{} {
	funcs := discover()
	hist := map[string]int{}
	var names []string
	for _, f := range funcs {
		hist[flagNames(f.declared)]++
		names = append(names, f.name+" ["+flagNames(f.declared)+"]")
	}
	sort.Strings(names)
	return map[string]interface{}{
		"functions_enumerated": len(funcs),
		"declared_flags_hist":  hist,
		"functions":            names,
		"discovery_notes":      discNotes,
		"tuples":               len(tuplesFor(tier)),
		"spellings":            len(spellings),
	}
}

var atomLua = map[atomID]string{
	aPS: `SENT.."/secret.txt"`, aPG: `SENT.."/granted.txt"`, aPM: `SENT.."/missing.txt"`, aPD: `SENT.."/dir"`,
	aCMD: `"echo x > "..SENT.."/popen"`, aMOD: `"mod"`, aTPL: `SENT.."/?.lua"`, aR: `"r"`, aW: `"w"`, aA: `"a"`,
	aI0: "0", aI1: "1", aI7: "7", aTBL: "TBL", aFN: "FN", aNIL: "nil", aHR: "HR", aHW: "HW", aCTX: "CTX", aCO: "CO",
	aSET: `"set"`, aDOT: `"."`, aT: `"t"`, aTRUE: "true",
}

// luaRepro renders a case as a Lua program (for humans; the check itself
// builds the values through the Go API).
func luaRepro(f *fnRec, required rt.ComplianceFlags, tp tuple, sp int) string {
	var sb strings.Builder
	sb.WriteString("package.path = SENT..\"/?.lua\"\n")
	var fexpr string
	switch f.acc.kind {
	case accStrMeta:
		fexpr = stepsLua(`getmetatable("")`, f.acc.steps)
	case accSnippet:
		fexpr = stepsLua("(function() local PG = SENT..\"/granted.txt\"; "+snippets[f.acc.idx].src+" end)()", f.acc.steps)
	case accCall:
		fexpr = stepsLua("<result of "+f.name+", produced before the context>", f.acc.steps)
	case accStatic:
		fexpr = stepsLua("_G", f.acc.steps)
	}
	fmt.Fprintf(&sb, "local f = %s\n", fexpr)
	var as []string
	for _, a := range tp {
		as = append(as, atomLua[a])
		switch a {
		case aTBL:
			sb.WriteString("local TBL = {}\n")
		case aFN:
			sb.WriteString("local FN = function() print('callback ran') end\n")
		case aHR:
			sb.WriteString("local HR = io.open(SENT..\"/granted.txt\", \"r\")\n")
		case aHW:
			sb.WriteString("local HW = io.open(SENT..\"/grantedw.txt\", \"w\")\n")
		case aCO:
			sb.WriteString("local CO = coroutine.create(function() end)\n")
		}
	}
	args := strings.Join(as, ", ")
	var call string
	switch sp {
	case 0:
		call = "local r = {f(" + args + ")}"
	case 1:
		call = "return f(" + args + ")"
	case 2:
		call = "return pcall(f" + map[bool]string{true: ", ", false: ""}[args != ""] + args + ")"
	case 3:
		call = "-- subject = first argument (string: debug.setmetatable(\"\", {__index=f}); table: setmetatable) or a proxy table\n  return SUBJECT[" + args + "]  -- __index = f"
	case 4:
		call = "-- subject as above with __call = f\n  return SUBJECT(" + args + ")"
	case 5:
		call = "return (" + map[bool]string{true: "nil", false: ""}[len(as) == 0] + strings.Join(as[:min(1, len(as))], "") + ") .. setmetatable({}, {__concat = f})"
	case 6:
		call = "return coroutine.wrap(function(...) return f(...) end)(" + args + ")"
	case 7:
		call = "return coroutine.wrap(f)(" + args + ")"
	case 8:
		call = "return load(\"return f(...)\", \"=c08\", \"t\", {f = f})(" + args + ")"
	case 9:
		call = "setmetatable({}, {__gc = function() print(pcall(f" + map[bool]string{true: ", ", false: ""}[args != ""] + args + ")) end})"
	case 10:
		call = "return runtime.callcontext({kill = {cpu = 100000000}}, f" + map[bool]string{true: ", ", false: ""}[args != ""] + args + ")"
	}
	fmt.Fprintf(&sb, "print(runtime.callcontext({flags = %q}, function()\n  %s\nend))", strings.Join(required.Names(), " "), call)
	return sb.String()
}

func stepsLua(expr string, st []step) string {
	for _, s := range st {
		if s.meta {
			expr = "getmetatable(" + expr + ")"
		} else if k, ok := s.key.TryString(); ok {
			expr += "." + k
		} else {
			n, _ := s.key.TryInt()
			expr += fmt.Sprintf("[%d]", n)
		}
	}
	return expr
}

// runsCases reports whether this process executes cases (worker, -case, -replay).
func runsCases() bool {
	for _, a := range os.Args[1:] {
		switch strings.TrimLeft(a, "-") {
		case "worker", "case", "replay", "straceinner", "bench":
			return true
		}
		if strings.HasPrefix(a, "-case=") || strings.HasPrefix(a, "--case=") || strings.HasPrefix(a, "-replay=") || strings.HasPrefix(a, "--replay=") {
			return true
		}
	}
	return false
}
