package main

// One fresh golua runtime plus the harness pieces living in it: the recorder
// functions, the body that spells the call, the two ways of entering a
// context.

import (
	"fmt"
	"os"
	"reflect"
	"runtime/debug"
	"strings"

	"github.com/arnodel/golua/code"
	"github.com/arnodel/golua/lib/iolib"
	rt "github.com/arnodel/golua/runtime"

	"verif/engine/host"
)

const allFlags = rt.ComplyCpuSafe | rt.ComplyMemSafe | rt.ComplyIoSafe | rt.ComplyTimeSafe

var devNull *os.File

func initStdio() {
	var err error
	devNull, err = os.OpenFile("/dev/null", os.O_RDWR, 0)
	must(err)
	// dofile()/loadfile() without argument read os.Stdin at call time.
	os.Stdin = devNull
	// Standard files of the machines are /dev/null: no 64 KiB buffer each.
	iolib.BufferedStdFiles = false
	// (a larger GC percentage is slower here: fresh pages cost more than collections)
	gc := 100
	if v := os.Getenv("C08_GC"); v != "" {
		fmt.Sscan(v, &gc)
	}
	debug.SetGCPercent(gc)
}

// declared flags and internal name of a Go function: golua keeps them in
// unexported fields; reading (not writing) them by reflection is allowed.
func declaredOf(g *rt.GoFunction) rt.ComplianceFlags {
	return rt.ComplianceFlags(reflect.ValueOf(g).Elem().FieldByName("safetyFlags").Uint())
}

func internalName(g *rt.GoFunction) string {
	e := reflect.ValueOf(g).Elem()
	return fmt.Sprintf("%s/%d/%v", e.FieldByName("name").String(), e.FieldByName("nArgs").Int(), e.FieldByName("hasEtc").Bool())
}

func flagNames(f rt.ComplianceFlags) string {
	if f == 0 {
		return "none"
	}
	return strings.Join(f.Names(), "+")
}

type machine struct {
	m *host.Machine
	r *rt.Runtime

	// recording
	marks   []string   // "B:<status>", "A:<status>", "W:<bool>"
	cb      int        // calls of the FN atom
	gotRes  bool       // res(...) was called
	ok      bool       // first value given to res
	results []rt.Value // the rest
	follow  []followUp // values obtained from the results afterwards

	cbFn    rt.Value
	body    rt.Value
	callctx rt.Value // runtime.callcontext
}

type followUp struct {
	from int // result index (0 = default input)
	vals []rt.Value
}

const bodySrc = `
local rec, res, res2, pcall, cowrap, load, rcontext, tostring, next, getmetatable, rawequal, pack, unpack, type, fread, ioread, filemt, setmetatable, callctx, error = ...
local function id(...) return ... end
local function body(sp, probe, f, tgt, w1, ...)
  local mt0
  if w1 then mt0 = getmetatable(w1) end
  if sp == 9 then
    -- the call is made by a __gc finalizer created inside the context
    local args = pack(...)
    setmetatable({}, {__gc = function()
      rec("B", tostring(rcontext()))
      local r = pack(pcall(f, unpack(args, 1, args.n)))
      res(unpack(r, 1, r.n))
      rec("A", tostring(rcontext()))
      if w1 then rec("W", tostring(next(w1) == nil and rawequal(getmetatable(w1), mt0))) end
    end})
    return
  end
  local call
  if sp == 0 then call = function(...) return id(f(...)) end
  elseif sp == 1 then call = function(...) return f(...) end
  elseif sp == 3 then call = function(...) return id(tgt[(...)]) end
  elseif sp == 4 then call = function(...) return id(tgt(...)) end
  elseif sp == 5 then call = function(...) return id((...) .. tgt) end
  elseif sp == 6 then call = function(...) return id(cowrap(function(...) return id(f(...)) end)(...)) end
  elseif sp == 7 then call = function(...) return id(cowrap(f)(...)) end
  elseif sp == 8 then call = load("return f(...)", "=c08", "t", {f = f})
  elseif sp == 10 then
    -- inside a nested context with a hard limit of its own: the flags of the
    -- enclosing context stay required (plus cpusafe, implied by the limit)
    call = function(...)
      local r = pack(callctx({kill = {cpu = 100000000}}, f, ...))
      local st = r[1].status
      if st == "error" then error(r[2], 0) end
      if st ~= "done" then error("nested context ended " .. tostring(st), 0) end
      return unpack(r, 2, r.n)
    end
  end
  rec("B", tostring(rcontext()))
  local r
  if sp == 2 then r = pack(pcall(f, ...)) else r = pack(pcall(call, ...)) end
  res(unpack(r, 1, r.n))
  rec("A", tostring(rcontext()))
  if w1 then rec("W", tostring(next(w1) == nil and rawequal(getmetatable(w1), mt0))) end
  if probe and r[1] then
    -- what the program can get out of the values it was given back, and out
    -- of the default input the call may have redirected
    for i = 2, r.n do
      local v = r[i]
      if type(v) == "function" then res2(i - 1, pcall(v))
      elseif type(v) == "userdata" and rawequal(getmetatable(v), filemt) then res2(i - 1, pcall(fread, v, "a")) end
    end
    res2(0, pcall(ioread, "a"))
  end
end
local function cb(...) rec("cb") end
return body, cb
`

// newMachine builds a fresh runtime whose standard files are /dev/null (the
// worker's real stdout is the result channel to the driver).
func newMachine() *machine {
	so, se := os.Stdout, os.Stderr
	os.Stdout, os.Stderr = devNull, devNull
	hm := host.NewMachine(false)
	os.Stdout, os.Stderr = so, se
	mc := &machine{m: hm, r: hm.R}
	r := hm.R
	// module "mod" resolves inside the sentinel
	pkg := r.GlobalEnv().Get(rt.StringValue("package")).AsTable()
	r.SetTable(pkg, rt.StringValue("path"), rt.StringValue(sent.TPL()))
	return mc
}

func (mc *machine) close() {
	defer func() { recover() }()
	mc.m.Close()
}

// global looks up a dotted name from the global environment.
func (mc *machine) global(name string) rt.Value {
	v := rt.TableValue(mc.r.GlobalEnv())
	for _, k := range strings.Split(name, ".") {
		t, ok := v.TryTable()
		if !ok {
			panic("c08 harness: no global " + name)
		}
		v = t.Get(rt.StringValue(k))
	}
	return v
}

// hostCallN calls a function outside any context (host set-up), all results.
func (mc *machine) hostCallN(f rt.Value, args ...rt.Value) (res []rt.Value, err error) {
	defer func() {
		if p := recover(); p != nil {
			err = fmt.Errorf("panic: %v", p)
		}
	}()
	term := rt.NewTerminationWith(nil, 0, true)
	if err := rt.Call(mc.r.MainThread(), f, args, term); err != nil {
		return nil, err
	}
	return term.Etc(), nil
}

func (mc *machine) hostCall1(name string, args ...rt.Value) rt.Value {
	res, err := mc.hostCallN(mc.global(name), args...)
	if err != nil || len(res) == 0 || res[0].IsNil() {
		panic(fmt.Sprintf("c08 harness: set-up call %s failed: %v %v", name, res, err))
	}
	return res[0]
}

// Compiled harness chunks are shared by all machines of the process: a code
// unit is immutable, LoadLuaUnit gives every runtime its own constants.
var (
	unitCache  = map[string]*code.Unit{}
	compilerRT *rt.Runtime
)

func (mc *machine) loadChunk(name, src string) *rt.Closure {
	u, ok := unitCache[src]
	if !ok {
		if compilerRT == nil {
			compilerRT = rt.New(nil)
		}
		var err error
		u, _, err = compilerRT.CompileLuaChunk(name, []byte(src))
		must(err)
		unitCache[src] = u
	}
	return mc.r.LoadLuaUnit(u, rt.TableValue(mc.r.GlobalEnv()))
}

// harnessHelpers are the library functions the body uses inside the context;
// they must be callable under every flag subset.
var harnessHelpers = []string{"pcall", "coroutine.wrap", "load", "runtime.context", "tostring", "next", "getmetatable", "rawequal", "runtime.callcontext", "table.pack", "table.unpack", "type"}

// prepare loads the body into the machine.
func (mc *machine) prepare(required rt.ComplianceFlags) {
	rec := rt.NewGoFunction(func(t *rt.Thread, c *rt.GoCont) (rt.Cont, error) {
		etc := c.Etc()
		if len(etc) > 0 {
			tag, _ := etc[0].TryString()
			if tag == "cb" {
				mc.cb++
			} else {
				s := ""
				if len(etc) > 1 {
					s, _ = etc[1].TryString()
				}
				mc.marks = append(mc.marks, tag+":"+s)
			}
		}
		return c.Next(), nil
	}, "c08rec", 0, true)
	res := rt.NewGoFunction(func(t *rt.Thread, c *rt.GoCont) (rt.Cont, error) {
		etc := c.Etc()
		mc.gotRes = true
		if len(etc) > 0 {
			mc.ok = rt.Truth(etc[0])
			mc.results = append([]rt.Value(nil), etc[1:]...)
		}
		return c.Next(), nil
	}, "c08res", 0, true)
	res2 := rt.NewGoFunction(func(t *rt.Thread, c *rt.GoCont) (rt.Cont, error) {
		etc := c.Etc()
		if len(etc) > 0 {
			n, _ := etc[0].TryInt()
			mc.follow = append(mc.follow, followUp{from: int(n), vals: append([]rt.Value(nil), etc[1:]...)})
		}
		return c.Next(), nil
	}, "c08res2", 0, true)
	rt.SolemnlyDeclareCompliance(allFlags, rec, res, res2)
	filemt := rt.TableValue(mc.r.RawMetatable(mc.global("io.stdout")))
	fread := filemt.AsTable().Get(rt.StringValue("__index")).AsTable().Get(rt.StringValue("read"))

	clos := mc.loadChunk("c08body", bodySrc)
	out, err := mc.hostCallN(rt.FunctionValue(clos),
		rt.FunctionValue(rec), rt.FunctionValue(res), rt.FunctionValue(res2), mc.global("pcall"), mc.global("coroutine.wrap"), mc.global("load"),
		mc.global("runtime.context"), mc.global("tostring"), mc.global("next"), mc.global("getmetatable"), mc.global("rawequal"),
		mc.global("table.pack"), mc.global("table.unpack"), mc.global("type"), fread, mc.global("io.read"), filemt, mc.global("setmetatable"), mc.global("runtime.callcontext"), mc.global("error"))
	must(err)
	mc.body, mc.cbFn = out[0], out[1]

	mc.callctx = mc.global("runtime.callcontext")
}

// enter runs body(args...) in a context requiring the flags, entered the Go
// way (RuntimeContextDef) or the Lua way (runtime.callcontext).  It returns
// the final status of that context and the text of an escaped Go panic.
func (mc *machine) enter(luaSpelling bool, required rt.ComplianceFlags, args []rt.Value) (final string, gopanic string) {
	defer func() {
		if p := recover(); p != nil {
			gopanic = fmt.Sprint(p)
			if k := strings.IndexByte(gopanic, '\n'); k >= 0 {
				gopanic = gopanic[:k]
			}
		}
	}()
	t := mc.r.MainThread()
	// (finalizer spelling, sp == 9: nothing special here.  A context that adds
	// required flags owns its finalizer pool, so the __gc function runs inside
	// it when it ends; with no required flags it runs when the runtime is
	// closed, before the sentinel is looked at - either way under at least the
	// flags of the context that created it.)
	if luaSpelling {
		// runtime.callcontext({flags = "..."}, body, args...)
		def := rt.NewTable()
		def.Set(rt.StringValue("flags"), rt.StringValue(strings.Join(required.Names(), " ")))
		term := rt.NewTerminationWith(nil, 1, false)
		cargs := append([]rt.Value{rt.TableValue(def), mc.body}, args...)
		if err := rt.Call(t, mc.callctx, cargs, term); err != nil {
			return "callcontext-error: " + err.Error(), ""
		}
		u, ok := term.Get(0).TryUserData()
		if !ok {
			return "callcontext-returned-no-context", ""
		}
		ctx, ok := u.Value().(rt.RuntimeContext)
		if !ok {
			return "callcontext-returned-no-context", ""
		}
		return ctx.Status().String(), ""
	}
	ctx, _ := t.CallContext(rt.RuntimeContextDef{RequiredFlags: required}, func() error {
		return rt.Call(t, mc.body, args, rt.NewTerminationWith(nil, 0, false))
	})
	return ctx.Status().String(), ""
}

func (mc *machine) mark(tag string) (string, bool) {
	for _, m := range mc.marks {
		if strings.HasPrefix(m, tag+":") {
			return m[len(tag)+1:], true
		}
	}
	return "", false
}
