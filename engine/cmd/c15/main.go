// C15 — Lua pattern matching: every pattern of <= N tokens over a token
// alphabet that covers every construct of manual §6.4.1 (malformed texts
// included) x every subject up to a length over a small alphabet x every init,
// through string.find / match / gmatch / gsub and through the Go level
// lib/stringlib/pattern package, against the definitional backtracking model
// in verif/engine/refpattern.
package main

import (
	"fmt"
	"os"
	"runtime"
	"runtime/debug"
	"strconv"
	"strings"

	"github.com/arnodel/golua/lib/stringlib/pattern"
	rt "github.com/arnodel/golua/runtime"

	"verif/engine/core"
	"verif/engine/host"
	ref "verif/engine/refpattern"
)

// ---------------------------------------------------------------- enumeration

// The token alphabet of DESIGN §4 C15.  A pattern is the concatenation of a
// token sequence; index 0 is the empty pattern, then all 1-token patterns, ...
var tokens = []string{"a", "b", ".", "%a", "%d", "%A", "[ab]", "[^a]", "[a-c]", "[%a-]",
	"*", "+", "-", "?", "(", ")", "()", "^", "$", "%1", "%2", "%b()", "%f[a]", "%", "[",
	// a literal byte >= 0x80 (patterns and subjects are byte strings, not text)
	"\xe9"}

// The item alphabet: whole pattern items (a single-character class with its
// quantifier), captures and a back reference.  Sequences of items reach the
// interplay of quantifier give-back, captures and back references (such as
// "(a*)%1b", six tokens) that sequences of 3-4 tokens cannot spell.
var items = []string{"a", "b", "a*", "a-", "a?", "b+", ".-", "[ab]*", "(", ")", "%1"}

func nSeqOf(al []string, maxTok int) uint64 {
	var n, p uint64 = 0, 1
	for l := 0; l <= maxTok; l++ {
		n += p
		p *= uint64(len(al))
	}
	return n
}

func seqPatternOf(al []string, i uint64) string {
	p := uint64(1)
	l := 0
	for i >= p {
		i -= p
		p *= uint64(len(al))
		l++
	}
	parts := make([]string, l)
	for k := l - 1; k >= 0; k-- {
		parts[k] = al[i%uint64(len(al))]
		i /= uint64(len(al))
	}
	return strings.Join(parts, "")
}

func nSeq(maxTok int) uint64     { return nSeqOf(tokens, maxTok) }
func seqPattern(i uint64) string { return seqPatternOf(tokens, i) }

// alphabetFor picks the subject alphabet from the constructs present in the
// pattern text: always a and b, plus the characters that the other constructs
// distinguish (3 or 4 letters in total).
func alphabetFor(pat string) string {
	if strings.Contains(pat, "\xe9") && !strings.Contains(pat, "%a") && !strings.Contains(pat, "%A") && !strings.Contains(pat, "%b") {
		// (what %a says of a byte >= 0x80 depends on the locale: such patterns
		// only get 7-bit subjects, below)
		return "a\xe9b"
	}
	if strings.Contains(pat, "%b") {
		return "ab()"
	}
	al := "ab"
	if strings.Contains(pat, "[%a-]") || strings.Contains(pat, "%-") {
		al += "-"
	}
	if strings.Contains(pat, "[a-c]") {
		al += "c"
	}
	if len(al) < 4 && (len(al) == 2 || strings.Contains(pat, "%d") || strings.Contains(pat, "%a") || strings.Contains(pat, "%A")) {
		al += "1"
	}
	return al
}

var subjCache = map[string][]string{}

// subjects returns all strings over al of length <= maxLen, shortest first.
func subjects(al string, maxLen int) []string {
	key := al + "/" + strconv.Itoa(maxLen)
	if s, ok := subjCache[key]; ok {
		return s
	}
	out := []string{""}
	prev := []string{""}
	for l := 1; l <= maxLen; l++ {
		var cur []string
		for _, p := range prev {
			for i := 0; i < len(al); i++ {
				cur = append(cur, p+al[i:i+1])
			}
		}
		out = append(out, cur...)
		prev = cur
	}
	subjCache[key] = out
	return out
}

// ---------------------------------------------------------------- real side

type env struct {
	m                         *host.Machine
	find, match, gmatch, gsub rt.Value
	tbl, fn, gmcount          rt.Value
}

const setupSrc = `
__c15_t = { a = "X", b = false, ab = 7, [""] = "E", [1] = "one", [2] = 22, ba = "" }
__c15_f = function(...)
  emit(...)
  local c = ...
  if c == "" then return false end
  if c == "a" then return nil end
  if c == "b" then return "" end
  if math.type(c) == "integer" then return c * 10 end
  return "[" .. c .. "]"
end
__c15_gmcount = function(s, p)
  local n = 0
  for _ in string.gmatch(s, p) do n = n + 1 end
  return n
end
`

// The Go mirror of __c15_t and __c15_f (written from the Lua text above).
func tblLookup(args []ref.Val) (string, bool) {
	k := args[0]
	if k.K == 'i' {
		switch k.I {
		case 1:
			return "one", true
		case 2:
			return "22", true
		}
		return "", false
	}
	switch k.S {
	case "a":
		return "X", true
	case "ab":
		return "7", true
	case "":
		return "E", true
	case "ba":
		return "", true
	}
	return "", false // absent (nil) or false
}

func fnLookup(args []ref.Val) (string, bool) {
	c := args[0]
	if c.K == 'i' {
		return strconv.Itoa(c.I * 10), true
	}
	switch c.S {
	case "", "a":
		return "", false
	case "b":
		return "", true
	}
	return "[" + c.S + "]", true
}

func newEnv() *env {
	m := host.NewMachine(false)
	if o := m.Exec("setup", setupSrc, nil, nil); o.Status != "ok" {
		panic("c15 setup chunk: " + o.String())
	}
	g := func(path ...string) rt.Value {
		v := rt.TableValue(m.R.GlobalEnv())
		for _, p := range path {
			v = v.AsTable().Get(rt.StringValue(p))
		}
		if v.IsNil() {
			panic("c15: missing global " + strings.Join(path, "."))
		}
		return v
	}
	return &env{m: m,
		find: g("string", "find"), match: g("string", "match"), gmatch: g("string", "gmatch"), gsub: g("string", "gsub"),
		tbl: g("__c15_t"), fn: g("__c15_f"), gmcount: g("__c15_gmcount")}
}

var shared *env

// sh returns the per-process machine.  Patterns are pure, so nothing can leak
// from one case to the next; the machine is replaced after a Go panic.
func sh() *env {
	if shared == nil {
		shared = newEnv()
	}
	shared.m.Trace = shared.m.Trace[:0]
	return shared
}

type res struct {
	status string // ok | err | gopanic
	vals   []rt.Value
	err    string
}

func (e *env) call(f rt.Value, args ...rt.Value) (r res) {
	defer func() {
		if p := recover(); p != nil {
			r = res{status: "gopanic", err: firstLine(fmt.Sprint(p))}
			shared = nil // do not reuse a runtime a panic went through
		}
	}()
	term := rt.NewTerminationWith(nil, 0, true)
	if err := rt.Call(e.m.R.MainThread(), f, args, term); err != nil {
		return res{status: "err", err: firstLine(err.Error())}
	}
	return res{status: "ok", vals: term.Etc()}
}

func firstLine(s string) string {
	if k := strings.IndexByte(s, '\n'); k >= 0 {
		s = s[:k]
	}
	if len(s) > 200 {
		s = s[:200]
	}
	return s
}

func sv(s string) rt.Value { return rt.StringValue(s) }
func iv(i int) rt.Value    { return rt.IntValue(int64(i)) }

func eqVal(g rt.Value, w ref.Val) bool {
	switch w.K {
	case 's':
		return g.Type() == rt.StringType && g.AsString() == w.S
	case 'i':
		return g.Type() == rt.IntType && g.AsInt() == int64(w.I)
	}
	return g.IsNil()
}

func eqVals(g []rt.Value, w []ref.Val) bool {
	if len(g) != len(w) {
		return false
	}
	for i := range g {
		if !eqVal(g[i], w[i]) {
			return false
		}
	}
	return true
}

func showVal(v rt.Value) string {
	switch v.Type() {
	case rt.NilType:
		return "nil"
	case rt.IntType:
		return "i:" + strconv.FormatInt(v.AsInt(), 10)
	case rt.StringType:
		return "s:" + strconv.Quote(v.AsString())
	case rt.BoolType:
		return fmt.Sprint(v.AsBool())
	case rt.FloatType:
		return host.FloatStr(v.AsFloat())
	}
	return "<" + v.TypeName() + ">"
}

func showVals(vs []rt.Value) string {
	out := make([]string, len(vs))
	for i, v := range vs {
		out[i] = showVal(v)
	}
	return "(" + strings.Join(out, ", ") + ")"
}

func showRef(vs []ref.Val) string {
	out := make([]string, len(vs))
	for i, v := range vs {
		out[i] = v.Canon()
	}
	return "(" + strings.Join(out, ", ") + ")"
}

func (r res) String() string {
	if r.status == "ok" {
		return "ok " + showVals(r.vals)
	}
	return r.status + " " + r.err
}

// ---------------------------------------------------------------- accumulator

// acc collects the violations of one case.  Per (operation, input class,
// clause) only the first failing input is reported; inputs are visited
// simplest first, so that one is a minimal one for the pattern.
type acc struct {
	seen  map[string]bool
	viols []*core.Violation
	h     uint64
	evals uint64
}

func newAcc() *acc { return &acc{seen: map[string]bool{}, h: 14695981039346656037} }

func (a *acc) mixS(s string) {
	for i := 0; i < len(s); i++ {
		a.h = (a.h ^ uint64(s[i])) * 1099511628211
	}
	a.h = (a.h ^ 0xff) * 1099511628211
}

func (a *acc) mixR(r res) {
	a.evals++
	a.mixS(r.status)
	for _, v := range r.vals {
		switch v.Type() {
		case rt.StringType:
			a.mixS(v.AsString())
		case rt.IntType:
			a.h = (a.h ^ uint64(v.AsInt())) * 1099511628211
		default:
			a.mixS("~")
		}
	}
}

func (a *acc) fail(bucket, key string, detail func() string) {
	if a.seen[bucket] {
		return
	}
	a.seen[bucket] = true
	a.viols = append(a.viols, &core.Violation{Key: key, Detail: detail()})
}

func (a *acc) outcome(nontrivial bool) core.Outcome {
	o := core.Outcome{NonTrivial: nontrivial, Sig: a.h, Trans: a.evals}
	if o.Sig == 0 {
		o.Sig = 1
	}
	if len(a.viols) > 0 {
		o.Viol = a.viols[0]
		o.Viols = a.viols[1:]
	}
	return o
}

func initStr(hasInit bool, init int) string {
	if !hasInit {
		return "none"
	}
	return strconv.Itoa(init)
}

// initKey is initStr for violation keys: an init beyond len+1 (no position
// of the subject) is marked, being a class of input of its own.
func initKey(hasInit bool, init, n int) string {
	if hasInit && init > n+1 {
		return "past-end:" + strconv.Itoa(init)
	}
	return initStr(hasInit, init)
}

// statusClause names the clause violated by a non-ok status.
func statusClause(st string) string {
	if st == "gopanic" {
		return "gopanic"
	}
	return "error-on-valid-pattern"
}

// ---------------------------------------------------------------- the battery

var lenientSubjects = []string{"", "a", "ab", "(a)1"}

// checkPattern runs the whole battery for one pattern text.
func checkPattern(pat string, maxLen int, al string, a *acc) {
	p := ref.Parse(pat)
	switch p.Verdict() {
	case "ok":
		for _, s := range subjects(al, maxLen) {
			checkSubject(p, s, a)
		}
	case "malformed":
		checkLenient(pat, true, a)
	default:
		checkLenient(pat, false, a)
	}
}

// checkLenient: a malformed pattern must never produce a match nor a Go panic
// (an error is what golua gives; a lazy implementation that never reaches the
// malformed part may also report "no match"); a pattern to which the manual
// gives no meaning may do anything but panic.
func checkLenient(pat string, malformed bool, a *acc) {
	class := "unspecified"
	if malformed {
		class = "malformed"
	}
	for _, s := range lenientSubjects {
		judge := func(op string, r res, nomatch bool) {
			a.mixR(r)
			a.mixS(r.err)
			switch {
			case r.status == "gopanic":
				a.fail(op+"/gopanic", fmt.Sprintf("%s %s pat=%q subj=%q clause=gopanic", op, class, pat, s),
					func() string { return fmt.Sprintf("string.%s(%q, %q ...) ended in a Go panic: %s", op, s, pat, r.err) })
			case malformed && r.status == "ok" && !nomatch:
				a.fail(op+"/accepted", fmt.Sprintf("%s malformed pat=%q subj=%q clause=match-on-malformed", op, pat, s),
					func() string {
						return fmt.Sprintf("string.%s(%q, %q ...) reports a match for a malformed pattern: %s", op, s, pat, r)
					})
			}
		}
		e := sh()
		r := e.call(e.find, sv(s), sv(pat))
		judge("find", r, r.status == "ok" && len(r.vals) == 1 && r.vals[0].IsNil())
		e = sh()
		r = e.call(e.match, sv(s), sv(pat))
		judge("match", r, r.status == "ok" && len(r.vals) == 1 && r.vals[0].IsNil())
		e = sh()
		r = e.call(e.gsub, sv(s), sv(pat), sv("x"))
		judge("gsub", r, r.status == "ok" && len(r.vals) == 2 && eqVal(r.vals[0], ref.Str(s)) && eqVal(r.vals[1], ref.Int(0)))
		e = sh()
		r = e.call(e.gmatch, sv(s), sv(pat))
		if r.status == "ok" && len(r.vals) >= 1 {
			r = e.call(r.vals[0])
		}
		judge("gmatch", r, r.status == "ok" && len(r.vals) >= 1 && r.vals[0].IsNil())
	}
}

type gsubVariant struct {
	name string // goes into the key
	kind byte   // 's' 't' 'f'
	repl string
	hasN bool
	n    int
	need int // captures the replacement string refers to
}

var gsubVariants = []gsubVariant{
	{"s:<%0>", 's', "<%0>", false, 0, 0},
	{"s:[%1]", 's', "[%1]", false, 0, 1},
	{"s:%2%1", 's', "%2%1", false, 0, 2},
	{"s:", 's', "", false, 0, 0},
	{"s:x%%", 's', "x%%", false, 0, 0},
	{"s:<%0>", 's', "<%0>", true, 0, 0},
	{"s:<%0>", 's', "<%0>", true, 1, 0},
	{"s:<%0>", 's', "<%0>", true, 2, 0},
	{"s:<%0>", 's', "<%0>", true, 3, 0},
	{"table", 't', "", false, 0, 0},
	{"table", 't', "", true, 1, 0},
	{"function", 'f', "", false, 0, 0},
	{"function", 'f', "", true, 2, 0},
}

func checkSubject(p *ref.Pattern, s string, a *acc) {
	pat := p.Src
	x := p.On(s)
	n := len(s)
	pv, sval := sv(pat), sv(s)
	anch := ""
	if p.Anchor {
		anch = "^"
	}

	// ---- find and match, every init
	for k := -n - 2; k <= n+2; k++ {
		hasInit := k >= -n-1
		init := k
		if !hasInit {
			init = 1
		}
		args := []rt.Value{sval, pv}
		if hasInit {
			args = append(args, iv(init))
		}
		pe := ""
		if hasInit && init > n+1 {
			pe = "past-end/"
		}
		e := sh()
		r := e.call(e.find, args...)
		a.mixR(r)
		want := x.Find(init)
		if r.status != "ok" {
			cl := statusClause(r.status)
			a.fail("find/"+pe+cl, fmt.Sprintf("find%s pat=%q subj=%q init=%s clause=%s", anch, pat, s, initKey(hasInit, init, n), cl),
				func() string {
					return fmt.Sprintf("string.find(%q, %q, %s)\nexpected: ok %s\nobserved: %s", s, pat, initStr(hasInit, init), showRef(want), r)
				})
		} else if !eqVals(r.vals, want) {
			cl := "captures"
			if len(r.vals) < 2 || len(want) < 2 || !eqVal(r.vals[0], want[0]) || !eqVal(r.vals[1], want[1]) {
				cl = "span"
			}
			a.fail("find/"+pe+cl, fmt.Sprintf("find%s pat=%q subj=%q init=%s clause=%s", anch, pat, s, initKey(hasInit, init, n), cl),
				func() string {
					return fmt.Sprintf("string.find(%q, %q, %s)\nexpected: ok %s\nobserved: %s", s, pat, initStr(hasInit, init), showRef(want), r)
				})
		}

		e = sh()
		r = e.call(e.match, args...)
		a.mixR(r)
		want = x.Match(init)
		if r.status != "ok" {
			cl := statusClause(r.status)
			a.fail("match/"+pe+cl, fmt.Sprintf("match%s pat=%q subj=%q init=%s clause=%s", anch, pat, s, initKey(hasInit, init, n), cl),
				func() string {
					return fmt.Sprintf("string.match(%q, %q, %s)\nexpected: ok %s\nobserved: %s", s, pat, initStr(hasInit, init), showRef(want), r)
				})
		} else if !eqVals(r.vals, want) {
			a.fail("match/"+pe+"result", fmt.Sprintf("match%s pat=%q subj=%q init=%s clause=result", anch, pat, s, initKey(hasInit, init, n)),
				func() string {
					return fmt.Sprintf("string.match(%q, %q, %s)\nexpected: ok %s\nobserved: %s", s, pat, initStr(hasInit, init), showRef(want), r)
				})
		}
	}

	// ---- gmatch, every init (a leading '^' is left open by the manual)
	if !p.Anchor {
		for k := -n - 2; k <= n+2; k++ {
			hasInit := k >= -n-1
			init := k
			if !hasInit {
				init = 1
			}
			args := []rt.Value{sval, pv}
			if hasInit {
				args = append(args, iv(init))
			}
			want := x.Gmatch(init)
			var got [][]rt.Value
			e := sh()
			r := e.call(e.gmatch, args...)
			a.mixR(r)
			bad := ""
			if r.status == "ok" && (len(r.vals) < 1 || r.vals[0].Type() != rt.FunctionType) {
				bad = "gmatch did not return a function: " + r.String()
			}
			if r.status == "ok" && bad == "" {
				it := r.vals[0]
				for {
					r = e.call(it)
					a.mixR(r)
					if r.status != "ok" {
						break
					}
					if len(r.vals) == 0 || r.vals[0].IsNil() {
						break
					}
					got = append(got, r.vals)
					if len(got) > n+2 {
						bad = "iterator produced more matches than the subject has positions"
						break
					}
				}
			}
			show := func() string {
				var w, g []string
				for _, v := range want {
					w = append(w, showRef(v))
				}
				for _, v := range got {
					g = append(g, showVals(v))
				}
				return fmt.Sprintf("for ... in string.gmatch(%q, %q, %s)\nexpected sequence: %s\nobserved sequence: %s\nlast call: %s %s",
					s, pat, initStr(hasInit, init), strings.Join(w, " "), strings.Join(g, " "), r, bad)
			}
			if r.status != "ok" {
				cl := statusClause(r.status)
				a.fail("gmatch/"+cl, fmt.Sprintf("gmatch pat=%q subj=%q init=%s clause=%s", pat, s, initKey(hasInit, init, n), cl), show)
				continue
			}
			same := bad == "" && len(got) == len(want)
			for i := 0; same && i < len(got); i++ {
				same = eqVals(got[i], want[i])
			}
			if !same {
				a.fail("gmatch/sequence", fmt.Sprintf("gmatch pat=%q subj=%q init=%s clause=sequence", pat, s, initKey(hasInit, init, n)), show)
			}
		}
	}

	// ---- gsub
	adj := 0
	if !p.Anchor {
		if hasAdjacent(x) {
			adj = 1
		}
	}
	for _, v := range gsubVariants {
		if v.kind == 's' && !ref.ReplStringOK(v.repl, p.NCap) {
			continue // replacement refers to a capture the pattern does not have
		}
		var replV rt.Value
		rp := ref.Repl{Kind: v.kind, S: v.repl}
		switch v.kind {
		case 's':
			replV = sv(v.repl)
		case 't':
			rp.Lookup = tblLookup
		case 'f':
			rp.Lookup = fnLookup
		}
		e := sh()
		switch v.kind {
		case 't':
			replV = e.tbl
		case 'f':
			replV = e.fn
		}
		args := []rt.Value{sval, pv, replV}
		if v.hasN {
			args = append(args, iv(v.n))
		}
		r := e.call(e.gsub, args...)
		a.mixR(r)
		wantS, wantN, calls, emptyOut := x.GsubX(rp, v.hasN, v.n)
		eo := 0
		if emptyOut {
			eo = 1
		}
		op := "gsub" + anch
		if v.hasN {
			op = "gsub-n" + anch
		}
		nstr := "none"
		if v.hasN {
			nstr = strconv.Itoa(v.n)
		}
		key := func(cl string) string {
			return fmt.Sprintf("%s pat=%q subj=%q repl=%s n=%s adj=%d eo=%d clause=%s", op, pat, s, v.name, nstr, adj, eo, cl)
		}
		kind := v.name
		if v.kind == 's' {
			kind = "s"
		}
		bucket := fmt.Sprintf("%s/%s/%d/%d/", op, kind, adj, eo)
		var trace []string
		if v.kind == 'f' {
			trace = append(trace, e.m.Trace...)
		}
		show := func() string {
			var cs []string
			for _, c := range calls {
				cs = append(cs, showRef(c))
			}
			return fmt.Sprintf("string.gsub(%q, %q, %s, %s)\nexpected: ok (s:%q, i:%d) replacement calls/queries %s\nobserved: %s function calls %v",
				s, pat, v.name, nstr, wantS, wantN, strings.Join(cs, " "), r, trace)
		}
		if r.status != "ok" {
			cl := statusClause(r.status)
			a.fail(bucket+cl, key(cl), show)
			continue
		}
		okS := len(r.vals) == 2 && eqVal(r.vals[0], ref.Str(wantS))
		okN := len(r.vals) == 2 && eqVal(r.vals[1], ref.Int(wantN))
		switch {
		case okS && okN:
		case okS:
			a.fail(bucket+"count", key("count"), show)
		case okN:
			a.fail(bucket+"result", key("result"), show)
		default:
			a.fail(bucket+"result+count", key("result+count"), show)
		}
		if v.kind == 'f' && okS && okN {
			same := len(trace) == len(calls)
			for i := 0; same && i < len(trace); i++ {
				cs := make([]string, len(calls[i]))
				for j, c := range calls[i] {
					cs[j] = c.Canon()
				}
				same = trace[i] == strings.Join(cs, ",")
			}
			if !same {
				a.fail(bucket+"calls", key("calls"), show)
			}
		}
	}
}

// hasAdjacent reports whether iterating the pattern over the subject (gsub,
// or gmatch from position 1) meets an empty match immediately after another
// match, the situation of the "Multiple matches" paragraph of §6.4.1.  It is
// a property of the input, used to name the class of input in violation keys.
func hasAdjacent(x *ref.Subject) bool {
	src, last := 0, -1
	for src <= len(x.S) {
		m := x.At(src)
		if m.OK && m.End != last {
			src, last = m.End, m.End
			continue
		}
		if m.OK && m.End == last {
			return true
		}
		src++
	}
	return false
}

// ---------------------------------------------------------------- Go API

func capsEqual(caps []pattern.Capture, pos int, m *ref.M) bool {
	if len(caps) != len(m.Caps)+1 {
		return false
	}
	if caps[0].Start() != pos || caps[0].End() != m.End {
		return false
	}
	for i, c := range m.Caps {
		g := caps[i+1]
		if c.Pos {
			if g.Start() != c.Start || !g.IsEmpty() {
				return false
			}
		} else if g.Start() != c.Start || g.End() != c.End || g.IsEmpty() {
			return false
		}
	}
	return true
}

func showCaps(caps []pattern.Capture) string {
	if caps == nil {
		return "no match"
	}
	var out []string
	for _, c := range caps {
		out = append(out, fmt.Sprintf("[%d,%d)", c.Start(), c.End()))
	}
	return strings.Join(out, " ")
}

func showM(pos int, m *ref.M) string {
	if pos < 0 {
		return "no match"
	}
	out := []string{fmt.Sprintf("[%d,%d)", pos, m.End)}
	for _, c := range m.Caps {
		if c.Pos {
			out = append(out, fmt.Sprintf("[%d,-1)", c.Start))
		} else {
			out = append(out, fmt.Sprintf("[%d,%d)", c.Start, c.End))
		}
	}
	return strings.Join(out, " ")
}

func goNew(pat string) (p *pattern.Pattern, err error, panicked string) {
	defer func() {
		if r := recover(); r != nil {
			panicked = firstLine(fmt.Sprint(r))
		}
	}()
	p, err = pattern.New(pat)
	return
}

func goMatch(p *pattern.Pattern, fromStart bool, s string, si int, budget uint64) (caps []pattern.Capture, used uint64, panicked string) {
	defer func() {
		if r := recover(); r != nil {
			panicked = firstLine(fmt.Sprint(r))
		}
	}()
	if fromStart {
		caps, used = p.MatchFromStart(s, si, budget)
	} else {
		caps, used = p.Match(s, si, budget)
	}
	return
}

const bigBudget = 1 << 40

func checkGoAPI(pat string, maxLen int, al string, a *acc) {
	rp := ref.Parse(pat)
	gp, err, pk := goNew(pat)
	a.evals++
	a.mixS(fmt.Sprint(err != nil, pk))
	if pk != "" {
		a.fail("new/gopanic", fmt.Sprintf("go-new pat=%q clause=gopanic", pat), func() string { return "pattern.New panicked: " + pk })
		return
	}
	switch rp.Verdict() {
	case "unspec":
		return
	case "malformed":
		if err == nil {
			// accepted eagerly: it must then never match
			for _, s := range lenientSubjects {
				caps, _, pk := goMatch(gp, true, s, 0, 0)
				a.evals++
				if pk != "" || len(caps) != 0 {
					a.fail("new/accepted", fmt.Sprintf("go-new pat=%q subj=%q clause=match-on-malformed", pat, s),
						func() string {
							return fmt.Sprintf("pattern.New(%q) succeeded and MatchFromStart(%q,0) = %s %s (malformed: %s)", pat, s, showCaps(caps), pk, rp.Malformed)
						})
				}
			}
		}
		return
	}
	if err != nil {
		a.fail("new/error", fmt.Sprintf("go-new pat=%q clause=error-on-valid-pattern", pat),
			func() string { return fmt.Sprintf("pattern.New(%q) = %v for a well formed pattern", pat, err) })
		return
	}
	anch := ""
	if rp.Anchor {
		anch = "^"
	}
	for _, s := range subjects(al, maxLen) {
		x := rp.On(s)
		for si := 0; si <= len(s); si++ {
			pos, m := x.Search(si)
			for _, fromStart := range []bool{true, false} {
				if !fromStart && rp.Anchor {
					continue // Match ignores the anchor; its contract for '^' is not written down
				}
				op := "go-match"
				if fromStart {
					op = "go-matchfromstart"
				}
				caps, _, pk := goMatch(gp, fromStart, s, si, 0)
				a.evals++
				a.mixS(showCaps(caps) + pk)
				show := func() string {
					return fmt.Sprintf("%s(%q).(%q, %d, 0)\nexpected: %s\nobserved: %s %s", op, pat, s, si, showM(pos, m), showCaps(caps), pk)
				}
				switch {
				case pk != "":
					a.fail(op+"/gopanic", fmt.Sprintf("%s%s pat=%q subj=%q si=%d clause=gopanic", op, anch, pat, s, si), show)
					continue
				case pos < 0 && len(caps) != 0, pos >= 0 && len(caps) == 0:
					a.fail(op+"/span", fmt.Sprintf("%s%s pat=%q subj=%q si=%d clause=span", op, anch, pat, s, si), show)
					continue
				case pos >= 0 && !capsEqual(caps, pos, m):
					cl := "captures"
					if caps[0].Start() != pos || caps[0].End() != m.End {
						cl = "span"
					}
					a.fail(op+"/"+cl, fmt.Sprintf("%s%s pat=%q subj=%q si=%d clause=%s", op, anch, pat, s, si, cl), show)
					continue
				}
				// budget: the same call with a budget just above / well below
				// what it used.
				_, used, _ := goMatch(gp, fromStart, s, si, bigBudget)
				if used == 0 {
					continue
				}
				caps2, used2, pk2 := goMatch(gp, fromStart, s, si, used+1)
				a.evals++
				if pk2 != "" || used2 != used || (pos >= 0) != (len(caps2) != 0) || pos >= 0 && !capsEqual(caps2, pos, m) {
					a.fail(op+"/budget-enough", fmt.Sprintf("%s%s pat=%q subj=%q si=%d clause=budget-sufficient", op, anch, pat, s, si), func() string {
						return fmt.Sprintf("%s(%q).(%q, %d, budget): used %d with a large budget; with budget %d: %s used %d %s", op, pat, s, si, used, used+1, showCaps(caps2), used2, pk2)
					})
				}
				if used >= 2 {
					k := used / 2
					caps3, used3, pk3 := goMatch(gp, fromStart, s, si, k)
					a.evals++
					if pk3 != "" || len(caps3) != 0 || used3 <= k {
						a.fail(op+"/budget-short", fmt.Sprintf("%s%s pat=%q subj=%q si=%d clause=budget-exceeded", op, anch, pat, s, si), func() string {
							return fmt.Sprintf("%s(%q).(%q, %d, budget): used %d with a large budget; with budget %d: %s used %d %s (expected no captures and used > budget)", op, pat, s, si, used, k, showCaps(caps3), used3, pk3)
						})
					}
				}
			}
		}
	}
}

// ---------------------------------------------------------------- curated

// Longer patterns than the exhaustive bound, each run on every subject of
// length <= 5 over its own alphabet.
var curated = []struct{ pat, al string }{
	{"(a*(.)%a(b*))", "ab1"},
	{"^(a-)(b?)%1$", "ab"},
	{"%f[%a]%a+%f[%A]", "ab1"},
	{"(()a*())", "ab"},
	{"[^%d]+", "a1-"},
	{"%b()%b()", "a()"},
	{"(%b())a?%1", "a()"},
	{"(a+)(b*)%2%1", "ab"},
	{"((a)(b))%3%2", "ab"},
	{"a-b-a-$", "ab"},
	{"^[ab]-()[^b]*()$", "abc"},
	{"(a?)(a?)(a?)%3%2%1", "ab"},
	{"[%a%d]+%-?[%d]*", "a1-"},
	{"[]a]+[^]a]", "a]b"},
	{"[a%]]+", "a]b"},
	{"[-a]+[a-]*[%-b]", "a-b"},
	{"%%+%.%$", "%.$"},
	{"a^+$*b$", "a^$b"},
	{"^^a", "a^"},
	{"$$", "a$"},
	{"(a)(a)(a)(a)(a)(a)(a)(a)(a)%9", "a"},
	{"%f[^a]b*%f[^b]", "ab"},
	{"%f[%c]%c+", "a\n\t"},
	{".-%f[b]().", "ab"},
	{"(.-)%1", "ab"},
	{"([ab]*)%1$", "ab"},
	{"%s*(%S+)%s*", "a \t"},
	{"%u%l*%p?", "Aa.1"},
	{"%x+%X", "f9g"},
	{"%w+%W*%c", "a_\n"},
	{"[%w_]+", "a_ "},
	{"[a-b][b-b][^a-b]", "abc"},
	{"()a*()b*()", "ab"},
	{"(a*)b?(a*)", "ab"},
	{"a*a*a*a*b", "ab"},
	{"a-a-a-a-b", "ab"},
	{"%b(a", "(a"},
	{"%ba(%b)a", "a()"},
}

// Malformed / not well defined texts that the token alphabet cannot spell.
var extraLenient = []string{"%f", "%fa", "%f%a", "%b", "%bx", "%0", "(%0)", "%3", "(a)(%2)", "((a)%1)", "[%", "[%a", "[a-", "[^", "[^]", "[]", "a[", "(()", "())", "(a", "a)",
	"%q", "[%q]", "%z", "[a-%a]", "[%a-z]", "[z-a]", "%bxx", "()%1", "a**", "a+?", "^*", "]", "a]", "%f[", "%f[a", "(((((((((((a)))))))))))", "(a)(a)(a)(a)(a)(a)(a)(a)(a)(a)",
	"(a)(a)(a)(a)(a)(a)(a)(a)(a)(a)%1", strings.Repeat("(", 40) + strings.Repeat(")", 40), strings.Repeat("()", 40)}

// ---------------------------------------------------------------- classes

// Every class letter of the manual (and its complement, alone and inside a
// set) against every single ASCII byte.
func checkClass(i uint64, a *acc) {
	letters := ref.ClassLetters + strings.ToUpper(ref.ClassLetters)
	forms := []string{"%s", "[%s]", "[^%s]", "[%sa]"}
	l := letters[i%uint64(len(letters))]
	form := forms[i/uint64(len(letters))]
	pat := fmt.Sprintf(form, "%"+string(l))
	p := ref.Parse(pat)
	if p.Verdict() != "ok" {
		panic("class pattern not ok: " + pat)
	}
	for c := 0; c < 128; c++ {
		s := string([]byte{byte(c)})
		e := sh()
		r := e.call(e.find, sv(s), sv(pat))
		a.mixR(r)
		want := p.On(s).Find(1)
		if r.status != "ok" || !eqVals(r.vals, want) {
			cl := "class-membership"
			if r.status == "gopanic" {
				cl = "gopanic"
			}
			a.fail("class", fmt.Sprintf("class pat=%q byte=%d clause=%s", pat, c, cl), func() string {
				return fmt.Sprintf("string.find(%q, %q)\nexpected: ok %s\nobserved: %s", s, pat, showRef(want), r)
			})
		}
	}
}

// ---------------------------------------------------------------- plain find

const plainAlpha = "ab%"

func plainNeedle(i uint64) string {
	// needles of length 0..2 over plainAlpha
	if i == 0 {
		return ""
	}
	i--
	if i < 3 {
		return plainAlpha[i : i+1]
	}
	i -= 3
	return plainAlpha[i/3:i/3+1] + plainAlpha[i%3:i%3+1]
}

func checkPlain(i uint64, maxLen int, a *acc) {
	needle := plainNeedle(i)
	for _, s := range subjects(plainAlpha, maxLen) {
		n := len(s)
		for init := -n - 1; init <= n+2; init++ {
			e := sh()
			r := e.call(e.find, sv(s), sv(needle), iv(init), rt.BoolValue(true))
			a.mixR(r)
			want := ref.PlainFind(s, needle, init)
			if r.status != "ok" || !eqVals(r.vals, want) {
				cl := "span"
				if r.status != "ok" {
					cl = statusClause(r.status)
				}
				a.fail("plain/"+cl, fmt.Sprintf("find-plain pat=%q subj=%q init=%d clause=%s", needle, s, init, cl), func() string {
					return fmt.Sprintf("string.find(%q, %q, %d, true)\nexpected: ok %s\nobserved: %s", s, needle, init, showRef(want), r)
				})
			}
		}
	}
}

// ---------------------------------------------------------------- CPU

type cpuPat struct {
	pat  string
	unit string // the subject is unit repeated n times
	ns   []int
	name string // short spelling of pat for keys ("" = pat itself)
}

func (c cpuPat) key() string {
	if c.name != "" {
		return c.name
	}
	return strconv.Quote(c.pat)
}

var cpuPats = []cpuPat{
	{"a*a*a*b", "a", []int{0, 5, 10, 20, 40, 80}, ""},
	{"a-a-a-b", "a", []int{0, 5, 10, 20, 40, 80}, ""},
	{"(a*)(a*)(a*)b", "a", []int{0, 5, 10, 20, 40}, ""},
	{".-.-.-x", "ab", []int{0, 5, 10, 20, 40}, ""},
	{"a?a?a?a?a?a?a?a?a?a?a?a?b", "a", []int{0, 2, 4, 6, 8, 10, 12}, ""},
	{"[ab]*[ab]*[ab]*c", "ab", []int{0, 5, 10, 20, 40}, ""},
	{"%f[a]a*a*a*%f[b]", "a", []int{0, 5, 10, 20, 40}, ""},
	{"(a+)a*%1b", "a", []int{0, 5, 10, 20, 40}, ""},
	{"%b()", "(", []int{0, 50, 100, 200, 400}, ""},
	{"a*", "a", []int{0, 50, 100, 200, 400}, ""},
	{"b", "a", []int{0, 250, 500, 1000, 2000}, ""},
	{"b*", "a", []int{0, 250, 500, 1000, 2000}, ""},
	{"()", "a", []int{0, 250, 500, 1000, 2000}, ""},
	{"%f[b]", "a", []int{0, 250, 500, 1000, 2000}, ""},
	{strings.Repeat("b?", 40) + "c", "a", []int{0, 250, 500, 1000, 2000}, `"b?"x40+"c"`},
	{strings.Repeat("b-", 40) + "c", "a", []int{0, 250, 500, 1000, 2000}, `"b-"x40+"c"`},
	{strings.Repeat("()", 9) + strings.Repeat("%f[a]", 40) + "c", "a", []int{0, 250, 500, 1000, 2000}, `"()"x9+"%f[a]"x40+"c"`},
	{"a*b", "a", []int{0, 250, 500, 1000, 2000}, ""},
	{"a+", "a", []int{0, 250, 500, 1000, 2000}, ""},
	{"b*()a*$", "a", []int{0, 250, 500, 1000, 2000}, ""},
}

var cpuOps = []string{"find", "match", "gmatch", "gsub"}
var cpuLimits = []uint64{100, 1000, 10000, 100000}

const cpuBig = 1 << 40

func runCPU(e *env, op, s, pat string, limit uint64) host.Obs {
	var f rt.Value
	args := []rt.Value{sv(s), sv(pat)}
	switch op {
	case "find":
		f = e.find
	case "match":
		f = e.match
	case "gmatch":
		f = e.gmcount
	case "gsub":
		f = e.gsub
		args = append(args, sv(""))
	}
	e.m.Trace = e.m.Trace[:0]
	return e.m.Call(f, args, &rt.RuntimeContextDef{HardLimits: rt.RuntimeResources{Cpu: limit}})
}

// refWork is the number of matcher steps the definitional model needs to try
// the pattern at every position of the subject.
func refWork(p *ref.Pattern, s string) uint64 {
	var w uint64
	x := p.On(s)
	for pos := 0; pos <= len(s); pos++ {
		w += uint64(x.At(pos).Steps)
	}
	return w
}

// necessaryWork is a lower bound on what ANY correct implementation has to do
// for the call, in subject positions: a search that fails has to rule out every
// start position (len+1 of them); a search that succeeds has to rule out the
// start positions before the match and to look at the bytes inside the match it
// reports (start index + span length); gmatch and gsub walk the whole subject.
// The model's step counter is NOT such a bound (it also counts positions that
// a search stopping at its first match never tries), so it is only shown.
func necessaryWork(p *ref.Pattern, s, op string) uint64 {
	if op == "gmatch" || op == "gsub" {
		return uint64(len(s))
	}
	pos, m := p.On(s).Search(0)
	if pos < 0 {
		if p.Anchor {
			return 1
		}
		return uint64(len(s) + 1)
	}
	return uint64(pos + (m.End - pos))
}

func checkCPU(i uint64, a *acc) {
	cp := cpuPats[i/uint64(len(cpuOps))]
	op := cpuOps[i%uint64(len(cpuOps))]
	p := ref.Parse(cp.pat)
	if p.Verdict() != "ok" {
		panic("cpu pattern not ok: " + cp.pat)
	}
	e := newEnv()
	defer func() { e.m.Close() }()
	used := make([]uint64, len(cp.ns))
	work := make([]uint64, len(cp.ns))
	need := make([]uint64, len(cp.ns))
	for j, n := range cp.ns {
		s := strings.Repeat(cp.unit, n)
		work[j] = refWork(p, s)
		need[j] = necessaryWork(p, s, op)
		o := runCPU(e, op, s, cp.pat, cpuBig)
		a.evals++
		a.mixS(fmt.Sprint(o.Status, o.UsedCPU))
		used[j] = o.UsedCPU
		if o.Status != "ok" {
			n := n
			a.fail("big", fmt.Sprintf("cpu op=%s pat=%s unit=%q n=%d limit=none clause=status", op, cp.key(), cp.unit, n), func() string {
				return fmt.Sprintf("string.%s on %q x %d with a huge CPU limit: %s", op, cp.unit, n, o)
			})
			if o.Status != "err" {
				e.m.Close()
				e = newEnv()
			}
			continue
		}
		if op == "find" || op == "match" {
			x := p.On(s)
			want := x.Find(1)
			if op == "match" {
				want = x.Match(1)
			}
			ws := make([]string, len(want))
			for i, w := range want {
				ws[i] = w.Canon()
			}
			if strings.Join(ws, ",") != strings.Join(o.Results, ",") {
				a.fail("result", fmt.Sprintf("cpu op=%s pat=%s unit=%q n=%d limit=none clause=result", op, cp.key(), cp.unit, n), func() string {
					return fmt.Sprintf("string.%s(%q x %d, %q): expected %s, observed %s", op, cp.unit, n, cp.pat, showRef(want), o)
				})
			}
		}
		if o.UsedCPU == 0 {
			a.fail("zero", fmt.Sprintf("cpu op=%s pat=%s unit=%q n=%d limit=none clause=used-zero", op, cp.key(), cp.unit, n), func() string {
				return fmt.Sprintf("string.%s on %q x %d inside a CPU limited context reports UsedCPU = 0", op, cp.unit, n)
			})
		}
		for _, k := range cpuLimits {
			o := runCPU(e, op, s, cp.pat, k)
			a.evals++
			a.mixS(fmt.Sprint(o.Status, o.UsedCPU))
			key := func(cl string) string {
				return fmt.Sprintf("cpu op=%s pat=%s unit=%q n=%d limit=%d clause=%s", op, cp.key(), cp.unit, n, k, cl)
			}
			det := func() string {
				return fmt.Sprintf("string.%s(%q x %d, %q) under {cpu=%d}: status %s, UsedCPU %d (UsedCPU with a huge limit: %d; model matcher steps: %d)\n%s",
					op, cp.unit, n, cp.pat, k, o.Status, o.UsedCPU, used[j], work[j], o.Err)
			}
			switch o.Status {
			case "ok":
				if o.UsedCPU > k {
					a.fail("over", key("ok-but-over-limit"), det)
				}
			case "killed":
				if used[j] < k/2 {
					a.fail("spurious", key("killed-far-below-limit"), det)
				}
				e.m.Close()
				e = newEnv()
			default:
				a.fail("st", key("status"), det)
				e.m.Close()
				e = newEnv()
			}
		}
	}
	// Metering, qualitatively: when the work that any correct matcher has to
	// do (necessaryWork) grows by at least 1000 subject positions from the
	// shortest to the longest subject, the CPU charged must grow at all.
	last := len(cp.ns) - 1
	if need[last] >= need[0]+1000 && used[last] <= used[0] {
		a.fail("unmetered", fmt.Sprintf("cpu op=%s pat=%s unit=%q clause=unmetered", op, cp.key(), cp.unit), func() string {
			return fmt.Sprintf("string.%s(%q x n, %q): n=%v necessary work (start positions ruled out + bytes in the match)=%v but UsedCPU=%v: the work is not charged (model steps, for information: %v)",
				op, cp.unit, cp.pat, cp.ns, need, used, work)
		})
	}
}

// ---------------------------------------------------------------- main

type bounds struct {
	tok, subj      int // exhaustive family
	tok2, subj2    int // fewer tokens, longer subjects
	tok3, subj3    int // more tokens, shorter subjects (0 = family absent)
	curSubj, plain int
	// sequences of whole items (see items): bounds for the Lua level and for
	// the Go API of the pattern package, subject length
	itemLua, itemGo, itemSubj int
}

func boundsFor(tier string) bounds {
	if tier == "thorough" {
		return bounds{tok: 3, subj: 5, tok2: 2, subj2: 6, tok3: 4, subj3: 3, curSubj: 6, plain: 5, itemLua: 5, itemGo: 6, itemSubj: 5}
	}
	return bounds{tok: 3, subj: 3, tok2: 2, subj2: 5, curSubj: 4, plain: 4, itemLua: 4, itemGo: 5, itemSubj: 4}
}

// tune: every library call allocates a few small objects on a tiny live heap,
// so the default GC pacing would collect thousands of times per second on
// every core.  A ballast makes a cycle start only after ~100 MB of garbage;
// each worker process is kept to two threads (16 workers run side by side).
func tune() {
	runtime.GOMAXPROCS(2)
	ballast = make([]byte, 96<<20) // pointer free: costs nothing to mark
	debug.SetGCPercent(100)
}

var ballast []byte

func main() {
	tune()
	core.Main(&core.Check{
		ID:    "C15",
		Level: "model_checking",
		Rule: "every pattern of <= N tokens over the 26-token alphabet of DESIGN §4 C15 and every pattern of <= M items over an 11-item alphabet (quantified single characters, captures, a back reference) (malformed and unspecified texts included) x every subject of length <= L over a 3-4 letter alphabet chosen from the pattern's constructs x every init in -len-1..len+2 (and omitted), " +
			"through string.find, string.match, string.gmatch (whole iteration sequence) and string.gsub (string/table/function replacement, %0..%2, n limits; result and count), and through pattern.New/MatchFromStart/Match; " +
			"one evaluation = one pattern with all its subjects (transitions = library calls); non-trivial = the manual determines the outcome; distinct = distinct observation vectors",
		Assumptions: []string{
			"reference matcher refpattern typed from Lua 5.4 manual §6.4.1 (recursive backtracking over items, alternatives in the order the manual gives), drivers from §6.4 including the 'Multiple matches' rule",
			"patterns to which the manual gives no meaning (stray quantifier, %f without [, %bxx, class as range end, descending range, %<alnum> that is no class, back reference to a position capture) are only required not to panic",
			"malformed patterns are required to raise an error or report no match (a lazy implementation never reaches the malformed part), never a match, never a Go panic; error messages are not compared",
			"gmatch with a pattern starting with '^' is skipped (the manual only says it does not anchor)",
			"init = 0 and init < -len are read as position 1, init > len+1 as 'no match' (the only positions §6.4 defines)",
			"subjects are ASCII only; character classes are those of the C locale",
			"CPU: qualitative only (ok => used <= limit; killed => the unlimited run used >= limit/2; when the work any correct matcher must do - start positions ruled out + bytes inside the reported match, whole subject for gmatch/gsub - grows by >= 1000 positions, used CPU must grow)",
		},
		Families: func(tier string) []*core.Family {
			b := boundsFor(tier)
			var fams []*core.Family
			var tokFamOf func(al []string, name string, maxTok, maxLen int, goapi bool)
			tokFam := func(name string, maxTok, maxLen int, goapi bool) { tokFamOf(tokens, name, maxTok, maxLen, goapi) }
			tokFamOf = func(al []string, name string, maxTok, maxLen int, goapi bool) {
				// On an idle 16 core box every family ends well inside its
				// budget; the caps bound the worst case of a loaded box to the
				// tier budget (a capped family is reported exhaustive:false).
				budget := 300
				if goapi {
					budget = 100
				}
				if tier != "thorough" {
					budget = 80
					if goapi {
						budget = 40
					}
				}
				if len(al) == len(items) {
					budget *= 3 // the largest families of the tier
				}
				if os.Getenv("C15_NOBUDGET") != "" {
					budget = 0 // complete run on a box that is known to be slow
				}
				fams = append(fams, &core.Family{
					Name: name, Size: nSeqOf(al, maxTok), BudgetSeconds: budget,
					Run: func(i uint64) core.Outcome {
						pat := seqPatternOf(al, i)
						a := newAcc()
						if goapi {
							checkGoAPI(pat, maxLen, alphabetFor(pat), a)
						} else {
							checkPattern(pat, maxLen, alphabetFor(pat), a)
						}
						return a.outcome(ref.Parse(pat).Verdict() != "unspec")
					},
					Show: func(i uint64) string {
						pat := seqPatternOf(al, i)
						p := ref.Parse(pat)
						return fmt.Sprintf("pattern %q (%s %s%s) x subjects of length <= %d over %q", pat, p.Verdict(), p.Malformed, p.Unspec, maxLen, alphabetFor(pat))
					},
				})
			}
			tokFam("lua-tokens", b.tok, b.subj, false)
			tokFam("lua-tokens-long-subjects", b.tok2, b.subj2, false)
			if b.tok3 > 0 {
				tokFam("lua-tokens-short-subjects", b.tok3, b.subj3, false)
			}
			tokFam("goapi-tokens", b.tok, b.subj, true)
			tokFam("goapi-tokens-long-subjects", b.tok2, b.subj2, true)
			if b.tok3 > 0 {
				tokFam("goapi-tokens-short-subjects", b.tok3, b.subj3, true)
			}
			tokFamOf(items, "lua-items", b.itemLua, b.itemSubj, false)
			tokFamOf(items, "goapi-items", b.itemGo, b.itemSubj, true)
			fams = append(fams, &core.Family{
				Name: "lua-curated", Size: uint64(len(curated)),
				Run: func(i uint64) core.Outcome {
					c := curated[i]
					if v := ref.Parse(c.pat).Verdict(); v != "ok" {
						panic("curated pattern " + c.pat + " is " + v)
					}
					a := newAcc()
					checkPattern(c.pat, b.curSubj, c.al, a)
					return a.outcome(true)
				},
				Show: func(i uint64) string {
					return fmt.Sprintf("pattern %q x subjects of length <= %d over %q", curated[i].pat, b.curSubj, curated[i].al)
				},
			})
			fams = append(fams, &core.Family{
				Name: "goapi-curated", Size: uint64(len(curated)),
				Run: func(i uint64) core.Outcome {
					a := newAcc()
					checkGoAPI(curated[i].pat, b.curSubj, curated[i].al, a)
					return a.outcome(true)
				},
				Show: func(i uint64) string {
					return fmt.Sprintf("pattern %q x subjects of length <= %d over %q", curated[i].pat, b.curSubj, curated[i].al)
				},
			})
			fams = append(fams, &core.Family{
				Name: "malformed-curated", Size: uint64(len(extraLenient)),
				Run: func(i uint64) core.Outcome {
					pat := extraLenient[i]
					v := ref.Parse(pat).Verdict()
					if v == "ok" {
						panic("extraLenient pattern " + pat + " is well formed")
					}
					a := newAcc()
					checkLenient(pat, v == "malformed", a)
					checkGoAPI(pat, 0, "a", a)
					return a.outcome(v == "malformed")
				},
				Show: func(i uint64) string {
					p := ref.Parse(extraLenient[i])
					return fmt.Sprintf("pattern %q (%s %s%s)", extraLenient[i], p.Verdict(), p.Malformed, p.Unspec)
				},
			})
			fams = append(fams, &core.Family{
				Name: "classes", Size: uint64(4 * 2 * len(ref.ClassLetters)),
				Run: func(i uint64) core.Outcome {
					a := newAcc()
					checkClass(i, a)
					return a.outcome(true)
				},
				Show: func(i uint64) string { return fmt.Sprintf("class case %d x every byte 0..127", i) },
			})
			fams = append(fams, &core.Family{
				Name: "find-plain", Size: 13,
				Run: func(i uint64) core.Outcome {
					a := newAcc()
					checkPlain(i, b.plain, a)
					return a.outcome(true)
				},
				Show: func(i uint64) string {
					return fmt.Sprintf("string.find(s, %q, init, true) x subjects of length <= %d over %q x every init", plainNeedle(i), b.plain, plainAlpha)
				},
			})
			fams = append(fams, &core.Family{
				Name: "cpu", Size: uint64(len(cpuPats) * len(cpuOps)),
				Run: func(i uint64) core.Outcome {
					a := newAcc()
					checkCPU(i, a)
					return a.outcome(true)
				},
				Show: func(i uint64) string {
					cp := cpuPats[i/uint64(len(cpuOps))]
					return fmt.Sprintf("string.%s(%q x n, %q) n in %v under cpu limits %v and unlimited", cpuOps[i%uint64(len(cpuOps))], cp.unit, cp.pat, cp.ns, cpuLimits)
				},
			})
			return fams
		},
	})
}
