package main

import (
	"bufio"
	"fmt"
	"os"

	"verif/engine/host"
)

func main() {
	sc := bufio.NewScanner(os.Stdin)
	for sc.Scan() {
		src := sc.Text()
		if src == "" {
			continue
		}
		o := host.Run("return "+src, host.Opts{CPU: 10000000})
		fmt.Printf("%-50s => %s cpu=%d\n", src, o.String(), o.UsedCPU)
	}
}
