package main

import (
	"bufio"
	"fmt"
	"os"

	"verif/engine/host"
)

func main() {
	sc := bufio.NewScanner(os.Stdin)
	for sc.Scan() {
		src := sc.Text()
		if src == "" {
			continue
		}
		o := host.Run("return "+src, host.Opts{CPU: cpuLimit()})
		fmt.Printf("%-50s => %s cpu=%d\n", src, o.String(), o.UsedCPU)
	}
}

func cpuLimit() uint64 {
	var k uint64 = 10000000
	fmt.Sscan(os.Getenv("PROBE_CPU"), &k)
	return k
}
