package main

// The real-golua side of the check: a fresh runtime per run, host callbacks
// that log every tick()/emit() together with the CPU accounting state of the
// context chain at that instant, compile-once/load-many, and the clean-up of
// coroutines left suspended by a kill (their goroutines would otherwise pin the
// whole runtime for the life of the worker).

import (
	"fmt"
	"reflect"
	"runtime"
	"strings"

	"github.com/arnodel/golua/code"
	"github.com/arnodel/golua/lib"
	"github.com/arnodel/golua/lib/base"
	"github.com/arnodel/golua/lib/coroutine"
	"github.com/arnodel/golua/lib/packagelib"
	"github.com/arnodel/golua/lib/runtimelib"
	"github.com/arnodel/golua/lib/stringlib"
	"github.com/arnodel/golua/lib/tablelib"
	"github.com/arnodel/golua/lib/utf8lib"
	rt "github.com/arnodel/golua/runtime"

	"verif/engine/host"
)

// event is one host callback invocation made by Lua code.
type event struct {
	s      string // "t" for tick(), "e:<canonical tuple>" for emit(...)
	tag    string // first emit argument when it is a string, "tick" for tick()
	cum    uint64 // CPU consumed by the outermost limited context so far (sum over the context chain)
	killed bool   // some context of the chain already had status killed when the callback ran
	over   bool   // some context of the chain had consumed >= its hard CPU limit when the callback ran
}

type machine struct {
	R        *rt.Runtime
	canon    *host.Canon
	ev       []event
	closed   bool
	threads  []*rt.Thread
	seen     map[*rt.Thread]bool
	libClose func()
}

const allFlags = rt.ComplyCpuSafe | rt.ComplyMemSafe | rt.ComplyIoSafe | rt.ComplyTimeSafe

func isNilCtx(c rt.RuntimeContext) bool {
	if c == nil {
		return true
	}
	v := reflect.ValueOf(c)
	return v.Kind() == reflect.Ptr && v.IsNil()
}

// chainState walks the context chain from the current context to (excluding)
// the root context.
func chainState(t *rt.Thread) (cum uint64, killed, over bool) {
	var ctx rt.RuntimeContext = t.RuntimeContext()
	for {
		p := ctx.Parent()
		if isNilCtx(p) {
			return
		}
		cum += ctx.UsedResources().Cpu
		if ctx.Status() == rt.StatusKilled {
			killed = true
		}
		if l := ctx.HardLimits().Cpu; l > 0 && cum >= l {
			over = true
		}
		ctx = p
	}
}

func newMachine() *machine {
	r := rt.New(nil)
	runtime.SetFinalizer(r, nil)
	m := &machine{R: r, canon: host.NewCanon(), seen: map[*rt.Thread]bool{}}
	m.libClose = lib.LoadLibs(r,
		base.LibLoader, packagelib.LibLoader, coroutine.LibLoader, stringlib.LibLoader,
		tablelib.LibLoader, utf8lib.LibLoader, runtimelib.LibLoader)
	env := r.GlobalEnv()
	note := func(t *rt.Thread) {
		if t != r.MainThread() && !m.seen[t] {
			m.seen[t] = true
			m.threads = append(m.threads, t)
		}
	}
	emit := r.SetEnvGoFunc(env, "emit", func(t *rt.Thread, c *rt.GoCont) (rt.Cont, error) {
		if m.closed {
			return c.Next(), nil
		}
		note(t)
		args := c.Etc()
		tag := "?"
		if len(args) > 0 {
			if s, ok := args[0].TryString(); ok {
				tag = s
			}
		}
		cum, k, o := chainState(t)
		m.ev = append(m.ev, event{s: "e:" + strings.Join(m.canon.Values(args), ","), tag: tag, cum: cum, killed: k, over: o})
		return c.Next(), nil
	}, 0, true)
	tick := r.SetEnvGoFunc(env, "tick", func(t *rt.Thread, c *rt.GoCont) (rt.Cont, error) {
		if m.closed {
			return c.Next(), nil
		}
		note(t)
		cum, k, o := chainState(t)
		m.ev = append(m.ev, event{s: "t", tag: "tick", cum: cum, killed: k, over: o})
		return c.Next(), nil
	}, 0, false)
	// reg(co) only tells the harness about a coroutine, so that it can be closed
	// after the run even if the run never resumed it.
	reg := r.SetEnvGoFunc(env, "reg", func(t *rt.Thread, c *rt.GoCont) (rt.Cont, error) {
		if c.NArgs() > 0 {
			if th, ok := c.Arg(0).TryThread(); ok && !m.closed {
				note(th)
			}
		}
		return c.Next(), nil
	}, 1, false)
	rt.SolemnlyDeclareCompliance(allFlags, emit, tick, reg)
	return m
}

// obs is what the host sees of one run.
type obs struct {
	status    string // done | err | killed | gopanic
	ctxStatus string // status string of the context returned by CallContext
	termErr   bool   // CallContext returned a ContextTerminationError
	used      uint64 // ctx.UsedResources().Cpu
	usedMem   uint64
	results   []string
	errv      string
	ev        []event
	ctxLimit  uint64 // hard cpu limit of the context CallContext returned
	leaked    bool   // after CallContext returned the runtime was not back in its root context
}

func (o *obs) evStrings() []string {
	out := make([]string, len(o.ev))
	for i, e := range o.ev {
		out[i] = e.s
	}
	return out
}

// sameAs compares everything that must be reproducible.
func (o *obs) sameAs(p *obs) bool {
	if o.status != p.status || o.ctxStatus != p.ctxStatus || o.used != p.used || len(o.ev) != len(p.ev) ||
		strings.Join(o.results, ",") != strings.Join(p.results, ",") {
		return false
	}
	for i := range o.ev {
		if o.ev[i] != p.ev[i] {
			return false
		}
	}
	return true
}

func (o *obs) brief() string {
	var sb strings.Builder
	fmt.Fprintf(&sb, "status=%s ctx=%s used.cpu=%d", o.status, o.ctxStatus, o.used)
	if o.status == "done" {
		fmt.Fprintf(&sb, " results=(%s)", strings.Join(o.results, ","))
	}
	if o.errv != "" {
		fmt.Fprintf(&sb, " err=%s", o.errv)
	}
	sb.WriteString(" events=[")
	for i, e := range o.ev {
		if i > 0 {
			sb.WriteByte(' ')
		}
		if i >= 60 {
			fmt.Fprintf(&sb, "…+%d", len(o.ev)-i)
			break
		}
		s := e.s
		if s == "t" {
			s = "tick"
		}
		fmt.Fprintf(&sb, "%s@%d", s, e.cum)
		if e.killed {
			sb.WriteString("!KILLED")
		}
		if e.over {
			sb.WriteString("!OVER")
		}
	}
	sb.WriteString("]")
	return sb.String()
}

// call runs f(args...) on the main thread inside a context defined by def and
// then disposes of the machine.
func (m *machine) call(f rt.Value, args []rt.Value, def rt.RuntimeContextDef) (o obs) {
	r := m.R
	defer m.dispose()
	defer func() {
		if p := recover(); p != nil {
			o.status = "gopanic"
			o.errv = firstLine(fmt.Sprint(p))
		}
		o.ev = m.ev
		m.closed = true
	}()
	term := rt.NewTerminationWith(nil, 0, true)
	ctx, err := r.MainThread().CallContext(def, func() error {
		return rt.Call(r.MainThread(), f, args, term)
	})
	u := ctx.UsedResources()
	o.used, o.usedMem = u.Cpu, u.Memory
	o.ctxLimit = ctx.HardLimits().Cpu
	o.leaked = !isNilCtx(r.RuntimeContext().Parent())
	o.ctxStatus = ctx.Status().String()
	if _, ok := err.(rt.ContextTerminationError); ok {
		o.termErr = true
	}
	switch {
	case ctx.Status() == rt.StatusKilled:
		o.status = "killed"
		if err != nil {
			o.errv = firstLine(err.Error())
		}
	case err != nil:
		o.status = "err"
		o.errv = m.canon.Value(rt.ErrorValue(err))
	default:
		o.status = "done"
		o.results = m.canon.Values(term.Etc())
	}
	return
}

// dispose closes coroutines that the run left suspended (so that their
// goroutines end) and then the runtime.  Whatever Lua code this runs (pending
// __close handlers) happens after the observation was taken and in the
// unlimited root context; the callbacks ignore it.
func (m *machine) dispose() {
	m.closed = true
	main := m.R.MainThread()
	for _, th := range m.threads {
		func() {
			defer func() { recover() }()
			if th.Status() == rt.ThreadSuspended {
				th.Close(main)
			}
		}()
	}
	func() {
		defer func() { recover() }()
		m.R.Close(nil)
	}()
	if m.libClose != nil {
		func() {
			defer func() { recover() }()
			m.libClose()
		}()
	}
	// A coroutine that was created but never resumed cannot be reached by the
	// harness (coroutine.wrap hides the thread); its parked goroutine keeps the
	// runtime alive for the rest of the worker's life.  Empty the tables that
	// hang off the runtime so that what stays pinned is small.
	func() {
		defer func() { recover() }()
		env := m.R.GlobalEnv()
		if pkg, ok := env.Get(rt.StringValue("package")).TryTable(); ok {
			if loaded, ok := pkg.Get(rt.StringValue("loaded")).TryTable(); ok {
				clearTable(loaded)
			}
			clearTable(pkg)
		}
		clearTable(env)
		m.R.SetStringMeta(nil)
	}()
	m.ev, m.threads, m.seen = nil, nil, nil
}

func clearTable(t *rt.Table) {
	var keys []rt.Value
	k := rt.NilValue
	for {
		nk, _, ok := t.Next(k)
		if !ok || nk.IsNil() {
			break
		}
		keys = append(keys, nk)
		k = nk
	}
	for _, k := range keys {
		t.Set(k, rt.NilValue)
	}
}

// compile compiles src once (in a throw-away runtime); the unit is then loaded
// into every fresh runtime, so that Go map iteration inside golua's compiler
// cannot move costs between runs.
func compile(name, src string) (*code.Unit, error) {
	r := rt.New(nil)
	runtime.SetFinalizer(r, nil)
	unit, _, err := r.CompileLuaChunk(name, []byte(src))
	return unit, err
}

// runUnit loads unit into a fresh machine (outside any limited context) and
// calls the chunk under def.
func runUnit(unit *code.Unit, args []rt.Value, def rt.RuntimeContextDef) obs {
	m := newMachine()
	clos := m.R.LoadLuaUnit(unit, rt.TableValue(m.R.GlobalEnv()))
	return m.call(rt.FunctionValue(clos), args, def)
}

func cpuDef(l uint64) rt.RuntimeContextDef {
	return rt.RuntimeContextDef{HardLimits: rt.RuntimeResources{Cpu: l}}
}

func firstLine(s string) string {
	if k := strings.IndexByte(s, '\n'); k >= 0 {
		s = s[:k]
	}
	if len(s) > 200 {
		s = s[:200]
	}
	return s
}
