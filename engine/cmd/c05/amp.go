package main

// Part 2: unmetered work.  Every library function with a program-chosen size
// parameter is called with N up to 2^40 and element sizes 0, 1, 100 under
// {cpu = 10^4, memory = 10^5}.  A zero-size element makes the memory charge
// vanish, so only a CPU charge can bound the loop.

import (
	"fmt"
	"os"
	"strings"
	"sync"
	"syscall"
	"time"

	"github.com/arnodel/golua/code"
	rt "github.com/arnodel/golua/runtime"

	"verif/engine/core"
)

const (
	ampCPU      = 10000
	ampMem      = 100000
	ampMaxCPUs  = 10.0 // seconds of process CPU time allowed for one call
	ampHangSecs = 60
)

// A template is a chunk receiving (N, E) and returning the size of what it
// built (or nothing).
type template struct {
	name string
	src  string
}

var ampNs = []int64{300, 1000, 30000, 100000, 10000000, 1 << 31, 1 << 40}
var ampEs = []string{"", "x", strings.Repeat("x", 100)}

// proxy is a table that pretends to have N elements E without holding them.
const proxy = `local t = setmetatable({}, {__len = function() return N end, __index = function() return E end, __newindex = function() end})
`

var templates = []template{
	// string.rep
	{"rep", `return #string.rep(E, N)`},
	{"rep-sep", `return #string.rep(E, N, E)`},
	{"rep-sep-mixed", `return #string.rep(E, N, "-") + #string.rep("-", N, E)`},
	{"rep-method", `return #E:rep(N)`},
	// ("x"):rep(n):f()
	{"rep-upper", `return #E:rep(N):upper()`},
	{"rep-lower", `return #E:rep(N):lower()`},
	{"rep-reverse", `return #E:rep(N):reverse()`},
	{"rep-byte", `return select('#', E:rep(N):byte(1, -1))`},
	{"rep-byte-char", `return #string.char(E:rep(N):byte(1, -1))`},
	{"rep-sub", `return #E:rep(N):sub(2, N)`},
	{"rep-find-plain", `local s = E:rep(N) return (s:find("y", 1, true)) or #s`},
	{"rep-find-self", `local s = E:rep(N) return (s:rep(2, "y"):find(s .. "z", 1, true)) or #s`},
	{"rep-find-init", `local s = E:rep(N) return (s:find("", N)) or #s`},
	{"rep-find-pat", `local s = E:rep(N) return (s:find("x*y")) or #s`},
	{"rep-match", `local s = E:rep(N) return #(s:match("x*") or "")`},
	{"rep-gsub", `local r, n = E:rep(N):gsub("x", "") return n`},
	{"rep-gsub-grow", `local r, n = E:rep(N):gsub("x", "xx") return #r`},
	{"rep-gsub-empty", `local r, n = E:rep(N):gsub("", "") return n`},
	{"rep-gsub-anchor", `local r, n = E:rep(N):gsub("^x", "") return n`},
	{"rep-gsub-table", `local r, n = E:rep(N):gsub("x", {x = ""}) return n`},
	{"rep-gmatch", `local n = 0 for _ in E:rep(N):gmatch("") do n = n + 1 end return n`},
	{"rep-format-s", `return #string.format("%s", E:rep(N))`},
	{"rep-format-q", `return #string.format("%q", E:rep(N))`},
	{"rep-format-lit", `return #string.format(E:rep(N))`},
	{"format-pct", `return #string.format(("%%"):rep(N) .. E)`},
	{"format-directives", `return #string.format(("%d"):rep(N), 1, 2, 3)`},
	{"format-width", `return #string.format("%99s%99s%99s%99s%99s%99s%99s%99s", E, E, E, E, E, E, E, E)`},
	{"rep-pack-s", `return #string.pack("s", E:rep(N))`},
	{"rep-pack-z", `return #string.pack("z", E:rep(N))`},
	{"pack-x", `return #string.pack(("x"):rep(N))`},
	{"pack-c", `return #string.pack("c" .. N, E)`},
	{"pack-align", `return #string.pack("!16 b Xi16" .. (" "):rep(N), 1)`},
	{"unpack-x", `return select('#', string.unpack(("x"):rep(N), E:rep(N)))`},
	{"unpack-c0", `return select('#', string.unpack(("c0"):rep(N), E))`},
	{"packsize", `return #tostring(string.packsize(("x"):rep(N))) + #tostring(string.packsize("c" .. N))`},
	{"rep-tonumber", `return #tostring(tonumber(("1"):rep(N) .. E) or 0)`},
	{"rep-len-cmp", `local s = E:rep(N) return (s == s .. "") and #s or 0`},
	// patterns that back-track
	{"pat-stars", `local s = E:rep(N) return (s:find("x*x*x*x*x*y")) or #s`},
	{"pat-lazy", `local s = E:rep(N) return (s:find(".-.-.-.-y")) or #s`},
	{"pat-backref", `local s = E:rep(N) return (s:find("(x*)%1y")) or #s`},
	{"pat-balanced", `local s = E:rep(N) return (s:find("%bxy")) or #s`},
	{"pat-frontier", `local s = E:rep(N) return (s:find("%f[y]")) or #s`},
	{"pat-set", `local s = E:rep(N) return (s:find("[^y]*[^y]*[^y]*y")) or #s`},
	{"pat-gsub-stars", `local r, n = E:rep(N):gsub("x*", "") return n`},
	{"pat-match-captures", `local s = E:rep(N) return #(s:match("^(x-)(x-)(x-)(x-)$") or "")`},
	// table library
	{"concat-built", `local t = {} for i = 1, N do t[i] = E end return #table.concat(t)`},
	{"concat-sep", `local t = {} for i = 1, 200 do t[i] = E end return #table.concat(t, E:rep(N))`},
	{"concat-proxy", proxy + `return #table.concat(t, E, 1, N)`},
	{"concat-range", `return #table.concat({E}, E, 1, N)`},
	{"concat-negrange", `return #table.concat(setmetatable({}, {__index = function() return E end}), E, -N, 0)`},
	{"unpack-range", `return select('#', table.unpack({E}, 1, N))`},
	{"unpack-proxy", proxy + `return select('#', table.unpack(t))`},
	{"unpack-neg", proxy + `return select('#', table.unpack(t, -N, -N + 200))`},
	{"select-unpack-chunks", proxy + `local n = 0 for i = 1, N, 200 do n = n + select('#', table.unpack(t, i, i + 199)) end return n`},
	{"move-grow", `local t = {E} table.move(t, 1, N, 2) return #t`},
	{"move-other", `local t = table.move({E}, 1, N, 1, {}) return #t`},
	{"move-proxy", proxy + `table.move(t, 1, N, 2) return 0`},
	{"move-proxy-down", proxy + `table.move(t, 2, N, 1) return 0`},
	{"sort-proxy", proxy + `table.sort(t) return 0`},
	{"sort-proxy-cmp", proxy + `table.sort(t, function(a, b) return false end) return 0`},
	{"sort-built", `local t = {} for i = 1, N do t[i] = E end table.sort(t) return #t`},
	{"insert-proxy", proxy + `table.insert(t, 1, E) return 0`},
	{"insert-append", `local t = {} for i = 1, N do table.insert(t, E) end return #t`},
	{"remove-proxy", proxy + `table.remove(t, 1) return 0`},
	{"pack-multi", `local function g(n) if n == 0 then return end return E, g(n - 1) end return table.pack(g(N)).n`},
	// utf8
	{"utf8-char", `local t = {} for i = 1, 200 do t[i] = 120 end local n = 0 for i = 1, N do n = n + #utf8.char(table.unpack(t)) end return n`},
	{"utf8-char-byte", `return #utf8.char(E:rep(N):byte(1, -1))`},
	{"utf8-len", `return utf8.len(E:rep(N))`},
	{"utf8-len-range", `return utf8.len(E:rep(N), 1, -1) or 0`},
	{"utf8-codepoint", `return select('#', utf8.codepoint(E:rep(N), 1, -1))`},
	{"utf8-offset", `return utf8.offset(E:rep(N), N) or 0`},
	{"utf8-offset-neg", `return utf8.offset(E:rep(N), -N) or 0`},
	{"utf8-codes", `local n = 0 for _ in utf8.codes(E:rep(N)) do n = n + 1 end return n`},
	// load
	{"load-long", `local f = load("return 1 " .. E .. (" "):rep(N)) return f and 1 or 0`},
	{"load-comment", `local f = load("--" .. E:rep(N)) return f and 1 or 0`},
	{"load-string-literal", `local f = load("return '" .. E:rep(N) .. "'") return f and #f() or 0`},
	{"load-reader", `local n = 0 local f = load(function() n = n + 1 if n > N then return nil end return E end) return n`},
	{"load-reader-space", `local n = 0 local f = load(function() n = n + 1 if n > N then return nil end return " " .. E end) return n`},
	{"load-many-locals", `local f = load(("local a = 1 "):rep(N) .. E) return f and 1 or 0`},
	{"dump-load", `local f = load("return '" .. E:rep(N) .. "'") if not f then return 0 end local d = string.dump(f) return #d + (load(d) and 1 or 0)`},
	// concatenation, constructors, varargs
	{"concat-loop", `local s = E for i = 1, N do s = s .. E end return #s`},
	{"concat-double", `local s = E for i = 1, 62 do s = s .. s end return #s`},
	{"concat-chain", `local a = E:rep(N) return #(a .. a .. a .. a .. a .. a .. a .. a)`},
	{"ctor-multi", `local function f(...) return {...} end local function g(n) if n == 0 then return end return E, g(n - 1) end return #f(g(N))`},
	{"ctor-unpack", proxy + `local u = {table.unpack(t, 1, 200)} local n = 0 for i = 1, N do local v = {table.unpack(u)} n = n + #v end return n`},
	{"select-hash", `local function g(n) if n == 0 then return end return E, g(n - 1) end return select('#', g(N))`},
	{"select-neg", proxy + `return #tostring(select(-1, table.unpack(t, 1, 200)))`},
	{"select-index", `return select('#', select(N, E, E, E)) + select('#', select(-1, E, E, E))`},
	{"byte-range", `return select('#', E:byte(-N, N))`},
	{"sub-range", `return #E:sub(-N, N)`},
	{"tonumber-base", `return #tostring(tonumber(("z"):rep(N) .. E, 36) or 0)`},
	{"rep-concat-num", `return #(E:rep(N) .. 1 .. 2.5)`},
	{"vararg-forward", `local function f(n, ...) if n == 0 then return select('#', ...) end return f(n - 1, E, ...) end return f(N)`},
}

// ---------------------------------------------------------------- watchdog
//
// A call that spins unmetered would block the worker (and the driver's
// single-case reproduction runs, which have no timeout).  A watchdog goroutine
// therefore ends the process as soon as the call in flight has consumed more
// than ampMaxCPUs seconds of process CPU time, announcing itself with a
// "panic:" line on stderr: the driver attributes the death to the case in
// flight and builds the violation key from that line, which names the template.

var wd struct {
	mu    sync.Mutex
	on    bool
	start float64
	tpl   string
}

func watchdogKey(tpl string) string {
	return fmt.Sprintf("panic: c05 watchdog: template %s: over %.0f s of process CPU time in one call under {cpu=%d, memory=%d}", tpl, ampMaxCPUs, ampCPU, ampMem)
}

func startWatchdog() {
	worker := false
	for _, a := range os.Args[1:] {
		if a == "-worker" || a == "--worker" {
			worker = true
		}
	}
	go func() {
		for {
			time.Sleep(50 * time.Millisecond)
			wd.mu.Lock()
			on, start, tpl := wd.on, wd.start, wd.tpl
			wd.mu.Unlock()
			if on && cpuSeconds()-start > ampMaxCPUs {
				line := watchdogKey(tpl)
				if len(line) > 160 {
					line = line[:160]
				}
				if !worker {
					// single-case mode: print the key the driver gives to this death
					fmt.Printf("VIOLATION property=C05\nkey: amp worker-died %s\n", line)
				}
				fmt.Fprintln(os.Stderr, line)
				os.Exit(3)
			}
		}
	}()
}

func ampFamilies(tier string) []*core.Family {
	ampNs := ampNs
	if tier == "thorough" {
		ampNs = append(append([]int64{}, ampNs...), 60000, 1<<53, 1<<62, 1<<63-1)
	}
	nn, ne, nt := uint64(len(ampNs)), uint64(len(ampEs)), uint64(len(templates))
	// simplest first: all templates at the smallest N, then the next N
	get := func(i uint64) (template, int64, string) {
		return templates[i/ne%nt], ampNs[i/ne/nt%nn], ampEs[i%ne]
	}
	units := map[string]*code.Unit{}
	return []*core.Family{{
		Name: "amp", Size: nn * ne * nt, HangSeconds: ampHangSecs,
		Show: func(i uint64) string {
			tpl, n, e := get(i)
			return fmt.Sprintf("template %s, N=%d, E=%d bytes, limits {cpu=%d, memory=%d}\nlocal N, E = ...\n%s", tpl.name, n, len(e), ampCPU, ampMem, tpl.src)
		},
		Run: func(i uint64) core.Outcome {
			tpl, n, e := get(i)
			name := "amp template=" + tpl.name
			src := "local N, E = ...\n" + tpl.src + "\n"
			unit := units[tpl.name]
			if unit == nil {
				var err error
				unit, err = compile("amp", src)
				if err != nil {
					return core.Outcome{Viol: &core.Violation{Key: name + " clause=compile", Detail: err.Error()}}
				}
				units[tpl.name] = unit
			}
			def := rt.RuntimeContextDef{HardLimits: rt.RuntimeResources{Cpu: ampCPU, Memory: ampMem}}
			t0 := cpuSeconds()
			wd.mu.Lock()
			wd.on, wd.start, wd.tpl = true, t0, tpl.name
			wd.mu.Unlock()
			o := runUnit(unit, []rt.Value{rt.IntValue(n), rt.StringValue(e)}, def)
			wd.mu.Lock()
			wd.on = false
			wd.mu.Unlock()
			dt := cpuSeconds() - t0
			out := core.Outcome{States: 1, Trans: 1, NonTrivial: true,
				Sig: core.Hash64(fmt.Sprintf("%s|%s|%s|%v", tpl.name, o.status, strings.Join(o.results, ","), o.errv != ""))}
			viol := func(clause, detail string) {
				out.Viols = append(out.Viols, &core.Violation{
					Key: fmt.Sprintf("%s E=%d clause=%s", name, len(e), clause),
					Detail: fmt.Sprintf("N=%d, E=%d bytes, limits {cpu=%d, memory=%d}: %s\nrun: %s (used.memory=%d, process cpu time %.2fs)\n%s",
						n, len(e), ampCPU, ampMem, detail, o.brief(), o.usedMem, dt, src),
				})
			}
			if os.Getenv("C05_DEBUG") != "" {
				fmt.Fprintf(os.Stderr, "DBG %-22s N=%-14d E=%-3d %-7s cpu=%-6d mem=%-7d res=%s err=%s %.3fs\n", tpl.name, n, len(e), o.status, o.used, o.usedMem, strings.Join(o.results, ","), o.errv, dt)
			}
			switch o.status {
			case "killed":
				if o.used >= ampCPU || o.usedMem >= ampMem {
					viol("used>=limit", fmt.Sprintf("killed context reports used.cpu=%d used.memory=%d", o.used, o.usedMem))
				}
			case "err":
				// a Lua error refusing the request is a legitimate bounded outcome
			case "done":
				if len(o.results) > 0 && strings.HasPrefix(o.results[0], "i:") {
					var sz int64
					fmt.Sscan(o.results[0][2:], &sz)
					if sz > ampMem {
						viol("result-too-large", fmt.Sprintf("completed with a result of size %d, more than the memory limit allows", sz))
					}
				}
				if o.used >= ampCPU || o.usedMem >= ampMem {
					viol("used>=limit", fmt.Sprintf("completed context reports used.cpu=%d used.memory=%d", o.used, o.usedMem))
				}
			default:
				viol("status-"+o.status, "unexpected status")
			}
			return out
		},
	}}
}

func cpuSeconds() float64 {
	var ru syscall.Rusage
	syscall.Getrusage(syscall.RUSAGE_SELF, &ru)
	return float64(ru.Utime.Sec) + float64(ru.Utime.Usec)/1e6 + float64(ru.Stime.Sec) + float64(ru.Stime.Usec)/1e6
}
