package main

// Fault-point sweep: run one program under every hard CPU limit and compare
// each run with the program's own run under a limit it never reaches.

import (
	"fmt"
	"os"
	"sort"
	"strings"

	"github.com/arnodel/golua/code"

	"verif/engine/core"
)

const (
	hugeLimit    = uint64(1) << 40
	foreverRef   = uint64(3000) // reference limit for non-terminating programs
	foreverSweep = uint64(400)  // they are swept over 1..foreverSweep
	fullSweepMax = uint64(2000) // u above this: head, tail and a stride
)

// finding is one violated clause of one program (the smallest failing L).
type finding struct {
	clause  string // what is violated (no L value inside)
	by      string // tag of the first offending emit event ("-" if none)
	l       uint64
	rel     string // L relative to u, for the detail text
	sawDone bool
	detail  string
}

func (f finding) id() string { return f.clause + " by=" + f.by }

type sweepResult struct {
	u        uint64
	states   uint64
	trans    uint64
	findings map[string]finding // by id()
	ref      obs
	sig      string
	compile  string // compile error, if any
}

// limits lists the limits a program with usage u is swept over.
func limits(u uint64, infinite bool) []uint64 {
	var ls []uint64
	if infinite {
		for l := uint64(1); l <= foreverSweep; l++ {
			ls = append(ls, l)
		}
		return ls
	}
	if u <= fullSweepMax {
		for l := uint64(1); l <= u+1; l++ {
			ls = append(ls, l)
		}
	} else {
		seen := map[uint64]bool{}
		add := func(l uint64) {
			if l >= 1 && l <= u+1 && !seen[l] {
				seen[l] = true
				ls = append(ls, l)
			}
		}
		for l := uint64(1); l <= 200; l++ {
			add(l)
		}
		stride := (u - 400) / 400
		if stride < 1 {
			stride = 1
		}
		for l := uint64(201); l < u-200; l += stride {
			add(l)
		}
		for l := u - 200; l <= u+1; l++ {
			add(l)
		}
		sort.Slice(ls, func(i, j int) bool { return ls[i] < ls[j] })
	}
	// far from the program's own usage
	ls = append(ls, 2*u+7, u+1000003)
	return ls
}

func relToU(l, u uint64, infinite bool) string {
	if infinite {
		return fmt.Sprintf("L=%d (program never terminates)", l)
	}
	switch {
	case l == u:
		return fmt.Sprintf("L=u=%d", u)
	case l < u:
		return fmt.Sprintf("L=u-%d (u=%d)", u-l, u)
	default:
		return fmt.Sprintf("L=u+%d (u=%d)", l-u, u)
	}
}

// firstEmitTag returns the tag of the first emit event at or after index i.
func firstEmitTag(ev []event, i int) string {
	for ; i < len(ev); i++ {
		if ev[i].tag != "tick" {
			return ev[i].tag
		}
	}
	return "-"
}

// divergence returns the first index at which the event strings differ (or
// the length of the shorter one).
func divergence(a, b []event) int {
	n := len(a)
	if len(b) < n {
		n = len(b)
	}
	for i := 0; i < n; i++ {
		if a[i].s != b[i].s {
			return i
		}
	}
	return n
}

// checkRun applies the per-run clauses that need no reference: nothing runs
// inside a killed context or beyond a limit.
func checkInternal(o *obs, l uint64, add func(clause, by, detail string)) (ranAfter bool) {
	if o.status != "gopanic" && (o.leaked || o.ctxLimit != l) {
		// Control did not return to the parent: the context handed back is not
		// the one that was pushed for this call.  Everything else about this
		// run is a consequence.
		add("context-stack-corrupted", "-",
			fmt.Sprintf("CallContext was asked for a context with hard cpu limit %d; it returned a context with hard cpu limit %d and the runtime is %s afterwards",
				l, o.ctxLimit, map[bool]string{true: "STILL INSIDE a pushed context", false: "back in its root context"}[o.leaked]))
		return true
	}
	for i, e := range o.ev {
		if e.killed || e.over {
			what := "a context of the chain already had status killed"
			if !e.killed {
				what = fmt.Sprintf("a context of the chain had consumed >= its hard cpu limit (cum=%d)", e.cum)
			}
			add("ran-after-kill", firstEmitTag(o.ev, i),
				fmt.Sprintf("host callback #%d (%s) was called by Lua code while %s", i, e.s, what))
			ranAfter = true
			break
		}
	}
	if o.status == "gopanic" {
		add("gopanic", "-", "Go panic escaped CallContext: "+o.errv)
	}
	if (o.ctxStatus == "killed") != o.termErr && o.status != "gopanic" {
		add("status-mismatch", "-", fmt.Sprintf("context status %q but termination error returned = %v", o.ctxStatus, o.termErr))
	}
	return
}

func sweep(p program, unit *code.Unit) (res sweepResult) {
	res.findings = map[string]finding{}
	curL, curRel := uint64(0), ""
	var curObs *obs
	add := func(clause, by, detail string) {
		f := finding{clause: clause, by: by, l: curL, rel: curRel}
		if old, ok := res.findings[f.id()]; ok {
			// also show the first limit at which the program even completes
			if clause == "kill-intercepted" && curObs.status == "done" && !old.sawDone {
				old.sawDone = true
				old.detail += fmt.Sprintf("\n%s: the run even COMPLETES\n  run: %s", curRel, curObs.brief())
				res.findings[f.id()] = old
			}
			return
		}
		f.sawDone = curObs.status == "done"
		f.detail = fmt.Sprintf("%s: %s\n  run: %s", curRel, detail, curObs.brief())
		res.findings[f.id()] = f
	}

	refL := hugeLimit
	if p.infinite {
		refL = foreverRef
	}
	ref := runUnit(unit, nil, cpuDef(refL))
	ref2 := runUnit(unit, nil, cpuDef(refL))
	res.trans += 2
	res.states++
	res.ref = ref
	res.u = ref.used
	curL, curRel, curObs = refL, fmt.Sprintf("reference run L=%d", refL), &ref
	if os.Getenv("C05_DEBUG") != "" {
		fmt.Fprintf(os.Stderr, "DBG %s reference: %s\n", p.shape(), ref.brief())
	}
	if !ref.sameAs(&ref2) {
		add("nondeterministic", firstEmitTag(ref2.ev, divergence(ref.ev, ref2.ev)), "two reference runs differ; second: "+ref2.brief())
	}
	condemnedRef := checkInternal(&ref, refL, add)
	if condemnedRef {
		return
	}
	if !p.infinite && ref.status != "done" {
		add("reference-run-"+ref.status, "-", "the run under a limit of 2^40 must complete")
		return
	}
	if !p.infinite {
		// the inner context with the small limit must be killed without taking the outer one with it
		for _, w := range p.nest {
			if wrappers[w].name == "ctxS" {
				ok := false
				for _, e := range ref.ev {
					if e.tag == "ctxS" && strings.HasSuffix(e.s, `s:"killed"`) {
						ok = true
					}
				}
				if !ok {
					add("inner-context-not-killed", "ctxS", "no ctxS event with status killed in the reference run")
				}
			}
		}
	}
	u := ref.used
	if p.infinite {
		u = 0
	}
	needs := fmt.Sprintf("the unlimited run uses u=%d cpu", u)
	if p.infinite {
		needs = "the program never terminates"
	}
	var verd strings.Builder
	maxKilled, minDone := uint64(0), uint64(0)
	intercepted := false
	for _, l := range limits(u, p.infinite) {
		o := runUnit(unit, nil, cpuDef(l))
		o2 := runUnit(unit, nil, cpuDef(l))
		res.trans += 2
		res.states++
		curL, curRel, curObs = l, relToU(l, u, p.infinite), &o
		verd.WriteByte(o.status[0])
		if !o.sameAs(&o2) {
			add("nondeterministic", firstEmitTag(o2.ev, divergence(o.ev, o2.ev)), "two runs at the same L differ; second: "+o2.brief())
		}
		ranAfter := checkInternal(&o, l, add)
		expectKilled := p.infinite || l <= u
		d := divergence(o.ev, ref.ev)
		isPrefix := d == len(o.ev)
		switch {
		case o.status == "gopanic" || ranAfter:
			// already condemned; what follows the first offence is a consequence
			intercepted = true
		case expectKilled && !isPrefix:
			// the run left the path of the unlimited run although L <= u: something caught the kill
			intercepted = true
			add("kill-intercepted", firstEmitTag(o.ev, d),
				fmt.Sprintf("%s, so L must kill and the trace must be a prefix of the unlimited one; instead event #%d is %s (unlimited run: %s) and the run ends %s",
					needs, d, o.ev[d].s, evAt(ref.ev, d), o.status))
		case expectKilled && o.status != "killed":
			intercepted = true
			add("verdict:L<=u-not-killed:"+o.status, "-",
				needs+", so L must kill")
		case !expectKilled && o.status != "done":
			add("verdict:L>u-"+o.status, firstEmitTag(o.ev, d),
				fmt.Sprintf("the unlimited run uses only u=%d cpu, so L must not interfere", u))
		case !expectKilled:
			if !isPrefix || len(o.ev) != len(ref.ev) || strings.Join(o.results, ",") != strings.Join(ref.results, ",") {
				add("done-differs", firstEmitTag(o.ev, d), fmt.Sprintf("completed run differs from the unlimited run at event #%d", d))
			} else if o.used != ref.used {
				add("done-used-differs", "-", fmt.Sprintf("completed run used %d cpu, the unlimited run %d", o.used, ref.used))
			}
		default:
			// killed as expected on a prefix of the unlimited trace.  Exact cut: the
			// events that happen are those reached with fewer than L units consumed.
			want := 0
			for _, e := range ref.ev {
				if e.cum >= l {
					break
				}
				want++
			}
			if len(o.ev) > want && !ranAfter {
				add("ran-past-cut", firstEmitTag(o.ev, want),
					fmt.Sprintf("%d events happened, but in the reference run only %d events happen before %d cpu units are consumed (event #%d happens at cum=%d there, at cum=%d here)",
						len(o.ev), want, l, want, ref.ev[want].cum, o.ev[want].cum))
			} else if len(o.ev) < want {
				add("killed-early", firstEmitTag(ref.ev, len(o.ev)),
					fmt.Sprintf("only %d events happened, but in the reference run %d events happen before %d cpu units are consumed (next one at cum=%d)",
						len(o.ev), want, l, ref.ev[len(o.ev)].cum))
			}
		}
		if o.status == "killed" && o.used >= l && !ranAfter {
			add("used>=L", "-", fmt.Sprintf("killed context reports used.cpu=%d, not below its limit %d", o.used, l))
		}
		// accounting is the same function of the history in both runs
		if !ranAfter {
			for i := 0; i < d; i++ {
				if o.ev[i].cum != ref.ev[i].cum {
					add("cum-differs", firstEmitTag(o.ev, i),
						fmt.Sprintf("event #%d (%s) happens after %d cpu units here and after %d in the reference run", i, o.ev[i].s, o.ev[i].cum, ref.ev[i].cum))
					break
				}
			}
		}
		if o.status == "killed" && l > maxKilled {
			maxKilled = l
		}
		if o.status == "done" && (minDone == 0 || l < minDone) {
			minDone = l
		}
	}
	if minDone != 0 && maxKilled > minDone && !intercepted {
		curL, curRel, curObs = maxKilled, relToU(maxKilled, u, p.infinite), &ref
		add("not-monotone", "-", fmt.Sprintf("done at L=%d but killed at the larger L=%d", minDone, maxKilled))
	}
	if p.infinite && ref.status != "killed" && ref.status != "gopanic" {
		// The workload loop can only have been left through a caught kill; the
		// first emit after the last workload event is whoever caught it.
		curL, curRel, curObs = refL, relToU(refL, u, true), &ref
		last := -1
		for i, e := range ref.ev {
			if e.tag == "w" {
				last = i
			}
		}
		add("kill-intercepted", firstEmitTag(ref.ev, last+1),
			fmt.Sprintf("the program never terminates, so every limit must kill; instead the workload loop was left after event #%d and the run ends %s", last, ref.status))
	}
	res.sig = fmt.Sprintf("%s|%d|%s|%s", p.shape(), ref.used, strings.Join(ref.evStrings(), ";"), verd.String())
	return
}

func evAt(ev []event, i int) string {
	if i < len(ev) {
		return ev[i].s
	}
	return "<end of trace>"
}

// ---------------------------------------------------------------- minimisation

// Per worker memo of sweeps, so that reductions of neighbouring cases share
// their sub-sweeps.
var (
	memo  = map[string]*sweepResult{}
	units = map[string]*code.Unit{}
)

func sweepMemo(p program) *sweepResult {
	k := p.key()
	if r, ok := memo[k]; ok {
		return r
	}
	unit, err := compile("c05", p.source())
	var r sweepResult
	if err != nil {
		r.findings = map[string]finding{}
		r.compile = err.Error()
	} else {
		r = sweep(p, unit)
	}
	r.ref.ev = nil // keep the memo small
	memo[k] = &r
	return &r
}

// minimise reduces p while the finding id stays: drop wrappers one at a time,
// then try the simplest granularities.  The result names the smallest program
// of the family that shows the same violated clause through the same code, so
// that all larger programs showing it share one key.
func minimise(p program, id string) program {
	has := func(q program) bool {
		_, ok := sweepMemo(q).findings[id]
		return ok
	}
	for again := true; again; {
		again = false
		for changed := true; changed; {
			changed = false
			for i := range p.nest {
				q := p
				q.nest = append(append([]int{}, p.nest[:i]...), p.nest[i+1:]...)
				if has(q) {
					p, changed = q, true
					break
				}
			}
		}
		for _, g := range gransNamed("vm", "fmt") {
			if g == p.gran {
				break
			}
			q := p
			q.gran = g
			if has(q) {
				// a simpler granularity may allow dropping more wrappers
				p, again = q, true
				break
			}
		}
	}
	return p
}

func sweepFamily(name string, progs []program, hang, budget int) *core.Family {
	return &core.Family{
		Name: name, Size: uint64(len(progs)), HangSeconds: hang, BudgetSeconds: budget,
		Show: func(i uint64) string {
			p := progs[i]
			return fmt.Sprintf("shape %s, swept over every hard cpu limit\n%s", p.shape(), p.source())
		},
		Run: func(i uint64) core.Outcome {
			p := progs[i]
			r := sweepMemo(p)
			out := core.Outcome{States: r.states, Trans: r.trans, Sig: core.Hash64(r.sig), NonTrivial: r.u > 0}
			if r.compile != "" {
				out.Viol = &core.Violation{Key: name + " shape=" + p.shape() + " clause=compile", Detail: r.compile + "\n" + p.source()}
				return out
			}
			ids := make([]string, 0, len(r.findings))
			for id := range r.findings {
				ids = append(ids, id)
			}
			sort.Strings(ids)
			for _, id := range ids {
				f := r.findings[id]
				mp := minimise(p, id)
				mf := sweepMemo(mp).findings[id]
				det := fmt.Sprintf("program %s (smallest program of the family with the same violation: %s)\nclause %s, first offending emit: %s\nsmallest failing limit: %s\n%s\n--- %s:\n%s",
					p.shape(), mp.shape(), f.clause, f.by, f.rel, f.detail, p.shape(), p.source())
				if mp.shape() != p.shape() {
					det += fmt.Sprintf("\n--- %s (smallest failing limit there: %s):\n%s\n%s", mp.shape(), mf.rel, mp.source(), mf.detail)
				}
				out.Viols = append(out.Viols, &core.Violation{
					Key:    fmt.Sprintf("%s shape=%s clause=%s", name, mp.shape(), id),
					Detail: det,
				})
			}
			return out
		},
	}
}
