package main

// The program family of the fault-point sweep: a metered workload wrapped in
// every nesting of interception attempts.

import (
	"fmt"
	"strings"
)

// A wrapper turns the function named $F into a new function body.  $I is the
// nesting level of the wrapper (1 = innermost), used to make events distinct.
type wrapper struct {
	name string
	lua  string
}

var wrappers = []wrapper{
	{"pcall", `function()
  tick()
  local ok = pcall($F)
  emit("pcall", $I, ok)
  tick()
end`},
	{"xpcall", `function()
  local ok = xpcall($F, function(e) for j = 1, 5 do tick() end emit("xh", $I) return e end)
  emit("xpcall", $I, ok)
end`},
	{"xpcallerr", `function()
  local ok = xpcall(function() $F() error("boom") end, function(e) for j = 1, 5 do tick() end emit("xeh", $I) return e end)
  emit("xpcallerr", $I, ok)
end`},
	{"retry", `function()
  local n = 0
  while true do
    n = n + 1
    local ok = pcall($F)
    emit("retry", $I, n, ok)
    if ok or n >= 3 then break end
  end
end`},
	{"cowrap", `function()
  local g = coroutine.wrap(function() emit("cw", $I, 1) coroutine.yield() $F() coroutine.yield() emit("cw", $I, 2) end)
  g() tick() g() tick() g()
  emit("cowrap", $I)
end`},
	{"coresume", `function()
  local co = coroutine.create(function() emit("cr", $I, 1) coroutine.yield() $F() emit("cr", $I, 2) end)
  reg(co)
  local n = 0
  while coroutine.status(co) ~= "dead" do
    n = n + 1
    local ok = coroutine.resume(co)
    emit("resume", $I, n, ok)
  end
end`},
	{"pcallco", `function()
  local ok = pcall(function()
    local g = coroutine.wrap(function() emit("pc", $I) $F() end)
    g()
  end)
  emit("pcallco", $I, ok)
end`},
	{"coyield", `function()
  local g = coroutine.wrap(function()
    local ok = pcall(function() emit("cy", $I, 1) coroutine.yield() $F() end)
    emit("cy", $I, 2, ok)
  end)
  g() tick() g()
  emit("coyield", $I)
end`},
	{"close", `function()
  local x <close> = setmetatable({}, {__close = function() for j = 1, 5 do tick() end emit("closeh", $I) end})
  $F()
  emit("close", $I)
end`},
	{"gc", `function()
  setmetatable({}, {__gc = function() for j = 1, 5 do tick() end emit("gch", $I) end})
  $F()
  emit("gc", $I)
end`},
	{"ctxS", `function()
  local ctx = runtime.callcontext({kill = {cpu = 25}}, $F)
  emit("ctxS", $I, ctx.status)
  tick()
end`},
	{"ctxL", `function()
  local ctx = runtime.callcontext({kill = {cpu = 100000}}, $F)
  emit("ctxL", $I, ctx.status)
  tick()
end`},
	{"abandon", `function()
  local g = coroutine.wrap(function()
    runtime.callcontext({kill = {cpu = 60}}, function() emit("ab", $I) coroutine.yield() end)
  end)
  g()
  $F()
  emit("abandon", $I)
end`},
	{"throw", `function()
  local ok, e = pcall(function() $F() error({code = $I}) end)
  emit("throw", $I, ok, type(e))
end`},
	// an error unwinds a pending to-be-closed variable through the protected
	// call: the handler runs after the body of the pcall has already failed
	{"closeerr", `function()
  local ok, e = pcall(function()
    local x <close> = setmetatable({}, {__close = function() for j = 1, 5 do tick() end emit("ceh", $I) end})
    $F()
    error({code = $I})
  end)
  emit("closeerr", $I, ok, type(e))
end`},
	// the same with a finalizer of an inner context that ends with an error
	{"ctxgcerr", `function()
  local ctx = runtime.callcontext({kill = {cpu = 100000}}, function()
    setmetatable({}, {__gc = function() for j = 1, 5 do tick() end emit("cgh", $I) end})
    $F()
    error({code = $I})
  end)
  emit("ctxgcerr", $I, ctx.status)
  tick()
end`},
}

// A gran is the charge granularity of the workload: what one loop iteration
// does between tick() and emit("w", i).
type gran struct {
	name    string
	prelude string
	work    string
}

var grans = []gran{
	// one CPU unit per VM step
	{"vm", ``, `local x = i * 2`},
	// string.format charges len(format) units at once
	{"fmt", `local F = ("a"):rep(150)`, `local s = string.format(F)`},
	// plain find charges len(subject) units at once
	{"find", `local S = ("a"):rep(150)`, `local p = string.find(S, "b", 1, true)`},
	// load charges several multiples of the source length, one after the other
	{"load", `local SRC = "return 1" .. (" "):rep(150)`, `local fn = load(SRC)`},
	// utf8.char charges the number of code points at once (after 1 unit per unpacked item)
	{"utf8", `local T = {} for k = 1, 60 do T[k] = 65 end`, `local s = utf8.char(table.unpack(T))`},
	// pattern matching with back-tracking: charged after the fact from a budget equal to the unused CPU
	{"match", `local S = ("a"):rep(30)`, `local m = string.match(S, "a*b")`},
	// table.concat: a Go loop charging 1 unit per item (kill in the middle of a library loop)
	{"concat", `local T = {} for k = 1, 60 do T[k] = "x" end`, `local s = table.concat(T, ",")`},
	// table.sort: Go's sort calling back into the runtime, with its own recover()
	{"sort", ``, `local T = {} for k = 1, 12 do T[k] = (k * 7) % 13 end table.sort(T)`},
	// gsub with a replacement string: per match budget + len(repl) units
	{"gsub", `local S = ("ab"):rep(20)`, `local s = string.gsub(S, "a", "xyz")`},
}

type program struct {
	nest     []int // wrapper indices, outermost first
	gran     int
	infinite bool // the workload loops for ever: every limit must kill
}

func (p program) shape() string {
	var sb strings.Builder
	sb.WriteString(grans[p.gran].name)
	sb.WriteByte(':')
	for _, w := range p.nest {
		sb.WriteString(wrappers[w].name)
		sb.WriteByte('(')
	}
	if p.infinite {
		sb.WriteString("LOOP")
	} else {
		sb.WriteString("W")
	}
	sb.WriteString(strings.Repeat(")", len(p.nest)))
	return sb.String()
}

func (p program) key() string {
	return fmt.Sprintf("%v|%d|%v", p.nest, p.gran, p.infinite)
}

const workIters = 3

func (p program) source() string {
	g := grans[p.gran]
	var sb strings.Builder
	if g.prelude != "" {
		sb.WriteString(g.prelude)
		sb.WriteByte('\n')
	}
	if p.infinite {
		fmt.Fprintf(&sb, "local f0 = function()\n  local i = 0\n  while true do\n    i = i + 1\n    tick()\n    %s\n    emit(\"w\", i)\n  end\nend\n", g.work)
	} else {
		fmt.Fprintf(&sb, "local f0 = function()\n  for i = 1, %d do\n    tick()\n    %s\n    emit(\"w\", i)\n  end\nend\n", workIters, g.work)
	}
	n := len(p.nest)
	for lvl := 1; lvl <= n; lvl++ {
		w := wrappers[p.nest[n-lvl]]
		body := strings.ReplaceAll(w.lua, "$F", fmt.Sprintf("f%d", lvl-1))
		body = strings.ReplaceAll(body, "$I", fmt.Sprint(lvl))
		fmt.Fprintf(&sb, "local f%d = %s\n", lvl, body)
	}
	fmt.Fprintf(&sb, "f%d()\nemit(\"end\")\nreturn \"ret\"\n", n)
	return sb.String()
}

// nests enumerates every wrapper sequence of length exactly d.
func nests(d int) [][]int {
	if d == 0 {
		return [][]int{{}}
	}
	var out [][]int
	for _, pre := range nests(d - 1) {
		for w := range wrappers {
			n := append(append([]int{}, pre...), w)
			out = append(out, n)
		}
	}
	return out
}

func gransNamed(names ...string) []int {
	var out []int
	for _, n := range names {
		for i, g := range grans {
			if g.name == n {
				out = append(out, i)
			}
		}
	}
	return out
}

// sweepPrograms lists the finite programs of a tier, simplest first.
func sweepPrograms(tier string) []program {
	var out []program
	// granularity outermost: consecutive indices (which go to different workers)
	// then cost about the same, whatever the number of workers
	add := func(d int, gs []int) {
		for _, g := range gs {
			for _, n := range nests(d) {
				out = append(out, program{nest: n, gran: g})
			}
		}
	}
	all := gransNamed("vm", "fmt", "find", "load", "utf8", "match", "concat", "sort", "gsub")
	if tier == "thorough" {
		add(0, all)
		add(1, all)
		add(2, all)
		add(3, gransNamed("vm", "fmt", "concat"))
	} else {
		q := gransNamed("vm", "fmt", "load", "utf8", "match", "concat") // find = same charge pattern as fmt: depth <= 1 only
		add(0, all)
		add(1, all)
		add(2, q)
	}
	return out
}

// foreverPrograms lists the programs whose workload never terminates.
func foreverPrograms(tier string) []program {
	var out []program
	gs := gransNamed("vm", "fmt", "match", "concat")
	maxd := 1
	if tier == "thorough" {
		maxd = 2
		gs = gransNamed("vm", "fmt", "find", "load", "utf8", "match", "concat", "sort", "gsub")
	}
	for d := 0; d <= maxd; d++ {
		for _, n := range nests(d) {
			inner := false
			for _, w := range n {
				// an inner context with its own limit ends the loop: that program is finite
				if strings.HasPrefix(wrappers[w].name, "ctx") {
					inner = true
				}
			}
			if inner {
				continue
			}
			for _, g := range gs {
				out = append(out, program{nest: n, gran: g, infinite: true})
			}
		}
	}
	return out
}
