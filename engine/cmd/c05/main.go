// C05 — a CPU limit is a hard, exact and uninterceptable bound.
//
// Part 1 (families sweep, forever): exhaustive fault-point sweep.  Every
// program of a finite family of interception attempts is run under EVERY hard
// CPU limit L in 1..u+1 (u = its own usage) and compared with its own
// unlimited run.  Part 2 (families amp/*): amplification templates — library
// calls with program-chosen size parameters under {cpu=10^4, memory=10^5}.
package main

import (
	"os"
	"runtime"
	"runtime/debug"
	"strconv"
	"strings"

	rt "github.com/arnodel/golua/runtime"

	"verif/engine/core"
)

func main() {
	core.Main(&core.Check{
		ID:    "C05",
		Level: "model_checking",
		Rule: "sweep/forever: one case = one program (workload charge granularity x nesting <= 2 (quick) / 3 (thorough) of 14 interception wrappers) run in a fresh runtime under EVERY hard cpu limit L in 1..u+1 plus two far limits, each L twice " +
			"(every program has u <= 2000 so no L is skipped; for u > 2000 the rule would be 1..200, u-200..u+1 and a stride of (u-400)/400; forever = non-terminating workloads, L in 1..400); " +
			"states = distinct (program, L) runs, transitions = executions; programs whose reference run is already condemned (context stack corrupted) are not swept; " +
			"amp: one case = one library call template x size N (300..2^40, thorough ..2^63-1) x element size {0,1,100} under {cpu=1e4, memory=1e5}; " +
			"non-trivial = the program consumed cpu; distinct = distinct (reference trace, verdict vector) resp. distinct (template, status, result)",
		Assumptions: []string{
			"the oracle for a limited run is the same compiled unit's own run under a limit it never reaches (2^40): killed iff L <= u, identical observation otherwise",
			"each program is compiled once per worker and the same code unit is loaded into a fresh runtime for every run",
			"Go finalizers are disabled through the verif finalizer seam, so __gc handlers only run when their context closes (deterministic)",
			"'no Lua code runs after the kill' is observed through the host callbacks tick()/emit(): each call records the status and consumed cpu of every context of the chain",
			"amplification: process CPU time (getrusage) of one call must stay below 10 s; a watchdog goroutine ends the worker when it does not (the driver attributes the death to the case in flight; its key names the template); the driver's 60 s hang watchdog is only a backstop",
			"the violation key names the smallest program of the family that shows the same clause through the same code (wrappers are dropped one at a time, then the granularity is simplified), never the limit L",
			"coroutines left suspended by a kill are closed by the harness after the observation is taken (otherwise their goroutines pin the runtime)",
		},
		Init: func(tier string) {
			debug.SetGCPercent(200)
			// one Lua thread runs at a time; more Ps only add scheduler and GC chatter
			runtime.GOMAXPROCS(2)
			// never let the Go collector schedule a Lua finalizer
			rt.VerifSetFinalizerSeam(func(obj interface{}, finalizer interface{}) {})
			startWatchdog()
		},
		Families: func(tier string) []*core.Family {
			sweepBudget, foreverBudget := 170, 40
			if tier == "thorough" {
				sweepBudget, foreverBudget = 950, 200
			}
			if b, err := strconv.Atoi(os.Getenv("C05_BUDGET")); err == nil && b > 0 { // development aid
				sweepBudget, foreverBudget = b, b
			}
			fams := []*core.Family{
				sweepFamily("sweep", sweepPrograms(tier), 300, sweepBudget),
				sweepFamily("forever", foreverPrograms(tier), 300, foreverBudget),
			}
			fams = append(fams, ampFamilies(tier)...)
			if only := os.Getenv("C05_ONLY"); only != "" { // development aid: restrict to families with this prefix
				var sel []*core.Family
				for _, f := range fams {
					if strings.HasPrefix(f.Name, only) {
						sel = append(sel, f)
					}
				}
				return sel
			}
			return fams
		},
	})
}
