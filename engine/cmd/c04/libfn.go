package main

// Family e-lib: every Go function reachable from the global table (hence
// package.loaded), the string metatable, the metatables of file and runtime
// context userdata — found by a graph walk at check time — called with every
// argument tuple up to the bound from an edge-value pool.  Each call is
// pcall(f, args...) inside a context {cpu=10^6, memory=64 MB} in a FRESH runtime
// whose working directory is an emptied sentinel directory.

import (
	"fmt"
	"math"
	"os"
	"path/filepath"
	"sort"
	"strconv"
	"strings"
	"sync"
	"time"
	"unicode/utf8"

	rt "github.com/arnodel/golua/runtime"

	"verif/engine/core"
	"verif/engine/host"
)

type libFn struct {
	path string
	fn   *rt.GoFunction
}

// ---- graph walk

type walkItem struct {
	path string
	v    rt.Value
}

func keyName(k rt.Value) (string, bool) {
	switch k.Type() {
	case rt.StringType:
		return k.AsString(), true
	case rt.IntType:
		return "[" + strconv.FormatInt(k.AsInt(), 10) + "]", true
	}
	return "", false
}

// walkFunctions returns all Go functions reachable from the roots in BFS order
// (children visited in sorted key order), named by their first (shortest) path.
func walkFunctions(m *host.Machine) []libFn {
	r := m.R
	seenT := map[*rt.Table]bool{}
	seenU := map[*rt.UserData]bool{}
	seenF := map[*rt.GoFunction]bool{}
	var out []libFn
	queue := []walkItem{{"", rt.TableValue(r.GlobalEnv())}}
	if mt := r.RawMetatable(rt.StringValue("")); mt != nil {
		queue = append(queue, walkItem{"<string-mt>", rt.TableValue(mt)})
	}
	for _, v := range []struct {
		n string
		v rt.Value
	}{{"<nil-mt>", rt.NilValue}, {"<bool-mt>", rt.BoolValue(true)}, {"<number-mt>", rt.IntValue(0)}} {
		if mt := r.RawMetatable(v.v); mt != nil {
			queue = append(queue, walkItem{v.n, rt.TableValue(mt)})
		}
	}
	// values only obtainable by a call: runtime contexts and their resource records
	{
		term := rt.NewTerminationWith(nil, 1, false)
		clos, err := r.CompileAndLoadLuaChunk("walk", []byte(`local out = {}
if runtime then
  local c = runtime.context()
  out.ctx = c
  out.res = c.used
  out.lim = c.kill
end
out.gmatch_iter = string.gmatch("a", "a")
out.wrap_fn = coroutine.wrap(function() end)
return out`), rt.TableValue(r.GlobalEnv()))
		if err == nil && rt.Call(r.MainThread(), rt.FunctionValue(clos), nil, term) == nil {
			queue = append(queue, walkItem{"<values>", term.Get(0)})
		}
	}
	join := func(p, k string) string {
		if p == "" {
			return k
		}
		if strings.HasPrefix(k, "[") {
			return p + k
		}
		return p + "." + k
	}
	for len(queue) > 0 {
		it := queue[0]
		queue = queue[1:]
		switch it.v.Type() {
		case rt.FunctionType:
			if gf, ok := it.v.AsCallable().(*rt.GoFunction); ok && !seenF[gf] {
				seenF[gf] = true
				out = append(out, libFn{it.path, gf})
			}
		case rt.TableType:
			t := it.v.AsTable()
			if seenT[t] {
				continue
			}
			seenT[t] = true
			type kv struct {
				k string
				v rt.Value
			}
			var kvs []kv
			k := rt.NilValue
			for {
				nk, nv, ok := t.Next(k)
				if !ok || nk.IsNil() {
					break
				}
				k = nk
				if name, ok := keyName(nk); ok {
					kvs = append(kvs, kv{name, nv})
				}
			}
			sort.Slice(kvs, func(a, b int) bool { return kvs[a].k < kvs[b].k })
			for _, e := range kvs {
				if it.path == "" && (e.k == "_G" || e.k == "emit" || e.k == "tick") {
					continue
				}
				if it.path == "package.loaded" || strings.HasPrefix(it.path, "package.loaded.") {
					// same tables as the globals; keep only what is new (seenT dedupes)
				}
				queue = append(queue, walkItem{join(it.path, e.k), e.v})
			}
			if mt := t.Metatable(); mt != nil {
				queue = append(queue, walkItem{it.path + "<mt>", rt.TableValue(mt)})
			}
		case rt.UserDataType:
			u := it.v.AsUserData()
			if seenU[u] {
				continue
			}
			seenU[u] = true
			if mt := u.Metatable(); mt != nil {
				queue = append(queue, walkItem{it.path + "<mt>", rt.TableValue(mt)})
			}
		}
	}
	return out
}

// ---- exclusions

var libExcluded = map[string]string{
	"os.exit":      "terminates the process by contract",
	"golib.import": "invokes the Go toolchain / loads plugins",
}

// commandFns get "true" instead of any string/number command argument.
var commandFns = map[string]bool{"io.popen": true, "os.execute": true}

// ---- pool

var poolNames = []string{
	"nil", "true", "i0", "i1", "i-1", "maxint", "minint", "f0.5", "f2^53", "inf", "nan",
	"s-empty", "s-a", "s-pct", "s-300", "s-num", "s-nul", "dump-trunc", "dump-flip",
	"t-empty", "t-seq", "t-raising", "fn", "co-dead", "self", "file-open", "file-closed", "ud-ctx",
}

// Lua snippets that build the pool values that cannot be made from Go.
var poolLua = map[string]string{
	"t-raising": `
local raising = {}
local function boom() error("mm", 0) end
for _, e in ipairs{"__index", "__newindex", "__call", "__add", "__sub", "__mul", "__div", "__mod", "__pow", "__unm",
  "__idiv", "__band", "__bor", "__bxor", "__shl", "__shr", "__bnot", "__concat", "__len", "__eq", "__lt", "__le",
  "__close", "__tostring", "__pairs", "__name"} do raising[e] = boom end
return setmetatable({}, raising)`,
	"fn":      `return function(...) return ... end`,
	"co-dead": `local co = coroutine.create(function() end) coroutine.resume(co) return co`,
	"file-open": `local fo = io.open("f-open", "w+")
fo:write("line1\nline2\n12 0x10 zz\n")
fo:seek("set")
return fo`,
	"ud-ctx":      `return runtime.context()`,
	"file-closed": `local fc = io.open("f-closed", "w") fc:close() return fc`,
	"dump":        `return string.dump(function(a, b) local t = {a, "k", 2.5} return t[1] + #b end)`,
}

func flipBit(s string) string {
	b := []byte(s)
	k := len(b) * 2 / 3
	b[k] ^= 0x10
	return string(b)
}

func luaValue(m *host.Machine, name string) (rt.Value, string) {
	r := m.R
	clos, err := r.CompileAndLoadLuaChunk("pool", []byte(poolLua[name]), rt.TableValue(r.GlobalEnv()))
	if err != nil {
		return rt.NilValue, "pool setup does not compile: " + err.Error()
	}
	term := rt.NewTerminationWith(nil, 1, false)
	if err := rt.Call(r.MainThread(), rt.FunctionValue(clos), nil, term); err != nil {
		return rt.NilValue, "pool setup failed: " + err.Error()
	}
	return term.Get(0), ""
}

var dumpImage string // string.dump image, computed once per process

// poolValue builds pool value number pi in machine m.
func poolValue(m *host.Machine, pi int, self rt.Value) (rt.Value, string) {
	switch name := poolNames[pi]; name {
	case "nil":
		return rt.NilValue, ""
	case "true":
		return rt.BoolValue(true), ""
	case "i0":
		return rt.IntValue(0), ""
	case "i1":
		return rt.IntValue(1), ""
	case "i-1":
		return rt.IntValue(-1), ""
	case "maxint":
		return rt.IntValue(math.MaxInt64), ""
	case "minint":
		return rt.IntValue(math.MinInt64), ""
	case "f0.5":
		return rt.FloatValue(0.5), ""
	case "f2^53":
		return rt.FloatValue(1 << 53), ""
	case "inf":
		return rt.FloatValue(math.Inf(1)), ""
	case "nan":
		return rt.FloatValue(math.NaN()), ""
	case "s-empty":
		return rt.StringValue(""), ""
	case "s-a":
		return rt.StringValue("a"), ""
	case "s-pct":
		return rt.StringValue("%"), ""
	case "s-300":
		return rt.StringValue(strings.Repeat("x", 300)), ""
	case "s-num":
		return rt.StringValue("10"), ""
	case "s-nul":
		return rt.StringValue("a\x00b"), ""
	case "dump-trunc", "dump-flip":
		if dumpImage == "" {
			v, e := luaValue(m, "dump")
			if e != "" {
				return v, e
			}
			dumpImage, _ = v.TryString()
			if len(dumpImage) < 20 || !strings.Contains(dumpImage[:len(dumpImage)*3/5], "\x00") {
				return v, "string.dump image unusable as pool value"
			}
		}
		if name == "dump-trunc" {
			return rt.StringValue(dumpImage[:len(dumpImage)*3/5]), ""
		}
		return rt.StringValue(flipBit(dumpImage)), ""
	case "t-empty":
		return rt.TableValue(rt.NewTable()), ""
	case "t-seq":
		seq := rt.NewTable()
		for i := int64(1); i <= 3; i++ {
			seq.Set(rt.IntValue(i), rt.IntValue(i*10))
		}
		return rt.TableValue(seq), ""
	case "self":
		return self, ""
	default:
		return luaValue(m, name)
	}
}

// resolve finds the function named by a walk path in a fresh machine without
// walking the whole graph again.
func resolve(m *host.Machine, path string) rt.Value {
	r := m.R
	var cur rt.Value
	rest := path
	switch {
	case strings.HasPrefix(rest, "<string-mt>"):
		cur, rest = rt.TableValue(r.RawMetatable(rt.StringValue(""))), rest[len("<string-mt>"):]
	case strings.HasPrefix(rest, "<values>"):
		for _, g := range walkFunctions(m) {
			if g.path == path {
				return rt.FunctionValue(g.fn)
			}
		}
		return rt.NilValue
	default:
		cur = rt.TableValue(r.GlobalEnv())
	}
	for rest != "" {
		switch {
		case strings.HasPrefix(rest, "<mt>"):
			rest = rest[4:]
			mt := r.RawMetatable(cur)
			if mt == nil {
				return rt.NilValue
			}
			cur = rt.TableValue(mt)
		case rest[0] == '[':
			k := strings.IndexByte(rest, ']')
			n, _ := strconv.ParseInt(rest[1:k], 10, 64)
			rest = rest[k+1:]
			t, ok := cur.TryTable()
			if !ok {
				return rt.NilValue
			}
			cur = t.Get(rt.IntValue(n))
		default:
			if rest[0] == '.' {
				rest = rest[1:]
			}
			k := strings.IndexAny(rest, ".<[")
			name := rest
			if k >= 0 {
				name, rest = rest[:k], rest[k:]
			} else {
				rest = ""
			}
			t, ok := cur.TryTable()
			if !ok {
				return rt.NilValue
			}
			cur = t.Get(rt.StringValue(name))
		}
	}
	return cur
}

// ---- sentinel directory

func resetSentinel() {
	if sentinel == "" {
		return
	}
	ents, _ := os.ReadDir(sentinel)
	for _, e := range ents {
		os.RemoveAll(filepath.Join(sentinel, e.Name()))
	}
	os.WriteFile(filepath.Join(sentinel, "a"), []byte("return 1\n"), 0644)
	os.WriteFile(filepath.Join(sentinel, "a.lua"), []byte("return {}\n"), 0644)
	os.Chdir(sentinel)
}

// ---- family

var libOnce sync.Once
var libFns []libFn
var libAllCount int
var libSkipped []string

func getLibFns() []libFn {
	libOnce.Do(func() {
		m := host.NewMachine(false)
		all := walkFunctions(m)
		libAllCount = len(all)
		for _, f := range all {
			if why, ok := libExcluded[f.path]; ok {
				libSkipped = append(libSkipped, f.path+": "+why)
				continue
			}
			libFns = append(libFns, f)
		}
	})
	return libFns
}

func libExtra() map[string]interface{} {
	fns := getLibFns()
	names := make([]string, len(fns))
	for i, f := range fns {
		names[i] = f.path
	}
	return map[string]interface{}{
		"e_lib_go_functions_reachable": libAllCount,
		"e_lib_go_functions_called":    len(fns),
		"e_lib_excluded":               libSkipped,
		"e_lib_pool":                   poolNames,
		"e_lib_functions":              names,
	}
}

const libCPU, libMem = 1000000, 64 << 20

// tupleOf decodes tuple index t into pool indices (length 0..maxLen).
func tupleOf(t uint64, maxLen int) []int {
	p := uint64(len(poolNames))
	size := uint64(1)
	for l := 0; l <= maxLen; l++ {
		if t < size {
			out := make([]int, l)
			for k := l - 1; k >= 0; k-- {
				out[k] = int(t % p)
				t /= p
			}
			return out
		}
		t -= size
		size *= p
	}
	return nil
}

func tupleCount(maxLen int) uint64 {
	p := uint64(len(poolNames))
	var tot, size uint64 = 0, 1
	for l := 0; l <= maxLen; l++ {
		tot += size
		size *= p
	}
	return tot
}

func tupleLabel(tp []int) string {
	s := make([]string, len(tp))
	for i, k := range tp {
		s[i] = poolNames[k]
	}
	return "(" + strings.Join(s, ",") + ")"
}

func libFamilies(tier string) []*core.Family {
	maxLen := 2
	budget := 0
	if tier == "thorough" {
		maxLen = 3
		budget = 360
	}
	nt := tupleCount(maxLen)
	const name = "e-lib"
	// index = tuple * nfns + fn  (short tuples of every function first)
	decode := func(i uint64) (libFn, []int) {
		fns := getLibFns()
		n := uint64(len(fns))
		return fns[i%n], tupleOf(i/n, maxLen)
	}
	skip := func(f libFn, tp []int) bool {
		return f.path == "debug.sethook" && len(tp) >= 3 // count hooks: covered by d-rec hook template
	}
	execFuncs[name] = func(i uint64) runRes {
		f, tp := decode(i)
		resetSentinel()
		m := host.NewMachine(false)
		// the machine's own function value for this path (fresh runtime => fresh GoFunction objects)
		self := resolve(m, f.path)
		if _, ok := self.TryCallable(); !ok {
			return runRes{Status: "harness", Err: "function " + f.path + " not found in fresh runtime"}
		}
		args := []rt.Value{self}
		for k, pi := range tp {
			v, perr := poolValue(m, pi, self)
			if perr != "" {
				return runRes{Status: "harness", Err: perr}
			}
			if k == 0 && commandFns[f.path] {
				if _, isS := v.TryString(); isS || v.Type() == rt.IntType || v.Type() == rt.FloatType {
					v = rt.StringValue("true")
				}
			}
			args = append(args, v)
		}
		pcall := m.R.GlobalEnv().Get(rt.StringValue("pcall"))
		def := rt.RuntimeContextDef{HardLimits: rt.RuntimeResources{Cpu: libCPU, Memory: libMem}}
		o := m.Call(pcall, args, &def)
		res := runRes{Status: o.Status, Err: o.Err}
		for k, r := range o.Results {
			if len(r) > 40 {
				r = r[:40] + "…"
			}
			if k < 4 {
				res.Results = append(res.Results, r)
			}
		}
		// the runtime must still be usable and must close cleanly
		if o.Status != "gopanic" {
			o2 := m.Exec("after", "return 1 + 1", nil, nil)
			if o2.Status != "ok" || len(o2.Results) != 1 || o2.Results[0] != "i:2" {
				res.Aux = "after-call probe: " + o2.String()
				if o2.Status == "gopanic" {
					res.Status, res.Err = "gopanic", "after call: "+o2.Err
				}
			}
		}
		m.Close()
		return res
	}
	fam := &core.Family{
		Name: name, Size: nt * uint64(len(getLibFns())), HangSeconds: 3600, BudgetSeconds: budget,
		Show: func(i uint64) string {
			f, tp := decode(i)
			return fmt.Sprintf("pcall(%s, %s) in {cpu=1e6, memory=64MB}", f.path, tupleLabel(tp))
		},
		Run: func(i uint64) core.Outcome {
			f, tp := decode(i)
			if skip(f, tp) {
				return core.Outcome{Skipped: true}
			}
			r := remote(name, i, 30*time.Second)
			label := fmt.Sprintf("fn=%s args=%s", f.path, tupleLabel(tp))
			out := judge(name, label, true, r, nil, true)
			cls := r.Status
			if r.Status == "ok" && len(r.Results) > 0 {
				cls += r.Results[0]
			}
			out.Sig = core.Hash64(f.path + "|" + cls)
			return out
		},
	}
	return []*core.Family{fam, utf8Family(tier)}
}

// ---- e-lib-utf8: every code point as (last) character of a string argument
//
// The edge-value pool is ASCII only.  This family gives every in-memory
// function that takes a string (string.*, utf8.*, tostring, tonumber, load,
// table.concat, ...) the strings <cp>, "a"<cp> and <cp>"a" for EVERY code
// point cp of a range (quick: planes 0 and 1; thorough: all
// 0x110000, surrogates included - utf8.char(cp, true) spells them), one block
// of 2048 code points per case.  The oracle is C04's: a value or a Lua error,
// never a Go panic.
const utf8Block = 2048

func utf8Fns() []libFn {
	var out []libFn
	for _, f := range getLibFns() {
		p := f.path
		switch {
		case strings.HasPrefix(p, "string.") && p != "string.rep" && p != "string.dump",
			strings.HasPrefix(p, "utf8."),
			p == "tostring", p == "tonumber", p == "load", p == "table.concat", p == "rawlen", p == "select", p == "type", p == "error", p == "math.tointeger":
			out = append(out, f)
		}
	}
	return out
}

func utf8Family(tier string) *core.Family {
	maxCP := uint64(0x20000)
	if tier == "thorough" {
		maxCP = 0x110000
	}
	const name = "e-lib-utf8"
	nBlocks := maxCP / utf8Block
	decode := func(i uint64) (libFn, uint64) {
		fns := utf8Fns()
		n := uint64(len(fns))
		return fns[i%n], (i / n) * utf8Block
	}
	execFuncs[name] = func(i uint64) runRes {
		f, lo := decode(i)
		m := host.NewMachine(false)
		defer m.Close()
		self := resolve(m, f.path)
		if _, ok := self.TryCallable(); !ok {
			return runRes{Status: "harness", Err: "function " + f.path + " not found in fresh runtime"}
		}
		pcall := m.R.GlobalEnv().Get(rt.StringValue("pcall"))
		def := rt.RuntimeContextDef{HardLimits: rt.RuntimeResources{Cpu: libCPU, Memory: libMem}}
		calls := 0
		for cp := lo; cp < lo+utf8Block; cp++ {
			var buf [4]byte
			var c string
			if cp >= 0xD800 && cp <= 0xDFFF {
				// a surrogate, encoded the way utf8.char(cp, true) does
				c = string([]byte{0xED, byte(0x80 | (cp>>6)&0x3F), byte(0x80 | cp&0x3F)})
			} else {
				c = string(buf[:utf8.EncodeRune(buf[:], rune(cp))])
			}
			for _, s := range []string{c, "a" + c, c + "a"} {
				args := []rt.Value{self, rt.StringValue(s)}
				if f.path == "string.format" || f.path == "string.find" || f.path == "string.match" || f.path == "string.gsub" || f.path == "string.gmatch" {
					// the string as subject and as format / pattern
					args = []rt.Value{self, rt.StringValue(s), rt.StringValue(s), rt.StringValue(s)}
				}
				o := m.Call(pcall, args, &def)
				calls++
				if o.Status == "gopanic" {
					return runRes{Status: "gopanic", Err: o.Err, Aux: fmt.Sprintf("first failing argument: %q (U+%04X)", s, cp)}
				}
			}
		}
		return runRes{Status: "ok", Results: []string{fmt.Sprint(calls)}}
	}
	return &core.Family{
		Name: name, Size: nBlocks * uint64(len(utf8Fns())), HangSeconds: 3600, BudgetSeconds: 240,
		Show: func(i uint64) string {
			f, lo := decode(i)
			return fmt.Sprintf("pcall(%s, s) for s in {c, \"a\"..c, c..\"a\"}, c = every code point U+%04X..U+%04X, in {cpu=1e6, memory=64MB}", f.path, lo, lo+utf8Block-1)
		},
		Run: func(i uint64) core.Outcome {
			f, lo := decode(i)
			r := remote(name, i, 120*time.Second)
			label := fmt.Sprintf("fn=%s cp=U+%04X..U+%04X", f.path, lo, lo+utf8Block-1)
			out := judge(name, label, true, r, nil, true)
			out.Sig = core.Hash64(f.path + "|" + r.Status)
			return out
		},
	}
}
