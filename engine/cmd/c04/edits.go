package main

// Family b-edit: every single-token edit (delete, duplicate, swap with the
// next token, replace by each token of a small replacement alphabet) of every
// seed program.  The seeds cover every statement kind.  Each mutant is
// compiled and, if accepted, run in a fresh runtime under {cpu=10^5,
// memory=10^7}.  thorough additionally runs every ordered PAIR of edits
// (budget capped).

import (
	"fmt"
	"strings"
	"time"

	rt "github.com/arnodel/golua/runtime"

	"verif/engine/core"
	"verif/engine/host"
)

// Seeds are written as space separated tokens (no spaces inside literals).
var editSeeds = []struct{ name, src string }{
	{"goto-continue", `for i = 1 , 3 do if i == 2 then goto continue end emit ( i ) :: continue :: end`},
	{"goto-backward", `local i = 0 :: top :: i = i + 1 if i < 3 then goto top end return i`},
	{"goto-nested-break", `while true do do goto out end end :: out :: do local x :: l1 :: ; x = 1 end return 1`},
	{"close-basic", `do local x <close> = setmetatable ( { } , { __close = function ( ) emit ( 1 ) end } ) end return 2`},
	{"close-const", `local a <const> = 5 local b <close> = nil local c <const> , d = a + 1 , 2 return a , c , d`},
	{"close-break", `for i = 1 , 2 do local x <close> = setmetatable ( { } , { __close = emit } ) if i then break end end`},
	{"close-error", `local ok , e = pcall ( function ( ) local x <close> = setmetatable ( { } , { __close = error } ) error ( "e" ) end ) return ok`},
	{"vararg-select", `local function f ( ... ) local a , b = ... return select ( "#" , ... ) , a , b , ... end return f ( 1 , 2 , 3 )`},
	{"vararg-table", `local function f ( ... ) local t = { ... , n = select ( "#" , ... ) } return # t , t . n , ( ... ) end return f ( nil , 2 )`},
	{"vararg-tailcall", `local function g ( ... ) return ... end local function f ( a , ... ) return g ( ... , a ) end return f ( 1 , 2 , 3 )`},
	{"method-call", `local t = { v = 1 } function t : inc ( n ) self . v = self . v + n return self end return t : inc ( 2 ) : inc ( 3 ) . v`},
	{"method-string", `local s = "abc" return s : upper ( ) : rep ( 2 , "-" ) , ( "x" ) : byte ( ) , # s : sub ( 2 )`},
	{"nested-function", `local function mk ( a ) local n = 0 return function ( b ) n = n + a + b return function ( ) return n end end end return mk ( 1 ) ( 2 ) ( )`},
	{"upvalue-loop", `local fs = { } for i = 1 , 3 do fs [ i ] = function ( ) i = i + 1 return i end end return fs [ 1 ] ( ) , fs [ 1 ] ( ) , fs [ 2 ] ( )`},
	{"recursive-local", `local function fib ( n ) if n < 2 then return n end return fib ( n - 1 ) + fib ( n - 2 ) end return fib ( 10 )`},
	{"numeric-for", `local s = 0 for i = 10 , 1 , - 3 do s = s + i end for i = 1.0 , 2 , 0.5 do s = s + i end return s`},
	{"numeric-for-edge", `local n = 0 for i = math.maxinteger - 1 , math.maxinteger do n = n + 1 end for i = 1 , 0 do n = n + 100 end return n`},
	{"generic-for-pairs", `local t = { 10 , 20 , x = 1 } local s = 0 for k , v in pairs ( t ) do s = s + v end for i , v in ipairs ( t ) do s = s + i end return s`},
	{"generic-for-custom", `local function it ( s , c ) if c < s then return c + 1 , c * 2 end end local r = 0 for a , b in it , 3 , 0 do r = r + a + b end return r`},
	{"generic-for-close", `local c = setmetatable ( { } , { __close = function ( ) emit ( "c" ) end } ) for k in next , { 1 } , nil , c do emit ( k ) end return 1`},
	{"repeat-until", `local i = 0 repeat local j = i i = i + 1 until j >= 2 return i`},
	{"while-break", `local i = 0 while i < 10 do i = i + 1 if i % 2 == 0 then goto cont end if i > 6 then break end :: cont :: end return i`},
	{"if-elseif", `local x = 3 if x == 1 then return "a" elseif x == 2 then return "b" elseif x == 3 then return "c" else return "d" end`},
	{"int-arith", `local a , b = 7 , - 2 return a + b , a - b , a * b , a // b , a % b , a / b , a ^ b , - a , math.mininteger // - 1`},
	{"float-arith", `local a , b = 7.5 , - 2 return a + b , a // b , a % b , 1 / 0 , - 1 / 0 , 0 / 0 ~= 0 / 0 , 2 ^ 53 + 1 , 1e308 * 10 , 3 | 0`},
	{"bitwise", `local a , b = 0xF0 , 3 return a & b , a | b , a ~ b , ~ a , a << b , a >> b , a << 64 , 1 << - 1 , 2.0 & 3`},
	{"compare-logic", `local a , b = 1 , "1" return a == b , a < 2 , "a" < "b" , a ~= b , not a , a and b , nil or b , false and error ( ) , 1 <= 1.0`},
	{"concat-len", `local t = { 1 , 2 , 3 } return "a" .. 1 .. 2.0 .. "b" , # t , # "abc" , # { n = 1 } , "x" .. # t`},
	{"table-constructor", `local function f ( ) return 7 , 8 end local k = "y" local t = { 1 , 2 ; x = 3 , [ k ] = 4 , [ 10 ] = 5 , f ( ) , } return # t , t . x , t . y , t [ 10 ]`},
	{"multiple-assign", `local f = function ( ) return 7 , 8 end local a , b , c = 1 local t = { } t . x , t . y , a = a , 2 a , b = b , a t [ 1 ] , t [ 2 ] = ( f ( ) ) return a , b , c , t . x , t . y`},
	{"index-chain", `local t = { a = { b = { c = { 1 , 2 } } } } t . a . b . c [ 2 ] = t . a [ "b" ] . c [ 1 ] + 1 return t . a . b . c [ 2 ]`},
	{"metamethods", `local mt = { __add = function ( a , b ) return 1 end , __index = function ( t , k ) return k end , __call = function ( s , x ) return x end } local t = setmetatable ( { } , mt ) return t + t , t . z , t ( 5 )`},
	{"meta-eq-lt", `local mt = { } mt . __eq = function ( ) return true end mt . __lt = function ( ) return false end mt . __le = mt . __lt mt . __len = function ( ) return 7 end local a , b = setmetatable ( { } , mt ) , setmetatable ( { } , mt ) return a == b , a < b , a <= b , # a , a ~= b`},
	{"coroutine-basic", `local co = coroutine.wrap ( function ( a ) local b = coroutine.yield ( a + 1 ) return b * 2 end ) return co ( 1 ) , co ( 5 )`},
	{"coroutine-status", `local co co = coroutine.create ( function ( ) coroutine.yield ( coroutine.status ( co ) ) error ( "x" ) end ) local a , b = coroutine.resume ( co ) local c , d = coroutine.resume ( co ) return a , b , c , coroutine.status ( co )`},
	{"pcall-error", `local ok , e = pcall ( error , { code = 1 } ) local ok2 , e2 = xpcall ( function ( ) return nil + 1 end , function ( m ) return "h" end ) return ok , e . code , ok2 , e2`},
	{"string-lib", `return ( "hello" ) : find ( "l+" ) , ( "a,b" ) : gsub ( "," , "%%" ) , string.format ( "%5.2f|%d|%s|%q" , 1.5 , 3 , nil , "a\n" ) , ( "x" ) : rep ( 3 , "," )`},
	{"table-lib", `local t = { 3 , 1 , 2 } table.sort ( t , function ( a , b ) return a > b end ) table.insert ( t , 1 , 9 ) table.remove ( t ) return table.concat ( t , "," ) , table.unpack ( t , 1 , 2 ) , select ( - 1 , table.unpack ( t ) )`},
	{"load-dump", `local f = load ( "local a = ... return a + 1" ) local g = load ( string.dump ( f ) , "d" , "b" ) return f ( 1 ) , g ( 2 ) , load ( "return" , "=c" , "t" , { } ) ( )`},
	{"env-global", `local _ENV = { emit = emit , x = 1 } y = x + 1 emit ( y ) local function f ( ) local _ENV = { y = 5 } return y end return f ( ) , y`},
	{"integer-float-for-string", `local s = "" for _ , v in ipairs { 1 , 1.0 , - 0.0 , 1e100 , 2 ^ 63 , math.pi , "10" + 0 , 10 // 3.0 , 7 // 0.0 } do s = s .. tostring ( v ) .. ";" end return s`},
	{"long-strings-comments", `local a = [[x]] local b = [==[ ]] ]==] --[[ c ]] local c = "\65\x41\u{41}\z  \n" -- tail` + "\n" + `return a .. b .. c , # c`},
	{"semicolons-parens", `; ; local f = function ( ... ) return ... end ; ( f ) ( 1 ) ; local a = ( f ( 1 , 2 ) ) return a , ( ( f ) ) ( 3 ) , - - 2 , not not nil ;`},
	{"attrib-shadow", `local x <const> = 1 do local x = x + 1 local x <close> = nil do local x = 3 emit ( x ) end emit ( x ) end return x`},
	{"closure-in-loop-break", `local fs = { } local i = 0 while true do i = i + 1 local j = i fs [ i ] = function ( ) return j end if i == 3 then break end end return fs [ 1 ] ( ) + fs [ 3 ] ( )`},
}

var editReplacements = []string{"end", "(", ")", "=", ",", "nil", "...", "local", "function", "x", "1", "..", "goto", "<close>", "return", "{", "::", "-"}

type editOp struct {
	kind string // del | dup | swap | rep
	pos  int
	tok  string
}

func (e editOp) String() string {
	if e.kind == "rep" {
		return fmt.Sprintf("rep@%d:%s", e.pos, e.tok)
	}
	return fmt.Sprintf("%s@%d", e.kind, e.pos)
}

// opsFor lists all single edits of a token sequence of length n.
func opsFor(n int) []editOp {
	var ops []editOp
	for p := 0; p < n; p++ {
		ops = append(ops, editOp{"del", p, ""})
	}
	for p := 0; p < n; p++ {
		ops = append(ops, editOp{"dup", p, ""})
	}
	for p := 0; p+1 < n; p++ {
		ops = append(ops, editOp{"swap", p, ""})
	}
	for p := 0; p < n; p++ {
		for _, r := range editReplacements {
			ops = append(ops, editOp{"rep", p, r})
		}
	}
	return ops
}

func applyEdit(toks []string, e editOp) ([]string, bool) {
	if e.pos >= len(toks) {
		return nil, false
	}
	out := make([]string, 0, len(toks)+1)
	switch e.kind {
	case "del":
		out = append(out, toks[:e.pos]...)
		out = append(out, toks[e.pos+1:]...)
	case "dup":
		out = append(out, toks[:e.pos+1]...)
		out = append(out, toks[e.pos:]...)
	case "swap":
		if e.pos+1 >= len(toks) {
			return nil, false
		}
		out = append(out, toks...)
		out[e.pos], out[e.pos+1] = out[e.pos+1], out[e.pos]
	case "rep":
		if toks[e.pos] == e.tok {
			return nil, false
		}
		out = append(out, toks...)
		out[e.pos] = e.tok
	}
	return out, true
}

type editCase struct {
	seed   int
	e1, e2 int // e2 = -1 for single edits; e1 = -1 for the unedited seed
}

const editCPU, editMem = 100000, 10000000

var compileShared *host.Machine

func editFamilies(tier string) []*core.Family {
	type seedInfo struct {
		toks []string
		ops  []editOp
	}
	var seeds []seedInfo
	for _, s := range editSeeds {
		t := strings.Split(s.src, " ")
		seeds = append(seeds, seedInfo{t, opsFor(len(t))})
	}
	// single edits (+ the seeds themselves)
	var singles []editCase
	for si, s := range seeds {
		singles = append(singles, editCase{si, -1, -1})
		for k := range s.ops {
			singles = append(singles, editCase{si, k, -1})
		}
	}
	build := func(c editCase) (string, string, bool) {
		if c.e1 == -2 {
			return "", "", false
		}
		s := seeds[c.seed]
		toks := s.toks
		label := "seed=" + editSeeds[c.seed].name
		if c.e1 >= 0 {
			var ok bool
			toks, ok = applyEdit(toks, s.ops[c.e1])
			if !ok {
				return "", "", false
			}
			label += " edit=" + s.ops[c.e1].String()
		}
		if c.e2 >= 0 {
			var ok bool
			toks, ok = applyEdit(toks, s.ops[c.e2])
			if !ok {
				return "", "", false
			}
			label += "+" + s.ops[c.e2].String()
		}
		return strings.Join(toks, " "), label, true
	}
	mk := func(name string, size uint64, get func(i uint64) editCase, budget int) *core.Family {
		execFuncs[name] = func(i uint64) runRes {
			src, _, ok := build(get(i))
			if !ok {
				return runRes{Status: "skip"}
			}
			// Most mutants do not compile: find that out on a shared runtime
			// (compiling executes nothing) and pay for a fresh runtime only
			// when there is something to run.
			if compileShared == nil {
				compileShared = host.NewMachine(false)
			}
			cm := compileShared
			compileShared = nil // a Go panic below must not leave a half-broken runtime behind
			if _, err := cm.R.CompileAndLoadLuaChunk("chunk", []byte(src), rt.TableValue(cm.R.GlobalEnv())); err != nil {
				compileShared = cm
				return runRes{Status: "compile", Err: err.Error()}
			}
			compileShared = cm
			return fromObs(host.Run(src, host.Opts{CPU: editCPU, Mem: editMem}))
		}
		return &core.Family{
			Name: name, Size: size, HangSeconds: 3600, BudgetSeconds: budget,
			Show: func(i uint64) string {
				src, label, ok := build(get(i))
				if !ok {
					return "(no-op edit)"
				}
				return label + "\n" + src
			},
			Run: func(i uint64) core.Outcome {
				c := get(i)
				_, label, ok := build(c)
				if !ok {
					return core.Outcome{Skipped: true}
				}
				r := remote(name, i, 30*time.Second)
				out := judge("b-edit", label, true, r, nil, true)
				if c.e1 < 0 && r.Status != "ok" && out.Viol == nil {
					// the unedited seed must run: otherwise the family is vacuous
					out.Viol = &core.Violation{Key: "b-edit " + label + " seed-does-not-run", Detail: r.Status + " " + r.Err}
				}
				out.Sig = core.Hash64(r.Status + "|" + errClass(r.Err) + "|" + strings.Join(r.Results, ","))
				return out
			},
		}
	}
	fams := []*core.Family{mk("b-edit1", uint64(len(singles)), func(i uint64) editCase { return singles[i] }, 0)}
	if tier == "thorough" {
		// all ordered pairs of edits with a reduced replacement alphabet (first 6
		// tokens); index = pair-major, seed-minor so that a budget cap cuts every
		// seed at the same pair
		pairOps := make([][]int, len(seeds))
		maxOps := 0
		for si, s := range seeds {
			for k, op := range s.ops {
				keep := op.kind != "rep"
				for _, r := range editReplacements[:4] {
					if op.kind == "rep" && op.tok == r {
						keep = true
					}
				}
				if keep {
					pairOps[si] = append(pairOps[si], k)
				}
			}
			if len(pairOps[si]) > maxOps {
				maxOps = len(pairOps[si])
			}
		}
		ns := uint64(len(seeds))
		tot := ns * uint64(maxOps) * uint64(maxOps)
		get := func(i uint64) editCase {
			si := int(i % ns)
			k := i / ns
			a, b := int(k/uint64(maxOps)), int(k%uint64(maxOps))
			if a >= len(pairOps[si]) || b >= len(pairOps[si]) {
				return editCase{si, -2, -2} // no such pair for this seed
			}
			return editCase{si, pairOps[si][a], pairOps[si][b]}
		}
		fams = append(fams, mk("b-edit2", tot, get, 240))
	}
	return fams
}
