// C04 — no Lua source or program can crash the embedding Go process.
//
// Families (see NOTES.md): a-tokens (all short token strings -> compile
// functions and load), b-edit (all single token edits of seed programs,
// compiled and run under limits), c-limit (implementation-limit templates with
// closed-form expected values), d-rec (recursion templates through every
// re-entry mechanism, with and without resource limits), e-lib (every Go
// function reachable from the global table x edge-value argument tuples).
//
// Oracle everywhere: the host observes only a value, a Lua error (compile or
// runtime) or a killed context.  A recovered Go panic, a dead process or a hang
// under a CPU limit is a violation; a value that differs from the closed-form
// expectation ("silently wrong code") is a violation too.
package main

import (
	"fmt"
	"os"
	"strings"
	"sync"

	"verif/engine/core"
)

var sentinel string // cwd of the executor child

var famOnce sync.Once
var famList []*core.Family

// initFamilies builds all families (registering their exec functions) once.
func initFamilies(tier string) []*core.Family {
	famOnce.Do(func() {
		if tier == "" {
			tier = "quick"
		}
		currentTier = tier
		famList = append(famList, tokenFamilies(tier)...)
		famList = append(famList, editFamilies(tier)...)
		famList = append(famList, limitFamilies(tier)...)
		famList = append(famList, recFamilies(tier)...)
		famList = append(famList, libFamilies(tier)...)
	})
	return famList
}

func main() {
	if os.Getenv("C04_CHILD") != "" {
		childMain()
		return
	}
	if fam := os.Getenv("C04_LABELS"); fam != "" {
		for _, f := range initFamilies(os.Getenv("C04_TIER")) {
			if f.Name == fam {
				for i := uint64(0); i < f.Size; i++ {
					fmt.Println(i, strings.SplitN(f.Show(i), "\n", 2)[0])
				}
			}
		}
		return
	}
	if os.Getenv("C04_LISTFNS") != "" {
		for _, f := range getLibFns() {
			fmt.Println(f.path)
		}
		fmt.Println("excluded:", libSkipped)
		return
	}
	if p := os.Getenv("C04_PROBE"); p != "" {
		probeMain(p)
		return
	}
	core.Main(&core.Check{
		ID:    "C04",
		Level: "model_checking",
		Rule: "a: every token string up to the bound over the scanner/parser alphabet, joined with and without spaces, through 4 compile entry points; " +
			"b: every single-token edit of every seed program, compiled and run under limits; c: every limit template x size N with a closed-form expected value; " +
			"d: every recursion template x depth N x {unlimited, limited context}; e: every reachable Go function x every argument tuple from the edge pool. " +
			"non-trivial = the case reached the code under test (all cases); distinct = distinct observed outcome classes",
		Assumptions: []string{
			"ordinary outcomes are: a value, a Lua error (compile error or runtime error returned by the API/pcall), a killed context; error messages are never compared",
			"every case that executes Lua code runs in a child process with a 6 GB address-space cap and a 512 MB maximum Go stack (the Go default is 1 GB); a template that needs more Go stack than that at depth N <= 10^6 is unbounded in N and would die with the default as well at a larger N",
			"running out of the address-space cap in a context WITHOUT a memory limit is classified 'oom-unlimited' and is not a violation (DESIGN §4 C04 oracle); under a memory limit it is",
			"a case exceeding its wall-clock allowance is a violation only when it ran under a CPU limit (the limit should have ended it); without a limit it is recorded as skipped (slow), never as a violation",
			"limit templates accept EITHER a compile error OR the closed-form value; a runtime error is accepted only where the manual allows one (stack overflow / resource errors), see NOTES.md",
			"excluded library functions (by name, with reasons) are listed in NOTES.md",
		},
		Init: func(tier string) {
			if os.Getenv("C04_ROOT") == "" {
				os.Setenv("C04_ROOT", fmt.Sprintf("/tmp/c04-%d", os.Getpid()))
			}
			openDevNull()
			os.Stdin = devnull
		},
		Families: func(tier string) []*core.Family { return initFamilies(tier) },
		Extra: func(tier string) map[string]interface{} {
			// end of the parent run: remove the sentinel root
			if root := os.Getenv("C04_ROOT"); root != "" {
				os.RemoveAll(root)
			}
			return libExtra()
		},
	})
}
