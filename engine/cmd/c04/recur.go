package main

// Family d-rec: recursion templates.  Every template re-enters the
// interpreter through one mechanism, N levels deep, and returns a closed-form
// value if it completes.  Each (template, N) is run without any resource
// limit (the way a host embeds golua by default) and under
// {cpu=10^7, memory=10^8}.

import (
	"fmt"
	"strings"
	"time"

	rt "github.com/arnodel/golua/runtime"

	"verif/engine/core"
	"verif/engine/host"
)

type recTemplate struct {
	name string
	src  string // Lua chunk; receives N as ...; returns the closed-form value
	want func(n int64) []string
	maxN int64 // 0 = no cap (coroutine templates are capped: 1 goroutine per level)
}

func wantN(n int64) []string    { return []string{fmt.Sprintf("i:%d", n)} }
func wantTrue(n int64) []string { return []string{"true"} }
func wantStr(s string) func(int64) []string {
	return func(int64) []string { return []string{"s:\"" + s + "\""} }
}

// counter based metamethod template: the metamethod body re-triggers its own
// event `n` times through EXPR (which must evaluate the operation on a, b).
func mmCounter(name, event, params, reenter, trigger string) recTemplate {
	return recTemplate{name: name, want: wantN, src: fmt.Sprintf(`
local N = ...
local n, d = N, 0
local mt = {}
local a, b = setmetatable({}, mt), setmetatable({}, mt)
mt.%s = function(%s)
  if n == 0 then return nil end
  n = n - 1
  d = d + 1
  local r = %s
  return r
end
local r = %s
return d`, event, params, reenter, trigger)}
}

var recTemplates = []recTemplate{
	{name: "lua-call", want: wantN, src: `
local N = ...
local function f(n) if n == 0 then return 0 end return 1 + f(n - 1) end
return f(N)`},
	{name: "lua-call-in-coroutine", want: wantN, src: `
local N = ...
local function f(n) if n == 0 then return 0 end return 1 + f(n - 1) end
return coroutine.wrap(f)(N)`},
	{name: "lua-mutual-vararg", want: wantN, src: `
local N = ...
local g
local function f(n, ...) if n == 0 then return 0 end return 1 + g(n - 1, ...) end
g = function(n, ...) if n == 0 then return 0 end return 1 + f(n - 1, n, ...) end
return f(N)`, maxN: 1000},
	{name: "pcall", want: wantN, src: `
local N = ...
local function f(n)
  if n == 0 then return 0 end
  local ok, v = pcall(f, n - 1)
  if not ok then error(v, 0) end
  return v + 1
end
return f(N)`},
	{name: "xpcall", want: wantN, src: `
local N = ...
local function h(e) return e end
local function f(n)
  if n == 0 then return 0 end
  local ok, v = xpcall(f, h, n - 1)
  if not ok then error(v, 0) end
  return v + 1
end
return f(N)`},
	{name: "xpcall-handler-error", want: wantN, src: `
local N = ...
local d, reached = 0, false
local function f(n)
  if n == 0 then reached = true error("bottom") end
  d = d + 1
  xpcall(f, function(e) error(e) end, n - 1)
  if not reached then error("not reached", 0) end
end
f(N)
return d`},
	{name: "error-in-handler-chain", want: wantN, src: `
local N = ...
local n, d = N, 0
local function h(e) if n == 0 then return e end n = n - 1 d = d + 1 error(e) end
xpcall(error, h, "x")
return d + n`},
	{name: "meta-index-fn", want: wantN, src: `
local N = ...
local t = setmetatable({}, {__index = function(t, k)
  if k == 0 then return 0 end
  return t[k - 1] + 1
end})
return t[N]`},
	{name: "meta-index-fn-in-coroutine", want: wantN, src: `
local N = ...
local t = setmetatable({}, {__index = function(t, k)
  if k == 0 then return 0 end
  return t[k - 1] + 1
end})
return coroutine.wrap(function() return t[N] end)()`},
	{name: "meta-index-env", want: wantN, src: `
local N = ...
local _ENV = setmetatable({}, {__index = function(t, k)
  local n = #k
  if n == 1 then return 1 end
  return t[k:sub(2)] + 1
end})
local key = ("x"):rep(N)
return _ENV[key]`, maxN: 1000},
	{name: "meta-newindex-fn", want: wantN, src: `
local N = ...
local d = -1
local t = setmetatable({}, {__newindex = function(t, k, v)
  if k == 0 then d = v return end
  t[k - 1] = v + 1
end})
t[N] = 0
return d`},
	{name: "meta-call-fn", want: wantN, src: `
local N = ...
local t = setmetatable({}, {__call = function(self, n)
  if n == 0 then return 0 end
  return self(n - 1) + 1
end})
return t(N)`},
	{name: "meta-call-chain", want: wantN, src: `
local N = ...
local f = function(...) return select('#', ...) end
for i = 1, N do f = setmetatable({}, {__call = f}) end
return f()`},
	mmCounter("meta-add", "__add", "x, y", "x + y", "a + b"),
	mmCounter("meta-sub-num", "__sub", "x, y", "x - 1", "a - 1"),
	mmCounter("meta-idiv", "__idiv", "x, y", "x // y", "a // b"),
	mmCounter("meta-band", "__band", "x, y", "x & y", "a & b"),
	mmCounter("meta-shl", "__shl", "x, y", "1 << y", "1 << b"),
	mmCounter("meta-bnot", "__bnot", "x", "~x", "~a"),
	mmCounter("meta-unm", "__unm", "x", "-x", "-a"),
	mmCounter("meta-concat", "__concat", "x, y", "x .. y", "a .. b"),
	mmCounter("meta-concat-str", "__concat", "x, y", `"s" .. y`, `"s" .. b`),
	mmCounter("meta-len", "__len", "x", "#x", "#a"),
	mmCounter("meta-eq", "__eq", "x, y", "x == y", "a == b"),
	mmCounter("meta-ne", "__eq", "x, y", "x ~= y", "a ~= b"),
	mmCounter("meta-lt", "__lt", "x, y", "x < y", "a < b"),
	mmCounter("meta-le", "__le", "x, y", "x <= y", "a <= b"),
	mmCounter("meta-gt", "__lt", "x, y", "x > y", "a > b"),
	{name: "meta-tostring", want: wantN, src: `
local N = ...
local n, d = N, 0
local t = setmetatable({}, {})
getmetatable(t).__tostring = function(x)
  if n == 0 then return "x" end
  n = n - 1
  d = d + 1
  return tostring(x)
end
tostring(t)
return d`},
	{name: "meta-tostring-format", want: wantN, src: `
local N = ...
local n, d = N, 0
local t = setmetatable({}, {})
getmetatable(t).__tostring = function(x)
  if n == 0 then return "x" end
  n = n - 1
  d = d + 1
  return string.format("%s", x)
end
string.format("%s", t)
return d`},
	{name: "meta-name-error", want: wantN, src: `
local N = ...
local d = 0
local function f(n)
  if n == 0 then return end
  local t = setmetatable({}, {__name = ("n"):rep(n % 50)})
  local ok, e = pcall(function() return t + 1 end)
  d = d + 1
  return f(n - 1)
end
f(N)
return d`, maxN: 1000},
	{name: "meta-pairs", want: wantN, src: `
local N = ...
local n, d = N, 0
local t = setmetatable({}, {})
getmetatable(t).__pairs = function(x)
  if n == 0 then return next, {}, nil end
  n = n - 1
  d = d + 1
  return pairs(x)
end
for k in pairs(t) do end
return d`},
	{name: "meta-close", want: wantN, src: `
local N = ...
local d = 0
local function f(n)
  if n == 0 then return end
  local x <close> = setmetatable({}, {__close = function() d = d + 1 f(n - 1) end})
end
f(N)
return d`},
	{name: "meta-close-nested-scopes", want: wantN, src: `
local N = ...
local d = 0
local mt = {__close = function() d = d + 1 end}
local function f(n)
  if n == 0 then return end
  local x <close> = setmetatable({}, mt)
  f(n - 1)
end
f(N)
return d`},
	{name: "meta-close-error-unwind", want: wantN, src: `
local N = ...
local d = 0
local mt = {__close = function(_, e) d = d + 1 error(e, 0) end}
local reached = false
local function f(n)
  if n == 0 then reached = true error("bottom", 0) end
  local x <close> = setmetatable({}, mt)
  f(n - 1)
end
local ok, e = pcall(f, N)
if not reached then error(e, 0) end
return d`},
	{name: "meta-index-chain", src: `
local N = ...
local t = {x = 7}
for i = 1, N do t = setmetatable({}, {__index = t}) end
local ok, v = pcall(function() return t.x end)
if ok then return v end
return 7`, want: func(int64) []string { return []string{"i:7"} }},
	{name: "meta-newindex-chain", src: `
local N = ...
local base = {}
local t = base
for i = 1, N do t = setmetatable({}, {__newindex = t}) end
local ok = pcall(function() t.x = 7 end)
if ok then return base.x end
return 7`, want: func(int64) []string { return []string{"i:7"} }},
	{name: "meta-index-selfloop", src: `
local t = {}
setmetatable(t, {__index = t})
local ok, v = pcall(function() return t.x end)
local u = {}
setmetatable(u, {__newindex = u})
local ok2 = pcall(function() u.x = 1 end)
local a, b = {}, {}
setmetatable(a, {__index = b, __newindex = b}) setmetatable(b, {__index = a, __newindex = a})
local ok3 = pcall(function() return a.x end)
local ok4 = pcall(function() a.x = 1 end)
return 1`, want: func(int64) []string { return []string{"i:1"} }, maxN: 100},
	{name: "gsub-callback", want: wantStr("0"), src: `
local N = ...
local function f(n)
  if n == 0 then return "0" end
  return (string.gsub("a", "a", function() return f(n - 1) end))
end
return f(N)`},
	{name: "gsub-table-index", want: wantStr("0"), src: `
local N = ...
local function f(n)
  if n == 0 then return "0" end
  return (string.gsub("a", "a", setmetatable({}, {__index = function() return f(n - 1) end})))
end
return f(N)`},
	{name: "sort-comparator", want: wantN, src: `
local N = ...
local d = 0
local seen = {}
local function f(n)
  if n == 0 then return end
  table.sort({2, 1, 3}, function(a, b)
    if not seen[n] then seen[n] = true d = d + 1 f(n - 1) end
    return a < b
  end)
end
f(N)
return d`},
	{name: "sort-lt-metamethod", want: wantN, src: `
local N = ...
local n, d = N, 0
local mt = {}
mt.__lt = function(a, b)
  if n > 0 then
    n = n - 1
    d = d + 1
    table.sort({setmetatable({v = 2}, mt), setmetatable({v = 1}, mt)})
  end
  return a.v < b.v
end
table.sort({setmetatable({v = 2}, mt), setmetatable({v = 1}, mt)})
return d`},
	{name: "load-reader", want: wantN, src: `
local N = ...
local function f(n)
  if n == 0 then return 0 end
  local v, done
  local fn = load(function()
    if done then return nil end
    done = true
    v = f(n - 1)
    return "return 1"
  end)
  return v + fn()
end
return f(N)`},
	{name: "load-nested-chunks", want: wantN, src: `
local N = ...
local function f(n)
  if n == 0 then return 0 end
  return load("local f, n = ... return f(n - 1) + 1")(f, n)
end
return f(N)`},
	{name: "require-nested", want: wantN, src: `
local N = ...
package.preload.m0 = function() return 0 end
for i = 1, N do
  package.preload["m" .. i] = function() return require("m" .. (i - 1)) + 1 end
end
return require("m" .. N)`, maxN: 100000},
	{name: "coroutine-wrap", want: wantN, maxN: 100000, src: `
local N = ...
local function f(n)
  if n == 0 then return 0 end
  return coroutine.wrap(f)(n - 1) + 1
end
return f(N)`},
	{name: "coroutine-resume", want: wantN, maxN: 100000, src: `
local N = ...
local function f(n)
  if n == 0 then return 0 end
  local co = coroutine.create(f)
  local ok, v = coroutine.resume(co, n - 1)
  if not ok then error(v, 0) end
  return v + 1
end
return f(N)`},
	{name: "coroutine-yield-across", want: wantN, maxN: 100000, src: `
local N = ...
local function f(n)
  if n == 0 then coroutine.yield(0) return 0 end
  local co = coroutine.wrap(f)
  local v = co(n - 1)
  coroutine.yield(v + 1)
  return v + 1
end
return coroutine.wrap(f)(N)`},
	{name: "coroutine-close-nested", want: wantN, maxN: 100000, src: `
local N = ...
local d = 0
local function f(n)
  local x <close> = setmetatable({}, {__close = function() d = d + 1 end})
  if n > 1 then
    local co = coroutine.create(f)
    assert(coroutine.resume(co, n - 1))
    assert(coroutine.close(co))
  end
  coroutine.yield()
end
local co = coroutine.create(f)
assert(coroutine.resume(co, N))
assert(coroutine.close(co))
return d`},
	{name: "coroutine-pcall-mix", want: wantN, maxN: 100000, src: `
local N = ...
local function f(n)
  if n == 0 then return 0 end
  local ok, v = pcall(coroutine.wrap(function() return f(n - 1) end))
  if not ok then error(v, 0) end
  return v + 1
end
return f(N)`},
	{name: "generic-for-iterator", want: wantN, src: `
local N = ...
local function f(n)
  if n == 0 then return 0 end
  for v in function(_, c) if c then return nil end return f(n - 1) + 1 end do
    return v
  end
end
return f(N)`},
	{name: "callcontext-nested", want: wantN, src: `
local N = ...
local function f(n)
  if n == 0 then return 0 end
  local ctx, v = runtime.callcontext({}, f, n - 1)
  if ctx.status ~= "done" then error(v, 0) end
  return v + 1
end
return f(N)`},
	{name: "callcontext-nested-limits", want: wantN, src: `
local N = ...
local function f(n)
  if n == 0 then return 0 end
  local ctx, v = runtime.callcontext({kill = {cpu = 100000000, memory = 1000000000}}, f, n - 1)
  if ctx.status ~= "done" then error(tostring(v), 0) end
  return v + 1
end
return f(N)`},
	{name: "hook-call-reenter", want: wantN, src: `
local N = ...
local n, d = N, 0
local function g() return 1 end
debug.sethook(function()
  if n > 0 then n = n - 1 d = d + 1 g() end
end, "c")
g()
debug.sethook()
return N`},
	{name: "tostring-nested-data", want: wantN, src: `
local N = ...
local mt = {}
mt.__tostring = function(s) if s.c then return "(" .. tostring(s.c) .. ")" end return "x" end
local t = setmetatable({}, mt)
for i = 1, N do t = setmetatable({c = t}, mt) end
local s = tostring(t)
return (#s - 1) // 2`, maxN: 100000},
	{name: "format-nested-data", want: wantN, src: `
local N = ...
local mt = {}
mt.__tostring = function(s) if s.c then return string.format("(%s)", s.c) end return "x" end
local t = setmetatable({}, mt)
for i = 1, N do t = setmetatable({c = t}, mt) end
local s = string.format("%s", t)
return (#s - 1) // 2`, maxN: 100000},
	{name: "concat-nested-data", want: wantN, src: `
local N = ...
local mt = {}
mt.__concat = function(a, b)
  if getmetatable(a) == mt then a = a.c and ("(" .. a.c .. ")") or "x" end
  if getmetatable(b) == mt then b = b.c and ("(" .. b.c .. ")") or "x" end
  return a .. b
end
local t = setmetatable({}, mt)
for i = 1, N do t = setmetatable({c = t}, mt) end
local s = "" .. t
return (#s - 1) // 2`, maxN: 100000},
	{name: "table-concat-nested-index", want: wantN, src: `
local N = ...
local function mk(n)
  return setmetatable({}, {__index = function(t, i)
    if i > 1 then return nil end
    if n == 0 then return "0" end
    return table.concat(mk(n - 1), "", 1, 1) .. "1"
  end, __len = function() return 1 end})
end
return #table.concat(mk(N), "", 1, 1) - 1`},
	{name: "select-unpack-recursion", want: wantN, src: `
local N = ...
local function f(n, ...)
  if n == 0 then return select('#', ...) end
  return f(n - 1, n, ...)
end
return f(N)`, maxN: 1000},
}

// Scenario templates (no depth parameter, run at N=100 only): objects that
// cross a context boundary.
var scenarioTemplates = []recTemplate{
	{name: "ctx-gc-remark-in-child", maxN: 100, want: wantStr("done"), src: `
local t = setmetatable({}, {__gc = function() end})
local ctx = runtime.callcontext({kill = {cpu = 100000}}, function()
  setmetatable(t, {__gc = function() end})
end)
return ctx.status`},
	{name: "ctx-gc-mark-child-then-parent", maxN: 100, want: wantStr("done"), src: `
local t = {}
local ctx = runtime.callcontext({kill = {memory = 1000000}}, function()
  setmetatable(t, {__gc = function() end})
end)
setmetatable(t, {__gc = function() end})
t = nil
collectgarbage()
return ctx.status`},
	{name: "ctx-file-remark-in-child", maxN: 100, want: wantStr("done"), src: `
local f = io.tmpfile()
local ctx = runtime.callcontext({kill = {cpu = 100000}}, function()
  debug.setmetatable(f, getmetatable(f))
end)
f:close()
return ctx.status`},
	{name: "ctx-coroutine-created-outside-dies-inside", maxN: 100, want: wantStr("done"), src: `
local co = coroutine.wrap(function() return 1 end)
local ctx = runtime.callcontext({kill = {memory = 1000000}}, function() return co() end)
return ctx.status`},
	{name: "ctx-coroutine-created-inside-dies-outside", maxN: 100, want: wantStr("done"), src: `
local co
local ctx = runtime.callcontext({kill = {memory = 1000000}}, function()
  co = coroutine.wrap(function() coroutine.yield(1) return 2 end)
  return co()
end)
co()
return ctx.status`},
	{name: "ctx-kill-inside-coroutine", maxN: 100, want: wantStr("killed"), src: `
local ctx = runtime.callcontext({kill = {cpu = 1000}}, function()
  return coroutine.wrap(function() while true do end end)()
end)
return ctx.status`},
	{name: "ctx-kill-inside-nested-coroutines-close", maxN: 100, want: wantStr("killed"), src: `
local ctx = runtime.callcontext({kill = {cpu = 2000}}, function()
  local function f(n)
    local x <close> = setmetatable({}, {__close = function() end})
    if n == 0 then while true do end end
    return coroutine.wrap(f)(n - 1)
  end
  return f(5)
end)
return ctx.status`},
	{name: "lib-read-huge-count", maxN: 100, want: wantN, src: `
local N = ...
local f = io.tmpfile()
f:write("abc")
f:seek("set")
local ok, s = pcall(f.read, f, 1 << 40)
f:close()
if ok and s ~= "abc" then return -1 end
return N`},
	{name: "lib-gopanic-inside-coroutine", maxN: 100, want: wantN, src: `
local N = ...
local ok = pcall(coroutine.wrap(function() return io.type(runtime.context()) end))
return N`},
	// multi-step library sequences: hooks observing functions that came out of
	// string.dump / load (with and without strip), errors and tracebacks there
	{name: "lib-hooks-on-reloaded-functions", maxN: 100, want: wantN, src: `
local N = ...
local function body(a, b)
  local t = {}
  for i = 1, 3 do t[i] = a + i end
  if b then error("in reloaded function") end
  return #t
end
for _, strip in ipairs{false, true} do
  local g = load(string.dump(body, strip), "reloaded", "b")
  for _, mask in ipairs{"l", "c", "r", "lcr"} do
    local events = 0
    debug.sethook(function(ev, line) events = events + 1 end, mask)
    local ok1 = pcall(g, 1)
    local ok2, e2 = pcall(g, 1, true)
    local tb = debug.traceback("x", 1)
    local info = debug.getinfo(g, "SlLu")
    debug.sethook()
    if not ok1 or ok2 then return -1 end
  end
  local co = coroutine.create(g)
  debug.sethook(co, function() end, "l")
  local ok3 = coroutine.resume(co, 1, true)
  local tb2 = debug.traceback(co)
end
return N`},
}

var recNs = []int64{100, 199, 200, 201, 1000, 100000, 1000000}

type recCase struct {
	t       *recTemplate
	n       int64
	limited bool
}

const recCPU, recMem = 10000000, 100000000

func recCases(tier string) []recCase {
	var out []recCase
	all := append(append([]recTemplate{}, recTemplates...), scenarioTemplates...)
	for i := range all {
		t := &all[i]
		for _, n := range recNs {
			if (strings.HasPrefix(t.name, "ctx-") || strings.HasPrefix(t.name, "lib-")) && n != 100 {
				continue
			}
			if t.maxN != 0 && n > t.maxN {
				continue
			}
			if n > 100000 && tier != "thorough" {
				continue
			}
			for _, lim := range []bool{true, false} {
				out = append(out, recCase{t, n, lim})
			}
		}
	}
	return out
}

func (c recCase) label() string {
	ctx := "unlimited"
	if c.limited {
		ctx = "cpu1e7mem1e8"
	}
	return fmt.Sprintf("%s N=%d ctx=%s", c.t.name, c.n, ctx)
}

func recFamilies(tier string) []*core.Family {
	cases := recCases(tier)
	const name = "d-rec"
	timeout := 90 * time.Second
	execFuncs[name] = func(i uint64) runRes {
		c := cases[i]
		o := host.Opts{Args: []rt.Value{rt.IntValue(c.n)}}
		if c.limited {
			o.CPU, o.Mem = recCPU, recMem
		}
		return fromObs(host.Run(c.t.src, o))
	}
	return []*core.Family{{
		Name: name, Size: uint64(len(cases)), HangSeconds: 3600,
		Show: func(i uint64) string {
			c := cases[i]
			return c.label() + "\n" + strings.TrimSpace(c.t.src)
		},
		Run: func(i uint64) core.Outcome {
			c := cases[i]
			r := remote(name, i, timeout)
			return judge(name, c.label(), c.limited, r, c.t.want(c.n), true)
		},
	}}
}

func fromObs(o host.Obs) runRes {
	return runRes{Status: o.Status, Results: o.Results, Err: o.Err}
}

// judge turns an executor result into an Outcome.  want == nil means any
// value is acceptable.  allowRuntimeErr: a Lua runtime error is an ordinary
// outcome for this family.
func judge(fam, label string, limited bool, r runRes, want []string, allowRuntimeErr bool) core.Outcome {
	out := core.Outcome{NonTrivial: true}
	class := r.Status
	viol := ""
	switch r.Status {
	case "ok":
		if want != nil && !eqStrs(r.Results, want) {
			class = "wrong-value"
			viol = fmt.Sprintf("wrong-value got=(%s) want=(%s)", strings.Join(r.Results, ","), strings.Join(want, ","))
		}
	case "compile", "killed":
	case "err":
		if !allowRuntimeErr {
			class = "runtime-error"
			viol = "runtime-error " + errClass(r.Err)
		}
	case "gopanic":
		viol = "gopanic: " + stripNums(r.Err)
		class = viol
	case "dead":
		class = r.Crash
		switch {
		case r.Crash == "oom" && !limited:
			class = "oom-unlimited" // resource exhaustion without a limit: not a C04 violation
		case r.Crash == "wallcap", strings.HasPrefix(r.Crash, "hang") && !limited:
			out.Skipped = true // slow without a limit: cannot be told from a long computation
			return out
		default:
			viol = r.Crash
		}
	default:
		viol = "harness: " + r.Status + " " + r.Err
		class = viol
	}
	out.Sig = core.Hash64(fam + "|" + class)
	if viol != "" {
		out.Viol = &core.Violation{
			Key:    fmt.Sprintf("%s %s %s", fam, label, viol),
			Detail: fmt.Sprintf("case: %s\nobserved: status=%s results=%v err=%s\n%s\n%s", label, r.Status, r.Results, r.Err, r.Aux, r.Tail),
		}
	}
	return out
}

func eqStrs(a, b []string) bool {
	if len(a) != len(b) {
		return false
	}
	for i := range a {
		if a[i] != b[i] {
			return false
		}
	}
	return true
}

// stripNums replaces digit runs by '#' so that one defect gives one key.
func stripNums(s string) string {
	var sb strings.Builder
	prev := false
	for _, c := range s {
		if c >= '0' && c <= '9' {
			if !prev {
				sb.WriteByte('#')
			}
			prev = true
			continue
		}
		prev = false
		sb.WriteRune(c)
	}
	s = sb.String()
	if len(s) > 100 {
		s = s[:100]
	}
	return s
}

func errClass(e string) string {
	e = stripNums(e)
	if len(e) > 60 {
		e = e[:60]
	}
	return e
}
