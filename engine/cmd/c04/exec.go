package main

// Executor: every case that runs Lua code is executed in a separate "child"
// process (this same binary with C04_CHILD=1) that the worker keeps alive and
// talks to over pipes.  If the child dies (fatal error: stack overflow, out of
// memory, an unrecovered panic in a coroutine goroutine) or does not answer in
// time, the worker knows exactly which case was in flight, classifies the
// death from the child's stderr and builds a precise violation key
// (family + template + N + crash class), then starts a new child.
//
// The child never lets Lua code see the protocol pipes: fds 0 and 1 are
// redirected to /dev/null (os.Stdin/os.Stdout/os.Stderr point to /dev/null
// too); fd 2 stays connected so that the Go runtime's fatal messages reach the
// worker.

import (
	"bufio"
	"encoding/json"
	"fmt"
	"os"
	"os/exec"
	"path/filepath"
	"runtime/debug"
	"runtime/pprof"
	"strconv"
	"strings"
	"sync"
	"syscall"
	"time"
)

// runRes is what the child reports for one executed case.
type runRes struct {
	Status  string   `json:"s"`           // ok | err | killed | gopanic | compile
	Results []string `json:"r,omitempty"` // canonical results (Status ok)
	Err     string   `json:"e,omitempty"`
	Aux     string   `json:"a,omitempty"` // family specific extra observation
	// filled in by the worker when the child died:
	Crash string `json:"-"` // "" | go-stack-overflow | oom | panic: ... | hang>Ns | died ...
	Tail  string `json:"-"` // stderr excerpt of the dead child
}

// execFuncs maps a family name to the function that executes case i inside the
// child process.
var execFuncs = map[string]func(i uint64) runRes{}

const childASLimit = 6 << 30
const childMaxStack = 64 << 20

var devnull *os.File

func openDevNull() {
	if devnull == nil {
		devnull, _ = os.OpenFile(os.DevNull, os.O_RDWR, 0)
	}
}

// ---------------------------------------------------------------- child side

func childMain() {
	var lim syscall.Rlimit
	lim.Cur, lim.Max = childASLimit, childASLimit
	syscall.Setrlimit(syscall.RLIMIT_AS, &lim)
	debug.SetMaxStack(childMaxStack)

	inFd, _ := syscall.Dup(0)
	outFd, _ := syscall.Dup(1)
	syscall.CloseOnExec(inFd)
	syscall.CloseOnExec(outFd)
	in := os.NewFile(uintptr(inFd), "req")
	out := os.NewFile(uintptr(outFd), "res")
	openDevNull()
	syscall.Dup2(int(devnull.Fd()), 0)
	syscall.Dup2(int(devnull.Fd()), 1)
	os.Stdin, os.Stdout, os.Stderr = devnull, devnull, devnull

	// sentinel working directory
	root := os.Getenv("C04_ROOT")
	if root == "" {
		root = fmt.Sprintf("/tmp/c04-%d", os.Getpid())
	}
	sentinel = filepath.Join(root, fmt.Sprintf("x%d", os.Getpid()))
	os.MkdirAll(sentinel, 0755)
	os.Setenv("TMPDIR", sentinel)
	os.Setenv("HOME", sentinel)
	os.Chdir(sentinel)
	cleanup := func() {
		os.Chdir("/")
		os.RemoveAll(sentinel)
		os.Remove(root) // succeeds only when the last child leaves
	}

	initFamilies(os.Getenv("C04_TIER"))
	if pp := os.Getenv("C04_PPROF"); pp != "" {
		f, _ := os.Create(pp)
		pprof.StartCPUProfile(f)
		defer pprof.StopCPUProfile()
	}
	w := bufio.NewWriter(out)
	enc := json.NewEncoder(w)
	w.WriteString("ready\n")
	w.Flush()
	sc := bufio.NewScanner(in)
	sc.Buffer(make([]byte, 1<<16), 1<<20)
	for sc.Scan() {
		ln := sc.Text()
		k := strings.LastIndexByte(ln, ' ')
		if k < 0 {
			continue
		}
		idx, _ := strconv.ParseUint(ln[k+1:], 10, 64)
		f := execFuncs[ln[:k]]
		var r runRes
		if f == nil {
			r = runRes{Status: "harness", Err: "unknown family " + ln[:k]}
		} else {
			r = safeExec(f, idx)
		}
		enc.Encode(&r)
		w.Flush()
	}
	cleanup()
}

func safeExec(f func(uint64) runRes, idx uint64) (r runRes) {
	defer func() {
		if p := recover(); p != nil {
			st := string(debug.Stack())
			r = runRes{Status: "gopanic", Err: firstLine(fmt.Sprint(p)), Aux: cutStack(st)}
		}
	}()
	return f(idx)
}

// cutStack keeps the frames below the panic call that belong to golua.
func cutStack(st string) string {
	var keep []string
	for _, ln := range strings.Split(st, "\n") {
		if strings.Contains(ln, "/repo/") {
			ln = strings.TrimSpace(ln)
			if k := strings.Index(ln, " +0x"); k >= 0 {
				ln = ln[:k]
			}
			keep = append(keep, ln)
			if len(keep) >= 8 {
				break
			}
		}
	}
	return strings.Join(keep, " <- ")
}

func firstLine(s string) string {
	if k := strings.IndexByte(s, '\n'); k >= 0 {
		s = s[:k]
	}
	if len(s) > 160 {
		s = s[:160]
	}
	return s
}

// ---------------------------------------------------------------- worker side

type headTail struct {
	mu   sync.Mutex
	head []byte
	tail []byte
}

func (t *headTail) Write(b []byte) (int, error) {
	t.mu.Lock()
	defer t.mu.Unlock()
	n := len(b)
	if len(t.head) < 8192 {
		k := 8192 - len(t.head)
		if k > len(b) {
			k = len(b)
		}
		t.head = append(t.head, b[:k]...)
		b = b[k:]
	}
	t.tail = append(t.tail, b...)
	if len(t.tail) > 8192 {
		t.tail = t.tail[len(t.tail)-8192:]
	}
	return n, nil
}

func (t *headTail) String() string {
	t.mu.Lock()
	defer t.mu.Unlock()
	if len(t.tail) == 0 {
		return string(t.head)
	}
	return string(t.head) + "\n...\n" + string(t.tail)
}

type child struct {
	cmd    *exec.Cmd
	in     *bufio.Writer
	inPipe interface{ Close() error }
	lines  chan string
	stderr *headTail
	served int
}

var theChild *child
var currentTier = "quick"

func startChild() *child {
	exe, _ := os.Executable()
	cmd := exec.Command(exe)
	cmd.Env = append(os.Environ(), "C04_CHILD=1", "C04_TIER="+currentTier, "GOTRACEBACK=single", "GOMAXPROCS=2", "GOGC=200")
	stdin, _ := cmd.StdinPipe()
	stdout, _ := cmd.StdoutPipe()
	ht := &headTail{}
	cmd.Stderr = ht
	if err := cmd.Start(); err != nil {
		panic("cannot start executor child: " + err.Error())
	}
	c := &child{cmd: cmd, in: bufio.NewWriter(stdin), inPipe: stdin, lines: make(chan string, 1), stderr: ht}
	go func() {
		sc := bufio.NewScanner(stdout)
		sc.Buffer(make([]byte, 1<<16), 1<<26)
		for sc.Scan() {
			c.lines <- sc.Text()
		}
		close(c.lines)
	}()
	// wait until the child has built its tables (not part of any case's time)
	select {
	case ln, ok := <-c.lines:
		if !ok || ln != "ready" {
			cmd.Process.Kill()
			cmd.Wait()
			panic("executor child did not start: " + ln + "\n" + ht.String())
		}
	case <-time.After(300 * time.Second):
		cmd.Process.Kill()
		cmd.Wait()
		panic("executor child did not start in 300s")
	}
	return c
}

func classify(tail string, waitErr error) string {
	lines := strings.Split(tail, "\n")
	for _, ln := range lines {
		switch {
		case strings.HasPrefix(ln, "fatal error: stack overflow"), strings.HasPrefix(ln, "runtime: goroutine stack exceeds"):
			return "go-stack-overflow"
		case strings.HasPrefix(ln, "fatal error: runtime: out of memory"),
			strings.HasPrefix(ln, "fatal error: out of memory"),
			strings.HasPrefix(ln, "runtime: out of memory"),
			strings.Contains(ln, "cannot allocate memory"),
			strings.HasPrefix(ln, "fatal error: runtime: cannot allocate"):
			return "oom"
		}
	}
	for _, ln := range lines {
		if strings.HasPrefix(ln, "panic: ") || strings.HasPrefix(ln, "fatal error: ") {
			s := strings.TrimSpace(ln)
			if k := strings.Index(s, " [recovered]"); k >= 0 {
				s = s[:k]
			}
			if k := strings.Index(s, "0x"); k >= 0 { // no addresses in keys
				s = s[:k]
			}
			if len(s) > 100 {
				s = s[:100]
			}
			return s
		}
	}
	if waitErr != nil {
		return "died " + waitErr.Error()
	}
	return "died"
}

// remote runs case idx of family fam in the executor child.
func remote(fam string, idx uint64, cpuAllowance time.Duration) (res runRes) {
	if tl := os.Getenv("C04_TIMELOG"); tl != "" {
		t0 := time.Now()
		defer func() {
			if f, err := os.OpenFile(tl, os.O_APPEND|os.O_CREATE|os.O_WRONLY, 0644); err == nil {
				fmt.Fprintf(f, "%.2f %s %d %s %s\n", time.Since(t0).Seconds(), fam, idx, res.Status, res.Crash)
				f.Close()
			}
		}()
	}
	if theChild != nil && theChild.served >= 3000 {
		// recycle: leaked goroutines / descriptors of earlier cases must not accumulate
		theChild.inPipe.Close()
		theChild.cmd.Wait()
		theChild = nil
	}
	if theChild == nil {
		theChild = startChild()
	}
	c := theChild
	c.served++
	fmt.Fprintf(c.in, "%s %d\n", fam, idx)
	c.in.Flush()
	// The allowance is CPU time of the child (utime+stime from /proc), not wall
	// time: on a loaded machine a case may take long without being stuck.  A
	// generous wall cap only protects against a child that sleeps forever.
	cpu0 := procCPU(c.cmd.Process.Pid)
	wall0 := time.Now()
	tk := time.NewTicker(200 * time.Millisecond)
	defer tk.Stop()
	for {
		select {
		case ln, ok := <-c.lines:
			if ok {
				var r runRes
				if err := json.Unmarshal([]byte(ln), &r); err != nil {
					r = runRes{Status: "harness", Err: "bad child line: " + firstLine(ln)}
				}
				return r
			}
			err := c.cmd.Wait()
			theChild = nil
			tail := c.stderr.String()
			cleanChildDir(c.cmd.Process.Pid)
			return runRes{Status: "dead", Crash: classify(tail, err), Tail: excerpt(tail)}
		case <-tk.C:
			used := procCPU(c.cmd.Process.Pid) - cpu0
			wall := time.Since(wall0)
			if used > cpuAllowance.Seconds() || wall > 10*time.Minute {
				c.cmd.Process.Kill()
				c.cmd.Wait()
				theChild = nil
				cleanChildDir(c.cmd.Process.Pid)
				crash := fmt.Sprintf("hang>%dcpu-s", int(cpuAllowance.Seconds()))
				if used <= cpuAllowance.Seconds() {
					crash = "wallcap" // starved or sleeping: never a violation
				}
				return runRes{Status: "dead", Crash: crash, Tail: excerpt(c.stderr.String())}
			}
		}
	}
}

// procCPU returns utime+stime of process pid in seconds (0 if unknown).
func procCPU(pid int) float64 {
	b, err := os.ReadFile(fmt.Sprintf("/proc/%d/stat", pid))
	if err != nil {
		return 0
	}
	s := string(b)
	k := strings.LastIndexByte(s, ')')
	if k < 0 {
		return 0
	}
	f := strings.Fields(s[k+1:])
	if len(f) < 13 {
		return 0
	}
	ut, _ := strconv.ParseFloat(f[11], 64)
	st, _ := strconv.ParseFloat(f[12], 64)
	return (ut + st) / 100
}

func cleanChildDir(pid int) {
	if root := os.Getenv("C04_ROOT"); root != "" {
		os.RemoveAll(filepath.Join(root, fmt.Sprintf("x%d", pid)))
		os.Remove(root) // only succeeds when no other child directory is left
	}
}

func excerpt(s string) string {
	if len(s) > 2500 {
		s = s[:2500] + "…"
	}
	return s
}
