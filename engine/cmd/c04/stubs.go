package main

import (
	"fmt"
	"os"
	"runtime/pprof"
	"time"

	"verif/engine/core"
	"verif/engine/host"
)

func limitFamilies(tier string) []*core.Family { return nil }
func libFamilies(tier string) []*core.Family   { return nil }
func libExtra() map[string]interface{}         { return nil }

// probeMain: C04_PROBE=file.lua [C04_CPU=n C04_MEM=n] runs one Lua file the way the child does.
func probeMain(path string) {
	b, err := os.ReadFile(path)
	if err != nil {
		fmt.Println(err)
		os.Exit(2)
	}
	var o host.Opts
	fmt.Sscan(os.Getenv("C04_CPU"), &o.CPU)
	fmt.Sscan(os.Getenv("C04_MEM"), &o.Mem)
	if pp := os.Getenv("C04_PPROF"); pp != "" {
		f, _ := os.Create(pp)
		pprof.StartCPUProfile(f)
		defer pprof.StopCPUProfile()
	}
	t0 := time.Now()
	obs := host.Run(string(b), o)
	fmt.Println("elapsed", time.Since(t0))
	s := obs.String()
	if len(s) > 2000 {
		s = s[:2000]
	}
	fmt.Println(s)
}
