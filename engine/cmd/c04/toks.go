package main

// Family a-tokens: ALL token strings up to a length bound over an alphabet that
// covers every scanner state (keywords, operators, names, numerals good and
// malformed, strings finished and unfinished, every long-bracket opener,
// comments, stray bytes, BOM, '#!' line), joined with single spaces and also
// with no separator, fed to the four compile entry points:
//   r.CompileAndLoadLuaChunk, r.CompileAndLoadLuaChunkOrExp,
//   load(s, "x", "t"), load(s, "x", "bt").
// Nothing is executed, so the cases run in the worker itself on a shared
// runtime; a Go panic is recovered per call and reported with the exact input.

import (
	"fmt"
	"strconv"
	"strings"

	rt "github.com/arnodel/golua/runtime"

	"verif/engine/core"
	"verif/engine/host"
)

var tokAlphabet = []string{
	// names, keywords
	"x", "local", "function", "end", "return", "if", "then", "do", "goto", "not", "and", "const",
	// punctuation / operators
	"::", "=", ",", ";", "(", ")", "{", "}", "[", "]", ".", "..", "...", ":", "-", "~", "<", ">", "#", "//",
	// numerals, good and malformed
	"1", "0x", "1e", "3..2", "0xA.8p1", "0x.p", "1e+",
	// strings
	`"s"`, `"s`, `'\`, `"\xZ"`, `"\u{7FFFFFFF}"`, `"\999"`, `"\z`,
	// long brackets and comments
	"[[", "[=[", "[==", "]]", "]=]", "--[[", "--", "--[==[",
	// stray bytes
	"\\", "\x00", "\x80", "\xff", "\xef\xbb\xbf", "#!x\n", "\n", "\r",
}

// quick tier uses a 44 token core so that length 3 (and 4 in thorough) stay
// cheap; the full alphabet is used at length <= 2 (quick) / <= 3 (thorough).
var tokCore = []string{
	"x", "local", "function", "end", "return", "if", "then", "do", "goto", "not", "const",
	"::", "=", ",", "(", ")", "{", "}", "[", "]", ".", "..", "...", ":", "-", "<", ">", "#",
	"1", "0x", "1e", "3..2",
	`"s"`, `"s`, `'\`,
	"[[", "[=[", "[==", "]]", "--[[", "--",
	"\\", "\x00", "\x80", "\xef\xbb\xbf", "#!x\n", "\n",
}

type tokFamily struct {
	name  string
	alpha []string
	minL  int
	maxL  int
	offs  []uint64 // offs[k] = number of strings with length < minL+k
}

func newTokFamily(name string, alpha []string, minL, maxL int) *tokFamily {
	f := &tokFamily{name: name, alpha: alpha, minL: minL, maxL: maxL}
	var tot uint64
	for l := minL; l <= maxL; l++ {
		f.offs = append(f.offs, tot)
		p := uint64(1)
		for k := 0; k < l; k++ {
			p *= uint64(len(alpha))
		}
		tot += p
	}
	f.offs = append(f.offs, tot)
	return f
}

func (f *tokFamily) size() uint64 { return f.offs[len(f.offs)-1] }

func (f *tokFamily) tokens(i uint64) []string {
	l := f.minL
	for k := 0; k+1 < len(f.offs); k++ {
		if i >= f.offs[k] && i < f.offs[k+1] {
			l = f.minL + k
			i -= f.offs[k]
			break
		}
	}
	n := uint64(len(f.alpha))
	out := make([]string, l)
	for k := l - 1; k >= 0; k-- {
		out[k] = f.alpha[i%n]
		i /= n
	}
	return out
}

type tokRunner struct {
	m    *host.Machine
	load rt.Value
	env  rt.Value
	sT   rt.Value
	sBT  rt.Value
	sX   rt.Value
}

var theTokRunner *tokRunner

func getTokRunner() *tokRunner {
	if theTokRunner == nil {
		m := host.NewMachine(false)
		theTokRunner = &tokRunner{m: m, load: m.R.GlobalEnv().Get(rt.StringValue("load")),
			env: rt.TableValue(m.R.GlobalEnv()), sT: rt.StringValue("t"), sBT: rt.StringValue("bt"), sX: rt.StringValue("x")}
	}
	return theTokRunner
}

var entryNames = [4]string{"CompileAndLoadLuaChunk", "CompileAndLoadLuaChunkOrExp", "load-t", "load-bt"}

// compileVia returns "ok", "err:<class>" or "gopanic:<msg>".
func (tr *tokRunner) compileVia(entry int, src string) (res string) {
	defer func() {
		if p := recover(); p != nil {
			res = "gopanic: " + firstLine(fmt.Sprint(p))
			// a panic may leave the shared runtime in any state
			theTokRunner = nil
		}
	}()
	r := tr.m.R
	switch entry {
	case 0:
		_, err := r.CompileAndLoadLuaChunk("x", []byte(src), tr.env)
		if err != nil {
			return "err"
		}
		return "ok"
	case 1:
		_, err := r.CompileAndLoadLuaChunkOrExp("x", []byte(src), tr.env)
		if err != nil {
			return "err"
		}
		return "ok"
	default:
		mode := tr.sT
		if entry == 3 {
			mode = tr.sBT
		}
		term := rt.NewTerminationWith(nil, 2, false)
		if err := rt.Call(r.MainThread(), tr.load, []rt.Value{rt.StringValue(src), tr.sX, mode}, term); err != nil {
			return "luaerr" // load must not raise for a string chunk: reported by the caller
		}
		if term.Get(0).IsNil() {
			if _, ok := term.Get(1).TryString(); !ok {
				return "nomsg"
			}
			return "err"
		}
		return "ok"
	}
}

func tokenFamilies(tier string) []*core.Family {
	var tfs []*tokFamily
	var budgets []int
	if tier == "thorough" {
		tfs = append(tfs, newTokFamily("a-tokens-full-len0-3", tokAlphabet, 0, 3))
		budgets = append(budgets, 0)
		tfs = append(tfs, newTokFamily("a-tokens-core-len4", tokCore, 4, 4))
		budgets = append(budgets, 0)
		tfs = append(tfs, newTokFamily("a-tokens-core-len5", tokCore, 5, 5))
		budgets = append(budgets, 300)
	} else {
		tfs = append(tfs, newTokFamily("a-tokens-full-len0-2", tokAlphabet, 0, 2))
		budgets = append(budgets, 0)
		tfs = append(tfs, newTokFamily("a-tokens-core-len3", tokCore, 3, 3))
		budgets = append(budgets, 0)
	}
	var out []*core.Family
	for k, tf := range tfs {
		tf := tf
		out = append(out, &core.Family{
			Name: tf.name, Size: tf.size(), BudgetSeconds: budgets[k],
			Show: func(i uint64) string {
				toks := tf.tokens(i)
				return fmt.Sprintf("tokens %s\nspaced: %s\njoined: %s", quoteToks(toks), strconv.Quote(strings.Join(toks, " ")), strconv.Quote(strings.Join(toks, "")))
			},
			Run: func(i uint64) core.Outcome {
				toks := tf.tokens(i)
				out := core.Outcome{NonTrivial: true}
				var sig strings.Builder
				for j, sep := range []string{" ", ""} {
					src := strings.Join(toks, sep)
					if j == 1 && len(toks) < 2 {
						break
					}
					var first string
					for e := 0; e < 4; e++ {
						res := getTokRunner().compileVia(e, src)
						sig.WriteString(res[:2])
						bad := ""
						switch {
						case strings.HasPrefix(res, "gopanic"):
							bad = res
						case res == "luaerr":
							bad = "load-raised-error"
						case res == "nomsg":
							bad = "load-returned-nil-without-message"
						case e == 0:
							first = res
						case e == 2 && res != first && !strings.HasPrefix(first, "gopanic"):
							// load(s,"x","t") and CompileAndLoadLuaChunk are the same compiler
							bad = "accept-mismatch CompileAndLoadLuaChunk=" + first + " load-t=" + res
						}
						if bad != "" {
							out.Viols = append(out.Viols, &core.Violation{
								Key:    fmt.Sprintf("a-tokens src=%s entry=%s %s", strconv.Quote(src), entryNames[e], stripNums(bad)),
								Detail: fmt.Sprintf("source bytes: %q\nentry point: %s\nobserved: %s", src, entryNames[e], res),
							})
						}
					}
				}
				out.Sig = core.Hash64(sig.String())
				return out
			},
		})
	}
	return out
}

func quoteToks(t []string) string {
	q := make([]string, len(t))
	for i, s := range t {
		q[i] = strconv.Quote(s)
	}
	return "[" + strings.Join(q, " ") + "]"
}
