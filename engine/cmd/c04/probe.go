package main

import (
	"fmt"
	"os"
	"runtime/pprof"
	"time"

	"verif/engine/host"
)

// probeMain: C04_PROBE=file.lua [C04_CPU=n C04_MEM=n C04_PPROF=out] runs one
// Lua file the way the executor child does (development aid).
func probeMain(path string) {
	b, err := os.ReadFile(path)
	if err != nil {
		fmt.Println(err)
		os.Exit(2)
	}
	var o host.Opts
	fmt.Sscan(os.Getenv("C04_CPU"), &o.CPU)
	fmt.Sscan(os.Getenv("C04_MEM"), &o.Mem)
	if pp := os.Getenv("C04_PPROF"); pp != "" {
		f, _ := os.Create(pp)
		pprof.StartCPUProfile(f)
		defer pprof.StopCPUProfile()
	}
	t0 := time.Now()
	obs := host.Run(string(b), o)
	fmt.Println("elapsed", time.Since(t0))
	s := obs.String()
	if len(s) > 2000 {
		s = s[:2000]
	}
	fmt.Println(s)
}
