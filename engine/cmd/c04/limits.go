package main

// Family c-limit: implementation-limit templates.  Each template builds a
// program whose size parameter N crosses the encoding limits of the bytecode
// (8-bit registers / Index8, 16-bit constants / KIndex, int16 jump offsets and
// pc, recursion depth of parser and compilers).  Expected outcome: EITHER a
// compile error OR the closed-form value computed here in Go.  A Go panic, a
// dead process, a runtime error or a different value is a violation.

import (
	"fmt"
	"strconv"
	"strings"
	"time"

	"verif/engine/core"
	"verif/engine/host"
)

type limTemplate struct {
	name  string
	gen   func(n int) string
	want  func(n int) []string
	light bool // lexical template, cheap at every size: all sizes in quick too
	maxN  int
	quick []int // sizes >= 32767 that are also run in the quick tier (compiling them is slow)
	// rtErrOK: a Lua runtime error is an ordinary outcome (run-time stack limits)
	rtErrOK bool
}

func iv(n int64) string { return "i:" + strconv.FormatInt(n, 10) }

func rep(s string, n int) string { return strings.Repeat(s, n) }

// seq writes f(1) sep f(2) sep ... f(n)
func seq(n int, sep string, f func(k int) string) string {
	var sb strings.Builder
	for k := 1; k <= n; k++ {
		if k > 1 {
			sb.WriteString(sep)
		}
		sb.WriteString(f(k))
	}
	return sb.String()
}

func nums(n int) string { return seq(n, ",", strconv.Itoa) }

func stmts(n int, s string) string { return rep(s, n) }

func tri(n int) int64 { return int64(n) * int64(n+1) / 2 }

var limTemplates = []limTemplate{
	// ---- table constructors (Fill / multi-value tail)
	{name: "items", quick: []int{32767, 32768}, gen: func(n int) string {
		return "local t = {" + nums(n) + "}\nlocal s = 0 for i = 1, #t do s = s + t[i] end return #t, s"
	}, want: func(n int) []string { return []string{iv(int64(n)), iv(tri(n))} }},
	{name: "items-vararg-tail", quick: []int{32767}, gen: func(n int) string {
		return "local function f(...) local t = {" + nums(n) + ", ...} return #t, t[" + strconv.Itoa(n) + "], t[" + strconv.Itoa(n+1) + "], t[" + strconv.Itoa(n+2) + "] end return f(7, 8)"
	}, want: func(n int) []string { return []string{iv(int64(n + 2)), iv(int64(n)), "i:7", "i:8"} }},
	{name: "items-call-tail", quick: []int{32767}, gen: func(n int) string {
		return "local function g() return 7, 8 end local t = {" + nums(n) + ", g()} return #t, t[" + strconv.Itoa(n) + "], t[" + strconv.Itoa(n+1) + "], t[" + strconv.Itoa(n+2) + "]"
	}, want: func(n int) []string { return []string{iv(int64(n + 2)), iv(int64(n)), "i:7", "i:8"} }},
	{name: "items-record", quick: []int{32767, 32768, 65535, 65536}, gen: func(n int) string {
		return "local t = {" + seq(n, ",", func(k int) string { return fmt.Sprintf("k%d=%d", k, k) }) + "}\nlocal c = 0 for _ in pairs(t) do c = c + 1 end return c, t.k1, t.k" + strconv.Itoa(n)
	}, want: func(n int) []string { return []string{iv(int64(n)), "i:1", iv(int64(n))} }},
	{name: "items-bracket-keys", gen: func(n int) string {
		return "local t = {" + seq(n, ",", func(k int) string { return fmt.Sprintf("[%d]=%d", k*2, k) }) + "}\nlocal c = 0 for _ in pairs(t) do c = c + 1 end return c, t[2], t[" + strconv.Itoa(2*n) + "]"
	}, want: func(n int) []string { return []string{iv(int64(n)), "i:1", iv(int64(n))} }},
	// ---- registers
	{name: "locals-statements", quick: []int{32767, 32768}, gen: func(n int) string {
		return seq(n, " ", func(k int) string { return fmt.Sprintf("local x%d = %d", k, k) }) + "\nreturn x1 + x" + strconv.Itoa(n)
	}, want: func(n int) []string { return []string{iv(int64(n + 1))} }},
	{name: "locals-one-statement", gen: func(n int) string {
		return "local " + seq(n, ",", func(k int) string { return "x" + strconv.Itoa(k) }) + " = " + nums(n) + "\nreturn x1 + x" + strconv.Itoa(n)
	}, want: func(n int) []string { return []string{iv(int64(n + 1))} }},
	{name: "locals-in-nested-blocks", gen: func(n int) string {
		return "local s = 0 " + seq(n, " ", func(k int) string { return fmt.Sprintf("do local x%d = %d", k, k) }) + " s = x1 + x" + strconv.Itoa(n) + rep(" end", n) + " return s"
	}, want: func(n int) []string { return []string{iv(int64(n + 1))} }, maxN: 65536},
	{name: "upvalues-flat", gen: func(n int) string {
		return seq(n, " ", func(k int) string { return fmt.Sprintf("local x%d = %d", k, k) }) +
			"\nlocal function f() local s = 0 " + seq(n, " ", func(k int) string { return fmt.Sprintf("s = s + x%d", k) }) + " return s end return f()"
	}, want: func(n int) []string { return []string{iv(tri(n))} }},
	{name: "upvalues-nested", maxN: 32768, gen: func(n int) string {
		// 100 locals per function level; the innermost function uses all of them
		var sb strings.Builder
		levels := 0
		for k := 1; k <= n; k++ {
			if (k-1)%100 == 0 {
				levels++
				fmt.Fprintf(&sb, "local function f%d() ", levels)
			}
			fmt.Fprintf(&sb, "local x%d = %d ", k, k)
		}
		sb.WriteString("local s = 0 ")
		for k := 1; k <= n; k++ {
			fmt.Fprintf(&sb, "s = s + x%d ", k)
		}
		sb.WriteString("return s ")
		for l := levels; l >= 2; l-- {
			fmt.Fprintf(&sb, "end return f%d() ", l)
		}
		sb.WriteString("end return f1()")
		return sb.String()
	}, want: func(n int) []string { return []string{iv(tri(n))} }},
	{name: "params-and-args", gen: func(n int) string {
		return "local function f(" + seq(n, ",", func(k int) string { return "a" + strconv.Itoa(k) }) + ") return a1 + a" + strconv.Itoa(n) + " end return f(" + nums(n) + ")"
	}, want: func(n int) []string { return []string{iv(int64(n + 1))} }},
	{name: "args", quick: []int{32767, 32768}, gen: func(n int) string {
		return "return select('#', " + nums(n) + "), (select(" + strconv.Itoa(n) + ", " + nums(n) + "))"
	}, want: func(n int) []string { return []string{iv(int64(n)), iv(int64(n))} }},
	{name: "returns", quick: []int{32767, 32768}, gen: func(n int) string {
		return "local function f() return " + nums(n) + " end return select('#', f()), (select(" + strconv.Itoa(n) + ", f()))"
	}, want: func(n int) []string { return []string{iv(int64(n)), iv(int64(n))} }},
	{name: "multi-assign-globals", gen: func(n int) string {
		return seq(n, ",", func(k int) string { return "g" + strconv.Itoa(k) }) + " = " + nums(n) + "\nreturn g1 + g" + strconv.Itoa(n)
	}, want: func(n int) []string { return []string{iv(int64(n + 1))} }},
	{name: "multi-assign-indexed", gen: func(n int) string {
		return "local t = {} " + seq(n, ",", func(k int) string { return "t[" + strconv.Itoa(k) + "]" }) + " = " + nums(n) + "\nreturn t[1] + t[" + strconv.Itoa(n) + "]"
	}, want: func(n int) []string { return []string{iv(int64(n + 1))} }},
	// ---- constants
	{name: "constants-float", quick: []int{32767, 32768, 65535, 65536}, gen: func(n int) string {
		return "local s = 0 " + seq(n, " ", func(k int) string { return fmt.Sprintf("s = s + %d.5", k) }) + " return s"
	}, want: func(n int) []string {
		s := 0.0
		for k := 1; k <= n; k++ {
			s += float64(k) + 0.5
		}
		return []string{host.FloatStr(s)}
	}},
	{name: "constants-int", gen: func(n int) string {
		return "local s = 0 " + seq(n, " ", func(k int) string { return fmt.Sprintf("s = s + %d", 1000000+7919*k) }) + " return s"
	}, want: func(n int) []string {
		var s int64
		for k := 1; k <= n; k++ {
			s += 1000000 + 7919*int64(k)
		}
		return []string{iv(s)}
	}},
	{name: "constants-string", quick: []int{32767, 32768, 65535, 65536}, gen: func(n int) string {
		return "local s = 0 local function l(x) return #x end " + seq(n, " ", func(k int) string { return fmt.Sprintf("s = s + l(\"k%d\")", k) }) + " return s"
	}, want: func(n int) []string {
		var s int64
		for k := 1; k <= n; k++ {
			s += int64(1 + len(strconv.Itoa(k)))
		}
		return []string{iv(s)}
	}},
	{name: "constants-field-names", quick: []int{32767, 32768, 65535, 65536}, gen: func(n int) string {
		return "local t = {} " + seq(n, " ", func(k int) string { return fmt.Sprintf("t.f%d = %d", k, k) }) + " return t.f1 + t.f" + strconv.Itoa(n)
	}, want: func(n int) []string { return []string{iv(int64(n + 1))} }},
	{name: "functions-many", gen: func(n int) string {
		return "local s = 0 " + seq(n, " ", func(k int) string { return fmt.Sprintf("s = s + (function() return %d end)()", k) }) + " return s"
	}, want: func(n int) []string { return []string{iv(tri(n))} }},
	// ---- nesting depth (recursive descent parser, AST compilers)
	{name: "nest-paren", quick: []int{32767, 32768, 100000, 1000000}, gen: func(n int) string { return "return " + rep("(", n) + "1" + rep(")", n) },
		want: func(n int) []string { return []string{"i:1"} }},
	{name: "nest-table", quick: []int{32767, 32768, 100000, 1000000}, gen: func(n int) string {
		return "local t = " + rep("{", n) + rep("}", n) + " local d = 0 while t do d = d + 1 t = t[1] end return d"
	}, want: func(n int) []string { return []string{iv(int64(n))} }},
	{name: "nest-function", gen: func(n int) string {
		return "local f = " + rep("function() return ", n) + "7" + rep(" end", n) + " local d = 0 while type(f) == 'function' do f = f() d = d + 1 end return d, f"
	}, want: func(n int) []string { return []string{iv(int64(n)), "i:7"} }},
	{name: "nest-do", gen: func(n int) string { return "local x = 0 " + rep("do ", n) + "x = x + 1 " + rep("end ", n) + "return x" },
		want: func(n int) []string { return []string{"i:1"} }},
	{name: "nest-if", gen: func(n int) string {
		return "local x = 0 " + rep("if x == 0 then ", n) + "x = x + 1 " + rep("end ", n) + "return x"
	}, want: func(n int) []string { return []string{"i:1"} }},
	{name: "nest-while", gen: func(n int) string {
		return "local x = 0 " + rep("while true do ", n) + "x = x + 1 " + rep("break end ", n) + "return x"
	}, want: func(n int) []string { return []string{"i:1"} }},
	{name: "nest-repeat", gen: func(n int) string {
		return "local x = 0 " + rep("repeat ", n) + "x = x + 1 " + rep("until true ", n) + "return x"
	}, want: func(n int) []string { return []string{"i:1"} }},
	{name: "nest-for", gen: func(n int) string {
		return "local x = 0 " + rep("for i = 1, 1 do ", n) + "x = x + 1 " + rep("end ", n) + "return x"
	}, want: func(n int) []string { return []string{"i:1"} }},
	{name: "nest-call", gen: func(n int) string {
		return "local function f(x) return x + 1 end return " + rep("f(", n) + "0" + rep(")", n)
	}, want: func(n int) []string { return []string{iv(int64(n))} }},
	{name: "nest-index", gen: func(n int) string {
		return "local t = {1} return " + rep("t[", n) + "1" + rep("]", n)
	}, want: func(n int) []string { return []string{"i:1"} }},
	// ---- operator chains
	{name: "unary-minus", quick: []int{32767, 32768, 100000, 1000000}, gen: func(n int) string { return "local x = 5 return " + rep("- ", n) + "x" },
		want: func(n int) []string {
			if n%2 == 0 {
				return []string{"i:5"}
			}
			return []string{"i:-5"}
		}},
	{name: "unary-not", quick: []int{32767, 32768, 100000, 1000000}, gen: func(n int) string { return "local x = 5 return " + rep("not ", n) + "x" },
		want: func(n int) []string {
			if n%2 == 0 {
				return []string{"true"}
			}
			return []string{"false"}
		}},
	{name: "unary-bnot", gen: func(n int) string { return "local x = 5 return " + rep("~ ", n) + "x" },
		want: func(n int) []string {
			if n%2 == 0 {
				return []string{"i:5"}
			}
			return []string{"i:-6"}
		}},
	{name: "unary-minus-const", gen: func(n int) string { return "return " + rep("- ", n) + "5" },
		want: func(n int) []string {
			if n%2 == 0 {
				return []string{"i:5"}
			}
			return []string{"i:-5"}
		}},
	{name: "dot-chain", gen: func(n int) string { return "local t = {} t.a = t return t" + rep(".a", n) + " == t" },
		want: func(n int) []string { return []string{"true"} }},
	{name: "method-chain", gen: func(n int) string {
		return "local c = 0 local t = {} function t:m() c = c + 1 return self end local r = t" + rep(":m()", n) + " return c"
	}, want: func(n int) []string { return []string{iv(int64(n))} }},
	{name: "call-chain", gen: func(n int) string {
		return "local c = 0 local function f() c = c + 1 return f end local r = f" + rep("()", n) + " return c"
	}, want: func(n int) []string { return []string{iv(int64(n))} }},
	{name: "concat-chain", quick: []int{32767, 32768, 100000, 1000000}, gen: func(n int) string { return "local a = 'a' return #(a" + rep(" .. a", n-1) + ")" },
		want: func(n int) []string { return []string{iv(int64(n))} }},
	{name: "concat-const-chain", gen: func(n int) string { return "return #('a'" + rep(" .. 'a'", n-1) + ")" },
		want: func(n int) []string { return []string{iv(int64(n))} }},
	{name: "add-chain", quick: []int{32767, 32768}, gen: func(n int) string { return "local a = 1 return a" + rep(" + a", n-1) },
		want: func(n int) []string { return []string{iv(int64(n))} }},
	{name: "add-const-chain", gen: func(n int) string { return "return 1" + rep(" + 1", n-1) },
		want: func(n int) []string { return []string{iv(int64(n))} }},
	{name: "pow-chain", gen: func(n int) string { return "local a = 1 return a" + rep(" ^ a", n-1) },
		want: func(n int) []string { return []string{"f:1"} }},
	{name: "and-chain", quick: []int{32767, 32768}, gen: func(n int) string { return "local a = 1 return a" + rep(" and a", n-1) },
		want: func(n int) []string { return []string{"i:1"} }},
	{name: "or-chain", gen: func(n int) string { return "local a = false return a" + rep(" or a", n-1) + " or 7" },
		want: func(n int) []string { return []string{"i:7"} }},
	{name: "compare-chain", gen: func(n int) string { return "local a = 1 return (a == a)" + rep(" == (a == a)", n-1) },
		want: func(n int) []string { return []string{"true"} }},
	// ---- jumps
	{name: "elseif-chain", quick: []int{32767, 32768}, gen: func(n int) string {
		return "local x = " + strconv.Itoa(n) + " if x == 0 then return 0 " + seq(n, " ", func(k int) string { return fmt.Sprintf("elseif x == %d then return %d", k, k) }) + " end return -1"
	}, want: func(n int) []string { return []string{iv(int64(n))} }},
	{name: "loop-body-for", quick: []int{32767, 32768}, gen: func(n int) string { return "local s = 0 for i = 1, 2 do " + stmts(n, "s = s + 1 ") + "end return s" },
		want: func(n int) []string { return []string{iv(int64(2 * n))} }},
	{name: "loop-body-while", quick: []int{32767, 32768}, gen: func(n int) string {
		return "local s, i = 0, 0 while i < 2 do i = i + 1 " + stmts(n, "s = s + 1 ") + "end return s"
	}, want: func(n int) []string { return []string{iv(int64(2 * n))} }},
	{name: "loop-body-repeat", gen: func(n int) string {
		return "local s, i = 0, 0 repeat i = i + 1 " + stmts(n, "s = s + 1 ") + "until i >= 2 return s"
	}, want: func(n int) []string { return []string{iv(int64(2 * n))} }},
	{name: "loop-body-generic-for", gen: func(n int) string {
		return "local s = 0 for _, v in ipairs({1, 2}) do " + stmts(n, "s = s + 1 ") + "end return s"
	}, want: func(n int) []string { return []string{iv(int64(2 * n))} }},
	{name: "if-body", quick: []int{32767, 32768}, gen: func(n int) string { return "local s = 0 if s ~= 0 then " + stmts(n, "s = s + 1 ") + "end return s" },
		want: func(n int) []string { return []string{"i:0"} }},
	{name: "if-else-body", gen: func(n int) string {
		return "local s = 0 if s == 0 then " + stmts(n, "s = s + 1 ") + "else " + stmts(n, "s = s + 2 ") + "end return s"
	}, want: func(n int) []string { return []string{iv(int64(n))} }},
	{name: "goto-forward", quick: []int{32767, 32768}, gen: func(n int) string {
		return "local s = 0 goto done " + stmts(n, "s = s + 1 ") + "::done:: return s"
	}, want: func(n int) []string { return []string{"i:0"} }},
	{name: "goto-backward", quick: []int{32767, 32768}, gen: func(n int) string {
		return "local s, i = 0, 0 ::top:: i = i + 1 " + stmts(n, "s = s + 1 ") + "if i < 2 then goto top end return s"
	}, want: func(n int) []string { return []string{iv(int64(2 * n))} }},
	{name: "break-far", quick: []int{32767, 32768}, gen: func(n int) string {
		return "local s = 0 while true do if s > 0 then break end " + stmts(n, "s = s + 1 ") + "end return s"
	}, want: func(n int) []string { return []string{iv(int64(n))} }},
	{name: "and-jump-far", gen: func(n int) string {
		return "local s, a = 0, 1 local r = (s ~= 0) and (a" + rep(" + a", n-1) + ") return r"
	}, want: func(n int) []string { return []string{"false"} }},
	{name: "labels-many", quick: []int{32767, 32768}, gen: func(n int) string {
		return "local s = 0 goto l" + strconv.Itoa(n) + " " + seq(n, " ", func(k int) string { return fmt.Sprintf("::l%d:: s = s + 1", k) }) + " return s"
	}, want: func(n int) []string { return []string{"i:1"} }},
	{name: "gotos-many", quick: []int{32767, 32768}, gen: func(n int) string {
		return "local s = 0 " + seq(n, " ", func(k int) string { return fmt.Sprintf("goto l%d ::l%d:: s = s + 1", k, k) }) + " return s"
	}, want: func(n int) []string { return []string{iv(int64(n))} }},
	// ---- lexical sizes
	{name: "long-string", light: true, gen: func(n int) string { return "return #\"" + rep("a", n) + "\"" },
		want: func(n int) []string { return []string{iv(int64(n))} }},
	{name: "long-name", light: true, gen: func(n int) string { return "local " + rep("a", n) + " = 1 return " + rep("a", n) },
		want: func(n int) []string { return []string{"i:1"} }},
	{name: "long-numeral", light: true, gen: func(n int) string { return "return 1" + rep("0", n) + ".0 > 1" },
		want: func(n int) []string { return []string{"true"} }},
	{name: "long-hex-numeral", light: true, gen: func(n int) string { return "return 0x" + rep("f", n) },
		want: func(n int) []string { return []string{"i:-1"} }},
	{name: "long-bracket-level", light: true, gen: func(n int) string { return "return #[" + rep("=", n) + "[x]" + rep("=", n) + "]" },
		want: func(n int) []string { return []string{"i:1"} }},
	{name: "long-comment", light: true, gen: func(n int) string { return "--" + rep("x", n) + "\nreturn 1" },
		want: func(n int) []string { return []string{"i:1"} }},
	{name: "many-lines", light: true, gen: func(n int) string { return rep("\n", n) + "return 1" },
		want: func(n int) []string { return []string{"i:1"} }},
	{name: "escapes-many", light: true, gen: func(n int) string { return "return #\"" + rep("\\65", n) + "\"" },
		want: func(n int) []string { return []string{iv(int64(n))} }},
	{name: "semicolons-many", light: true, gen: func(n int) string { return rep(";", n) + "return 1" },
		want: func(n int) []string { return []string{"i:1"} }},
	// ---- run-time value stack (a Lua error is an ordinary outcome here)
	{name: "rt-unpack-select", rtErrOK: true, light: true, gen: func(n int) string {
		return "local t = {} for i = 1, " + strconv.Itoa(n) + " do t[i] = i end return select('#', table.unpack(t)), (select(-1, table.unpack(t)))"
	}, want: func(n int) []string { return []string{iv(int64(n)), iv(int64(n))} }},
	{name: "rt-unpack-vararg-function", rtErrOK: true, light: true, gen: func(n int) string {
		return "local t = {} for i = 1, " + strconv.Itoa(n) + " do t[i] = i end local function f(...) local a = {...} return #a, select('#', ...) end return f(table.unpack(t))"
	}, want: func(n int) []string { return []string{iv(int64(n)), iv(int64(n))} }},
	{name: "rt-unpack-string-char", rtErrOK: true, light: true, gen: func(n int) string {
		return "local t = {} for i = 1, " + strconv.Itoa(n) + " do t[i] = 65 end return #string.char(table.unpack(t)), math.max(table.unpack(t)), #table.pack(table.unpack(t))"
	}, want: func(n int) []string { return []string{iv(int64(n)), "i:65", iv(int64(n))} }},
	{name: "rt-concat-many", light: true, gen: func(n int) string {
		return "local t = {} for i = 1, " + strconv.Itoa(n) + " do t[i] = 'ab' end return #table.concat(t), #table.concat(t, ', ')"
	}, want: func(n int) []string { return []string{iv(int64(2 * n)), iv(int64(4*n - 2))} }},
}

var limNsSmall = []int{254, 255, 256, 257}
var limNsBig = []int{32767, 32768, 65535, 65536, 100000, 1000000}

type limCase struct {
	t *limTemplate
	n int
}

func limitFamilies(tier string) []*core.Family {
	var cases []limCase
	for i := range limTemplates {
		t := &limTemplates[i]
		ns := append([]int{}, limNsSmall...)
		if t.light || tier == "thorough" {
			ns = append(ns, limNsBig...)
		} else {
			ns = append(ns, t.quick...)
		}
		for _, n := range ns {
			if t.maxN != 0 && n > t.maxN {
				continue
			}
			cases = append(cases, limCase{t, n})
		}
	}
	// boundary sweep: jump distances around 2^15 and 2^16 instructions for
	// statement sizes of 1..4 instructions
	sweepT := map[string]bool{"if-body": true, "goto-forward": true, "goto-backward": true, "loop-body-while": true,
		"break-far": true, "and-jump-far": true, "labels-many": true, "add-chain": true}
	var sweepNs []int
	for _, b := range []int{32768, 65536} {
		for d := 1; d <= 4; d++ {
			for w := -1; w <= 1; w++ {
				if tier == "thorough" || (b == 32768 && (d == 2 || d == 3) && w >= 0) {
					sweepNs = append(sweepNs, b/d+w)
				}
			}
		}
	}
	have := map[string]bool{}
	for _, c := range cases {
		have[fmt.Sprintf("%s/%d", c.t.name, c.n)] = true
	}
	for i := range limTemplates {
		t := &limTemplates[i]
		if sweepT[t.name] {
			for _, n := range sweepNs {
				if !have[fmt.Sprintf("%s/%d", t.name, n)] {
					cases = append(cases, limCase{t, n})
				}
			}
		}
	}
	const name = "c-limit"
	execFuncs[name] = func(i uint64) runRes {
		c := cases[i]
		return fromObs(host.Run(c.t.gen(c.n), host.Opts{}))
	}
	return []*core.Family{{
		Name: name, Size: uint64(len(cases)), HangSeconds: 3600,
		Show: func(i uint64) string {
			c := cases[i]
			src := c.t.gen(c.n)
			if len(src) > 600 {
				src = src[:300] + " … " + src[len(src)-250:]
			}
			return fmt.Sprintf("%s N=%d\n%s", c.t.name, c.n, src)
		},
		Run: func(i uint64) core.Outcome {
			c := cases[i]
			to := 150 * time.Second
			r := remote(name, i, to)
			return judge(name, fmt.Sprintf("%s N=%d", c.t.name, c.n), false, r, c.t.want(c.n), c.t.rtErrOK)
		},
	}}
}
