// c14-runner: the per-configuration worker of check C14.
//
// The same source is built once per golua build-tag set
// (`-tags "verif <cfg>"`).  It reads one JSON request per line on stdin
// ({"src": program text, "args": canonical chunk arguments}), runs the program
// in a FRESH golua runtime (all libraries except io, host callbacks emit/tick;
// package host), closes the runtime (pending __gc finalizers run then and their emits
// belong to the trace) and prints the canonical observation as one JSON line.
//
// The runner knows nothing about the oracle; the check binary (cmd/c14)
// compares the lines produced by the differently built runners.
package main

import (
	"bufio"
	"encoding/json"
	"fmt"
	"io"
	"os"
	"runtime"
	"runtime/debug"
	"strconv"
	"time"

	"github.com/arnodel/golua/lib"
	"github.com/arnodel/golua/lib/base"
	"github.com/arnodel/golua/lib/coroutine"
	"github.com/arnodel/golua/lib/debuglib"
	"github.com/arnodel/golua/lib/golib"
	"github.com/arnodel/golua/lib/mathlib"
	"github.com/arnodel/golua/lib/oslib"
	"github.com/arnodel/golua/lib/packagelib"
	"github.com/arnodel/golua/lib/runtimelib"
	"github.com/arnodel/golua/lib/stringlib"
	"github.com/arnodel/golua/lib/tablelib"
	"github.com/arnodel/golua/lib/utf8lib"
	rt "github.com/arnodel/golua/runtime"

	"verif/engine/host"
)

// loadLibs is lib.LoadAll without iolib: creating the three standard file
// objects (64 KiB buffers each) is 45% of the cost of a fresh runtime and no
// corpus program touches io.  Order as in lib.LoadAll.
func loadLibs(r *rt.Runtime) func() {
	return lib.LoadLibs(r,
		base.LibLoader,
		packagelib.LibLoader,
		coroutine.LibLoader,
		stringlib.LibLoader,
		tablelib.LibLoader,
		mathlib.LibLoader,
		utf8lib.LibLoader,
		oslib.LibLoader,
		debuglib.LibLoader,
		golib.LibLoader,
		runtimelib.LibLoader,
	)
}

// cpuLimit bounds a run in the configurations that account CPU (everything
// except noquotas): a diverging program shows as status "killed".  The check
// does not send a program to the noquotas runner when the default runner
// reported "killed".  The most expensive terminating corpus program (a
// template at d=201) uses 8e4 units, progfam programs use less than 2e4.
const cpuLimit = 1000000

type req struct {
	Src  string   `json:"src"`
	Args []string `json:"args"`
	// Hello asks for the build description instead of running a program.
	Hello bool `json:"hello,omitempty"`
}

type resp struct {
	Status  string   `json:"status"`
	Results []string `json:"results"`
	Err     string   `json:"err"`
	Trace   []string `json:"trace"`
	// Hello reply
	Quotas    *bool `json:"quotas,omitempty"`
	Goroutine int   `json:"goroutines,omitempty"`
	// development aid (C14_SHOWCPU=1): CPU units used, to size cpuLimit
	CPU uint64 `json:"cpu,omitempty"`
}

func parseArg(s string) (rt.Value, error) {
	switch {
	case s == "nil":
		return rt.NilValue, nil
	case s == "true":
		return rt.BoolValue(true), nil
	case s == "false":
		return rt.BoolValue(false), nil
	case len(s) > 2 && s[:2] == "i:":
		n, err := strconv.ParseInt(s[2:], 10, 64)
		return rt.IntValue(n), err
	case len(s) > 2 && s[:2] == "f:":
		f, err := strconv.ParseFloat(s[2:], 64)
		return rt.FloatValue(f), err
	case len(s) >= 2 && s[:2] == "s:":
		return rt.StringValue(s[2:]), nil
	}
	return rt.NilValue, fmt.Errorf("bad argument %q", s)
}

var showCPU = os.Getenv("C14_SHOWCPU") != ""

func runOne(q *req) (r resp) {
	var args []rt.Value
	for _, a := range q.Args {
		v, err := parseArg(a)
		if err != nil {
			return resp{Status: "badrequest", Err: err.Error()}
		}
		args = append(args, v)
	}
	m := host.NewMachine(true)
	cleanup := loadLibs(m.R)
	var def *rt.RuntimeContextDef
	if rt.QuotasAvailable {
		def = &rt.RuntimeContextDef{HardLimits: rt.RuntimeResources{Cpu: cpuLimit}}
	}
	o := m.Exec("chunk", q.Src, args, def)
	func() {
		// finalizers run here; a context termination inside one must not kill
		// the runner differently from a normal close
		defer func() {
			if p := recover(); p != nil {
				m.Trace = append(m.Trace, "close-panic")
			}
		}()
		m.Close()
		cleanup()
	}()
	r = resp{Status: o.Status, Results: o.Results, Err: o.Err, Trace: m.Trace}
	if showCPU {
		r.CPU = o.UsedCPU
	}
	if r.Results == nil {
		r.Results = []string{}
	}
	if r.Trace == nil {
		r.Trace = []string{}
	}
	return r
}

func main() {
	// One mutator thread: golua coroutines are goroutines that hand over
	// synchronously, on one P that is a plain goroutine switch instead of a
	// futex wake-up of another thread (measured: half the CPU per program).
	procs := 1
	if v, err := strconv.Atoi(os.Getenv("C14_PROCS")); err == nil && v > 0 {
		procs = v
	}
	runtime.GOMAXPROCS(procs)
	debug.SetMaxStack(512 << 20)
	// an orphaned runner (worker killed while a program without CPU limit
	// spins) must not live on
	go func() {
		pp := os.Getppid()
		for {
			time.Sleep(2 * time.Second)
			if os.Getppid() != pp {
				os.Exit(4)
			}
		}
	}()
	in := bufio.NewReaderSize(os.Stdin, 1<<20)
	out := bufio.NewWriterSize(os.Stdout, 1<<16)
	enc := json.NewEncoder(out)
	enc.SetEscapeHTML(false)
	for {
		line, err := in.ReadBytes('\n')
		if len(line) > 1 {
			var q req
			var r resp
			if e := json.Unmarshal(line, &q); e != nil {
				r = resp{Status: "badrequest", Err: e.Error()}
			} else if q.Hello {
				qa := rt.QuotasAvailable
				r = resp{Status: "hello", Quotas: &qa, Goroutine: runtime.NumGoroutine()}
			} else {
				r = runOne(&q)
			}
			enc.Encode(&r)
			out.Flush()
		}
		if err != nil {
			if err != io.EOF {
				os.Exit(3)
			}
			return
		}
	}
}
