#!/bin/bash
# ./check C14 [--tier quick|thorough] [extra flags]
set -u
HERE="$(cd "$(dirname "$0")" && pwd)"
ROOT="$(cd "$HERE/../../.." && pwd)"
export VERIF_ROOT="$ROOT"
"$HERE/build.sh" || exit 2
args=()
while [ $# -gt 0 ]; do
  case "$1" in
    --tier) args+=(-tier "$2"); shift 2;;
    --replay) args+=(-replay "$2"); shift 2;;
    *) args+=("$1"); shift;;
  esac
done
BIN="$ROOT/.bin/c14"; [ -n "${VERIF_REPO:-}" ] && BIN="$ROOT/.bin/alt/c14"
exec "$BIN" "${args[@]}"
