#!/bin/bash
# Detection demonstration for C14 (not part of ./check): builds runner binaries
# from deliberately broken copies of golua's pools (mounted with
# `go build -overlay`; /repo is never edited), substitutes each for ONE
# configuration and shows that the check flags exactly that configuration.
#
#   engine/cmd/c14/demo.sh            # all mutants, template families only
#
# Scratch output (evidence, replays of the demo) goes to .bin/c14-mut/root, not
# to the real evidence/ and replays/ directories.
set -u
HERE="$(cd "$(dirname "$0")" && pwd)"
ROOT="$(cd "$HERE/../../.." && pwd)"
export GOFLAGS=-mod=mod GOPROXY=off GOSUMDB=off GOTOOLCHAIN=local
export GOCACHE="${GOCACHE:-$ROOT/.cache/go-build}"
[ -x "$ROOT/.bin/c14" ] || "$HERE/build.sh" || exit 2
MUT="$ROOT/.bin/c14-mut"
mkdir -p "$MUT/root"
ln -sfn "$ROOT/.bin" "$MUT/root/.bin"

# mutant <name> <file under /repo/runtime> <tags of the configuration it replaces> <cfg name> <python edit>
mutant() {
  local name="$1" file="$2" tags="$3" cfg="$4" edit="$5"
  local dir="$MUT/$name"
  mkdir -p "$dir"
  python3 - "$file" "$dir/$(basename "$file")" "$edit" <<'PY' || { echo "demo: mutant $1 does not apply to the current source" >&2; return 2; }
import sys, re
src, dst, edit = sys.argv[1], sys.argv[2], sys.argv[3]
s = open(src).read()
old, new = edit.split("\n=====\n")
if s.count(old) < 1:
    sys.exit(1)
open(dst, "w").write(s.replace(old, new))
PY
  printf '{"Replace": {"%s": "%s"}}\n' "$file" "$dir/$(basename "$file")" > "$dir/overlay.json"
  ( cd "$ROOT/engine" && go build -overlay "$dir/overlay.json" -tags "verif $tags" -ldflags=-checklinkname=0 -o "$dir/runner" ./cmd/c14/runner ) || { echo "demo: mutant $name does not build" >&2; return 2; }
  echo "=== mutant $name (replaces configuration $cfg)"
  for fam in T-pool-templates T-stale-registers; do
    VERIF_ROOT="$MUT/root" C14_BUDGET_SCALE=20 C14_OVERRIDE="$cfg=$dir/runner" VERIF_DUMPKEYS="$dir/keys-$fam.txt" \
      "$ROOT/.bin/c14" -tier quick -family "$fam" > "$dir/out-$fam.txt" 2>&1
    n=$(wc -l < "$dir/keys-$fam.txt" 2>/dev/null || echo 0)
    other=$(grep -v "cfg=$cfg	" "$dir/keys-$fam.txt" 2>/dev/null | wc -l)
    echo "  $fam: $n violation keys ($other naming another configuration)"
    cut -f1 "$dir/keys-$fam.txt" 2>/dev/null | sed -e 's/ d=[0-9]*//' -e 's/ k=[0-9]*//' | sort | uniq -c | sed 's/^/      /' | head -40
  done
}

# M1: a released register set is put back into the pool WITHOUT being cleared.
mutant regpool-noclear /repo/runtime/regpool.go "nocontpool" nocontpool 'func (p *valuePool) release(v []Value) {
	for i := 0; i < regPoolSize; i++ {
		if p.exps[i] < p.gen {
			for i := range v {
				v[i] = Value{}
			}
=====
func (p *valuePool) release(v []Value) {
	for i := 0; i < regPoolSize; i++ {
		if p.exps[i] < p.gen {'

# M5: a register set taken from the LAST slot of the register pool stays in
# the pool (two live frames share registers).  Needs 10 sets of one size
# pooled at once (>= 10 nested returns) and then >= 10 nested calls.
mutant regpool-lastslot-alias /repo/runtime/regpool.go "nocontpool" nocontpool '		v := p.values[i]
		if len(v) == sz {
			p.values[i] = nil
=====
		v := p.values[i]
		if len(v) == sz {
			if i == regPoolSize-1 {
				return v
			}
			p.values[i] = nil'

# M2: when the Lua continuation pool is FULL (100 released continuations),
# get() hands out the top continuation without removing it from the pool, so
# two live calls share one continuation object.  Needs >= 100 nested returns.
mutant luacontpool-full-alias /repo/runtime/luacontpool.go "noregpool" noregpool '	p.next--
	c := p.conts[p.next]
	p.conts[p.next] = nil
	return c
=====
	if p.next == luaContPoolSize {
		return p.conts[p.next-1]
	}
	p.next--
	c := p.conts[p.next]
	p.conts[p.next] = nil
	return c'

# M3: a Go continuation is given back to the pool although the Go function
# failed (the error path still refers to it).
mutant gocont-release-on-error /repo/runtime/gocont.go "safepool" safepool '	if err != nil {
		// If there is an error, c is still potentially needed for error
		// handling, so do not return it to the pool.  It will get GCed when no
		// longer referenced, so it'"'"'s OK.
		return
	}
=====
'

# M4: a released cell set keeps its cells (closures of a dead frame and the
# next user of the set share variables).
mutant cellpool-noclear /repo/runtime/regpool.go "" default 'func (p *cellPool) release(c []Cell) {
	for i := 0; i < regPoolSize; i++ {
		if p.exps[i] < p.gen {
			for i := range c {
				c[i] = Cell{}
			}
=====
func (p *cellPool) release(c []Cell) {
	for i := 0; i < regPoolSize; i++ {
		if p.exps[i] < p.gen {'
