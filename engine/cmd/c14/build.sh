#!/bin/bash
# Builds the C14 checker and its six runner binaries (one per golua build-tag
# set) from /repo's CURRENT working tree.
#   .bin/c14                      the check (core.Main, families)
#   .bin/c14-runner-<cfg>         cmd/c14/runner built with -tags "verif <tags>"
set -u
HERE="$(cd "$(dirname "$0")" && pwd)"
ROOT="$(cd "$HERE/../../.." && pwd)"
export GOFLAGS=-mod=mod GOPROXY=off GOSUMDB=off GOTOOLCHAIN=local
export GOCACHE="${GOCACHE:-$ROOT/.cache/go-build}"
mkdir -p "$ROOT/.bin"
cd "$ROOT/engine" || exit 2
cp /repo/go.sum go.sum 2>/dev/null
# Development aid: VERIF_REPO=<dir> builds against another golua tree into .bin/alt.
MODFLAG=""; OUT="$ROOT/.bin"
if [ -n "${VERIF_REPO:-}" ]; then
  mkdir -p "$ROOT/.bin/alt"
  sed "s#=> /repo#=> $VERIF_REPO#" go.mod > "$ROOT/.bin/alt/c14.mod"; cp go.sum "$ROOT/.bin/alt/c14.sum"
  MODFLAG="-modfile=$ROOT/.bin/alt/c14.mod"; OUT="$ROOT/.bin/alt"
fi
LOG="$ROOT/.bin/c14.build.log"
: > "$LOG"
fail() {
  echo "BUILD-FAILED property=C14 ($1; the check could not run); see $LOG" >&2
  cat "$LOG" >&2
  exit 2
}
# name:tags  (the names are what violation keys carry as cfg=<name>)
CONFIGS=(
  "default:"
  "noregpool:noregpool"
  "nocontpool:nocontpool"
  "noregpool+nocontpool:noregpool nocontpool"
  "noquotas:noquotas"
  "safepool:safepool"
)
pids=()
for c in "${CONFIGS[@]}"; do
  name="${c%%:*}"; tags="${c#*:}"
  ( go build $MODFLAG -tags "verif $tags" -ldflags=-checklinkname=0 -o "$OUT/c14-runner-$name" ./cmd/c14/runner 2>"$LOG.$name" ) &
  pids+=($!)
done
( go build $MODFLAG -tags "verif" -ldflags=-checklinkname=0 -o "$OUT/c14" ./cmd/c14 2>"$LOG.check" ) &
pids+=($!)
rc=0
for p in "${pids[@]}"; do wait "$p" || rc=1; done
cat "$LOG".* >> "$LOG" 2>/dev/null; rm -f "$LOG".*
[ $rc -eq 0 ] || fail "a runner or the check did not build"
exit 0
