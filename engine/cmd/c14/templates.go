package main

// Pool-boundary templates of check C14.
//
// Every template is a Lua program text with the parameter $D (recursion depth
// / repetition count).  The programs are deterministic by construction (no
// pairs over several keys, no addresses, no clocks, no collectgarbage) and
// report through emit(...) and their return values; the oracle is only that
// every build configuration of golua observes the same thing, so the
// programs do not need a reference result.
//
// golua's pools (read from /repo/runtime at start-up, see poolConstants):
//   regPool / argsPool / cellPool : 10 slots each, a released set replaces a
//       slot older than 10 generations, get(sz) only returns a set of exactly
//       sz registers
//   luaContPool : stack of 100 LuaCont objects, goContPool : stack of 10
// A LuaCont (+ its registers and cells) is released on return / tail call
// only; not when an error or a yield leaves it; a GoCont is released when the
// Go function returns without error.

import (
	"fmt"
	"os"
	"regexp"
	"sort"
	"strconv"
	"strings"
)

type template struct {
	Name string
	Src  string
	// UsesRuntimeLib: the program needs the `runtime` library, which does not
	// exist in the noquotas build; it is not run there.
	UsesRuntimeLib bool
}

// baseDepths is the d set of DESIGN §4 C14 (plus 199..201 = twice the Lua
// continuation pool).
var baseDepths = []int{1, 2, 3, 4, 5, 6, 7, 8, 9, 10, 11, 12, 99, 100, 101, 102, 110, 199, 200, 201}

// poolConstants reads the pool sizes from golua's sources so that the d set
// keeps containing every boundary (c-1, c, c+1, 2c-1, 2c, 2c+1) if a constant
// is changed.  Defaults = the values at the time of writing.
func poolConstants() map[string]int {
	out := map[string]int{"regPoolSize": 10, "regSetMaxAge": 10, "luaContPoolSize": 100, "goContPoolSize": 10}
	files := map[string][]string{
		"/repo/runtime/regpool.go":     {"regPoolSize", "regSetMaxAge"},
		"/repo/runtime/luacontpool.go": {"luaContPoolSize"},
		"/repo/runtime/gocontpool.go":  {"goContPoolSize"},
	}
	for f, names := range files {
		b, err := os.ReadFile(f)
		if err != nil {
			continue
		}
		for _, n := range names {
			re := regexp.MustCompile(`(?m)^\s*(?:const\s+)?` + n + `\s*=\s*(\d+)`)
			if m := re.FindSubmatch(b); m != nil {
				if v, err := strconv.Atoi(string(m[1])); err == nil && v > 0 && v <= 5000 {
					out[n] = v
				}
			}
		}
	}
	return out
}

var depthsCache []int

func depths() []int {
	if depthsCache != nil {
		return depthsCache
	}
	set := map[int]bool{}
	for _, d := range baseDepths {
		set[d] = true
	}
	for _, c := range poolConstants() {
		for _, m := range []int{1, 2} {
			for _, e := range []int{-1, 0, 1} {
				if v := c*m + e; v >= 1 {
					set[v] = true
				}
			}
		}
	}
	for d := range set {
		depthsCache = append(depthsCache, d)
	}
	sort.Ints(depthsCache)
	return depthsCache
}

func (t template) render(d int) string {
	return strings.ReplaceAll(t.Src, "$D", strconv.Itoa(d))
}

// ---- generated fragments

// localsFuncs returns `F[k] = function(x) local a1..ak = x+1..x+k return a1+..+ak end`
// for k = 1..14 (14 distinct register-set sizes, more than the 10 pool slots).
func localsFuncs(tbl string, captured bool) string {
	var sb strings.Builder
	fmt.Fprintf(&sb, "local %s = {}\n", tbl)
	for k := 1; k <= 14; k++ {
		var names, vals, sum []string
		for j := 1; j <= k; j++ {
			names = append(names, fmt.Sprintf("a%d", j))
			vals = append(vals, fmt.Sprintf("x + %d", j))
			sum = append(sum, fmt.Sprintf("a%d", j))
		}
		if captured {
			// every local lives in a cell: the closure g captures them all
			fmt.Fprintf(&sb, "%s[%d] = function(x) local %s = %s local function g() return %s end return g() end\n",
				tbl, k, strings.Join(names, ", "), strings.Join(vals, ", "), strings.Join(sum, " + "))
		} else {
			fmt.Fprintf(&sb, "%s[%d] = function(x) local %s = %s return %s end\n",
				tbl, k, strings.Join(names, ", "), strings.Join(vals, ", "), strings.Join(sum, " + "))
		}
	}
	return sb.String()
}

// chainFuncs: G[k](x, n) has k locals and calls G[k%14+1](x, n-1) (non tail),
// so a chain of depth d has 14 register-set sizes live at once.
func chainFuncs() string {
	var sb strings.Builder
	sb.WriteString("local G = {}\n")
	for k := 1; k <= 14; k++ {
		var names, vals, sum []string
		for j := 1; j <= k; j++ {
			names = append(names, fmt.Sprintf("a%d", j))
			vals = append(vals, fmt.Sprintf("x + %d", j))
			sum = append(sum, fmt.Sprintf("a%d", j))
		}
		fmt.Fprintf(&sb, "G[%d] = function(x, n) local %s = %s if n == 0 then return %s end local r = G[%d](x + 1, n - 1) return r + %s end\n",
			k, strings.Join(names, ", "), strings.Join(vals, ", "), strings.Join(sum, " + "), k%14+1, strings.Join(sum, " + "))
	}
	return sb.String()
}

var templates = []template{
	{Name: "rec-sum", Src: `
local function f(n)
  if n == 0 then return 0 end
  local a, b = n, n * 2
  local r = f(n - 1)
  return r + a + b - n * 2
end
emit(f($D))
emit(f($D))
local function g(n)
  if n == 0 then return 0, "z" end
  local x, y = g(n - 1)
  return x + n, y
end
emit(g($D))
local function h(n, t)
  if n == 0 then return t end
  t[#t + 1] = n
  local r = h(n - 1, t)
  return r
end
local t = h($D, {})
emit(#t, t[1], t[#t])
return f($D), g($D)
`},
	{Name: "tail-chain", Src: `
local function t(n, acc)
  if n == 0 then return acc end
  return t(n - 1, acc + n)
end
emit(t($D, 0))
local a, b, c
function a(n, s) local p = n if n == 0 then return s end return b(n - 1, s + p) end
function b(n, s) local p, q = n, 2 if n == 0 then return s end return c(n - 1, s + p * q) end
function c(n, s) local p, q, r = n, 3, 1 if n == 0 then return s end return a(n - 1, s + p * q + r) end
emit(a($D, 0))
local o = {v = 0}
function o:step(n)
  self.v = self.v + n
  if n == 0 then return self.v end
  return self:step(n - 1)
end
emit(o:step($D))
-- tail calls into Go functions at the end of a Lua chain
local function viaGo(n, ...)
  if n == 0 then return select('#', ...), ... end
  return viaGo(n - 1, n, ...)
end
local cnt, first = viaGo($D)
emit(cnt, first)
local function tp(n) if n == 0 then return pcall(error, "bottom") end return tp(n - 1) end
emit(tp($D))
return t($D, 0), a($D, 0)
`},
	{Name: "err-depth", Src: `
local function f(n, boom)
  local x, y = n, "v" .. n
  if n == 0 then
    if boom then error({code = $D}) end
    return 0
  end
  local r = f(n - 1, boom)
  return r + x + #y
end
local ok, e = pcall(f, $D, true)
emit(ok, type(e), e.code)
local r1 = f($D, false)
local ok2, e2 = pcall(f, $D, true)
emit(ok2, e2.code)
local r2 = f($D, false)
emit(r1, r2, r1 == r2)
local function g(n)
  if n == 0 then error("deep") end
  return 1 + g(n - 1)
end
emit(pcall(g, $D))
local _, m1 = pcall(g, $D)
local _, m2 = pcall(g, $D)
emit(m1 == m2)
local function arith(n)
  local z = nil
  if n == 0 then return z + 1 end
  return 1 + arith(n - 1)
end
emit(pcall(arith, $D))
emit(f($D, false))
`},
	{Name: "coro-abandon", Src: `
local function inner(i, k)
  if k == 0 then return coroutine.yield(i) end
  local a = i + k
  return inner(i, k - 1) + a
end
local cos = {}
local s = 0
for i = 1, $D do
  local co = coroutine.create(function(x) local p, q = x, x * 2 return inner(x, 3) + p + q end)
  local ok, v = coroutine.resume(co, i)
  s = s + v
  cos[i] = co
end
emit(s)
local function plain(n) local a, b, c = n, n + 1, n + 2 return a + b + c end
local t = 0
for i = 1, $D do t = t + plain(i) end
emit(t)
-- every third abandoned coroutine is picked up again, the others stay suspended for ever
local u = 0
for i = 1, $D, 3 do
  local ok, v = coroutine.resume(cos[i], 1000)
  u = u + v
  emit(coroutine.status(cos[i]))
end
emit(u)
cos = nil
for i = 1, $D do t = t + plain(i) end
emit(t)
`},
	{Name: "coro-abandon-wrap-close", Src: `
local log = 0
local function deep(k, tag)
  local here = tag * 10 + k
  if k == 0 then coroutine.yield(here) return here end
  local r = deep(k - 1, tag)
  return r + here
end
local ws = {}
for i = 1, $D do
  ws[i] = coroutine.create(function() return deep(i % 5, i) end)
  local ok, v = coroutine.resume(ws[i])
  log = log + v
end
emit(log)
-- close half of them (unwinds their suspended frames), leave the rest
local closed = 0
for i = 2, $D, 2 do
  if coroutine.close(ws[i]) then closed = closed + 1 end
end
emit(closed)
local function plain(a, b) local c, d, e = a + b, a - b, a * b return c + d + e end
local t = 0
for i = 1, $D do t = t + plain(i, 2) end
emit(t)
for i = 1, $D, 2 do
  local ok, v = coroutine.resume(ws[i])
  t = t + v
end
emit(t)
`},
	{Name: "closures-depth", Src: `
local fs = {}
local function f(n)
  local a, b, c = n, n * 10, n * 100
  fs[n] = function(inc) a = a + inc return a, b, c end
  if n > 1 then f(n - 1) end
  return a
end
emit(f($D))
local function g(x) local p, q, r = -1, -2, -3 return p + q + r + x end
local junk = 0
for i = 1, $D do junk = junk + g(i) end
local s = 0
for i = 1, $D do
  local a, b, c = fs[i](1)
  s = s + a + b + c
end
emit(s, junk)
emit(fs[1](0))
emit(fs[$D](0))
-- shared upvalue between two closures made at depth
local pairsOf = {}
local function mk(n)
  local shared = n
  pairsOf[n] = {function() shared = shared + 1 end, function() return shared end}
  if n > 1 then return mk(n - 1) end   -- tail call: the frame is released here
end
mk($D)
for i = 1, $D do junk = junk + g(i) end
local u = 0
for i = 1, $D do pairsOf[i][1]() u = u + pairsOf[i][2]() end
emit(u)
`},
	{Name: "reentrant-pcall", Src: `
local function f(n)
  if n == 0 then return "bottom", 0 end
  local ok, v, k = pcall(f, n - 1)
  return v, k + 1
end
emit(f($D))
local function e(n)
  if n == 0 then error("x", 0) end
  local ok, v = pcall(e, n - 1)
  if n % 2 == 0 then error(v .. n % 10, 0) end
  return v
end
emit(pcall(e, $D))
emit(f($D))
`},
	{Name: "reentrant-sort", Src: `
local calls = 0
local function nsort(n)
  local t = {3, 1, 2}
  local first = true
  table.sort(t, function(a, b)
    calls = calls + 1
    if first and n > 0 then first = false nsort(n - 1) end
    return a < b
  end)
  return t[1] * 100 + t[2] * 10 + t[3]
end
emit(nsort($D), calls)
local big = {}
for i = 1, $D do big[i] = ($D - i) * 7 % 11 + i % 3 end
table.sort(big, function(a, b) local x, y = a, b return x < y end)
local okOrder = true
for i = 2, #big do if big[i - 1] > big[i] then okOrder = false end end
emit(#big, big[1], big[#big], okOrder)
emit(nsort($D))
`},
	{Name: "reentrant-gsub", Src: `
local function r(n)
  return (string.gsub("ab", "%a", function(c)
    if n > 0 and c == "a" then return r(n - 1) end
    return c:upper()
  end))
end
local s = r($D)
emit(#s, s:sub(1, 3), s:sub(-2))
local src = string.rep("xy", $D)
local count = 0
local out = src:gsub("%a", function(c) count = count + 1 local k = count if k % 2 == 0 then return false end return tostring(k % 10) end)
emit(count, #out, out:sub(1, 6))
local words = {}
for w in string.gmatch(string.rep("ab ", $D), "%a+") do words[#words + 1] = w end
emit(#words)
emit(#r($D))
`},
	{Name: "reentrant-index", Src: `
local obj = setmetatable({}, {__index = function(t, k)
  local here = k
  if k > 0 then return t[k - 1] + 1 end
  return 0
end})
emit(obj[$D])
local store = setmetatable({}, {__newindex = function(t, k, v)
  if k > 0 then t[k - 1] = v + 1 else rawset(t, "last", v) end
end})
store[$D] = 0
emit(store.last)
emit(obj[$D])
`},
	{Name: "reentrant-call-meta", Src: `
local c = setmetatable({}, {__call = function(self, n)
  local keep = n
  if n == 0 then return 0 end
  return self(n - 1) + 1 + keep - n
end})
emit(c($D))
local ops = 0
local mt = {}
mt.__add = function(a, b) ops = ops + 1 return setmetatable({v = a.v + b.v}, mt) end
mt.__eq = function(a, b) ops = ops + 1 return a.v == b.v end
mt.__lt = function(a, b) ops = ops + 1 return a.v < b.v end
mt.__len = function(a) return a.v end
mt.__concat = function(a, b) ops = ops + 1 return (type(a) == "table" and a.v or a) .. "|" .. (type(b) == "table" and b.v or b) end
local acc = setmetatable({v = 0}, mt)
local one = setmetatable({v = 1}, mt)
for i = 1, $D do acc = acc + one end
emit(#acc, acc == setmetatable({v = $D}, mt), one < acc, ops)
emit(one .. "x", "x" .. one, #(one .. acc))
local ts = setmetatable({}, {__tostring = function(s) return "obj" .. $D end})
emit(tostring(ts))
emit(c($D))
`},
	{Name: "regsizes-rotation", Src: localsFuncs("F", false) + `
local s = 0
for i = 1, $D do s = s + F[(i - 1) % 14 + 1](i) end
emit(s)
-- reverse order, then pairs of sizes
for i = $D, 1, -1 do s = s + F[(i - 1) % 14 + 1](i) end
emit(s)
for i = 1, $D do s = s + F[i % 14 + 1](i) + F[(i * 5) % 14 + 1](i) end
emit(s)
`},
	{Name: "regsizes-cells-rotation", Src: localsFuncs("H", true) + `
local s = 0
for i = 1, $D do s = s + H[(i - 1) % 14 + 1](i) end
emit(s)
for i = $D, 1, -1 do s = s + H[(i * 3) % 14 + 1](i) end
emit(s)
`},
	{Name: "regsizes-chain", Src: chainFuncs() + `
emit(G[1](0, $D))
emit(G[7](1, $D))
local s = 0
for i = 1, 14 do s = s + G[i](i, $D % 17) end
emit(s)
emit(G[1](0, $D))
`},
	{Name: "coro-captured-cont", Src: `
local function mk(n)
  local a, b = n, n * 2
  local co = coroutine.wrap(function(x)
    local y = coroutine.yield(a + x)
    local z = coroutine.yield(b + y)
    return a + b + z
  end)
  local first = co(1)
  return co, first
end
local cos, s = {}, 0
for i = 1, $D do
  local co, first = mk(i)
  cos[i] = co
  s = s + first
end
emit(s)
local function noise(n) local p, q = n, n return p + q end
for i = 1, $D do s = s + noise(i) end
for i = 1, $D do s = s + cos[i](10) end
emit(s)
for i = 1, $D do s = s + noise(i) end
for i = $D, 1, -1 do s = s + cos[i](100) end
emit(s)
emit(pcall(cos[1]))
-- a generator that outlives the function that built it, driven by a for loop
local function range(n)
  local lo = 1
  return coroutine.wrap(function() for i = lo, n do coroutine.yield(i, i * i) end end)
end
local t = 0
for i, sq in range($D) do t = t + i + sq end
emit(t)
`},
	{Name: "varargs-len", Src: `
local list = {}
for i = 1, $D do list[i] = i * 3 end
local function v(...)
  local n = select('#', ...)
  local t = {...}
  return n, t[1], t[n], (select(n, ...))
end
emit(v(table.unpack(list, 1, $D)))
local function cnt(...)
  if select('#', ...) == 0 then return 0 end
  return 1 + cnt(select(2, ...))
end
emit(cnt(table.unpack(list, 1, $D)))
local function pass(...) return ... end
local function sum(...)
  local s = 0
  for i = 1, select('#', ...) do s = s + (select(i, ...)) end
  return s
end
emit(sum(pass(pass(table.unpack(list, 1, $D)))))
emit(select('#', pass(table.unpack(list, 1, $D))))
local packed = table.pack(pass(nil, table.unpack(list, 1, $D)))
emit(packed.n, packed[1], packed[2], packed[packed.n])
local function tailv(n, ...)
  if n == 0 then return select('#', ...) end
  return tailv(n - 1, n, ...)
end
emit(tailv($D))
local few = {}
for i = 1, $D % 30 + 1 do few[i] = i * 7 end
emit(string.format(string.rep("%d", #few, ","), table.unpack(few)))
`},
	{Name: "err-in-pooled-callee", Src: `
local function leaf(x, fail)
  local a, b, c = x, x + 1, x + 2
  if fail then error("boom" .. x % 7) end
  return a + b + c
end
local function mid(x, fail)
  local u = leaf(x, false)
  local v = leaf(x + 1, fail)
  return u + v
end
local s = 0
for i = 1, $D do s = s + mid(i, false) end      -- warm: continuations now come from the pool
emit(s)
local fails, last = 0, nil
for i = 1, $D do
  local ok, e = pcall(mid, i, i % 3 == 0)
  if ok then s = s + e else fails = fails + 1 last = e end
end
emit(s, fails, last)
for i = 1, $D do s = s + mid(i, false) end
emit(s)
-- error objects keep nothing of the dead frames alive that could be reused wrongly
local errs = {}
for i = 1, $D do
  local ok, e = pcall(function(k) local mine = {id = k} error(mine) end, i)
  errs[i] = e
end
local idsum = 0
for i = 1, $D do idsum = idsum + errs[i].id end
emit(idsum)
`},
	{Name: "tbc-unwind", Src: `
local order = {}
local function closer(n)
  return setmetatable({}, {__close = function(_, err)
    local tag = n
    order[#order + 1] = tag
    local function helper(a, b) local c = a + b return c end
    helper(tag, 1)
  end})
end
local function f(n, boom)
  local x <close> = closer(n)
  local keep = n * 2
  if n == 0 then
    if boom then error("unwind") end
    return 0
  end
  local r = f(n - 1, boom)
  return r + keep - n * 2 + 1
end
emit(f($D, false))
emit(#order, order[1], order[#order])
order = {}
emit(pcall(f, $D, true))
emit(#order, order[1], order[#order])
order = {}
emit(f($D, false))
emit(#order, order[1], order[#order])
local n = 0
for i = 1, $D do
  local y <close> = closer(i)
  if i % 4 == 0 then goto continue end
  n = n + 1
  ::continue::
end
emit(n, #order)
`},
	{Name: "xpcall-handler-depth", Src: `
local function helper(m, n)
  local a, b = m, n
  if n == 0 then return a end
  return helper(m, n - 1)
end
local function rec(n)
  local mine = n
  if n == 0 then error("E", 0) end
  local r = rec(n - 1)
  return r + mine
end
local function handler(m)
  local function depth(k) if k == 0 then return 0 end return 1 + depth(k - 1) end
  return helper(m, $D % 50) .. ":" .. depth($D % 50)
end
emit(xpcall(rec, handler, $D))
emit(xpcall(rec, handler, $D))
local function fine(n) if n == 0 then return "fine" end return fine(n - 1) end
emit(xpcall(fine, handler, $D))
local function nest(n)
  if n == 0 then error("inner", 0) end
  local ok, v = xpcall(nest, function(m) return m .. "+" end, n - 1)
  return v
end
emit(#nest($D % 60))
`},
	{Name: "loop-closures", Src: `
local fs = {}
for i = 1, $D do
  local j = i * 2
  fs[i] = function() j = j + 1 return i + j end
end
local s = 0
for i = 1, $D do s = s + fs[i]() end
emit(s)
for i = $D, 1, -1 do s = s + fs[i]() end
emit(s)
local gs, k = {}, 0
while k < $D do
  k = k + 1
  local mine
  if k % 2 == 0 then mine = k end
  gs[k] = function() return mine end
end
local nils = 0
for i = 1, $D do if gs[i]() == nil then nils = nils + 1 end end
emit(nils)
local hs, m = {}, 0
repeat
  m = m + 1
  local a, b
  hs[m] = function(v) if v then a, b = v, m end return a, b end
until m >= $D
emit(hs[1](), hs[$D]())
hs[1]("set")
emit(hs[1]())
emit(hs[$D]())
`},
	{Name: "coro-nest", Src: `
local function nest(n)
  if n == 0 then return 0 end
  local here = n
  return coroutine.wrap(function() return 1 + nest(n - 1) + here - n end)()
end
emit(nest($D))
local function ynest(n)
  if n == 0 then coroutine.yield("deep") return 0 end
  local co = coroutine.wrap(ynest)
  local v = co(n - 1)
  if v == "deep" then coroutine.yield(v) v = co() end
  return v + 1
end
local top = coroutine.wrap(ynest)
local lim = $D % 40
emit(top(lim))
emit(top())
emit(nest($D))
`},
	{Name: "coro-error-depth", Src: `
local function rec(n, boom)
  local mine = n
  if n == 0 then
    if boom then error({at = $D}) end
    return coroutine.yield("bottom")
  end
  local r = rec(n - 1, boom)
  return r + mine
end
local co1 = coroutine.create(rec)
local ok, e = coroutine.resume(co1, $D, true)
emit(ok, type(e) == "table" and e.at, coroutine.status(co1))
local co2 = coroutine.create(rec)
emit(coroutine.resume(co2, $D, false))
emit(coroutine.resume(co2, 5))
emit(coroutine.status(co2))
-- yield across pcall at depth
local function py(n)
  if n == 0 then return coroutine.yield("py") end
  local ok, v = pcall(py, n - 1)
  return v
end
local co3 = coroutine.wrap(py)
emit(co3($D % 150))
emit(co3("resumed"))
local co4 = coroutine.create(rec)
emit(coroutine.resume(co4, $D, true))
`},
	{Name: "dead-coro-introspect", Src: `
-- a coroutine that died from an error keeps its frames: they must stay intact
-- (not handed back to the pools) while later calls churn through the pools
local function lvl(n) if n == 0 then error("deep", 0) end return lvl(n - 1) + 1 end
local co = coroutine.create(function() return lvl($D) end)
emit(coroutine.resume(co))
local function churn(n) if n == 0 then return 0 end return churn(n - 1) + 1 end
emit(churn($D), churn(3))
local tb = debug.traceback(co)
emit(select(2, tb:gsub("\n", "\n")), #tb, tb:sub(1, 200))
for l = 0, 3 do
  local i = debug.getinfo(co, l, "Sl")
  emit(l, i and i.short_src, i and i.currentline)
end
emit(churn(5), coroutine.status(co))
`},
	{Name: "gofn-rotation", Src: `
local s, t = 0, {5, 3, 8}
for i = 1, $D do
  s = s + select('#', i, i) + math.max(i, 2, 3) + #string.sub("hello", 2, 3) + #tostring(i)
  s = s + (rawget(t, 1) or 0) + #string.rep("x", i % 4, "-") + (tonumber("10", 16) or 0) + math.abs(-i)
  rawset(t, 4, i)
  s = s + rawlen(t) + (string.find("hello", "l", 1, true) or 0) + #table.concat(t, ",", 1, 2)
end
emit(s)
-- Go functions failing (their continuation and argument set are not given back) then succeeding
local fails = 0
for i = 1, $D do
  if not pcall(string.rep) then fails = fails + 1 end
  if not pcall(rawset, 1, 2, 3) then fails = fails + 1 end
  if not pcall(setmetatable, 1, 2) then fails = fails + 1 end
  if not pcall(string.sub) then fails = fails + 1 end
  s = s + #string.sub("hello", 2) + #string.rep("ab", 2)
end
emit(fails, s)
-- optional arguments must not be inherited from an earlier call
emit(string.sub("hello", 2, 3), string.sub("hello", 2))
emit(string.rep("x", 3, "-"), string.rep("x", 3))
emit(string.find("a.b", ".", 2, true), string.find("a.b", ".", 2))
emit(tonumber("10", 16), tonumber("10"))
emit(table.concat({1, 2, 3}, ",", 2, 3), table.concat({1, 2, 3}))
emit(math.max(9, 1), math.max(1))
emit(select(2, "a", "b", "c"), select(-1, "z"))
emit(rawequal(t, t), pcall(rawequal, t))
emit(tostring(nil), tostring(12), pcall(tostring))
`},
	{Name: "callcontext-kill", UsesRuntimeLib: true, Src: `
local function spin(n)
  local mine = n
  if n == 0 then while true do end end
  return spin(n - 1) + mine
end
local ctx = runtime.callcontext({kill = {cpu = 2000}}, spin, $D)
emit(ctx.status)
local function fine(n) local a, b = n, 1 if n == 0 then return 0 end return fine(n - 1) + a * b end
emit(fine($D))
local ctx2, r = runtime.callcontext({kill = {cpu = 100000}}, fine, $D)
emit(ctx2.status, r)
local ctx3 = runtime.callcontext({kill = {cpu = 2000}}, spin, $D)
emit(ctx3.status)
emit(fine($D))
local ctx4, e = runtime.callcontext({kill = {cpu = 100000}}, function() error("inside") end)
emit(ctx4.status, e)
`},
	{Name: "gc-at-close", Src: `
keep = {}
local mt = {__gc = function(o)
  local function helper(a) local b = a + 1 return b end
  emit("gc", o.id, helper(o.id))
end}
for i = 1, $D do keep[i] = setmetatable({id = i}, mt) end
-- an object marked and then stripped of its finalizer, one whose finalizer fails
keep.stripped = setmetatable({id = -1}, {__gc = function(o) emit("gc-stripped") end})
getmetatable(keep.stripped).__gc = nil
keep.late = setmetatable({id = -2}, {})
getmetatable(keep.late).__gc = function(o) emit("gc-late-must-not-run") end
emit("end of chunk")
`},
	{Name: "gc-remeta", Src: `
keep = {}
-- values marked for finalization more than once, with another metatable in between
for i = 1, $D % 5 + 1 do
  keep[i] = setmetatable({id = i}, {__gc = function(o) emit("gc-first-metatable", o.id) end})
  setmetatable(keep[i], {__gc = function(o) emit("gc-second-metatable", o.id, getmetatable(o) == getmetatable(keep[i])) end})
end
keep.same = setmetatable({id = -1}, {__gc = function(o) emit("gc-same", o.id) end})
setmetatable(keep.same, getmetatable(keep.same))
keep.swap = setmetatable({id = -2}, {__gc = function(o) emit("gc-swap-first", o.id) end})
getmetatable(keep.swap).__gc = function(o) emit("gc-swap-second", o.id) end
emit("end of chunk")
`},
	{Name: "method-and-field-calls", Src: `
local Stack = {}
Stack.__index = Stack
function Stack.new() return setmetatable({n = 0, items = {}}, Stack) end
function Stack:push(v) self.n = self.n + 1 self.items[self.n] = v return self end
function Stack:pop() local v = self.items[self.n] self.items[self.n] = nil self.n = self.n - 1 return v end
local st = Stack.new()
for i = 1, $D do st:push(i):push(-i) end
local s = 0
for i = 1, $D do s = s + st:pop() * 2 + st:pop() end
emit(s, st.n)
local function apply(f, ...) return f(...) end
local function compose(n)
  if n == 0 then return function(x) return x end end
  local inner = compose(n - 1)
  return function(x) return inner(x) + 1 end
end
emit(apply(compose($D), 0))
emit(apply(compose($D), 5))
`},
	{Name: "load-chunks", Src: `
local fns = {}
for i = 1, $D % 40 + 1 do
  fns[i] = load("local a, b = ... local function g() return a + b end return g() + " .. i)
end
local s = 0
for r = 1, 3 do
  for i = 1, #fns do s = s + fns[i](i, r) end
end
emit(s)
local function viaLoad(n)
  if n == 0 then return 0 end
  return load("local f, n = ... return f(n - 1) + 1")(viaLoad, n)
end
emit(viaLoad($D % 120))
emit(pcall(load("error('in chunk', 0)")))
emit(s)
`},
}

// ---- stale-data probe (every k in 1..14 x variant)

var staleVariants = []string{"plain", "cells", "loop", "loop-cells", "after-error", "after-tailcall", "after-yield-abandon", "vararg-callee", "missing-params"}

func nameList(prefix string, k int) []string {
	var out []string
	for j := 1; j <= k; j++ {
		out = append(out, fmt.Sprintf("%s%d", prefix, j))
	}
	return out
}

func staleProgram(k int, variant string) string {
	names := nameList("a", k)
	nl := strings.Join(names, ", ")
	var vals []string
	for j := 1; j <= k; j++ {
		vals = append(vals, fmt.Sprintf("\"S%d\"", j))
	}
	vl := strings.Join(vals, ", ")
	var sb strings.Builder
	w := func(f string, a ...interface{}) { fmt.Fprintf(&sb, f, a...) }
	// count the nils among the values passed
	w("local function nils(...) local c = 0 for i = 1, select('#', ...) do if (select(i, ...)) == nil then c = c + 1 end end return c, select('#', ...) end\n")
	switch variant {
	case "plain":
		w("local function A() local %s = %s return %s end\n", nl, vl, names[k-1])
		w("local function B() local %s return %s end\n", nl, nl)
		w("for r = 1, 12 do A() emit(nils(B())) emit(B()) end\n")
	case "cells":
		w("local function A() local %s = %s local function g() return %s end return g() end\n", nl, vl, nl)
		w("local function B() local %s local function g() return %s end return g() end\n", nl, nl)
		w("for r = 1, 12 do A() emit(nils(B())) emit(B()) end\n")
	case "loop":
		w("for r = 1, 12 do local %s emit(nils(%s)) emit(%s) %s = %s end\n", nl, nl, nl, nl, vl)
	case "loop-cells":
		w("local gs = {}\n")
		w("for r = 1, 12 do local %s gs[r] = function() return %s end emit(nils(gs[r]())) %s = %s end\n", nl, nl, nl, vl)
		w("emit(gs[1]()) emit(gs[12]())\n")
	case "after-error":
		w("local function A() local %s = %s error(%s) end\n", nl, vl, names[0])
		w("local function B() local %s return %s end\n", nl, nl)
		w("for r = 1, 12 do emit(pcall(A)) emit(nils(B())) end\n")
	case "after-tailcall":
		w("local function C(...) return select('#', ...) end\n")
		w("local function A() local %s = %s return C(%s) end\n", nl, vl, nl)
		w("local function B() local %s return C(%s), %s end\n", nl, nl, nl)
		w("for r = 1, 12 do emit(A()) emit(nils(B())) end\n")
	case "after-yield-abandon":
		w("local function A() local %s = %s coroutine.yield(%s) return %s end\n", nl, vl, names[0], nl)
		w("local function B() local %s return %s end\n", nl, nl)
		w("for r = 1, 12 do local co = coroutine.create(A) emit(coroutine.resume(co)) if r %% 2 == 0 then emit(coroutine.resume(co)) end emit(nils(B())) end\n")
	case "missing-params":
		w("local function A(%s) %s = %s return %s end\n", nl, nl, vl, names[k-1])
		w("local function B(%s) return %s end\n", nl, nl)
		w("local function C(%s) local function g() return %s end return g() end\n", nl, nl)
		w("for r = 1, 12 do emit(A()) emit(nils(B())) emit(nils(B(r))) emit(nils(C())) emit(pcall(A)) emit(nils(pcall(B))) end\n")
	case "vararg-callee":
		w("local function A(...) local %s = ... return %s end\n", nl, names[k-1])
		w("local function B(...) local %s = ... return %s end\n", nl, nl)
		w("for r = 1, 12 do emit(A(%s)) emit(nils(B())) emit(nils(B(1))) end\n", vl)
	}
	return sb.String()
}
