// C14 — performance build options never change behaviour.
//
// The same finite program corpus (every progfam family program + pool-boundary
// templates, see templates.go) is executed by six differently built golua
// runner binaries (cmd/c14/runner built with the tag sets default, noregpool,
// nocontpool, noregpool+nocontpool, noquotas, safepool; see build.sh) and every
// program must produce the identical observation (emit trace, results or
// error value, status) in all of them.  The oracle is differential: no
// reference result is needed, only equality across configurations.
//
// A worker keeps one long-lived runner subprocess per configuration and feeds
// every program of its shard to all of them (each program runs in a fresh
// golua runtime inside the runner).  A runner that dies or hangs is attributed
// to the program in flight and restarted.
package main

import (
	"bufio"
	"bytes"
	"encoding/json"
	"errors"
	"flag"
	"fmt"
	"io"
	"os"
	"os/exec"
	"path/filepath"
	"regexp"
	"strconv"
	"strings"
	"sync"
	"time"

	"verif/engine/core"
	"verif/engine/prog"
	"verif/engine/progfam"
)

// configs[0] is the baseline every other configuration is compared with.
var configs = []string{"default", "noregpool", "nocontpool", "noregpool+nocontpool", "noquotas", "safepool"}

const (
	cfgDefault  = 0
	cfgNoQuotas = 4
	batchSize   = 64
	restartAt   = 4000 // programs served before a runner is recycled (abandoned coroutines are parked goroutines)
	// A program costs milliseconds (CPU limit 1e6 in every accounting
	// configuration); a runner silent for this long on one program is hung.
	programTimeout = 90 * time.Second
	confirmRuns    = 3
)

func runnerPath(cfg string) string {
	// development aid (mutant demonstration): C14_OVERRIDE="default=/path/to/runner,..."
	for _, kv := range strings.Split(os.Getenv("C14_OVERRIDE"), ",") {
		if k, v, ok := strings.Cut(kv, "="); ok && k == cfg {
			return v
		}
	}
	if os.Getenv("VERIF_REPO") != "" {
		// development aid: runners built against another golua tree
		return filepath.Join(core.Root(), ".bin", "alt", "c14-runner-"+cfg)
	}
	return filepath.Join(core.Root(), ".bin", "c14-runner-"+cfg)
}

// ---------------------------------------------------------------- runner process

type tail struct {
	mu  sync.Mutex
	buf []byte
}

func (t *tail) Write(b []byte) (int, error) {
	t.mu.Lock()
	defer t.mu.Unlock()
	if len(t.buf) < 3000 {
		k := 3000 - len(t.buf)
		if k > len(b) {
			k = len(b)
		}
		t.buf = append(t.buf, b[:k]...)
	}
	return len(b), nil
}
func (t *tail) String() string { t.mu.Lock(); defer t.mu.Unlock(); return string(t.buf) }

type runner struct {
	cfg    string
	cmd    *exec.Cmd
	in     io.WriteCloser
	out    *os.File
	rd     *bufio.Reader
	stderr *tail
	served int
}

func (r *runner) start() error {
	path := runnerPath(r.cfg)
	cmd := exec.Command(path)
	in, err := cmd.StdinPipe()
	if err != nil {
		return err
	}
	pr, pw, err := os.Pipe()
	if err != nil {
		return err
	}
	cmd.Stdout = pw
	r.stderr = &tail{}
	cmd.Stderr = r.stderr
	cmd.Env = append(os.Environ(), "GOTRACEBACK=single")
	if err := cmd.Start(); err != nil {
		pr.Close()
		pw.Close()
		return fmt.Errorf("cannot start %s: %v (run engine/cmd/c14/build.sh)", path, err)
	}
	pw.Close()
	r.cmd, r.in, r.out, r.rd, r.served = cmd, in, pr, bufio.NewReaderSize(pr, 1<<16), 0
	return nil
}

func (r *runner) stop() {
	if r.cmd == nil {
		return
	}
	r.in.Close()
	done := make(chan struct{})
	go func() { r.cmd.Wait(); close(done) }()
	select {
	case <-done:
	case <-time.After(2 * time.Second):
		r.cmd.Process.Kill()
		<-done
	}
	r.out.Close()
	r.cmd = nil
}

func (r *runner) kill() string {
	if r.cmd == nil {
		return ""
	}
	r.cmd.Process.Kill()
	r.cmd.Wait()
	r.in.Close()
	r.out.Close()
	r.cmd = nil
	return r.stderr.String()
}

// roundtrip sends one request line and reads one response line.  died != ""
// means that the runner crashed or hung on this request (it has been killed;
// the next roundtrip starts a new one).
func (r *runner) roundtrip(req []byte) (line []byte, died string) {
	if r.cmd == nil {
		if err := r.start(); err != nil {
			fmt.Fprintln(os.Stderr, "c14:", err)
			os.Exit(2)
		}
	}
	r.served++
	if _, err := r.in.Write(req); err != nil {
		return nil, "write failed: " + crashLine(r.kill())
	}
	r.out.SetReadDeadline(time.Now().Add(programTimeout))
	line, err := r.rd.ReadBytes('\n')
	if err != nil {
		kind := "exited"
		if errors.Is(err, os.ErrDeadlineExceeded) {
			kind = fmt.Sprintf("hang>%ds", int(programTimeout.Seconds()))
		}
		return nil, kind + ": " + crashLine(r.kill())
	}
	return bytes.TrimRight(line, "\n"), ""
}

func crashLine(stderr string) string {
	for _, ln := range strings.Split(stderr, "\n") {
		if strings.HasPrefix(ln, "fatal error:") || strings.HasPrefix(ln, "panic:") || strings.HasPrefix(ln, "runtime: goroutine stack exceeds") {
			if len(ln) > 200 {
				ln = ln[:200]
			}
			return ln
		}
	}
	return "no Go crash message"
}

// ---------------------------------------------------------------- corpus items

type item struct {
	idx      uint64
	skip     bool   // index is not a canonical program
	key      string // family independent part of the violation key
	src      string
	args     []string
	noQuotas bool // false: not run under noquotas (uses the runtime library)
	req      []byte
	lines    [][]byte // response per configuration (nil = not run or died)
	died     []string
	notRun   []bool
	defDone  chan struct{}
}

var usesRuntimeRe = regexp.MustCompile(`\bruntime\b`)

func canonArg(a interface{}) string {
	switch x := a.(type) {
	case nil:
		return "nil"
	case bool:
		if x {
			return "true"
		}
		return "false"
	case int64:
		return "i:" + strconv.FormatInt(x, 10)
	case int:
		return "i:" + strconv.Itoa(x)
	case float64:
		return "f:" + strconv.FormatFloat(x, 'g', -1, 64)
	case string:
		return "s:" + x
	}
	panic(fmt.Sprintf("c14: bad chunk argument %T", a))
}

func (it *item) finish() {
	it.noQuotas = !usesRuntimeRe.MatchString(it.src)
	b, _ := json.Marshal(struct {
		Src  string   `json:"src"`
		Args []string `json:"args"`
	}{it.src, it.args})
	it.req = append(b, '\n')
	it.lines = make([][]byte, len(configs))
	it.died = make([]string, len(configs))
	it.notRun = make([]bool, len(configs))
	it.defDone = make(chan struct{})
}

// source is one corpus family: index -> program.
type source struct {
	name string
	size uint64
	at   func(i uint64) *item // nil = skipped
}

func progSource(f progfam.Fam, stride uint64) source {
	size := (f.Size + stride - 1) / stride
	return source{
		name: "P-" + f.Name,
		size: size,
		at: func(j uint64) *item {
			p := f.At(j * stride)
			if p == nil {
				return nil
			}
			src, _ := prog.Render(p, prog.Plain)
			it := &item{key: p.Key, src: src}
			for _, a := range p.Args {
				it.args = append(it.args, canonArg(a))
			}
			return it
		},
	}
}

func templateSource() source {
	ds := depths()
	nt := uint64(len(templates))
	return source{
		name: "T-pool-templates",
		size: uint64(len(ds)) * nt,
		at: func(i uint64) *item {
			t, d := templates[i%nt], ds[i/nt] // all templates at the smallest depth first
			return &item{key: fmt.Sprintf("%s d=%d", t.Name, d), src: t.render(d)}
		},
	}
}

func staleSource() source {
	nv := uint64(len(staleVariants))
	return source{
		name: "T-stale-registers",
		size: 14 * nv,
		at: func(i uint64) *item {
			k, v := int(i/nv)+1, staleVariants[i%nv]
			return &item{key: fmt.Sprintf("stale-%s k=%d", v, k), src: staleProgram(k, v)}
		},
	}
}

// ---------------------------------------------------------------- batch execution

type pool struct {
	runners []*runner
}

func newPool() *pool {
	p := &pool{}
	for _, c := range configs {
		p.runners = append(p.runners, &runner{cfg: c})
	}
	return p
}

var (
	statusKilled = []byte(`{"status":"killed"`)
	statusOK     = []byte(`{"status":"ok"`)
	emptyTrace   = []byte(`"trace":[]}`)
)

// runBatch runs every item in every configuration.  Each runner is fed in a
// pipeline (a writer goroutine sends the requests ahead, the reader collects
// the responses in order) so that a runner never waits for the worker to be
// scheduled.  When a runner dies or hangs, the item whose response was due is
// the program in flight; the items after it are sent again to a new runner.
func (p *pool) runBatch(items []*item) {
	var wg sync.WaitGroup
	for ci := range configs {
		wg.Add(1)
		go func(ci int) {
			defer wg.Done()
			p.runCfg(ci, items)
		}(ci)
	}
	wg.Wait()
}

func (p *pool) runCfg(ci int, items []*item) {
	r := p.runners[ci]
	if r.served >= restartAt {
		r.stop()
	}
	pos, spontaneous := 0, 0
	for pos < len(items) {
		if r.cmd == nil {
			if err := r.start(); err != nil {
				fmt.Fprintln(os.Stderr, "c14:", err)
				os.Exit(2)
			}
		}
		sent := make(chan int, len(items))
		in := r.in
		wpos, wfailed := len(items), false // where the writer stopped (valid once sent is closed)
		go func(from int) {
			defer close(sent)
			for k := from; k < len(items); k++ {
				it := items[k]
				if it.skip {
					continue
				}
				if ci == cfgNoQuotas {
					<-it.defDone
					// no runtime library and no CPU accounting under noquotas
					if !it.noQuotas || it.lines[cfgDefault] == nil || bytes.HasPrefix(it.lines[cfgDefault], statusKilled) {
						it.notRun[ci] = true
						continue
					}
				}
				if _, err := in.Write(it.req); err != nil {
					wpos, wfailed = k, true // runner gone
					return
				}
				sent <- k
			}
		}(pos)
		failed := false
		for k := range sent {
			if failed {
				continue // drain: these are sent again
			}
			it := items[k]
			r.served++
			r.out.SetReadDeadline(time.Now().Add(programTimeout))
			line, err := r.rd.ReadBytes('\n')
			if err != nil {
				kind := "exited"
				if errors.Is(err, os.ErrDeadlineExceeded) {
					kind = fmt.Sprintf("hang>%ds", int(programTimeout.Seconds()))
				}
				it.died[ci] = kind + ": " + crashLine(r.kill())
				failed = true
			} else {
				it.lines[ci] = bytes.TrimRight(line, "\n")
			}
			if ci == cfgDefault {
				close(it.defDone)
			}
			pos = k + 1
		}
		if failed {
			continue
		}
		if !wfailed {
			break
		}
		// The runner went away although no response was due (it died between
		// two programs): start another one and send the rest again; a program
		// that cannot even be handed over three times is reported.
		msg := crashLine(r.kill())
		spontaneous++
		pos = wpos
		if spontaneous >= 3 {
			it := items[wpos]
			it.died[ci] = "runner keeps dying before reading the program: " + msg
			if ci == cfgDefault {
				close(it.defDone)
			}
			pos = wpos + 1
			spontaneous = 0
		}
	}
}

// fresh runs one program in a newly started runner process of configuration ci.
func fresh(ci int, req []byte) ([]byte, string) {
	r := &runner{cfg: configs[ci]}
	defer r.stop()
	return r.roundtrip(req)
}

// confirm reruns the program in confirmRuns fresh runner processes of each of
// the two configurations (all started at once).
func confirm(it *item, ref, ci int) (bool, string) {
	type res struct {
		c    int
		line []byte
		died string
	}
	ch := make(chan res, 2*confirmRuns)
	for k := 0; k < confirmRuns; k++ {
		for _, c := range []int{ref, ci} {
			go func(c int) {
				l, d := fresh(c, it.req)
				ch <- res{c, l, d}
			}(c)
		}
	}
	stable, why := true, ""
	for k := 0; k < 2*confirmRuns; k++ {
		r := <-ch
		if stable && (r.died != "" || !bytes.Equal(r.line, it.lines[r.c])) {
			stable = false
			why = fmt.Sprintf("cfg=%s first %s, fresh process %s %s", configs[r.c], pretty(it.lines[r.c]), pretty(r.line), r.died)
		}
	}
	return stable, why
}

func unstableLog(fam string, it *item, why string) {
	f, err := os.OpenFile(filepath.Join(core.Root(), ".bin", "c14-unstable.log"), os.O_APPEND|os.O_CREATE|os.O_WRONLY, 0644)
	if err != nil {
		return
	}
	defer f.Close()
	fmt.Fprintf(f, "%s %s (index %d): %s\n", fam, it.key, it.idx, why)
}

func pretty(line []byte) string {
	var o struct {
		Status  string
		Results []string
		Err     string
		Trace   []string
	}
	if json.Unmarshal(line, &o) != nil {
		return string(line)
	}
	s := o.Status
	if o.Status == "ok" {
		s += " (" + strings.Join(o.Results, ", ") + ")"
	} else {
		s += " " + o.Err
	}
	tr := strings.Join(o.Trace, " | ")
	if len(tr) > 1500 {
		tr = tr[:700] + " ... " + tr[len(tr)-700:]
	}
	return s + " trace(" + strconv.Itoa(len(o.Trace)) + ")=[" + tr + "]"
}

// firstDiff names the first component in which two observations differ.
func firstDiff(a, b []byte) string {
	var x, y struct {
		Status  string
		Results []string
		Err     string
		Trace   []string
	}
	if json.Unmarshal(a, &x) != nil || json.Unmarshal(b, &y) != nil {
		return "unparsable response"
	}
	if x.Status != y.Status {
		return fmt.Sprintf("status %s vs %s", x.Status, y.Status)
	}
	for i := 0; i < len(x.Trace) || i < len(y.Trace); i++ {
		var p, q string = "<none>", "<none>"
		if i < len(x.Trace) {
			p = x.Trace[i]
		}
		if i < len(y.Trace) {
			q = y.Trace[i]
		}
		if p != q {
			return fmt.Sprintf("emit #%d: %s vs %s", i+1, p, q)
		}
	}
	if strings.Join(x.Results, ",") != strings.Join(y.Results, ",") {
		return fmt.Sprintf("results (%s) vs (%s)", strings.Join(x.Results, ", "), strings.Join(y.Results, ", "))
	}
	if x.Err != y.Err {
		return fmt.Sprintf("error value %s vs %s", x.Err, y.Err)
	}
	return "?"
}

func showSrc(it *item) string {
	s := it.src
	if len(s) > 6000 {
		s = s[:6000] + "\n... (truncated)"
	}
	return fmt.Sprintf("program:\n%s\nargs: (%s)", s, strings.Join(it.args, ", "))
}

func judge(fam string, it *item) core.Outcome {
	if it.skip {
		return core.Outcome{Skipped: true}
	}
	var out core.Outcome
	ref := -1
	for ci := range configs {
		if it.died[ci] != "" {
			out.Viols = append(out.Viols, &core.Violation{
				Key: fmt.Sprintf("%s %s clause=runner-died cfg=%s", fam, it.key, configs[ci]),
				Detail: fmt.Sprintf("the %s runner died while running this program: %s\n%s",
					configs[ci], it.died[ci], showSrc(it)),
			})
			continue
		}
		if it.lines[ci] != nil && ref < 0 {
			ref = ci
		}
	}
	if ref < 0 {
		return out
	}
	base := it.lines[ref]
	out.Sig = core.Hash64(string(base))
	out.NonTrivial = !bytes.HasPrefix(base, statusOK) || !bytes.HasSuffix(base, emptyTrace)
	var summary []string
	for ci := range configs {
		switch {
		case it.notRun[ci]:
			summary = append(summary, fmt.Sprintf("  %-22s (not run: no runtime library / no CPU accounting in this build)", configs[ci]))
		case it.lines[ci] != nil:
			summary = append(summary, fmt.Sprintf("  %-22s %s", configs[ci], pretty(it.lines[ci])))
		}
	}
	for ci := range configs {
		if ci == ref || it.lines[ci] == nil || bytes.Equal(it.lines[ci], base) {
			continue
		}
		// Confirm in fresh processes: both configurations must reproduce their
		// own observation (a program whose outcome varies from process to
		// process within ONE configuration is outside the property).
		stable, why := confirm(it, ref, ci)
		if !stable {
			unstableLog(fam, it, why)
			continue
		}
		out.Viols = append(out.Viols, &core.Violation{
			Key: fmt.Sprintf("%s %s clause=differs cfg=%s", fam, it.key, configs[ci]),
			Detail: fmt.Sprintf("build configuration %s observes something else than %s (reproduced in %d fresh processes each)\nfirst difference (%s vs %s): %s\n%s\nobservations:\n%s",
				configs[ci], configs[ref], confirmRuns, configs[ref], configs[ci], firstDiff(base, it.lines[ci]), showSrc(it), strings.Join(summary, "\n")),
		})
	}
	return out
}

// ---------------------------------------------------------------- families

type famRunner struct {
	src   source
	cache map[uint64]core.Outcome
	pre   []*item // next batch, rendered while the runners were busy
}

var timing = os.Getenv("C14_TIMING") != ""

var (
	thePool *pool
	stride  uint64 = 1 // distance between the indices this process is asked to run
	batch          = 1
)

func (fr *famRunner) gen(i uint64) []*item {
	var items []*item
	for j := i; j < fr.src.size && len(items) < batch; j += stride {
		it := fr.src.at(j)
		if it == nil {
			it = &item{skip: true}
		} else {
			it.finish()
		}
		it.idx = j
		items = append(items, it)
	}
	return items
}

func (fr *famRunner) run(i uint64) core.Outcome {
	if o, ok := fr.cache[i]; ok {
		delete(fr.cache, i)
		return o
	}
	if thePool == nil {
		thePool = newPool()
	}
	var items []*item
	if len(fr.pre) > 0 && fr.pre[0].idx == i {
		items = fr.pre
	} else {
		items = fr.gen(i)
	}
	fr.pre = nil
	done := make(chan struct{})
	t0 := time.Now()
	go func() { thePool.runBatch(items); close(done) }()
	// while the runners work, render the next batch
	if next := items[len(items)-1].idx + stride; next < fr.src.size && !core.Expired() && batch > 1 {
		fr.pre = fr.gen(next)
	}
	t1 := time.Now()
	<-done
	t2 := time.Now()
	for _, it := range items {
		fr.cache[it.idx] = judge(fr.src.name, it)
	}
	if timing {
		fmt.Fprintf(os.Stderr, "c14 timing: batch of %d at %d: pre-render %v, runners %v, judge %v\n", len(items), i, t1.Sub(t0), t2.Sub(t0), time.Since(t2))
	}
	o := fr.cache[i]
	delete(fr.cache, i)
	return o
}

// quickStride thins the largest progfam families in the quick tier: family
// index j denotes progfam index j*stride.  The strides are primes that do not
// divide the least significant radices of the mixed-radix families, so every
// digit value of every position still occurs.
func quickStride(name string) uint64 {
	switch name {
	case "F1-scope-closure", "F2-call-protocol":
		return 3
	}
	return 1
}

// budget is the wall-time cap of a family in seconds: about three times what
// the family needs on an idle 16 core machine (estimated from 1 ms per golua
// run; six runs per program).  On a loaded machine the large families hit the
// cap and the run reports exhaustive=false.
func budget(tier, fam string) int {
	b := budget1(tier, fam)
	// development aid: C14_BUDGET_SCALE=10 to let a loaded machine finish
	if k, err := strconv.Atoi(os.Getenv("C14_BUDGET_SCALE")); err == nil && k > 0 {
		b *= k
	}
	return b
}

func budget1(tier, fam string) int {
	if tier != "thorough" {
		switch fam {
		case "P-F2-call-protocol", "P-F3-jumps-nested":
			return 70
		case "P-F1-scope-closure":
			return 60
		case "P-F3-jumps-free", "P-F4-binary", "P-F6-multiple-assignment":
			return 45
		case "T-pool-templates":
			return 120
		}
		return 25
	}
	switch fam {
	case "P-F1-scope-closure-len5":
		return 400
	case "P-F3-jumps-free", "P-F3-jumps-nested":
		return 330
	case "P-F8-trees":
		return 240
	case "P-F2-call-protocol", "P-F1-scope-closure":
		return 150
	case "P-F4-binary", "P-F6-multiple-assignment":
		return 60
	case "T-pool-templates":
		return 180
	}
	return 30
}

func allSources(tier string) []source {
	var srcs []source
	srcs = append(srcs, templateSource(), staleSource())
	for _, f := range progfam.All(tier) {
		s := uint64(1)
		if tier != "thorough" {
			s = quickStride(f.Name)
		}
		srcs = append(srcs, progSource(f, s))
	}
	return srcs
}

func families(tier string) []*core.Family {
	var fams []*core.Family
	for _, s := range allSources(tier) {
		fr := &famRunner{src: s, cache: map[uint64]core.Outcome{}}
		fams = append(fams, &core.Family{
			Name: s.name,
			Size: s.size,
			Run:  fr.run,
			Show: func(i uint64) string {
				it := fr.src.at(i)
				if it == nil {
					return "(index does not denote a canonical program)"
				}
				return it.key + "\n" + showSrc(it)
			},
			HangSeconds:   900,
			BudgetSeconds: budget(tier, s.name),
		})
	}
	return fams
}

func main() {
	core.Main(&core.Check{
		ID:    "C14",
		Level: "model_checking",
		Rule: "every program of the corpus (progfam families F1..F9 rendered plain; quick tier: every 3rd index of the two largest families F1, F2; " +
			"pool-boundary templates x every depth d in {1..12, pool sizes and twice the pool sizes +-1, 102, 110}; stale-register probes k=1..14 x 8 variants) " +
			"is run in a fresh runtime by six golua builds (default, noregpool, nocontpool, noregpool+nocontpool, noquotas, safepool) and the canonical observations " +
			"(status, emit trace incl. finalizers run at close, results, error value) must be byte-identical; non-trivial = emits something or does not end ok; distinct = distinct baseline observations",
		Assumptions: []string{
			"differential oracle: the default build is the baseline; a difference is reported only after both configurations reproduced their own observation in 3 fresh processes each (process-dependent programs are logged to .bin/c14-unstable.log and not judged)",
			"noquotas build: no runtime library and no CPU accounting, so programs mentioning `runtime` and programs the default build kills at the CPU limit (1e6 units; terminating corpus programs need < 1e5) are compared in the other five configurations only",
			"the noscalar tag (runtime/value_noscalar.go) does not compile on the current tree and is not a configuration of the property",
			"a runner crash or hang (>90 s on one program) is attributed to the program in flight (clause=runner-died)",
		},
		Init: func(tier string) {
			if f := flag.Lookup("worker"); f != nil && f.Value.String() == "true" {
				batch = batchSize
				if of := flag.Lookup("of"); of != nil {
					if k, err := strconv.ParseUint(of.Value.String(), 10, 64); err == nil && k > 0 {
						stride = k
					}
				}
			}
		},
		Families: families,
		Extra: func(tier string) map[string]interface{} {
			pc := poolConstants()
			return map[string]interface{}{
				"configurations": configs,
				"depths":         depths(),
				"pool_constants": pc,
			}
		},
	})
}

// dumpTemplates (development aid, `C14_DUMP=<d> .bin/c14`): prints every
// template program at depth d as runner request lines.
func init() {
	// C14_DUMPFAM=<family>:<from>:<count>[:<tier>] prints the request lines of a slice of a family
	if df := os.Getenv("C14_DUMPFAM"); df != "" {
		parts := strings.Split(df, ":")
		from, _ := strconv.ParseUint(parts[1], 10, 64)
		cnt, _ := strconv.ParseUint(parts[2], 10, 64)
		tier := "quick"
		if len(parts) > 3 {
			tier = parts[3]
		}
		w := bufio.NewWriter(os.Stdout)
		for _, f := range families(tier) {
			if f.Name != parts[0] {
				continue
			}
			for _, src := range allSources(tier) {
				if src.name != f.Name {
					continue
				}
				for i := from; i < from+cnt && i < src.size; i++ {
					if it := src.at(i); it != nil {
						it.finish()
						w.Write(it.req)
					}
				}
			}
		}
		w.Flush()
		os.Exit(0)
	}
	ds := os.Getenv("C14_DUMP")
	if ds == "" {
		return
	}
	d, _ := strconv.Atoi(ds)
	w := bufio.NewWriter(os.Stdout)
	emitReq := func(key, src string) {
		b, _ := json.Marshal(map[string]interface{}{"src": src, "args": []string{}})
		fmt.Fprintf(os.Stderr, "%s\n", key)
		w.Write(append(b, '\n'))
	}
	for _, t := range templates {
		emitReq(t.Name, t.render(d))
	}
	if d <= 14 && d >= 1 {
		for _, v := range staleVariants {
			emitReq("stale-"+v, staleProgram(d, v))
		}
	}
	w.Flush()
	os.Exit(0)
}
