package main

import (
	"encoding/hex"
	"fmt"
	"math"
	"runtime/debug"
	"strings"

	rt "github.com/arnodel/golua/runtime"

	"verif/engine/core"
	"verif/engine/lv"
	"verif/engine/refpack"
)

// ---------------------------------------------------------------- alphabet

// The option alphabet of DESIGN §4 C17.  Formats are concatenations of tokens;
// the reference always works on the concatenated string, so a token pair that
// fuses ("X" + "i4") is simply another format.
var packAlphabet = []string{
	// value options
	"b", "B", "h", "H", "l", "L", "j", "J", "T", "i", "I",
	"i1", "i2", "i3", "i4", "i7", "i8", "i9", "i16",
	"I1", "I2", "I3", "I4", "I7", "I8", "I9", "I16",
	"f", "d", "n",
	"s", "s1", "s2", "s4", "s8", "z", "c0", "c1", "c3",
	// configuration
	"<", ">", "=", "!", "!1", "!2", "!4", "!8", "!16", "!3",
	// padding
	"x", " ", "Xb", "Xh", "Xi3", "Xi4", "Xd", "Xi16", "Xz",
	// malformed
	"i0", "i17", "I17", "s0", "s17", "!0", "!17", "c", "r", "X", "i99999999999999999999",
}

type tokInfo struct {
	text  string
	pool  []lv.V // boundary values, simplest first (nil: no value)
	canon lv.V   // the value used by the unpack families
}

var (
	tokInfos []tokInfo
)

func rep(c byte, n int) string { return strings.Repeat(string([]byte{c}), n) }

var longStrings = map[int]string{}

func long(n int) string {
	if s, ok := longStrings[n]; ok {
		return s
	}
	s := rep('x', n)
	longStrings[n] = s
	return s
}

// poolFor returns the per-directive boundary pool: min, max, -1, 0, 1,
// out of range by one; for strings "", "a", with NUL, the lengths around what
// the prefix can express.
func poolFor(op refpack.Op) (pool []lv.V, canon lv.V) {
	const pat = 0x0102030405060708
	switch op.Code {
	case 'i':
		if op.Size < 8 {
			lim := int64(1) << (8*uint(op.Size) - 1)
			for _, v := range []int64{0, 1, -1, -2, lim - 1, -lim, lim, -lim - 1} {
				pool = append(pool, lv.I(v))
			}
			return pool, lv.I(-(pat >> (8 * uint(8-op.Size))))
		}
		for _, v := range []int64{0, 1, -1, -2, math.MaxInt64, math.MinInt64} {
			pool = append(pool, lv.I(v))
		}
		return pool, lv.I(-pat)
	case 'u':
		if op.Size < 8 {
			lim := int64(1) << (8 * uint(op.Size))
			for _, v := range []int64{0, 1, lim - 1, lim, -1, math.MinInt64} {
				pool = append(pool, lv.I(v))
			}
			return pool, lv.I(pat >> (8 * uint(8-op.Size)))
		}
		for _, v := range []int64{0, 1, math.MaxInt64, -1, math.MinInt64} {
			pool = append(pool, lv.I(v))
		}
		return pool, lv.I(pat)
	case 'f':
		if op.Size == 4 {
			return []lv.V{lv.F(0), lv.F(1.5), lv.F(math.Copysign(0, -1)), lv.F(math.Inf(1)), lv.F(math.NaN()),
				lv.F(math.MaxFloat32), lv.F(0.1), lv.F(1e300), lv.I(1)}, lv.F(1.5)
		}
		return []lv.V{lv.F(0), lv.F(1.5), lv.F(math.Copysign(0, -1)), lv.F(math.Inf(-1)), lv.F(math.NaN()),
			lv.F(5e-324), lv.F(1e308), lv.I(1), lv.I(1<<53 + 1)}, lv.F(1.5)
	case 's':
		switch op.Size {
		case 1:
			return []lv.V{lv.S(""), lv.S("a"), lv.S("a\x00b"), lv.S(long(255)), lv.S(long(256))}, lv.S("ab")
		case 2:
			return []lv.V{lv.S(""), lv.S("a\x00b"), lv.S(long(65535)), lv.S(long(65536))}, lv.S("ab")
		}
		return []lv.V{lv.S(""), lv.S("a"), lv.S("a\x00b"), lv.S(long(256))}, lv.S("ab")
	case 'z':
		return []lv.V{lv.S(""), lv.S("a"), lv.S("a\x00b"), lv.S("\x00"), lv.S(long(256))}, lv.S("ab")
	case 'c':
		switch op.Size {
		case 0:
			return []lv.V{lv.S(""), lv.S("a")}, lv.S("")
		case 1:
			return []lv.V{lv.S("a"), lv.S("\x00"), lv.S(""), lv.S("ab")}, lv.S("a")
		}
		return []lv.V{lv.S(rep('a', op.Size)), lv.S("\x00" + rep('c', op.Size-1)), lv.S(rep('a', op.Size-1)), lv.S(rep('a', op.Size+1))}, lv.S("abcdefghijklmnopqrstuvwxyz"[:op.Size])
	}
	return nil, lv.NilV
}

func initToks() {
	if tokInfos != nil {
		return
	}
	P := platform()
	for _, t := range packAlphabet {
		ti := tokInfo{text: t}
		f := refpack.Parse(P, t)
		if f.St == refpack.OK && len(f.Ops) == 1 && f.Ops[0].HasValue() {
			ti.pool, ti.canon = poolFor(f.Ops[0])
		}
		tokInfos = append(tokInfos, ti)
	}
}

// formatSpace enumerates all token sequences of length 1..maxItems, shortest
// first.
type formatSpace struct {
	a        int
	maxItems int
	starts   []int // starts[L-1] = first id of the formats with L tokens
	n        int
}

func newFormatSpace(maxItems int) *formatSpace {
	fs := &formatSpace{a: len(packAlphabet), maxItems: maxItems}
	p := 1
	for L := 1; L <= maxItems; L++ {
		fs.starts = append(fs.starts, fs.n)
		p *= fs.a
		fs.n += p
	}
	return fs
}

func (fs *formatSpace) tokens(g int) []int {
	L := 1
	for L < fs.maxItems && g >= fs.starts[L] {
		L++
	}
	g -= fs.starts[L-1]
	out := make([]int, L)
	for k := L - 1; k >= 0; k-- {
		out[k] = g % fs.a
		g /= fs.a
	}
	return out
}

func joinToks(toks []int) string {
	var sb strings.Builder
	for _, t := range toks {
		sb.WriteString(packAlphabet[t])
	}
	return sb.String()
}

func nValueOps(f refpack.Format) int {
	n := 0
	for _, op := range f.Ops {
		if op.HasValue() {
			n++
		}
	}
	return n
}

// tupleCount: the full product of pools when the format is well formed and its
// value options are exactly the tokens' (no fusion); one canonical tuple
// otherwise (its outcome does not depend on the values).
func tupleCount(toks []int) uint64 {
	f := refpack.Parse(platform(), joinToks(toks))
	nv := 0
	c := uint64(1)
	for _, t := range toks {
		if tokInfos[t].pool != nil {
			nv++
			c *= uint64(len(tokInfos[t].pool))
		}
	}
	if f.St != refpack.OK || nValueOps(f) != nv {
		return 1
	}
	return c
}

func tupleOf(toks []int, sub uint64) []lv.V {
	full := tupleCount(toks) > 1
	var vals []lv.V
	for k := len(toks) - 1; k >= 0; k-- { // last token varies fastest
		ti := tokInfos[toks[k]]
		if ti.pool == nil {
			continue
		}
		v := ti.pool[0]
		if full {
			v = ti.pool[sub%uint64(len(ti.pool))]
			sub /= uint64(len(ti.pool))
		}
		vals = append([]lv.V{v}, vals...)
	}
	return vals
}

func canonTuple(toks []int) []lv.V {
	var vals []lv.V
	for _, t := range toks {
		if tokInfos[t].pool != nil {
			vals = append(vals, tokInfos[t].canon)
		}
	}
	return vals
}

// ---------------------------------------------------------------- pack check

func hasNaN(vs []lv.V) bool {
	for _, v := range vs {
		if v.K == lv.Float && v.F != v.F {
			return true
		}
	}
	return false
}

// roundTripExpect: the values unpack must give back.  An integer packed under
// a float option comes back as the (equal) float.
func roundTripExpect(f refpack.Format, vals []lv.V) []string {
	var out []string
	k := 0
	for _, op := range f.Ops {
		if !op.HasValue() {
			continue
		}
		v := vals[k]
		k++
		if op.Code == 'f' && v.K == lv.Int {
			v = lv.F(float64(v.I))
		}
		out = append(out, lvCanon(v))
	}
	return out
}

func variableSize(f refpack.Format) bool {
	for _, op := range f.Ops {
		if op.Code == 's' || op.Code == 'z' {
			return true
		}
	}
	return false
}

func rtArgs(fs string, vals []lv.V) []rt.Value {
	args := []rt.Value{S(fs)}
	for _, v := range vals {
		args = append(args, toRT(v))
	}
	return args
}

// packCheck runs string.pack (and, when it must succeed, unpack and packsize
// on the result) and returns the violated clauses.
func packCheck(fs string, vals []lv.V) (fails []fail, sig string, nontrivial bool) {
	P := platform()
	l := lua()
	f := refpack.Parse(P, fs)
	want := refpack.Pack(P, f, vals)
	got := call(l.pack, rtArgs(fs, vals)...)
	sig = got.String()
	if got.status == "gopanic" {
		return []fail{{"panic", "string.pack: Go panic: " + got.err}}, sig, true
	}
	switch want.St {
	case refpack.Unspec:
		return nil, sig, false
	case refpack.Err:
		if got.status == "ok" {
			fails = append(fails, fail{"must-error", fmt.Sprintf("string.pack must raise an error (%s), got %s", want.Reason, got)})
		}
		return fails, sig, true
	}
	if got.status != "ok" {
		return []fail{{"must-succeed", fmt.Sprintf("string.pack must succeed with %s, got %s", hex.EncodeToString(want.Bytes), got)}}, sig, true
	}
	if len(got.vals) != 1 || got.vals[0].Type() != rt.StringType {
		return []fail{{"result-type", "string.pack must return one string, got " + got.String()}}, sig, true
	}
	b := got.vals[0].AsString()
	if !hasNaN(vals) && b != string(want.Bytes) { // the bits of a NaN are not fixed
		fails = append(fails, fail{"layout", fmt.Sprintf("packed bytes\n  expected %s\n  observed %s", hex.EncodeToString(want.Bytes), hex.EncodeToString([]byte(b)))})
	}
	// model sanity: the reference round-trips its own output
	if back := refpack.Unpack(P, f, want.Bytes, 0, 0); back.St != refpack.OK || back.Next != len(want.Bytes)+1 {
		panic(fmt.Sprintf("refpack does not round trip %q %s: %+v", fs, lvCanons(vals), back))
	}
	// the law, on golua's own bytes
	u := call(l.unpack, S(fs), S(b))
	sig += "|" + u.String()
	exp := roundTripExpect(f, vals)
	switch {
	case u.status == "gopanic":
		fails = append(fails, fail{"panic", "string.unpack of the packed string: Go panic: " + u.err})
	case u.status != "ok":
		fails = append(fails, fail{"roundtrip", fmt.Sprintf("unpack(fmt, pack(fmt, ...)) raised %s (packed = %s)", u.err, hex.EncodeToString([]byte(b)))})
	case len(u.vals) != len(exp)+1 || strings.Join(canonAll(u.vals[:len(exp)]), ",") != strings.Join(exp, ","):
		fails = append(fails, fail{"roundtrip", fmt.Sprintf("unpack(fmt, pack(fmt, ...)) = %s, expected (%s, i:%d) (packed = %s)", u, strings.Join(exp, ", "), len(b)+1, hex.EncodeToString([]byte(b)))})
	case canon(u.vals[len(exp)]) != fmt.Sprintf("i:%d", len(b)+1):
		fails = append(fails, fail{"nextpos", fmt.Sprintf("unpack returned next position %s, expected i:%d", canon(u.vals[len(exp)]), len(b)+1)})
	}
	// packsize
	ps := call(l.packsize, S(fs))
	sig += "|" + ps.String()
	switch {
	case ps.status == "gopanic":
		fails = append(fails, fail{"panic", "string.packsize: Go panic: " + ps.err})
	case variableSize(f):
		if ps.status == "ok" {
			fails = append(fails, fail{"packsize-must-error", "packsize of a format with s or z must raise an error, got " + ps.String()})
		}
	default:
		n, st, _ := refpack.Size(P, f)
		if st != refpack.OK || n != len(want.Bytes) {
			panic(fmt.Sprintf("refpack.Size disagrees with refpack.Pack on %q", fs))
		}
		if ps.status != "ok" || len(ps.vals) != 1 || canon(ps.vals[0]) != fmt.Sprintf("i:%d", len(b)) {
			fails = append(fails, fail{"packsize", fmt.Sprintf("packsize = %s but pack produced %d bytes", ps, len(b))})
		}
	}
	return fails, sig, true
}

func packKey(fs string, vals []lv.V, clause string) string {
	return fmt.Sprintf("pack fmt=%q vals=[%s] clause=%s", fs, lvCanons(vals), clause)
}

// subsequences of 0..n-1 of the given size, in lexicographic order.
func subseqs(n, size int) [][]int {
	var out [][]int
	var rec func(start int, cur []int)
	rec = func(start int, cur []int) {
		if len(cur) == size {
			out = append(out, append([]int(nil), cur...))
			return
		}
		for k := start; k < n; k++ {
			rec(k+1, append(cur, k))
		}
	}
	rec(0, nil)
	return out
}

// attributePack names the smallest sub-format (a subsequence of the tokens,
// with the values of the kept tokens) that violates the same clause, so that
// one defect produces one key whatever surrounds it.
func attributePack(toks []int, vals []lv.V, clause string) (string, []lv.V) {
	// values per token
	per := make([][]lv.V, len(toks))
	k := 0
	for i, t := range toks {
		if tokInfos[t].pool != nil && k < len(vals) {
			per[i] = vals[k : k+1]
			k++
		}
	}
	if k == len(vals) {
		for size := 1; size < len(toks); size++ {
			for _, ss := range subseqs(len(toks), size) {
				var st []int
				var sv []lv.V
				for _, p := range ss {
					st = append(st, toks[p])
					sv = append(sv, per[p]...)
				}
				fs := joinToks(st)
				if fl, _, _ := packCheck(fs, sv); hasClause(fl, clause) {
					return fs, sv
				}
			}
		}
	}
	return joinToks(toks), vals
}

func outcomeOf(fails []fail, sig string, nontrivial bool, key func(clause string) string, ctx func() string) core.Outcome {
	o := core.Outcome{Sig: core.Hash64(sig), NonTrivial: nontrivial}
	seen := map[string]bool{}
	for _, f := range fails {
		if seen[f.clause] {
			continue
		}
		seen[f.clause] = true
		v := &core.Violation{Key: key(f.clause), Detail: ctx() + "\n" + f.detail}
		if o.Viol == nil {
			o.Viol = v
		} else {
			o.Viols = append(o.Viols, v)
		}
	}
	return o
}

// ---------------------------------------------------------------- unpack check

func unpackKey(fs, data string, init int64, hasInit bool, clause string) string {
	is := "default"
	if hasInit {
		is = fmt.Sprint(init)
	}
	return fmt.Sprintf("unpack fmt=%q data=%s init=%s clause=%s", fs, dataKey(data), is, clause)
}

// dataKey: hex, with runs of more than three equal bytes abbreviated.
func dataKey(d string) string {
	if d == "" {
		return "empty"
	}
	var parts []string
	plain := ""
	for i := 0; i < len(d); {
		j := i
		for j < len(d) && d[j] == d[i] {
			j++
		}
		if j-i > 3 {
			if plain != "" {
				parts = append(parts, plain)
				plain = ""
			}
			parts = append(parts, fmt.Sprintf("%02x*%d", d[i], j-i))
		} else {
			plain += hex.EncodeToString([]byte(d[i:j]))
		}
		i = j
	}
	if plain != "" {
		parts = append(parts, plain)
	}
	return strings.Join(parts, ".")
}

func matchesUnpack(got res, want refpack.UnpackResult) (ok bool, clause string) {
	switch want.St {
	case refpack.Unspec:
		return true, ""
	case refpack.Err:
		if got.status == "ok" {
			return false, "must-error"
		}
		return true, ""
	}
	if got.status != "ok" {
		return false, "must-succeed"
	}
	exp := make([]string, len(want.Vals))
	for i, v := range want.Vals {
		exp[i] = lvCanon(v)
	}
	if len(got.vals) != len(exp)+1 || strings.Join(canonAll(got.vals[:len(exp)]), ",") != strings.Join(exp, ",") {
		return false, "values"
	}
	if canon(got.vals[len(exp)]) != fmt.Sprintf("i:%d", want.Next) {
		return false, "nextpos"
	}
	return true, ""
}

func describeUnpack(r refpack.UnpackResult) string {
	switch r.St {
	case refpack.OK:
		return fmt.Sprintf("ok (%s, i:%d)", lvCanons(r.Vals), r.Next)
	case refpack.Err:
		return "error (" + r.Reason + ")"
	}
	return "unspecified (" + r.Reason + ")"
}

// unpackCheck compares string.unpack(fs, data[, init]) with the reference.
// Unless unlimited is set, formats with an "s" option run under callLimited.
func unpackCheck(fs, data string, init int64, hasInit bool, unlimited bool) (fails []fail, sig string, nontrivial bool) {
	P := platform()
	l := lua()
	f := refpack.Parse(P, fs)
	n := len(data)
	pos, posOK, beyond := 0, true, false
	switch {
	case !hasInit:
	case init > 0 && init <= int64(n)+1:
		pos = int(init - 1)
	case init > 0:
		pos, beyond = n, true
	case init < 0 && -init <= int64(n):
		pos = n + int(init)
	default:
		posOK = false // 0, or before the start of the string: not described
	}
	var refs []refpack.UnpackResult
	if posOK {
		a := refpack.Unpack(P, f, []byte(data), pos, 0)
		b := refpack.Unpack(P, f, []byte(data), pos, pos)
		if beyond {
			// a position past len+1: whatever needs data cannot have any
			for _, r := range []*refpack.UnpackResult{&a, &b} {
				if r.St != refpack.Err {
					*r = refpack.UnpackResult{St: refpack.Unspec, Reason: "init-past-end"}
				}
			}
		}
		refs = []refpack.UnpackResult{a, b}
	} else {
		refs = []refpack.UnpackResult{{St: refpack.Unspec, Reason: "init-not-described"}}
	}
	args := []rt.Value{S(fs), S(data)}
	if hasInit {
		args = append(args, rt.IntValue(init))
	}
	var got res
	if !unlimited && strings.Contains(fs, "s") {
		got = callLimited(l.unpack, args...)
	} else {
		got = call(l.unpack, args...)
	}
	sig = got.String()
	if got.status == "gopanic" {
		return []fail{{"panic", "string.unpack: Go panic: " + got.err}}, sig, true
	}
	nontrivial = true
	clause := ""
	for _, r := range refs {
		if r.St == refpack.Unspec {
			nontrivial = false
		}
		ok, c := matchesUnpack(got, r)
		if ok {
			return nil, sig, nontrivial
		}
		if clause == "" {
			clause = c
		}
	}
	detail := fmt.Sprintf("expected %s", describeUnpack(refs[0]))
	if len(refs) > 1 && describeUnpack(refs[1]) != describeUnpack(refs[0]) {
		detail += " or, aligning relative to init, " + describeUnpack(refs[1])
	}
	detail += "\nobserved " + got.String()
	return []fail{{clause, detail}}, sig, true
}

// unpackCase is one call of string.unpack.
type unpackCase struct {
	fs, data string
	init     int64
	hasInit  bool
}

func (c unpackCase) key(clause string) string {
	return unpackKey(c.fs, c.data, c.init, c.hasInit, clause)
}

// malformedKey: the format itself is malformed and was accepted; data and init
// are irrelevant.  The smallest token subsequence that is still malformed and
// still accepted on benign data (zeros decode under every option) names it.
func malformedKey(toks []int, fs string) string {
	zeros := rep(0, 64)
	accepted := func(f string) bool {
		if refpack.Parse(platform(), f).St != refpack.Err {
			return false
		}
		return unpackCase{fs: f, data: zeros}.fails("must-error")
	}
	if len(toks) > 1 && joinToks(toks) == fs {
		for size := 1; size < len(toks); size++ {
			for _, ss := range subseqs(len(toks), size) {
				var st []int
				for _, p := range ss {
					st = append(st, toks[p])
				}
				if f := joinToks(st); accepted(f) {
					return fmt.Sprintf("unpack fmt=%q clause=malformed-format-accepted", f)
				}
			}
		}
	}
	return fmt.Sprintf("unpack fmt=%q clause=malformed-format-accepted", fs)
}

func (c unpackCase) fails(clause string) bool {
	fl, _, _ := unpackCheck(c.fs, c.data, c.init, c.hasInit, false)
	return hasClause(fl, clause)
}

// attributeUnpack reduces a failing unpack call to a smaller call violating
// the same clause: init folded into the data, one option instead of several
// (reading the data from where the reference says that option starts), and
// the shortest data prefix.  One defect then yields few keys, whatever
// surrounds it.  toks may be nil.
func attributeUnpack(toks []int, c unpackCase, clause string) string {
	P := platform()
	if clause == "must-error" && refpack.Parse(P, c.fs).St == refpack.Err {
		return malformedKey(toks, c.fs)
	}
	return reduceUnpack(toks, c, clause).key(clause)
}

func reduceUnpack(toks []int, c unpackCase, clause string) unpackCase {
	P := platform()
	// 1. fold init into the data
	if c.hasInit {
		n := int64(len(c.data))
		pos := int64(-1)
		switch {
		case c.init > 0 && c.init <= n+1:
			pos = c.init - 1
		case c.init < 0 && -c.init <= n:
			pos = n + c.init
		}
		if pos >= 0 {
			if t := (unpackCase{fs: c.fs, data: c.data[pos:]}); t.fails(clause) {
				c = t
			}
		}
	}
	// 2. a single option, reading from where the reference says it starts
	f := refpack.Parse(P, c.fs)
	reduced := false
	if f.St == refpack.OK {
		n := int64(len(c.data))
		pos := 0
		switch {
		case !c.hasInit:
		case c.init > 0 && c.init <= n+1:
			pos = int(c.init - 1)
		case c.init < 0 && -c.init <= n:
			pos = int(n + c.init)
		default:
			pos = -1
		}
	ops:
		for _, base := range []int{0, pos} {
			if pos < 0 || !c.hasInit && len(f.Ops) < 2 {
				break
			}
			r := refpack.Unpack(P, f, []byte(c.data), pos, base)
			for k, op := range f.Ops {
				if k >= len(r.Starts) || r.Starts[k] > len(c.data) {
					break
				}
				end := ""
				if op.Little != P.Little {
					end = map[bool]string{true: "<", false: ">"}[op.Little]
				}
				for _, cf := range []string{op.Text, end + op.Text, fmt.Sprintf("%s!%d%s", end, op.MaxAlign, op.Text)} {
					if t := (unpackCase{fs: cf, data: c.data[r.Starts[k]:]}); t.fails(clause) {
						c, reduced = t, true
						break ops
					}
				}
			}
		}
	}
	if !reduced && len(toks) > 1 && joinToks(toks) == c.fs {
		for size := 1; size < len(toks); size++ {
			for _, ss := range subseqs(len(toks), size) {
				var st []int
				for _, p := range ss {
					st = append(st, toks[p])
				}
				t := c
				t.fs = joinToks(st)
				if t.fails(clause) {
					// fewer tokens: start over (the rest may now parse)
					return reduceUnpack(st, t, clause)
				}
			}
		}
	}
	// 2b. one token alone on some suffix of the data (covers formats the
	// reference cannot parse, where no start offsets are known)
	if !reduced && len(toks) > 1 && joinToks(toks) == c.fs {
		for _, tk := range toks {
			for o := 0; o <= len(c.data); o++ {
				if t := (unpackCase{fs: packAlphabet[tk], data: c.data[o:]}); t.fails(clause) {
					return reduceUnpack(nil, t, clause)
				}
			}
		}
	}
	// 3. the shortest failing data prefix
	if !c.hasInit {
		for n := 0; n < len(c.data); n++ {
			if t := (unpackCase{fs: c.fs, data: c.data[:n]}); t.fails(clause) {
				c = t
				break
			}
		}
	}
	return c
}

// ---------------------------------------------------------------- garbage data

func pattern16(b [16]byte, n int) string {
	out := make([]byte, n)
	for i := range out {
		out[i] = b[i%16]
	}
	return string(out)
}

var garbage = func() []string {
	const n = 48
	inc := make([]byte, n)
	for i := range inc {
		inc[i] = byte(i + 1)
	}
	ff8, z8 := [8]byte{255, 255, 255, 255, 255, 255, 255, 255}, [8]byte{}
	cat := func(a, b [8]byte) (o [16]byte) { copy(o[:8], a[:]); copy(o[8:], b[:]); return }
	return []string{
		rep(0, n),
		rep(255, n),
		string(inc),
		pattern16(cat(ff8, z8), n),
		pattern16(cat(z8, ff8), n),
		pattern16(cat([8]byte{0, 0, 0, 0, 0, 0, 0, 0x80}, ff8), n),
		pattern16(cat([8]byte{255, 255, 255, 255, 255, 255, 255, 0x7f}, z8), n),
		pattern16(cat([8]byte{0x7f, 255, 255, 255, 255, 255, 255, 255}, z8), n),
		"\x03\x00\x00\x00\x00\x00\x00\x00abc\x00\x02\x00ab\x00\x01a\x00\x00\x00\x00\x00\x00\x00\x00\x03abc\x00\x00\x02ab",
		"\x00\x00\x00\x00\x00\x00\x00\x03abc\x00\x00\x02ab\x00\x01a\x00\x03\x00\x00\x00\x00\x00\x00\x00abc\x00\x02\x00ab",
		"", "\x00", "\xff",
	}
}()

// ---------------------------------------------------------------- families

type hugeCase struct{ fs, data string }

func le(n uint64, size int) string {
	b := make([]byte, size)
	for i := 0; i < size && i < 8; i++ {
		b[i] = byte(n >> (8 * uint(i)))
	}
	return string(b)
}

// Length prefixes between 2^40 and 2^64-1 over a few bytes of data.  (Prefixes
// of a few GiB are left out: whether such an allocation succeeds depends on
// the machine, and an outcome must not.)
var hugeCases = []hugeCase{
	{"<s8", le(1<<40, 8)}, {"<s8", le(1<<48, 8)}, {"<s8", le(1<<62, 8)},
	{"<s8", le(1<<63-1, 8)}, {"<s8", le(1<<63, 8)}, {"<s8", le(1<<64-1, 8)},
	{"<s16", le(1<<40, 16)}, {"<s9", le(1<<63, 9)}, {"<s9", le(0, 8) + "\x01"},
	{"c1099511627776", "abc"},
}

var argKinds = []struct {
	name string
	vals func(canon lv.V) []lv.V
}{
	{"none", func(c lv.V) []lv.V { return nil }},
	{"nil", func(c lv.V) []lv.V { return []lv.V{lv.NilV} }},
	{"true", func(c lv.V) []lv.V { return []lv.V{{K: lv.Bool, B: true}} }},
	{"table", func(c lv.V) []lv.V { return []lv.V{lv.TableV} }},
	{"f:3", func(c lv.V) []lv.V { return []lv.V{lv.F(3)} }},
	{"f:3.5", func(c lv.V) []lv.V { return []lv.V{lv.F(3.5)} }},
	{"f:nan", func(c lv.V) []lv.V { return []lv.V{lv.F(math.NaN())} }},
	{"f:inf", func(c lv.V) []lv.V { return []lv.V{lv.F(math.Inf(1))} }},
	{"f:2^63", func(c lv.V) []lv.V { return []lv.V{lv.F(0x1p63)} }},
	{"f:-2^63", func(c lv.V) []lv.V { return []lv.V{lv.F(-0x1p63)} }},
	{"s:7", func(c lv.V) []lv.V { return []lv.V{lv.S("7")} }},
	{"s:x", func(c lv.V) []lv.V { return []lv.V{lv.S("x")} }},
	{"i:5", func(c lv.V) []lv.V { return []lv.V{lv.I(5)} }},
	{"extra", func(c lv.V) []lv.V { return []lv.V{c, c} }},
}

func packFamilies(tier string) []*core.Family {
	maxItems := 2
	if tier == "thorough" {
		maxItems = 3
	}
	initToks()
	P := platform()
	space := newFormatSpace(maxItems)
	// Building an index parses every format; a worker or a single-case run
	// needs only the index of its own family.
	lazyIndex := func(name string, count func(g int) uint64) *prefixIndex {
		if !familyWanted(name) {
			return &prefixIndex{}
		}
		return newPrefixIndex(space.n, count)
	}

	// ---- pack: format x value tuple
	packIdx := lazyIndex("pack", func(g int) uint64 { return tupleCount(space.tokens(g)) })
	packCase := func(i uint64) ([]int, []lv.V) {
		g, sub := packIdx.locate(i)
		toks := space.tokens(g)
		return toks, tupleOf(toks, sub)
	}
	famPack := &core.Family{Name: "pack", Size: packIdx.total(),
		Run: func(i uint64) core.Outcome {
			toks, vals := packCase(i)
			fs := joinToks(toks)
			fails, sig, nt := packCheck(fs, vals)
			return outcomeOf(fails, sig, nt, func(clause string) string {
				kf, kv := attributePack(toks, vals, clause)
				return packKey(kf, kv, clause)
			}, func() string { return fmt.Sprintf("string.pack(%q, %s)", fs, lvCanons(vals)) })
		},
		Show: func(i uint64) string {
			toks, vals := packCase(i)
			return fmt.Sprintf("string.pack(%q, %s) then unpack, packsize", joinToks(toks), lvCanons(vals))
		}}

	// ---- packsize: every format
	famSize := &core.Family{Name: "packsize", Size: uint64(space.n),
		Run: func(i uint64) core.Outcome {
			toks := space.tokens(int(i))
			fs := joinToks(toks)
			f := refpack.Parse(P, fs)
			n, st, why := refpack.Size(P, f)
			got := call(lua().packsize, S(fs))
			var fails []fail
			switch {
			case got.status == "gopanic":
				fails = append(fails, fail{"panic", "Go panic: " + got.err})
			case st == refpack.Err && got.status == "ok":
				fails = append(fails, fail{"must-error", fmt.Sprintf("packsize must raise an error (%s), got %s", why, got)})
			case st == refpack.OK && (got.status != "ok" || len(got.vals) != 1 || canon(got.vals[0]) != fmt.Sprintf("i:%d", n)):
				fails = append(fails, fail{"size", fmt.Sprintf("packsize expected %d, got %s", n, got)})
			}
			check := func(fs string, clause string) bool {
				f := refpack.Parse(P, fs)
				n, st, _ := refpack.Size(P, f)
				got := call(lua().packsize, S(fs))
				switch clause {
				case "panic":
					return got.status == "gopanic"
				case "must-error":
					return st == refpack.Err && got.status == "ok"
				case "size":
					return st == refpack.OK && (got.status != "ok" || len(got.vals) != 1 || canon(got.vals[0]) != fmt.Sprintf("i:%d", n))
				}
				return false
			}
			return outcomeOf(fails, got.String(), st != refpack.Unspec, func(clause string) string {
				kf := fs
			search:
				for size := 1; size < len(toks); size++ {
					for _, ss := range subseqs(len(toks), size) {
						var stoks []int
						for _, p := range ss {
							stoks = append(stoks, toks[p])
						}
						if check(joinToks(stoks), clause) {
							kf = joinToks(stoks)
							break search
						}
					}
				}
				return fmt.Sprintf("packsize fmt=%q clause=%s", kf, clause)
			}, func() string { return fmt.Sprintf("string.packsize(%q)", fs) })
		},
		Show: func(i uint64) string { return fmt.Sprintf("string.packsize(%q)", joinToks(space.tokens(int(i)))) }}

	// ---- canonical packed data per format (reference bytes)
	canonData := func(toks []int) (string, bool) {
		f := refpack.Parse(P, joinToks(toks))
		r := refpack.Pack(P, f, canonTuple(toks))
		if r.St != refpack.OK {
			return "", false
		}
		return string(r.Bytes), true
	}

	// ---- unpack-init: doubled canonical data x every init
	initIdx := lazyIndex("unpack-init", func(g int) uint64 {
		d, ok := canonData(space.tokens(g))
		if !ok {
			return 0
		}
		return uint64(2*(2*len(d))+6) + 1 // inits -(n+2)..n+3, plus "no init"
	})
	initCase := func(i uint64) (toks []int, data string, init int64, hasInit bool) {
		g, sub := initIdx.locate(i)
		toks = space.tokens(g)
		d, _ := canonData(toks)
		data = d + d
		if sub == 0 {
			return toks, data, 0, false
		}
		// order: 1, 2, ..., n+3, then -1, -2, ..., -(n+2), then 0
		n := uint64(len(data))
		switch {
		case sub <= n+3:
			return toks, data, int64(sub), true
		case sub <= 2*n+5:
			return toks, data, -int64(sub - (n + 3)), true
		}
		return toks, data, 0, true
	}
	famInit := &core.Family{Name: "unpack-init", Size: initIdx.total(),
		Run: func(i uint64) core.Outcome {
			toks, data, init, has := initCase(i)
			fs := joinToks(toks)
			fails, sig, nt := unpackCheck(fs, data, init, has, false)
			return outcomeOf(fails, sig, nt, func(clause string) string {
				return attributeUnpack(toks, unpackCase{fs, data, init, has}, clause)
			}, func() string {
				return fmt.Sprintf("string.unpack(%q, <%s>, %d) hasinit=%v", fs, hex.EncodeToString([]byte(data)), init, has)
			})
		},
		Show: func(i uint64) string {
			toks, data, init, has := initCase(i)
			return fmt.Sprintf("string.unpack(%q, <%s>, init=%d given=%v)", joinToks(toks), hex.EncodeToString([]byte(data)), init, has)
		}}

	// ---- unpack-trunc: every proper prefix of the canonical data
	truncIdx := lazyIndex("unpack-trunc", func(g int) uint64 {
		d, ok := canonData(space.tokens(g))
		if !ok {
			return 0
		}
		return uint64(len(d))
	})
	truncCase := func(i uint64) ([]int, string) {
		g, sub := truncIdx.locate(i)
		toks := space.tokens(g)
		d, _ := canonData(toks)
		return toks, d[:sub]
	}
	famTrunc := &core.Family{Name: "unpack-trunc", Size: truncIdx.total(),
		Run: func(i uint64) core.Outcome {
			toks, data := truncCase(i)
			fs := joinToks(toks)
			fails, sig, nt := unpackCheck(fs, data, 0, false, false)
			return outcomeOf(fails, sig, nt, func(clause string) string {
				return attributeUnpack(toks, unpackCase{fs: fs, data: data}, clause)
			}, func() string { return fmt.Sprintf("string.unpack(%q, <%s>)", fs, hex.EncodeToString([]byte(data))) })
		},
		Show: func(i uint64) string {
			toks, data := truncCase(i)
			return fmt.Sprintf("string.unpack(%q, <%s>)", joinToks(toks), hex.EncodeToString([]byte(data)))
		}}

	// ---- unpack-garbage: every format x byte patterns x {default, 2, -5}
	inits := []struct {
		v   int64
		has bool
	}{{0, false}, {2, true}, {-5, true}}
	ng, ni := uint64(len(garbage)), uint64(len(inits))
	garbCase := func(i uint64) ([]int, string, int64, bool) {
		toks := space.tokens(int(i / (ng * ni)))
		in := inits[i/ng%ni]
		return toks, garbage[i%ng], in.v, in.has
	}
	famGarb := &core.Family{Name: "unpack-garbage", Size: uint64(space.n) * ng * ni,
		Run: func(i uint64) core.Outcome {
			toks, data, init, has := garbCase(i)
			fs := joinToks(toks)
			fails, sig, nt := unpackCheck(fs, data, init, has, false)
			return outcomeOf(fails, sig, nt, func(clause string) string {
				return attributeUnpack(toks, unpackCase{fs, data, init, has}, clause)
			}, func() string {
				return fmt.Sprintf("string.unpack(%q, <%s>, %d) hasinit=%v", fs, hex.EncodeToString([]byte(data)), init, has)
			})
		},
		Show: func(i uint64) string {
			toks, data, init, has := garbCase(i)
			return fmt.Sprintf("string.unpack(%q, <%s>, init=%d given=%v)", joinToks(toks), hex.EncodeToString([]byte(data)), init, has)
		}}

	// ---- unpack-hugelen: length prefixes far beyond the data
	famHuge := &core.Family{Name: "unpack-hugelen", Size: uint64(len(hugeCases)), Serial: true, HangSeconds: 30,
		Run: func(i uint64) core.Outcome {
			c := hugeCases[i]
			defer debug.FreeOSMemory()
			fails, sig, nt := unpackCheck(c.fs, c.data, 0, false, true)
			return outcomeOf(fails, sig, nt, func(clause string) string {
				return unpackKey(c.fs, c.data, 0, false, clause)
			}, func() string { return fmt.Sprintf("string.unpack(%q, <%s>)", c.fs, hex.EncodeToString([]byte(c.data))) })
		},
		Show: func(i uint64) string {
			return fmt.Sprintf("string.unpack(%q, <%s>)", hugeCases[i].fs, hex.EncodeToString([]byte(hugeCases[i].data)))
		}}

	// ---- pack-args: single value options x argument kinds
	var valueToks []int
	for t := range packAlphabet {
		if tokInfos[t].pool != nil {
			valueToks = append(valueToks, t)
		}
	}
	nk := uint64(len(argKinds))
	famArgs := &core.Family{Name: "pack-args", Size: uint64(len(valueToks)) * nk,
		Run: func(i uint64) core.Outcome {
			t := valueToks[i/nk]
			k := argKinds[i%nk]
			fs := packAlphabet[t]
			vals := k.vals(tokInfos[t].canon)
			fails, sig, nt := packCheck(fs, vals)
			return outcomeOf(fails, sig, nt, func(clause string) string {
				return fmt.Sprintf("pack-args fmt=%q arg=%s clause=%s", fs, k.name, clause)
			}, func() string { return fmt.Sprintf("string.pack(%q, %s)", fs, lvCanons(vals)) })
		},
		Show: func(i uint64) string {
			t := valueToks[i/nk]
			return fmt.Sprintf("string.pack(%q, %s)", packAlphabet[t], lvCanons(argKinds[i%nk].vals(tokInfos[t].canon)))
		}}

	if tier == "thorough" {
		// safety caps (a loaded machine): hitting one makes the run report
		// exhaustive:false, never a failure
		famPack.BudgetSeconds, famInit.BudgetSeconds, famGarb.BudgetSeconds, famTrunc.BudgetSeconds = 1500, 900, 900, 400
	}
	return []*core.Family{famArgs, famSize, famPack, famHuge, famTrunc, famInit, famGarb}
}
