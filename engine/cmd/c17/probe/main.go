// dev-time probe: run Lua snippets from stdin (separated by lines "----") and print the observation
package main

import (
	"fmt"
	"io"
	"os"
	"strings"

	"verif/engine/host"
)

func main() {
	b, _ := io.ReadAll(os.Stdin)
	for _, src := range strings.Split(string(b), "\n----\n") {
		o := host.Run(src, host.Opts{})
		fmt.Printf("%s\n  => %s\n", strings.TrimSpace(src), o)
	}
}
