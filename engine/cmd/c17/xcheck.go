package main

// Development-time cross-check of the reference models (refpack, refstr)
// against PUC-Lua 5.3 + glibc, on the 5.3 ∩ 5.4 subset (DESIGN §3, "keeping
// them honest" (2)).  It is NOT part of any registered command and never runs
// in ./check: it is entered only when C17_XCHECK is set.
//
//	C17_XCHECK=gen:/tmp/x/cases.lua .bin/c17     writes a Lua 5.3 script
//	lua5.3 /tmp/x/cases.lua > /tmp/x/out.txt
//	C17_XCHECK=cmp:/tmp/x/out.txt .bin/c17       compares with the references
//
// The script prints one line per case: id <TAB> ok|err <TAB> canonical results.

import (
	"bufio"
	"encoding/hex"
	"fmt"
	"math"
	"os"
	"strconv"
	"strings"

	"verif/engine/lv"
	"verif/engine/refpack"
	"verif/engine/refstr"
)

// pucPlatform: PUC-Lua 5.3 on x86-64 Linux.
var pucPlatform = refpack.Platform{Short: 2, Int: 4, Long: 8, SizeT: 8, Float: 4, Double: 8, LuaInt: 8, LuaNum: 8, NativeAlign: 8, Little: true}

const xprelude = `
local function hex(s) return (s:gsub(".", function(c) return string.format("%02x", c:byte()) end)) end
local function canon(v)
  if math.type(v) == "integer" then return "i:" .. v
  elseif math.type(v) == "float" then
    if v ~= v then return "f:nan" end
    return "f:" .. string.format("%a", v)
  elseif type(v) == "string" then return "s:" .. hex(v)
  else return tostring(v) end
end
function R(id, ok, ...)
  local t = {}
  if ok then for i = 1, select("#", ...) do t[#t+1] = canon((select(i, ...))) end end
  io.write(id, "\t", ok and "ok" or "err", "\t", table.concat(t, ","), "\n")
end
local pack, unpack, packsize, format, pcall = string.pack, string.unpack, string.packsize, string.format, pcall
`

func luaLit(v lv.V) string {
	switch v.K {
	case lv.Int:
		if v.I == math.MinInt64 {
			return "math.mininteger"
		}
		return strconv.FormatInt(v.I, 10)
	case lv.Float:
		switch {
		case v.F != v.F:
			return "(0/0)"
		case math.IsInf(v.F, 1):
			return "(1/0)"
		case math.IsInf(v.F, -1):
			return "(-1/0)"
		case v.F == 0 && math.Signbit(v.F):
			return "(-0.0)"
		}
		return strconv.FormatFloat(v.F, 'x', -1, 64)
	case lv.Str:
		if len(v.S) > 40 {
			return fmt.Sprintf("(%s):rep(%d)", luaStr(v.S[:1]), len(v.S))
		}
		return luaStr(v.S)
	}
	return "nil"
}

func luaStr(s string) string {
	var sb strings.Builder
	sb.WriteByte('"')
	for i := 0; i < len(s); i++ {
		fmt.Fprintf(&sb, "\\x%02x", s[i])
	}
	sb.WriteByte('"')
	return sb.String()
}

func xcanon(v lv.V) string {
	switch v.K {
	case lv.Int:
		return "i:" + strconv.FormatInt(v.I, 10)
	case lv.Float:
		return "f:" + strconv.FormatFloat(v.F, 'g', -1, 64)
	case lv.Str:
		return "s:" + hex.EncodeToString([]byte(v.S))
	}
	return "?"
}

// parse what the script printed back into the same canonical form
func xparse(s string) string {
	if strings.HasPrefix(s, "f:") {
		t := s[2:]
		switch t {
		case "nan", "-nan":
			return "f:NaN"
		case "inf":
			return "f:+Inf"
		case "-inf":
			return "f:-Inf"
		}
		f, err := strconv.ParseFloat(t, 64)
		if err != nil {
			return "f:?" + t
		}
		return "f:" + strconv.FormatFloat(f, 'g', -1, 64)
	}
	return s
}

type xcase struct {
	lua  string // expression list after R(id,
	want string // "err" or "ok\t<canon>"
}

func xcases() []xcase {
	var out []xcase
	P := pucPlatform
	// pools depend on the platform's sizes: rebuild the token table for PUC
	savedPlat, savedToks := plat, tokInfos
	platOnce.Do(func() {})
	plat, tokInfos = P, nil
	initToks()
	defer func() { plat, tokInfos = savedPlat, savedToks }()

	space := newFormatSpace(2)
	for g := 0; g < space.n; g++ {
		toks := space.tokens(g)
		fs := joinToks(toks)
		f := refpack.Parse(P, fs)
		// pack
		for sub := uint64(0); sub < tupleCount(toks); sub++ {
			vals := tupleOf(toks, sub)
			r := refpack.Pack(P, f, vals)
			if r.St == refpack.Unspec {
				continue
			}
			args := []string{luaStr(fs)}
			for _, v := range vals {
				args = append(args, luaLit(v))
			}
			c := xcase{lua: "pcall(pack, " + strings.Join(args, ", ") + ")", want: "err"}
			if r.St == refpack.OK {
				if hasNaN(vals) {
					continue
				}
				c.want = "ok\ts:" + hex.EncodeToString(r.Bytes)
			}
			out = append(out, c)
		}
		// packsize
		if n, st, _ := refpack.Size(P, f); st != refpack.Unspec {
			c := xcase{lua: "pcall(packsize, " + luaStr(fs) + ")", want: "err"}
			if st == refpack.OK {
				c.want = fmt.Sprintf("ok\ti:%d", n)
			}
			out = append(out, c)
		}
		// unpack of garbage
		for _, data := range garbage {
			for _, init := range []int{1, 2} {
				r := refpack.Unpack(P, f, []byte(data), init-1, 0)
				if init-1 > len(data) || r.St == refpack.Unspec || r.MaxLen > 1<<20 && r.MaxLen < 1<<63 {
					continue
				}
				c := xcase{lua: fmt.Sprintf("pcall(unpack, %s, %s, %d)", luaStr(fs), luaStr(data), init), want: "err"}
				if r.St == refpack.OK {
					var cs []string
					for _, v := range r.Vals {
						cs = append(cs, xcanon(v))
					}
					cs = append(cs, fmt.Sprintf("i:%d", r.Next))
					c.want = "ok\t" + strings.Join(cs, ",")
				}
				out = append(out, c)
			}
		}
	}

	// string.format
	ints := []int64{0, 1, -1, 42, -42, 255, 4096, math.MaxInt64, math.MinInt64}
	chars := []int64{65, 0, 255, 10, 256 + 66, -1}
	strs := []string{"", "a", "abc", "abcdefgh", "\xc3\xa9", "a\xc3\xa9b", "\xe6\x97\xa5\xe6\x9c\xac", "\xff", "\xff\xfeab", "\xc3"}
	floats := []float64{0, math.Copysign(0, -1), 1, -1, 1.5, -2.25, 0.5, 0.125, 100, 1234.5, 1e10, 123456, 1234567, 0.0001220703125, 1e15, 1e22, 0x1p-20, 3, 0.1, 1.0 / 3}
	for flags := 0; flags < 32; flags++ {
		for wi := range widths {
			for pi := range precs {
				for _, conv := range []byte("diuoxXcseEfgG") {
					s := specOf(conv, flags, wi, pi)
					add := func(arg string, want string) {
						out = append(out, xcase{lua: fmt.Sprintf("pcall(format, %s, %s)", luaStr(s.String()), arg), want: "ok\ts:" + hex.EncodeToString([]byte(want))})
					}
					switch conv {
					case 'c':
						if s.Defined() {
							for _, v := range chars {
								add(luaLit(lv.I(v)), refstr.Char(s, v))
							}
						}
					case 's':
						if s.Defined() {
							for _, v := range strs {
								add(luaStr(v), refstr.Str(s, v))
							}
						}
					case 'e', 'E', 'f', 'g', 'G':
						for _, v := range floats {
							if o, exact := refstr.Float(s, v); exact {
								add(luaLit(lv.F(v)), o)
							}
						}
					default:
						if s.Defined() {
							t := s
							if s.IgnoredSignFlag() {
								t.Plus, t.Space = false, false
							}
							for _, v := range ints {
								add(luaLit(lv.I(v)), refstr.Int(t, v))
							}
						}
					}
				}
			}
		}
	}
	return out
}

func xcheckMain(mode string) {
	k := strings.IndexByte(mode, ':')
	if k < 0 {
		fmt.Fprintln(os.Stderr, "C17_XCHECK=gen:<script.lua> | cmp:<output.txt>")
		os.Exit(2)
	}
	path := mode[k+1:]
	cases := xcases()
	switch mode[:k] {
	case "gen":
		f, err := os.Create(path)
		if err != nil {
			panic(err)
		}
		w := bufio.NewWriter(f)
		w.WriteString(xprelude)
		for i, c := range cases {
			// chunks of cases in functions: a Lua function has a constant limit
			if i%2000 == 0 {
				if i > 0 {
					w.WriteString("end)()\n")
				}
				w.WriteString(";(function()\n")
			}
			fmt.Fprintf(w, "R(%d, %s)\n", i, c.lua)
		}
		w.WriteString("end)()\n")
		w.Flush()
		f.Close()
		fmt.Printf("%d cases written to %s\n", len(cases), path)
	case "cmp":
		f, err := os.Open(path)
		if err != nil {
			panic(err)
		}
		sc := bufio.NewScanner(f)
		sc.Buffer(make([]byte, 1<<20), 1<<26)
		n, bad := 0, 0
		for sc.Scan() {
			parts := strings.SplitN(sc.Text(), "\t", 3)
			if len(parts) < 2 {
				continue
			}
			id, _ := strconv.Atoi(parts[0])
			got := parts[1]
			if got == "ok" && len(parts) == 3 {
				var cs []string
				for _, p := range strings.Split(parts[2], ",") {
					cs = append(cs, xparse(p))
				}
				got = "ok\t" + strings.Join(cs, ",")
			}
			want := cases[id].want
			if strings.HasPrefix(want, "ok\t") {
				var cs []string
				for _, p := range strings.Split(want[3:], ",") {
					cs = append(cs, p)
				}
				want = "ok\t" + strings.Join(cs, ",")
			}
			n++
			if got != want {
				bad++
				if bad <= 1000 {
					fmt.Printf("MISMATCH %s\n  reference: %s\n  PUC 5.3:   %s\n", cases[id].lua, strings.ReplaceAll(want, "\t", " "), strings.ReplaceAll(got, "\t", " "))
				}
			}
		}
		fmt.Printf("%d cases compared (of %d), %d mismatches\n", n, len(cases), bad)
	}
}
