// C17 — serialisation round trips: string.pack / unpack / packsize against the
// layout rules of §6.4.2 (refpack), string.format("%q") against the law
// load("return "..q)() == v, tonumber(tostring(n)) == n, and the integer /
// string (and, where C fixes the output, float) directives of string.format
// against the ISO C fprintf rules (refstr).  Everything is enumerated
// bounded-exhaustively; nothing is sampled.
package main

import (
	"fmt"
	"math"
	"os"
	"sort"
	"strconv"
	"strings"
	"sync"

	rt "github.com/arnodel/golua/runtime"

	"verif/engine/core"
	"verif/engine/host"
	"verif/engine/lv"
	"verif/engine/refpack"
)

// ---------------------------------------------------------------- machine

// luaM is the shared golua runtime of this process.  All functions exercised
// here are pure, so one runtime serves every case; it is rebuilt after a Go
// panic escaped from golua (its thread state is then unknown).
type luaM struct {
	m                              *host.Machine
	pack, unpack, packsize, format rt.Value
	qfn, tsfn, sobj                rt.Value
	loadfn                         rt.Value
}

const helpers = `
local fmt, load, tostring, tonumber, setmetatable = string.format, load, tostring, tonumber, setmetatable
local H = {}
-- %q law: returns status, the %q text, and the value obtained by loading it
function H.q(v)
  local q = fmt("%q", v)
  local f, e = load("return " .. q)
  if not f then return "loaderr", q, e end
  return "ok", q, f()
end
function H.ts(v)
  local s = tostring(v)
  return s, tonumber(s)
end
function H.load(src)
  local f, e = load("return " .. src)
  if not f then return "loaderr", e end
  return "ok", f()
end
H.sobj = setmetatable({}, {__tostring = function() return "abc" end})
return H
`

var (
	theL *luaM
)

func field(t *rt.Table, k string) rt.Value { return t.Get(rt.StringValue(k)) }

func lua() *luaM {
	if theL != nil {
		return theL
	}
	m := host.NewMachine(false)
	g := m.R.GlobalEnv()
	str := field(g, "string").AsTable()
	l := &luaM{m: m,
		pack: field(str, "pack"), unpack: field(str, "unpack"), packsize: field(str, "packsize"), format: field(str, "format")}
	clos, err := m.R.CompileAndLoadLuaChunk("helpers", []byte(helpers), rt.TableValue(g))
	if err != nil {
		panic("helpers do not compile: " + err.Error())
	}
	term := rt.NewTerminationWith(nil, 1, false)
	if err := rt.Call(m.R.MainThread(), rt.FunctionValue(clos), nil, term); err != nil {
		panic("helpers do not run: " + err.Error())
	}
	h := term.Get(0).AsTable()
	l.qfn, l.tsfn, l.loadfn, l.sobj = field(h, "q"), field(h, "ts"), field(h, "load"), field(h, "sobj")
	theL = l
	return l
}

type res struct {
	status string // ok | err | gopanic
	vals   []rt.Value
	err    string
}

func (r res) String() string {
	switch r.status {
	case "ok":
		return "ok (" + strings.Join(canonAll(r.vals), ", ") + ")"
	}
	return r.status + " " + r.err
}

// callLimited runs f inside a golua runtime context with a hard memory limit
// of 1 MiB.  It is used for string.unpack on hostile data with an "s" option,
// where golua sizes an allocation from the length prefix: the limit turns a
// multi-gigabyte allocation into an error (a killed context counts as an
// error raised) so that bulk families stay cheap and deterministic.  The
// unlimited behaviour on such inputs is the subject of family unpack-hugelen.
func callLimited(f rt.Value, args ...rt.Value) (r res) {
	l := lua()
	defer func() {
		if p := recover(); p != nil {
			s := fmt.Sprint(p)
			if k := strings.IndexByte(s, '\n'); k >= 0 {
				s = s[:k]
			}
			r = res{status: "gopanic", err: s}
			theL = nil
		}
	}()
	term := rt.NewTerminationWith(nil, 0, true)
	t := l.m.R.MainThread()
	ctx, err := t.CallContext(rt.RuntimeContextDef{HardLimits: rt.RuntimeResources{Memory: 1 << 20}}, func() error {
		return rt.Call(t, f, args, term)
	})
	if ctx.Status() == rt.StatusKilled {
		return res{status: "err", err: "context killed: memory limit"}
	}
	if err != nil {
		return res{status: "err", err: err.Error()}
	}
	return res{status: "ok", vals: append([]rt.Value(nil), term.Etc()...)}
}

func call(f rt.Value, args ...rt.Value) (r res) {
	l := lua()
	defer func() {
		if p := recover(); p != nil {
			s := fmt.Sprint(p)
			if k := strings.IndexByte(s, '\n'); k >= 0 {
				s = s[:k]
			}
			r = res{status: "gopanic", err: s}
			theL = nil // thread state unknown: next call gets a fresh runtime
		}
	}()
	term := rt.NewTerminationWith(nil, 0, true)
	if err := rt.Call(l.m.R.MainThread(), f, args, term); err != nil {
		return res{status: "err", err: err.Error()}
	}
	return res{status: "ok", vals: append([]rt.Value(nil), term.Etc()...)}
}

func canon(v rt.Value) string {
	switch v.Type() {
	case rt.NilType:
		return "nil"
	case rt.BoolType:
		return strconv.FormatBool(v.AsBool())
	case rt.IntType:
		return "i:" + strconv.FormatInt(v.AsInt(), 10)
	case rt.FloatType:
		return lv.FloatCanon(v.AsFloat())
	case rt.StringType:
		return "s:" + shortQuote(v.AsString())
	}
	return "?" + v.TypeName()
}

func canonAll(vs []rt.Value) []string {
	out := make([]string, len(vs))
	for i, v := range vs {
		out[i] = canon(v)
	}
	return out
}

// shortQuote renders a byte string canonically; long uniform runs (the pools'
// 255/256/65535/65536 byte strings) are abbreviated so keys stay readable.
func shortQuote(s string) string {
	if len(s) > 40 {
		uniform := true
		for i := 1; i < len(s); i++ {
			if s[i] != s[0] {
				uniform = false
				break
			}
		}
		if uniform {
			return fmt.Sprintf("%s*%d", strconv.Quote(s[:1]), len(s))
		}
		return fmt.Sprintf("%s...(%d bytes,%08x)", strconv.Quote(s[:24]), len(s), core.Hash64(s)&0xffffffff)
	}
	return strconv.Quote(s)
}

func lvCanon(v lv.V) string {
	if v.K == lv.Str {
		return "s:" + shortQuote(v.S)
	}
	return v.Canon()
}

func lvCanons(vs []lv.V) string {
	out := make([]string, len(vs))
	for i, v := range vs {
		out[i] = lvCanon(v)
	}
	return strings.Join(out, ",")
}

func toRT(v lv.V) rt.Value {
	switch v.K {
	case lv.Int:
		return rt.IntValue(v.I)
	case lv.Float:
		return rt.FloatValue(v.F)
	case lv.Str:
		return rt.StringValue(v.S)
	case lv.Bool:
		return rt.BoolValue(v.B)
	case lv.Table:
		return rt.TableValue(rt.NewTable())
	}
	return rt.NilValue
}

func S(s string) rt.Value { return rt.StringValue(s) }

// ---------------------------------------------------------------- platform

var (
	platOnce sync.Once
	plat     refpack.Platform
)

// platform asks golua for the sizes the manual leaves to the platform
// ("native size"); they are accepted as they are, and every later comparison
// (pack layout, packsize, unpack) must then be consistent with them.
func platform() refpack.Platform {
	platOnce.Do(func() {
		l := lua()
		sz := func(f string) int {
			r := call(l.packsize, S(f))
			if r.status != "ok" || len(r.vals) != 1 || r.vals[0].Type() != rt.IntType {
				panic(fmt.Sprintf("platform probe: packsize(%q) = %s", f, r))
			}
			n := int(r.vals[0].AsInt())
			if n < 1 || n > 16 {
				panic(fmt.Sprintf("platform probe: packsize(%q) = %d", f, n))
			}
			return n
		}
		plat = refpack.Platform{Short: sz("h"), Int: sz("i"), Long: sz("l"), SizeT: sz("T"),
			Float: sz("f"), Double: sz("d"), LuaInt: sz("j"), LuaNum: sz("n")}
		// native alignment: "!" then a 1-byte item then an alignment to 16
		plat.NativeAlign = sz("!bXi16")
		if plat.NativeAlign&(plat.NativeAlign-1) != 0 {
			panic(fmt.Sprintf("platform probe: native alignment %d", plat.NativeAlign))
		}
		// Lua integers are 64-bit two's complement here (math.maxinteger ==
		// 2^63-1) and floats are IEEE doubles: j/J/n are not free.
		if plat.LuaInt != 8 || plat.LuaNum != 8 || (plat.Float != 4 && plat.Float != 8) || (plat.Double != 8) {
			panic(fmt.Sprintf("platform probe: inconsistent sizes %+v", plat))
		}
		r := call(l.pack, S("=I2"), rt.IntValue(1))
		if r.status != "ok" || len(r.vals) != 1 || len(r.vals[0].AsString()) != 2 {
			panic("platform probe: pack('=I2', 1) = " + r.String())
		}
		plat.Little = r.vals[0].AsString()[0] == 1
	})
	return plat
}

// ---------------------------------------------------------------- indexers

// prefixIndex maps a flat case index onto (group, sub index) for groups of
// varying size.
type prefixIndex struct{ ends []uint64 }

func newPrefixIndex(n int, count func(g int) uint64) *prefixIndex {
	p := &prefixIndex{ends: make([]uint64, n)}
	var tot uint64
	for g := 0; g < n; g++ {
		tot += count(g)
		p.ends[g] = tot
	}
	return p
}

func (p *prefixIndex) total() uint64 {
	if len(p.ends) == 0 {
		return 0
	}
	return p.ends[len(p.ends)-1]
}

func (p *prefixIndex) locate(i uint64) (g int, sub uint64) {
	g = sort.Search(len(p.ends), func(k int) bool { return p.ends[k] > i })
	if g > 0 {
		i -= p.ends[g-1]
	}
	return g, i
}

type fail struct{ clause, detail string }

func hasClause(fs []fail, c string) bool {
	for _, f := range fs {
		if f.clause == c {
			return true
		}
	}
	return false
}

func famCache(build func(tier string) []*core.Family) func(tier string) []*core.Family {
	var mu sync.Mutex
	cache := map[string][]*core.Family{}
	return func(tier string) []*core.Family {
		mu.Lock()
		defer mu.Unlock()
		if f, ok := cache[tier]; ok {
			return f
		}
		f := build(tier)
		cache[tier] = f
		return f
	}
}

// familyWanted reports whether this process may run cases of the family: the
// parent runs everything, a worker (-family X) or a single-case run (-case X:i)
// only X.
func familyWanted(name string) bool {
	for i, a := range os.Args {
		a = strings.TrimLeft(a, "-")
		var v string
		switch {
		case (a == "family" || a == "case") && i+1 < len(os.Args):
			v = os.Args[i+1]
		case strings.HasPrefix(a, "family="):
			v = a[len("family="):]
		case strings.HasPrefix(a, "case="):
			v = a[len("case="):]
		default:
			continue
		}
		if k := strings.LastIndexByte(v, ':'); k >= 0 && strings.HasPrefix(a, "case") {
			v = v[:k]
		}
		return v == name
	}
	return true
}

var strictSubtype = os.Getenv("C17_STRICT_TOSTRING_SUBTYPE") == "1"

func main() {
	if m := os.Getenv("C17_XCHECK"); m != "" {
		xcheckMain(m) // development aid, see xcheck.go
		return
	}
	core.Main(&core.Check{
		ID:    "C17",
		Level: "model_checking",
		Rule: "pack: every sequence of <=2 (quick) / <=3 (thorough) options of the §6.4.2 alphabet (incl. malformed ones) x every tuple of per-option boundary values: " +
			"error/success as the manual demands, byte layout == refpack, unpack(fmt, pack(fmt, v...)) == v..., len+1, packsize == len; unpack of doubled/truncated/garbage data at every init vs refpack; " +
			"%q: every byte string up to the length bound over a 24-byte class alphabet and the number lattice must load back to the same value; tonumber(tostring(n)) == n over the lattice and m*2^e; " +
			"string.format integer/string/float directives: full product flags x width x precision x values vs the ISO C rules (refstr). non-trivial = the reference determines the outcome; distinct = distinct golua outcomes",
		Assumptions: []string{
			"reference layout/printf rules typed from Lua 5.4 manual §6.4, §6.4.2 and C11 §7.21.6.1; strconv trusted only for digit strings",
			"native sizes, native alignment and native byte order are taken from golua's own packsize/pack and then required to be used consistently",
			"cases the manual leaves open (coercions in pack, c-strings shorter than n, X with an unaligned option, padding past the end of data, init 0 or before the string, C-undefined flag combinations, inexact float digits) are run for crash detection only",
			"alignment in unpack with init > 1 is accepted relative to either the string start or the first byte read",
			"error messages are never compared",
		},
		Families: famCache(func(tier string) []*core.Family {
			var fams []*core.Family
			fams = append(fams, packFamilies(tier)...)
			fams = append(fams, quoteFamilies(tier)...)
			fams = append(fams, formatFamilies(tier)...)
			return fams
		}),
	})
}

var _ = math.Pi
