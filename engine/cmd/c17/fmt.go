package main

import (
	"fmt"
	"math"
	"math/big"
	"strings"

	rt "github.com/arnodel/golua/runtime"

	"verif/engine/core"
	"verif/engine/lv"
	"verif/engine/refstr"
)

// ---------------------------------------------------------------- lattices

func numLattice(tier string) []lv.V {
	mx, mn := int64(math.MaxInt64), int64(math.MinInt64)
	ints := []int64{0, 1, -1, 2, -2, 3, 7, -7, 63, 64, 65, -63, -64, 255, 256, 1 << 31, 1<<53 - 1, 1 << 53, 1<<53 + 1, 1 << 62, mx - 1, mx, mn, mn + 1}
	floats := []float64{0, math.Copysign(0, -1), 0.5, -0.5, 1, -1, 1.5, 3, -3, 7, -7.5, 5.3, 0.1, 1 << 53, 1<<53 + 2,
		0x1p63 - 1024, 0x1p63, -0x1p63, -0x1p63 - 2048, 0x1p64, 1e15, 1e16, 1e100, 1e308, math.MaxFloat64, 5e-324, 2.2250738585072014e-308,
		math.Inf(1), math.Inf(-1), math.NaN()}
	if tier == "thorough" {
		ints = append(ints, 5, -5, 10, 100, 1000, -(1 << 31), 1<<32-1, 1<<32, -(1 << 53), -(1<<53 + 1), -(1 << 62), mx-2, mx-511, mx-512, mx-513, mn+2, mn+512)
		floats = append(floats, 2, -2, 2.5, -1.5, 64, 63, -0.1, 1.0/3, 123456.789, 1e21, 1e22, 1e23, 1<<53-1, -(1 << 53), 0x1p62, -0x1p62, 0x1p63+2048, -0x1p64, -1e308,
			-5e-324, 1e300, 1e-300, 4.9406564584124654e-324, 2.2250738585072009e-308, 0x1.fffffffffffffp-1, 0x1.0000000000001p0)
	}
	var out []lv.V
	for _, n := range ints {
		out = append(out, lv.I(n))
	}
	for _, f := range floats {
		out = append(out, lv.F(f))
	}
	return out
}

// pow2Floats: every float m*2^e for m <= 64, e in -1074..1023 step 37, both
// signs (values that overflow are dropped).
func pow2Floats() []lv.V {
	var out []lv.V
	seen := map[uint64]bool{}
	for e := -1074; e <= 1023; e += 37 {
		for m := 1; m <= 64; m++ {
			f := math.Ldexp(float64(m), e)
			if math.IsInf(f, 0) || seen[math.Float64bits(f)] {
				continue
			}
			seen[math.Float64bits(f)] = true
			out = append(out, lv.F(f), lv.F(-f))
		}
	}
	return out
}

// numEqual: Lua's == on two numbers (exact, across subtypes).
func numEqual(a, b lv.V) bool {
	if !a.IsNum() || !b.IsNum() {
		return false
	}
	if a.K == lv.Int && b.K == lv.Int {
		return a.I == b.I
	}
	fa, fb := a, b
	if fa.K == lv.Float && (fa.F != fa.F || math.IsInf(fa.F, 0)) || fb.K == lv.Float && (fb.F != fb.F || math.IsInf(fb.F, 0)) {
		if fa.K == lv.Float && fb.K == lv.Float {
			return fa.F == fb.F
		}
		return false
	}
	rat := func(v lv.V) *big.Rat {
		if v.K == lv.Int {
			return new(big.Rat).SetInt64(v.I)
		}
		return new(big.Rat).SetFloat64(v.F)
	}
	return rat(a).Cmp(rat(b)) == 0
}

func fromRT(v rt.Value) lv.V {
	switch v.Type() {
	case rt.IntType:
		return lv.I(v.AsInt())
	case rt.FloatType:
		return lv.F(v.AsFloat())
	case rt.StringType:
		return lv.S(v.AsString())
	case rt.BoolType:
		return lv.V{K: lv.Bool, B: v.AsBool()}
	case rt.NilType:
		return lv.NilV
	}
	return lv.TableV
}

// ---------------------------------------------------------------- %q

// The byte classes of the %q alphabet: NUL, control characters with and
// without a C escape, newline, CR, ESC, space, both quotes, backslash, digits
// (a digit after a decimal escape), letters that follow a backslash in escapes
// (n x u {), DEL, and bytes >= 0x80 that do / do not form UTF-8 sequences whose
// code points are not printable (U+0080, U+00A0, U+2000).
var qAlphabet = []byte{0x00, 0x01, 0x07, 0x09, 0x0a, 0x0d, 0x1b, ' ', '"', '\'', '\\', '0', '9', 'a', 'n', 'x', 'u', '{',
	0x7f, 0x80, 0xa0, 0xc2, 0xe2, 0xff}

func qString(i uint64) string {
	// strings ordered by length then lexicographic index
	a := uint64(len(qAlphabet))
	L, block := 0, uint64(1)
	for i >= block {
		i -= block
		block *= a
		L++
	}
	b := make([]byte, L)
	for k := L - 1; k >= 0; k-- {
		b[k] = qAlphabet[i%a]
		i /= a
	}
	return string(b)
}

func qSpaceSize(maxLen int) uint64 {
	n, block := uint64(0), uint64(1)
	for L := 0; L <= maxLen; L++ {
		n += block
		block *= uint64(len(qAlphabet))
	}
	return n
}

// qCheck: load("return "..string.format("%q", v))() must be v.
func qCheck(v lv.V) (clause, detail, sig string) {
	r := call(lua().qfn, toRT(v))
	sig = r.String()
	switch {
	case r.status == "gopanic":
		return "panic", "Go panic: " + r.err, sig
	case r.status != "ok":
		return "format-error", "string.format('%q', v) or the loaded chunk raised: " + r.err, sig
	case len(r.vals) < 2:
		return "format-error", "unexpected helper result " + r.String(), sig
	}
	q := r.vals[1]
	if st, _ := r.vals[0].TryString(); st != "ok" {
		return "load-error", fmt.Sprintf("%%q produced %s which does not load: %s", canon(q), canon(r.vals[2])), sig
	}
	if len(r.vals) != 3 {
		return "value", fmt.Sprintf("%%q produced %s which loads to %d values", canon(q), len(r.vals)-2), sig
	}
	got := fromRT(r.vals[2])
	if lvCanon(got) == lvCanon(v) {
		return "", "", sig
	}
	d := fmt.Sprintf("%%q produced %s which loads to %s, expected %s", canon(q), lvCanon(got), lvCanon(v))
	switch {
	case v.K == lv.Float && v.F != v.F:
		return "nan", d, sig
	case v.IsNum() && got.IsNum() && v.K != got.K && numEqual(v, got):
		if v.K == lv.Float && v.F == 0 && math.Signbit(v.F) {
			return "sign", d, sig // -0.0 became the integer 0
		}
		return "subtype", d, sig
	case v.IsNum() && got.IsNum() && numEqual(v, got):
		return "sign", d, sig
	}
	return "value", d, sig
}

func quoteFamilies(tier string) []*core.Family {
	maxLen := 3
	if tier == "thorough" {
		maxLen = 4
	}
	famStr := &core.Family{Name: "q-string", Size: qSpaceSize(maxLen),
		Run: func(i uint64) core.Outcome {
			s := qString(i)
			clause, detail, sig := qCheck(lv.S(s))
			o := core.Outcome{Sig: core.Hash64(sig), NonTrivial: true}
			if clause != "" {
				// attribute to the shortest failing contiguous substring
				best := s
			search:
				for n := 1; n < len(s); n++ {
					for p := 0; p+n <= len(s); p++ {
						if c, _, _ := qCheck(lv.S(s[p : p+n])); c == clause {
							best = s[p : p+n]
							break search
						}
					}
				}
				o.Viol = &core.Violation{Key: fmt.Sprintf("%%q v=%s clause=%s", lvCanon(lv.S(best)), clause),
					Detail: fmt.Sprintf("v = %s\n%s", lvCanon(lv.S(s)), detail)}
			}
			return o
		},
		Show: func(i uint64) string {
			return fmt.Sprintf("load('return '..string.format('%%q', %s))()", lvCanon(lv.S(qString(i))))
		}}

	nums := numLattice(tier)
	famNum := &core.Family{Name: "q-number", Size: uint64(len(nums)),
		Run: func(i uint64) core.Outcome {
			v := nums[i]
			clause, detail, sig := qCheck(v)
			o := core.Outcome{Sig: core.Hash64(sig), NonTrivial: true}
			if clause != "" {
				o.Viol = &core.Violation{Key: fmt.Sprintf("%%q v=%s clause=%s", lvCanon(v), clause), Detail: detail}
			}
			return o
		},
		Show: func(i uint64) string {
			return fmt.Sprintf("load('return '..string.format('%%q', %s))()", lvCanon(nums[i]))
		}}

	// other values %q must handle: "booleans, nil"
	others := []lv.V{lv.NilV, {K: lv.Bool, B: true}, {K: lv.Bool, B: false}}
	famOther := &core.Family{Name: "q-other", Size: uint64(len(others)),
		Run: func(i uint64) core.Outcome {
			clause, detail, sig := qCheck(others[i])
			o := core.Outcome{Sig: core.Hash64(sig), NonTrivial: true}
			if clause != "" {
				o.Viol = &core.Violation{Key: fmt.Sprintf("%%q v=%s clause=%s", lvCanon(others[i]), clause), Detail: detail}
			}
			return o
		},
		Show: func(i uint64) string { return "%q of " + lvCanon(others[i]) }}

	// tonumber(tostring(n)) == n for every finite number
	ts := append([]lv.V{}, nums...)
	ts = append(ts, pow2Floats()...)
	famTS := &core.Family{Name: "tostring-tonumber", Size: uint64(len(ts)),
		Run: func(i uint64) core.Outcome {
			v := ts[i]
			if v.K == lv.Float && (v.F != v.F || math.IsInf(v.F, 0)) {
				// the law is stated for finite numbers; only a crash counts
				r := call(lua().tsfn, toRT(v))
				o := core.Outcome{Sig: core.Hash64(r.String())}
				if r.status == "gopanic" {
					o.Viol = &core.Violation{Key: fmt.Sprintf("tostring v=%s clause=panic", lvCanon(v)), Detail: r.err}
				}
				return o
			}
			r := call(lua().tsfn, toRT(v))
			o := core.Outcome{Sig: core.Hash64(r.String()), NonTrivial: true}
			bad := func(clause, d string) core.Outcome {
				o.Viol = &core.Violation{Key: fmt.Sprintf("tostring v=%s clause=%s", lvCanon(v), clause), Detail: d}
				return o
			}
			if r.status != "ok" || len(r.vals) != 2 {
				return bad(map[bool]string{true: "panic", false: "error"}[r.status == "gopanic"], "tostring/tonumber: "+r.String())
			}
			got := fromRT(r.vals[1])
			d := fmt.Sprintf("tostring(v) = %s, tonumber of it = %s, v = %s", canon(r.vals[0]), lvCanon(got), lvCanon(v))
			if !numEqual(got, v) {
				return bad("value", d)
			}
			// The manual calls the number->string format "non-specified", so
			// losing the float subtype ("1" for 1.0) is not alarmed by default.
			if strictSubtype && got.K != v.K {
				return bad("subtype", d)
			}
			return o
		},
		Show: func(i uint64) string { return "tonumber(tostring(" + lvCanon(ts[i]) + "))" }}

	return []*core.Family{famOther, famNum, famTS, famStr}
}

// ---------------------------------------------------------------- string.format

var (
	widths = []int{-1, 1, 6, 25, 99}
	precs  = []int{-1, 0, 1, 6, 25, 99}
)

func specOf(conv byte, flags, wi, pi int) refstr.Spec {
	return refstr.Spec{Minus: flags&1 != 0, Plus: flags&2 != 0, Space: flags&4 != 0, Sharp: flags&8 != 0, Zero: flags&16 != 0,
		Width: widths[wi], Prec: precs[pi], Conv: conv}
}

// simplifications of a spec, one modifier removed at a time.
func simpler(s refstr.Spec) []refstr.Spec {
	var out []refstr.Spec
	add := func(f func(*refstr.Spec)) {
		t := s
		f(&t)
		if t != s {
			out = append(out, t)
		}
	}
	add(func(t *refstr.Spec) { t.Width = -1 })
	add(func(t *refstr.Spec) { t.Prec = -1 })
	for _, w := range widths { // a smaller width / precision of the grid
		if w >= 0 && w < s.Width {
			w := w
			add(func(t *refstr.Spec) { t.Width = w })
		}
	}
	for _, p := range precs {
		if p >= 0 && p < s.Prec {
			p := p
			add(func(t *refstr.Spec) { t.Prec = p })
		}
	}
	add(func(t *refstr.Spec) { t.Minus = false })
	add(func(t *refstr.Spec) { t.Plus = false })
	add(func(t *refstr.Spec) { t.Space = false })
	add(func(t *refstr.Spec) { t.Sharp = false })
	add(func(t *refstr.Spec) { t.Zero = false })
	return out
}

type fmtVerdict struct {
	clause, detail, sig string
	skipped             bool
}

// fmtCheck evaluates string.format(spec, v) against want(spec):
// (expected, determined, errorAlsoOK).
func fmtCheck(s refstr.Spec, arg rt.Value, want func(s refstr.Spec) (string, bool, bool)) fmtVerdict {
	exp, determined, errOK := want(s)
	r := call(lua().format, S(s.String()), arg)
	v := fmtVerdict{sig: r.String()}
	if r.status == "gopanic" {
		v.clause, v.detail = "panic", "Go panic: "+r.err
		return v
	}
	if !determined {
		v.skipped = true
		return v
	}
	switch {
	case r.status == "err":
		if !errOK {
			v.clause, v.detail = "must-succeed", fmt.Sprintf("expected %q, got error %s", exp, r.err)
		}
	case len(r.vals) != 1 || r.vals[0].Type() != rt.StringType:
		v.clause, v.detail = "output", "expected one string, got "+r.String()
	case r.vals[0].AsString() != exp:
		v.clause, v.detail = "output", fmt.Sprintf("expected %q\nobserved %q", exp, r.vals[0].AsString())
	}
	return v
}

// minimise drops modifiers while the same clause keeps failing.
func minimise(s refstr.Spec, arg rt.Value, clause string, want func(s refstr.Spec) (string, bool, bool)) refstr.Spec {
	for {
		next := false
		for _, t := range simpler(s) {
			if v := fmtCheck(t, arg, want); !v.skipped && v.clause == clause {
				s, next = t, true
				break
			}
		}
		if !next {
			return s
		}
	}
}

func fmtFamily(name string, convs []byte, nargs int, argOf func(k int) (rt.Value, string),
	want func(conv byte, k int) func(s refstr.Spec) (string, bool, bool)) *core.Family {
	nw, np := len(widths), len(precs)
	size := uint64(len(convs) * 32 * nw * np * nargs)
	dec := func(i uint64) (refstr.Spec, int) {
		k := int(i % uint64(nargs))
		i /= uint64(nargs)
		flags := int(i % 32)
		i /= 32
		wi := int(i % uint64(nw))
		i /= uint64(nw)
		pi := int(i % uint64(np))
		i /= uint64(np)
		return specOf(convs[i], flags, wi, pi), k
	}
	return &core.Family{Name: name, Size: size,
		Run: func(i uint64) core.Outcome {
			s, k := dec(i)
			arg, argName := argOf(k)
			w := want(s.Conv, k)
			v := fmtCheck(s, arg, w)
			o := core.Outcome{Sig: core.Hash64(v.sig), NonTrivial: !v.skipped}
			if v.clause != "" {
				m := minimise(s, arg, v.clause, w)
				// the first value of the family's list that fails the reduced
				// specification in the same way, and not already a simpler one,
				// names the defect
				for k2 := 0; k2 < k; k2++ {
					a2, n2 := argOf(k2)
					w2 := want(m.Conv, k2)
					if v2 := fmtCheck(m, a2, w2); !v2.skipped && v2.clause == v.clause && minimise(m, a2, v.clause, w2) == m {
						argName = n2
						break
					}
				}
				o.Viol = &core.Violation{Key: fmt.Sprintf("format spec=%q v=%s clause=%s", m.String(), argName, v.clause),
					Detail: fmt.Sprintf("string.format(%q, %s)\n%s", s.String(), argName, v.detail)}
			}
			return o
		},
		Show: func(i uint64) string {
			s, k := dec(i)
			_, an := argOf(k)
			return fmt.Sprintf("string.format(%q, %s)", s.String(), an)
		}}
}

type robustCase struct {
	fs   string
	args []lv.V
	// want: "" = only no crash (manual / C leave it open); "err" = must raise;
	// "=..." = must return exactly the rest
	want string
}

var robustCases = []robustCase{
	// determined outputs
	{"%%", nil, "=%"}, {"a%%b", nil, "=a%b"}, {"%d%%", []lv.V{lv.I(5)}, "=5%"}, {"%%%d", []lv.V{lv.I(5)}, "=%5"},
	{"%d", []lv.V{lv.I(1), lv.I(2)}, "=1"}, // C: excess arguments are evaluated but otherwise ignored
	{"", nil, "="}, {"abc", nil, "=abc"}, {"a\x00b", nil, "=a\x00b"}, {"%s\x00%s", []lv.V{lv.S("x"), lv.S("y")}, "=x\x00y"},
	{"%s", []lv.V{lv.S("a\x00b")}, "=a\x00b"}, // no modifier: embedded zeros are kept
	{"%d %s %x", []lv.V{lv.I(-3), lv.S("s"), lv.I(255)}, "=-3 s ff"},
	{"%5.2s|%-5d|%05d", []lv.V{lv.S("abc"), lv.I(42), lv.I(-42)}, "=   ab|42   |-0042"},
	{"%c%c%c", []lv.V{lv.I(76), lv.I(117), lv.I(97)}, "=Lua"},
	{"%d", []lv.V{lv.F(3)}, "=3"}, // a float with an exact integer representation is an integer argument (§3.4.3)
	// arguments that are not what the specifier expects
	{"%d", nil, "err"}, {"%d", []lv.V{lv.NilV}, "err"}, {"%d", []lv.V{lv.TableV}, "err"}, {"%d", []lv.V{lv.S("x")}, "err"},
	{"%d", []lv.V{lv.F(3.5)}, "err"}, {"%d", []lv.V{lv.F(math.Inf(1))}, "err"}, {"%d", []lv.V{lv.F(math.NaN())}, "err"}, {"%d", []lv.V{lv.F(0x1p63)}, "err"},
	{"%x", []lv.V{lv.F(0.5)}, "err"}, {"%c", []lv.V{lv.S("x")}, "err"}, {"%c", nil, "err"},
	{"%e", []lv.V{lv.S("x")}, "err"}, {"%f", []lv.V{lv.TableV}, "err"}, {"%g", nil, "err"}, {"%a", []lv.V{lv.NilV}, "err"},
	{"%s", nil, "err"}, {"%q", nil, "err"}, {"%q", []lv.V{lv.TableV}, "err"},
	{"%d %d", []lv.V{lv.I(1)}, "err"}, {"%s%s%s", []lv.V{lv.S("a"), lv.S("b")}, "err"},
	// not a valid format per the manual / undefined in C: crash detection only
	{"%", nil, ""}, {"%", []lv.V{lv.I(1)}, ""}, {"%5", []lv.V{lv.I(1)}, ""}, {"%.", []lv.V{lv.I(1)}, ""}, {"%-", []lv.V{lv.I(1)}, ""}, {"%5.3", []lv.V{lv.I(1)}, ""},
	{"abc%", nil, ""}, {"%d%", []lv.V{lv.I(1)}, ""},
	{"%ld", []lv.V{lv.I(1)}, ""}, {"%hd", []lv.V{lv.I(1)}, ""}, {"%lld", []lv.V{lv.I(1)}, ""}, {"%Lf", []lv.V{lv.F(1)}, ""}, {"%n", []lv.V{lv.I(1)}, ""},
	{"%*d", []lv.V{lv.I(5), lv.I(1)}, ""}, {"%.*d", []lv.V{lv.I(5), lv.I(1)}, ""}, {"%F", []lv.V{lv.F(1.5)}, ""},
	{"%100d", []lv.V{lv.I(1)}, ""}, {"%.100d", []lv.V{lv.I(1)}, ""}, {"%099d", []lv.V{lv.I(1)}, ""}, {"%100s", []lv.V{lv.S("a")}, ""}, {"%.100f", []lv.V{lv.F(1)}, ""},
	{"%5q", []lv.V{lv.I(1)}, ""}, {"%.3q", []lv.V{lv.S("abc")}, ""}, {"%-q", []lv.V{lv.S("abc")}, ""},
	{"%y", []lv.V{lv.I(1)}, ""}, {"%!", []lv.V{lv.I(1)}, ""}, {"%[1]d", []lv.V{lv.I(1)}, ""}, {"%v", []lv.V{lv.I(1)}, ""}, {"%T", []lv.V{lv.I(1)}, ""},
	{"%t", []lv.V{{K: lv.Bool, B: true}}, ""}, {"%t", nil, ""}, {"%b", []lv.V{lv.I(5)}, ""}, {"%U", []lv.V{lv.I(65)}, ""}, {"%O", []lv.V{lv.I(8)}, ""}, {"%w", []lv.V{lv.I(1)}, ""},
	{"%5%", nil, ""}, {"%-%", nil, ""}, {"%--5d", []lv.V{lv.I(1)}, ""}, {"%++d", []lv.V{lv.I(1)}, ""}, {"%00005d", []lv.V{lv.I(1)}, ""},
	{"%p", nil, ""}, {"%p", []lv.V{lv.I(1)}, ""}, {"%p", []lv.V{lv.S("x")}, ""}, {"%p", []lv.V{lv.TableV}, ""}, {"%5p", []lv.V{lv.TableV}, ""}, {"%.3p", []lv.V{lv.TableV}, ""},
	{"%d %p %d", []lv.V{lv.I(1)}, ""}, {"%s %p", []lv.V{lv.S("a")}, ""},
	{"%s", []lv.V{lv.NilV}, ""}, {"%s", []lv.V{lv.I(42)}, ""}, {"%s", []lv.V{lv.F(1.5)}, ""}, {"%s", []lv.V{lv.TableV}, ""}, {"%10.3s", []lv.V{lv.TableV}, ""},
	{"%d", []lv.V{lv.S("10")}, ""}, {"%d", []lv.V{lv.S("0x10")}, ""}, {"%d", []lv.V{lv.S("1e1")}, ""}, {"%f", []lv.V{lv.S("1.5")}, ""}, {"%c", []lv.V{lv.I(1 << 40)}, ""}, {"%c", []lv.V{lv.I(-1 << 40)}, ""},
	{"%5s", []lv.V{lv.S("a\x00b")}, ""}, {"%.2s", []lv.V{lv.S("a\x00b")}, ""},
}

func formatFamilies(tier string) []*core.Family {
	ints := []int64{0, 1, -1, 42, -42, 255, 4096, math.MaxInt64, math.MinInt64}
	intFam := fmtFamily("format-int", []byte("diuoxX"), len(ints),
		func(k int) (rt.Value, string) { return rt.IntValue(ints[k]), lvCanon(lv.I(ints[k])) },
		func(conv byte, k int) func(s refstr.Spec) (string, bool, bool) {
			return func(s refstr.Spec) (string, bool, bool) {
				if !s.Defined() {
					return "", false, false
				}
				if s.IgnoredSignFlag() {
					// C gives '+' and ' ' a meaning for signed conversions
					// only: no effect here; PUC-Lua rejects them: accept both
					t := s
					t.Plus, t.Space = false, false
					return refstr.Int(t, ints[k]), true, true
				}
				return refstr.Int(s, ints[k]), true, false
			}
		})

	chars := []int64{65, 0, 255, 10, 256 + 66, -1}
	charFam := fmtFamily("format-char", []byte("c"), len(chars),
		func(k int) (rt.Value, string) { return rt.IntValue(chars[k]), lvCanon(lv.I(chars[k])) },
		func(conv byte, k int) func(s refstr.Spec) (string, bool, bool) {
			return func(s refstr.Spec) (string, bool, bool) {
				if !s.Defined() {
					return "", false, false
				}
				t := s
				t.Plus, t.Space = false, false
				return refstr.Char(t, chars[k]), true, s.IgnoredSignFlag()
			}
		})

	strs := []string{"", "a", "abc", "abcdefgh", "\xc3\xa9", "a\xc3\xa9b", "\xe6\x97\xa5\xe6\x9c\xac", "\xff", "\xff\xfeab", "\xc3", "a\x00b", "<sobj>"}
	strFam := fmtFamily("format-str", []byte("s"), len(strs),
		func(k int) (rt.Value, string) {
			if strs[k] == "<sobj>" {
				return lua().sobj, "table-with-__tostring-returning-\"abc\""
			}
			return S(strs[k]), lvCanon(lv.S(strs[k]))
		},
		func(conv byte, k int) func(s refstr.Spec) (string, bool, bool) {
			return func(s refstr.Spec) (string, bool, bool) {
				str := strs[k]
				if str == "<sobj>" {
					str = "abc"
				}
				if !s.Defined() {
					return "", false, false
				}
				mods := s.Minus || s.Plus || s.Space || s.Width >= 0 || s.Prec >= 0
				if mods && strings.IndexByte(str, 0) >= 0 {
					// "If the specifier has any modifier, the corresponding
					// string argument should not contain embedded zeros."
					return "", false, false
				}
				t := s
				t.Plus, t.Space = false, false
				return refstr.Str(t, str), true, s.IgnoredSignFlag()
			}
		})

	// floats: only where the printed digits are the exact value
	floats := []float64{0, math.Copysign(0, -1), 1, -1, 1.5, -2.25, 0.5, 0.125, 100, 1234.5, 1e10, 123456, 1234567, 0.0001220703125, 1e15, 1e22, 0x1p-20, 3, 0.1, 1.0 / 3}
	floatFam := fmtFamily("format-float", []byte("eEfgG"), len(floats),
		func(k int) (rt.Value, string) { return rt.FloatValue(floats[k]), lvCanon(lv.F(floats[k])) },
		func(conv byte, k int) func(s refstr.Spec) (string, bool, bool) {
			return func(s refstr.Spec) (string, bool, bool) {
				out, exact := refstr.Float(s, floats[k])
				return out, exact, false
			}
		})

	// inf / nan under the float conversions, and %a by value
	special := []float64{math.Inf(1), math.Inf(-1), math.NaN()}
	sconvs := []byte("eEfgGaA")
	sflags := []refstr.Spec{{Width: -1, Prec: -1}, {Width: -1, Prec: -1, Plus: true}, {Width: 8, Prec: -1}, {Width: 8, Prec: 2, Minus: true}, {Width: -1, Prec: 0}}
	famInf := &core.Family{Name: "format-infnan", Size: uint64(len(special) * len(sconvs) * len(sflags)),
		Run: func(i uint64) core.Outcome {
			x := special[i%3]
			s := sflags[i/3%uint64(len(sflags))]
			s.Conv = sconvs[i/3/uint64(len(sflags))]
			r := call(lua().format, S(s.String()), rt.FloatValue(x))
			o := core.Outcome{Sig: core.Hash64(r.String()), NonTrivial: true}
			key := func(c string) string {
				return fmt.Sprintf("format spec=%q v=%s clause=%s", "%"+string(s.Conv), lvCanon(lv.F(x)), c)
			}
			switch {
			case r.status == "gopanic":
				o.Viol = &core.Violation{Key: key("panic"), Detail: r.err}
			case r.status != "ok" || len(r.vals) != 1 || r.vals[0].Type() != rt.StringType:
				o.Viol = &core.Violation{Key: key("must-succeed"), Detail: fmt.Sprintf("string.format(%q, %s) = %s", s.String(), lvCanon(lv.F(x)), r)}
			case !refstr.InfNaN(s, x, r.vals[0].AsString()):
				o.Viol = &core.Violation{Key: key("infnan-spelling"), Detail: fmt.Sprintf("string.format(%q, %s) = %q; C writes [-]inf / [-]infinity / [-]nan (upper case for E F G A)", s.String(), lvCanon(lv.F(x)), r.vals[0].AsString())}
			}
			return o
		},
		Show: func(i uint64) string {
			s := sflags[i/3%uint64(len(sflags))]
			s.Conv = sconvs[i/3/uint64(len(sflags))]
			return fmt.Sprintf("string.format(%q, %s)", s.String(), lvCanon(lv.F(special[i%3])))
		}}

	hexVals := append([]lv.V{}, numLattice(tier)...)
	if tier == "thorough" {
		hexVals = append(hexVals, pow2Floats()...)
	}
	var hv []float64
	for _, v := range hexVals {
		if v.K == lv.Float && v.F == v.F && !math.IsInf(v.F, 0) {
			hv = append(hv, v.F)
		}
	}
	famHex := &core.Family{Name: "format-hexfloat", Size: uint64(2 * len(hv)),
		Run: func(i uint64) core.Outcome {
			x := hv[i/2]
			upper := i%2 == 1
			spec := "%a"
			if upper {
				spec = "%A"
			}
			r := call(lua().format, S(spec), rt.FloatValue(x))
			o := core.Outcome{Sig: core.Hash64(r.String()), NonTrivial: true}
			key := func(c string) string {
				return fmt.Sprintf("format spec=%q v=%s clause=%s", spec, lvCanon(lv.F(x)), c)
			}
			if r.status != "ok" || len(r.vals) != 1 || r.vals[0].Type() != rt.StringType {
				c := "must-succeed"
				if r.status == "gopanic" {
					c = "panic"
				}
				o.Viol = &core.Violation{Key: key(c), Detail: fmt.Sprintf("string.format(%q, %s) = %s", spec, lvCanon(lv.F(x)), r)}
				return o
			}
			out := r.vals[0].AsString()
			val, neg, expDigits, ok := refstr.ParseHexFloat(out, upper)
			switch {
			case !ok:
				o.Viol = &core.Violation{Key: key("hexfloat-syntax"), Detail: fmt.Sprintf("string.format(%q, %s) = %q is not of the form [-]0xh.hhhhp±d", spec, lvCanon(lv.F(x)), out)}
			case val != math.Abs(x) || neg != math.Signbit(x):
				// "if the precision is missing and FLT_RADIX is a power of 2,
				// then the precision is sufficient for an exact representation"
				o.Viol = &core.Violation{Key: key("hexfloat-value"), Detail: fmt.Sprintf("string.format(%q, %s) = %q denotes another value", spec, lvCanon(lv.F(x)), out)}
			case len(expDigits) > 1 && expDigits[0] == '0':
				// "The exponent always contains at least one digit, and only
				// as many more digits as necessary to represent the decimal
				// exponent of 2."
				o.Viol = &core.Violation{Key: fmt.Sprintf("format spec=%q clause=hexfloat-exponent-digits", spec),
					Detail: fmt.Sprintf("string.format(%q, %s) = %q: exponent written with leading zeros", spec, lvCanon(lv.F(x)), out)}
			}
			return o
		},
		Show: func(i uint64) string { return fmt.Sprintf("string.format('%%a'/'%%A', %s)", lvCanon(lv.F(hv[i/2]))) }}

	famRobust := &core.Family{Name: "format-misc", Size: uint64(len(robustCases)),
		Run: func(i uint64) core.Outcome {
			c := robustCases[i]
			args := []rt.Value{S(c.fs)}
			for _, a := range c.args {
				args = append(args, toRT(a))
			}
			r := call(lua().format, args...)
			o := core.Outcome{Sig: core.Hash64(r.String()), NonTrivial: c.want != ""}
			key := func(cl string) string {
				return fmt.Sprintf("format-misc fmt=%q args=[%s] clause=%s", c.fs, lvCanons(c.args), cl)
			}
			ctx := fmt.Sprintf("string.format(%q, %s) = %s", c.fs, lvCanons(c.args), r)
			switch {
			case r.status == "gopanic":
				o.Viol = &core.Violation{Key: key("panic"), Detail: ctx}
			case c.want == "err" && r.status == "ok":
				o.Viol = &core.Violation{Key: key("must-error"), Detail: ctx + "\nthe specifier expects an argument of another type / one more argument"}
			case strings.HasPrefix(c.want, "="):
				if r.status != "ok" || len(r.vals) != 1 || r.vals[0].Type() != rt.StringType || r.vals[0].AsString() != c.want[1:] {
					o.Viol = &core.Violation{Key: key("output"), Detail: fmt.Sprintf("%s\nexpected %q", ctx, c.want[1:])}
				}
			}
			return o
		},
		Show: func(i uint64) string {
			return fmt.Sprintf("string.format(%q, %s)", robustCases[i].fs, lvCanons(robustCases[i].args))
		}}

	return []*core.Family{famRobust, charFam, strFam, intFam, floatFam, famInf, famHex}
}
