package main

// Part B: nested runtime.callcontext / pcall / coroutine.wrap / <close> around
// a leaf, through the whole Lua pipeline, under a sweep of outermost cpu
// limits.  The oracle is relational: it only uses the sentences of C07 and
// quotas.md on the numbers and strings the context objects report, and the
// program's own event markers as independent witnesses of what really
// happened.  No cost model of the VM is assumed except "one tick() call costs
// at least one unit of cpu" and "no single charge in these programs exceeds
// 1 cpu unit / 4096 memory units" (they contain no string or load calls).

import (
	"fmt"
	"sort"
	"strings"

	rt "github.com/arnodel/golua/runtime"

	"verif/engine/core"
	"verif/engine/host"
)

type wrapper struct {
	name                               string
	kind                               string // pcall | cowrap | close | cc
	def                                string // Lua table constructor for cc
	killCPU, killMem, stopCPU, stopMem int64  // what def asks (0 = not given)
	flags                              []string
}

var wrappers = []wrapper{
	{name: "pcall", kind: "pcall"},
	{name: "cowrap", kind: "cowrap"},
	{name: "close", kind: "close"},
	{name: "cc{}", kind: "cc", def: "{}"},
	{name: "cc{kill.cpu=150}", kind: "cc", def: "{kill={cpu=150}}", killCPU: 150},
	{name: "cc{kill.cpu=100000}", kind: "cc", def: "{kill={cpu=100000}}", killCPU: 100000},
	{name: "cc{kill.memory=20000}", kind: "cc", def: "{kill={memory=20000}}", killMem: 20000},
	{name: "cc{stop.cpu=60}", kind: "cc", def: "{stop={cpu=60}}", stopCPU: 60},
	{name: "cc{kill.cpu=150,stop.cpu=1000}", kind: "cc", def: "{kill={cpu=150},stop={cpu=1000}}", killCPU: 150, stopCPU: 1000},
	{name: "cc{flags=iosafe}", kind: "cc", def: `{flags="iosafe"}`, flags: []string{"iosafe"}},
	{name: "cc{all}", kind: "cc", def: `{kill={cpu=150,memory=20000},stop={cpu=40,memory=5000},flags="cpusafe iosafe"}`,
		killCPU: 150, killMem: 20000, stopCPU: 40, stopMem: 5000, flags: []string{"cpusafe", "iosafe"}},
}

var leaves = []string{"return", "error", "loop", "killnow", "stopnow"}

const closeTicks = 300
const memSlack = 4096

const prelude = `local rtm = runtime
local function snap(c)
  local d1 = c.due
  local k, s, u = c.kill, c.stop, c.used
  return k.cpu, k.memory, s.cpu, s.memory, u.cpu, u.memory, c.status, c.due, c.flags, d1
end
`

type program struct {
	nest []int // wrapper indices, outermost first
	leaf int
}

func (p program) name() string {
	var parts []string
	for _, w := range p.nest {
		parts = append(parts, wrappers[w].name)
	}
	parts = append(parts, leaves[p.leaf])
	return strings.Join(parts, "/")
}

func leafSrc(l int) string {
	switch leaves[l] {
	case "return":
		return `(function() ev("leaf", "return") return 1 end)()`
	case "error":
		return `(function() ev("leaf", "error") error("boom") end)()`
	case "loop":
		return `(function() ev("leaf", "loop") while true do tick() end end)()`
	case "killnow":
		return `(function() ev("leaf", "killnow") rtm.context():killnow() ev("survived") return 1 end)()`
	case "stopnow":
		return `(function() ev("leaf", "stopnow") local c = rtm.context() local b = c.due c:stopnow() ev("stopped", b, c.due, rtm.contextdue()) return 1 end)()`
	}
	panic("leaf")
}

// layerSrc renders layer number id (1 = outermost) around inner.
func layerSrc(id int, w wrapper, inner string) string {
	switch w.kind {
	case "cc":
		return fmt.Sprintf(`(function()
  ev("pre", %[1]d, snap(rtm.context()))
  local c, r1 = rtm.callcontext(%[2]s, function()
    ev("in", %[1]d, snap(rtm.context()))
    local r = %[3]s
    ev("end", %[1]d)
    return r
  end)
  ev("post", %[1]d, r1 ~= nil, snap(c))
  ev("after", %[1]d, snap(rtm.context()))
  return r1
end)()`, id, w.def, inner)
	case "pcall":
		return fmt.Sprintf(`(function()
  ev("pre", %[1]d, snap(rtm.context()))
  local ok, r1 = pcall(function()
    ev("in", %[1]d, snap(rtm.context()))
    local r = %[2]s
    ev("end", %[1]d)
    return r
  end)
  ev("pcallpost", %[1]d, ok)
  ev("after", %[1]d, snap(rtm.context()))
  return r1
end)()`, id, inner)
	case "cowrap":
		return fmt.Sprintf(`(function()
  local co = coroutine.wrap(function()
    local r = %[2]s
    ev("end", %[1]d)
    return r
  end)
  local r1 = co()
  return r1
end)()`, id, inner)
	case "close":
		return fmt.Sprintf(`(function()
  local x <close> = setmetatable({}, {__close = function()
    ev("closing", %[1]d)
    for k = 1, %[3]d do tick() end
    ev("closed", %[1]d)
  end})
  local r = %[2]s
  ev("end", %[1]d)
  return r
end)()`, id, inner, closeTicks)
	}
	panic("kind")
}

func (p program) src() string {
	s := leafSrc(p.leaf)
	for i := len(p.nest) - 1; i >= 0; i-- {
		s = layerSrc(i+1, wrappers[p.nest[i]], s)
	}
	return prelude + "local r = " + s + "\nev(\"top-end\")\n"
}

// ---------------------------------------------------------------- events

type event struct {
	tag   string
	id    int
	args  []rt.Value
	ticks int // tick() calls made before this event
}

type snapshot struct {
	ok                                 bool
	killCPU, killMem, stopCPU, stopMem int64 // 0 = nil (unlimited)
	usedCPU, usedMem                   int64
	status                             string
	due                                bool // read after used
	dueBefore                          bool // read before used
	flags                              map[string]bool
	flagStr                            string
	ticks                              int
	hasKillCPU, hasKillMem             bool
	hasStopCPU, hasStopMem             bool
	second                             bool // post: callcontext returned a non-nil second value
}

func intArg(v rt.Value) (int64, bool) {
	if v.IsNil() {
		return 0, false
	}
	n, ok := v.TryInt()
	return n, ok
}

func parseSnap(args []rt.Value) (s snapshot) {
	if len(args) < 9 {
		return
	}
	s.ok = true
	s.killCPU, s.hasKillCPU = intArg(args[0])
	s.killMem, s.hasKillMem = intArg(args[1])
	s.stopCPU, s.hasStopCPU = intArg(args[2])
	s.stopMem, s.hasStopMem = intArg(args[3])
	s.usedCPU, _ = intArg(args[4])
	s.usedMem, _ = intArg(args[5])
	s.status, _ = args[6].TryString()
	s.due = args[7].AsBool()
	s.flagStr, _ = args[8].TryString()
	s.dueBefore = s.due
	if len(args) > 9 && !args[9].IsNil() {
		s.dueBefore = args[9].AsBool()
	}
	s.flags = map[string]bool{}
	for _, f := range strings.Fields(s.flagStr) {
		s.flags[f] = true
	}
	return
}

func (s snapshot) String() string {
	if !s.ok {
		return "-"
	}
	o := func(has bool, v int64) string {
		if !has {
			return "nil"
		}
		return fmt.Sprint(v)
	}
	return fmt.Sprintf("{kill=%s/%s stop=%s/%s used=%d/%d %s due=%v flags=%q}",
		o(s.hasKillCPU, s.killCPU), o(s.hasKillMem, s.killMem), o(s.hasStopCPU, s.stopCPU), o(s.hasStopMem, s.stopMem),
		s.usedCPU, s.usedMem, s.status, s.due, s.flagStr)
}

func (s snapshot) softReached() bool {
	return s.hasStopCPU && s.usedCPU >= s.stopCPU || s.hasStopMem && s.usedMem >= s.stopMem
}

type layerObs struct {
	pre, in, post, after snapshot
	end                  bool
	closing, closed      bool
	pcallPost            bool
	closingAfterLeaf     bool
}

type runObs struct {
	layers     []layerObs // index 1..n
	leafSeen   bool
	leafPos    int // event index of the leaf marker
	survived   bool
	stopped    []rt.Value
	topEnd     bool
	obs        host.Obs
	ticks      int
	evs        []event
	unbalanced string // the runtime was not back in its initial state after the run
}

// sweeper runs one program under many outermost limits.  The machine (runtime
// + libraries + compiled chunk) is reused from one limit to the next as long as
// the previous run left it pristine: context stack back at the root, root
// context live and unused; otherwise a new one is made.
type sweeper struct {
	src string
	m   *host.Machine
	fn  rt.Value
	evs []event
	bad string // compile error
}

func (sw *sweeper) fresh() {
	if sw.m != nil {
		sw.m.Close()
	}
	m := host.NewMachine(false)
	sw.m = m
	f := m.R.SetEnvGoFunc(m.R.GlobalEnv(), "ev", func(t *rt.Thread, c *rt.GoCont) (rt.Cont, error) {
		a := c.Etc()
		e := event{ticks: m.Ticks}
		if len(a) > 0 {
			e.tag, _ = a[0].TryString()
		}
		if len(a) > 1 {
			if k, ok := a[1].TryInt(); ok {
				e.id = int(k)
			}
		}
		e.args = append([]rt.Value{}, a...)
		sw.evs = append(sw.evs, e)
		return c.Next(), nil
	}, 0, true)
	rt.SolemnlyDeclareCompliance(rt.ComplyCpuSafe|rt.ComplyMemSafe|rt.ComplyIoSafe|rt.ComplyTimeSafe, f)
	clos, err := m.R.CompileAndLoadLuaChunk("nest", []byte(sw.src), rt.TableValue(m.R.GlobalEnv()))
	if err != nil {
		sw.bad = err.Error()
		return
	}
	sw.fn = rt.FunctionValue(clos)
}

// pristine: what the runtime looks like before any run.
func (sw *sweeper) pristine() string {
	st := observeStack(sw.m.R)
	if len(st) != 1 {
		return fmt.Sprintf("context stack has %d contexts after the outermost CallContext returned: %s", len(st), stackStr(st))
	}
	if st[0].Status != 0 || st[0].Due {
		return "root context: " + st[0].String()
	}
	return ""
}

func (sw *sweeper) close() {
	if sw.m != nil {
		sw.m.Close()
	}
}

func (sw *sweeper) run(L uint64, n int) runObs {
	if sw.m == nil {
		sw.fresh()
	}
	if sw.bad != "" {
		return runObs{layers: make([]layerObs, n+1), obs: host.Obs{Status: "compile", Err: sw.bad}, leafPos: -1}
	}
	m := sw.m
	m.Trace, m.Ticks, sw.evs = nil, 0, nil
	def := &rt.RuntimeContextDef{HardLimits: rt.RuntimeResources{Cpu: L}}
	o := m.Call(sw.fn, nil, def)
	evs := sw.evs
	ro := runObs{layers: make([]layerObs, n+1), obs: o, ticks: m.Ticks, evs: evs, leafPos: -1}
	ro.unbalanced = sw.pristine()
	if ro.unbalanced != "" || o.Status == "gopanic" {
		sw.m.Close()
		sw.m = nil
	}
	for i, e := range evs {
		switch e.tag {
		case "leaf":
			ro.leafSeen = true
			ro.leafPos = i
		case "survived":
			ro.survived = true
		case "stopped":
			ro.stopped = e.args[1:]
		case "top-end":
			ro.topEnd = true
		}
		if e.id < 1 || e.id > n {
			continue
		}
		l := &ro.layers[e.id]
		switch e.tag {
		case "pre":
			l.pre = parseSnap(e.args[2:])
			l.pre.ticks = e.ticks
		case "in":
			l.in = parseSnap(e.args[2:])
			l.in.ticks = e.ticks
		case "post":
			if len(e.args) > 2 {
				l.post = parseSnap(e.args[3:])
				l.post.second = e.args[2].AsBool()
				l.post.ticks = e.ticks
			}
		case "after":
			l.after = parseSnap(e.args[2:])
		case "end":
			l.end = true
		case "pcallpost":
			l.pcallPost = true
		case "closing":
			l.closing = true
			if ro.leafPos >= 0 {
				l.closingAfterLeaf = true
			}
		case "closed":
			l.closed = true
		}
	}
	return ro
}

// ---------------------------------------------------------------- oracle

type bviol struct{ clause, detail string }

func isCtxKind(k string) bool { return k == "cc" || k == "pcall" }

func checkRun(p program, L uint64, ro runObs) (vs []bviol) {
	add := func(clause, format string, a ...interface{}) {
		vs = append(vs, bviol{clause, fmt.Sprintf(format, a...)})
	}
	n := len(p.nest)
	leaf := leaves[p.leaf]
	if ro.obs.Status == "gopanic" || ro.obs.Status == "compile" {
		add("host-"+ro.obs.Status, "%s", ro.obs.Err)
		return
	}
	if ro.unbalanced != "" {
		add("stack-unbalanced", "%s", ro.unbalanced)
	}
	// no arrangement does more work than the outermost limit allows
	if uint64(ro.ticks) > L {
		add("ticks>outer-limit", "tick() was called %d times under an outermost kill.cpu of %d", ro.ticks, L)
	}
	if ro.obs.UsedCPU > L {
		add("outer-used>kill", "outermost context reports used.cpu=%d with kill.cpu=%d", ro.obs.UsedCPU, L)
	}
	// innermost context layer around the leaf (0 = the host's outermost context):
	// where an error is caught and where a stop request lands
	nearest := 0
	for i := n; i >= 1; i-- {
		if isCtxKind(wrappers[p.nest[i-1]].kind) {
			nearest = i
			break
		}
	}
	// innermost callcontext layer around the leaf: where a kill lands.  The
	// implicit context of pcall has no limits of its own and is no boundary for
	// a termination: it is passed on to the enclosing context (88c54d3; C05
	// "pcall cannot intercept the termination").
	nearestCC := 0
	for i := n; i >= 1; i-- {
		if wrappers[p.nest[i-1]].kind == "cc" {
			nearestCC = i
			break
		}
	}
	leafRan := ro.leafSeen
	if leaf == "killnow" && ro.survived {
		add("killnow-survived", "code after ctx:killnow() on the running context was executed")
	}
	if leaf == "stopnow" && len(ro.stopped) == 3 {
		if !ro.stopped[1].AsBool() || !ro.stopped[2].AsBool() {
			add("stopnow-not-due", "after ctx:stopnow(): ctx.due=%v runtime.contextdue()=%v", ro.stopped[1].AsBool(), ro.stopped[2].AsBool())
		}
	}
	for i := 1; i <= n; i++ {
		w := wrappers[p.nest[i-1]]
		l := ro.layers[i]
		if w.kind == "close" && leaf == "killnow" && leafRan && l.closingAfterLeaf {
			// quotas.md/CallContext: a terminated context does not finalize pending to-be-closed values
			inKilled := i > nearestCC // no callcontext between this layer and the leaf stops the kill
			if inKilled {
				add("ran-after-kill", "layer %d: the __close handler ran after its context was terminated by killnow", i)
			}
		}
		if !isCtxKind(w.kind) {
			continue
		}
		if w.kind == "pcall" && leaf == "killnow" && leafRan && i > nearestCC && l.pcallPost {
			add("pcall-intercepted-kill", "layer %d: pcall returned although killnow terminated the context it runs in", i)
		}
		pre, in, post := l.pre, l.in, l.post
		lay := fmt.Sprintf("layer %d (%s)", i, w.name)
		if pre.ok && pre.status != "live" {
			add("running-not-live", "%s: the running context reports status %q", lay, pre.status)
		}
		if pre.ok && in.ok {
			if in.status != "live" {
				add("running-not-live", "%s: the running context reports status %q", lay, in.status)
			}
			// hard limits: never more than the parent has left
			if pre.hasKillCPU {
				left := pre.killCPU - pre.usedCPU
				if !in.hasKillCPU || in.killCPU > left {
					add("kill.cpu>parent-left", "%s: child kill.cpu=%v, parent had kill.cpu=%d used.cpu=%d just before", lay, in, pre.killCPU, pre.usedCPU)
				}
			}
			if pre.hasKillMem && (!in.hasKillMem || in.killMem > pre.killMem) {
				add("kill.memory>parent", "%s: child %v parent %v", lay, in, pre)
			}
			if w.killCPU != 0 && (!in.hasKillCPU || in.killCPU > w.killCPU) {
				add("kill.cpu>asked", "%s: child %v", lay, in)
			}
			if w.killMem != 0 && (!in.hasKillMem || in.killMem > w.killMem) {
				add("kill.memory>asked", "%s: child %v", lay, in)
			}
			// soft limits never exceed hard limits (nor what was asked, nor the parent's)
			if in.hasKillCPU && (!in.hasStopCPU || in.stopCPU > in.killCPU) {
				add("stop.cpu>kill.cpu", "%s: child %v", lay, in)
			}
			if in.hasKillMem && (!in.hasStopMem || in.stopMem > in.killMem) {
				add("stop.memory>kill.memory", "%s: child %v", lay, in)
			}
			if w.stopCPU != 0 && (!in.hasStopCPU || in.stopCPU > w.stopCPU) {
				add("stop.cpu>asked", "%s: child %v", lay, in)
			}
			if w.stopMem != 0 && (!in.hasStopMem || in.stopMem > w.stopMem) {
				add("stop.memory>asked", "%s: child %v", lay, in)
			}
			if pre.hasStopCPU && (!in.hasStopCPU || in.stopCPU > pre.stopCPU) {
				add("stop.cpu>parent", "%s: child %v parent %v", lay, in, pre)
			}
			if pre.hasStopMem && (!in.hasStopMem || in.stopMem > pre.stopMem) {
				add("stop.memory>parent", "%s: child %v parent %v", lay, in, pre)
			}
			// flags include the parent's, the asked ones and the implied ones
			need := map[string]bool{}
			for f := range pre.flags {
				need[f] = true
			}
			for _, f := range w.flags {
				need[f] = true
			}
			if w.killCPU != 0 {
				need["cpusafe"] = true
			}
			if w.killMem != 0 {
				need["memsafe"] = true
			}
			for f := range need {
				if !in.flags[f] {
					add("flags-missing", "%s: child flags %q lack %q (parent %q)", lay, in.flagStr, f, pre.flagStr)
				}
			}
			// due <=> a soft limit is reached or a stop was requested (none yet).
			// The context is running while it is read: cpu only grows, so
			// "reached when used was read" implies due when read afterwards, and
			// due when read before implies reached when used was read (memory can
			// be released, so it only excuses).
			cpuReached := in.hasStopCPU && in.usedCPU >= in.stopCPU
			if cpuReached && !in.due {
				add("due-live-missing", "%s: running context %v", lay, in)
			}
			if in.dueBefore && !cpuReached && !in.hasStopMem {
				add("due-live-unfounded", "%s: running context was due before %v was read", lay, in)
			}
		}
		if w.kind != "cc" || !post.ok {
			continue
		}
		// the returned context object
		if in.ok && (in.killCPU != post.killCPU || in.killMem != post.killMem || in.stopCPU != post.stopCPU || in.stopMem != post.stopMem || in.flagStr != post.flagStr) {
			add("limits-changed", "%s: limits/flags seen inside %v differ from the returned context %v", lay, in, post)
		}
		if post.hasKillCPU && post.usedCPU > post.killCPU {
			add("used.cpu>kill.cpu", "%s: returned context %v", lay, post)
		}
		if post.hasKillMem && post.usedMem > post.killMem {
			add("used.memory>kill.memory", "%s: returned context %v", lay, post)
		}
		if post.hasKillCPU && in.ok && int64(post.ticks-in.ticks) > post.killCPU {
			add("ticks>kill.cpu", "%s: %d tick() calls were made inside a context with kill.cpu=%d", lay, post.ticks-in.ticks, post.killCPU)
		}
		// everything consumed is charged to the parent
		if pre.ok && l.after.ok && (pre.hasKillCPU || pre.hasStopCPU) && l.after.usedCPU-pre.usedCPU < post.usedCPU {
			add("not-charged-to-parent", "%s: child used.cpu=%d but the parent's used.cpu only went from %d to %d", lay, post.usedCPU, pre.usedCPU, l.after.usedCPU)
		}
		for j := i + 1; j <= n; j++ {
			d := ro.layers[j].post
			if wrappers[p.nest[j-1]].kind == "cc" && d.ok && (post.hasKillCPU || post.hasStopCPU) && d.usedCPU > post.usedCPU {
				add("descendant-used>ancestor-used", "%s used.cpu=%d < layer %d used.cpu=%d", lay, post.usedCPU, j, d.usedCPU)
			}
		}
		// status
		errHere, killHere, stopHere := false, false, false
		killHere = leafRan && nearestCC == i && leaf == "killnow"
		if leafRan && nearest == i {
			errHere = leaf == "error"
			stopHere = leaf == "stopnow" && len(ro.stopped) == 3 // witnessed after c:stopnow() returned
		}
		justified := killHere ||
			post.hasKillCPU && post.usedCPU >= post.killCPU-1 ||
			post.hasKillMem && post.usedMem >= post.killMem-memSlack
		st := post.status
		switch st {
		case "done":
			if !l.end {
				add("status-done-unfounded", "%s reports done but its function never reached its end", lay)
			}
		case "error":
			if !errHere {
				add("status-error-unfounded", "%s reports error but no error was raised in it (second result present: %v)", lay, post.second)
			}
		case "killed":
			if !justified {
				add("status-killed-unfounded", "%s reports killed with budget left and no kill requested: %v", lay, post)
			}
		default:
			add("status-value", "%s: finished context reports status %q", lay, st)
		}
		switch {
		case killHere:
			if st != "killed" {
				add("status-after-killnow", "%s: killnow was executed in it, status %q", lay, st)
			}
		case l.end:
			if st != "done" && !(st == "killed" && justified) {
				add("status-after-return", "%s: its function returned, status %q %v", lay, st, post)
			}
		case errHere:
			if st != "error" && !(st == "killed" && justified) {
				add("status-after-error", "%s: its function raised an error, status %q %v", lay, st, post)
			}
		}
		if st == "error" && !post.second {
			add("error-without-value", "%s: status error but callcontext returned no error value", lay)
		}
		if st == "killed" && post.second {
			add("killed-with-value", "%s: status killed but callcontext returned a second value", lay)
		}
		// due
		// (between the leaf's marker and the event after c:stopnow() the request is uncertain)
		stopMaybe := leafRan && nearest == i && leaf == "stopnow"
		if (stopHere || post.softReached()) && !post.due {
			add("due-finished-missing", "%s: returned context %v, stop requested in it: %v", lay, post, stopHere)
		}
		if post.due && !stopMaybe && !post.softReached() {
			add("due-finished-unfounded", "%s: returned context %v, no stop requested in it", lay, post)
		}
	}
	return
}

// ---------------------------------------------------------------- families

func allPrograms() []program {
	var ps []program
	w := len(wrappers)
	for depth := 0; depth <= 3; depth++ {
		total := 1
		for i := 0; i < depth; i++ {
			total *= w
		}
		for k := 0; k < total; k++ {
			nest := make([]int, depth)
			x := k
			for i := depth - 1; i >= 0; i-- {
				nest[i] = x % w
				x /= w
			}
			for l := range leaves {
				ps = append(ps, program{nest: nest, leaf: l})
			}
		}
	}
	return ps
}

func limitGrid(tier string) []uint64 {
	if tier == "thorough" {
		var g []uint64
		for l := uint64(1); l <= 400; l++ {
			g = append(g, l)
		}
		return append(g, 500, 700, 1000, 2000, 5000, 20000)
	}
	return []uint64{1, 7, 20, 45, 80, 120, 160, 200, 260, 330, 420, 700, 2000, 20000}
}

func partBFamilies(tier string) []*core.Family {
	ps := allPrograms()
	grid := limitGrid(tier)
	return []*core.Family{{
		Name: "B-nestings", Size: uint64(len(ps)), BudgetSeconds: 420, HangSeconds: 600,
		Show: func(i uint64) string {
			return fmt.Sprintf("%s under every outermost kill.cpu of %v\n%s", ps[i].name(), grid, ps[i].src())
		},
		Run: func(i uint64) core.Outcome {
			p := ps[i]
			src := p.src()
			seen := map[string]string{}
			sigs := map[string]struct{}{}
			var trans uint64
			sw := &sweeper{src: src}
			defer sw.close()
			for _, L := range grid {
				ro := sw.run(L, len(p.nest))
				trans++
				for _, v := range checkRun(p, L, ro) {
					if _, ok := seen[v.clause]; !ok {
						seen[v.clause] = fmt.Sprintf("outermost kill.cpu=%d (smallest of the grid that shows it): %s\nhost status %s, %d ticks, events:\n%s\nprogram:\n%s",
							L, v.detail, ro.obs.Status, ro.ticks, eventsStr(ro.evs), src)
					}
				}
				sigs[runSig(ro)] = struct{}{}
			}
			var keys []string
			for k := range seen {
				keys = append(keys, k)
			}
			sort.Strings(keys)
			var all []string
			for s := range sigs {
				all = append(all, s)
			}
			sort.Strings(all)
			o := core.Outcome{NonTrivial: true, Sig: core.Hash64(strings.Join(all, "\n")), States: uint64(len(sigs)), Trans: trans}
			for _, k := range keys {
				o.Viols = append(o.Viols, &core.Violation{Key: fmt.Sprintf("B clause=%s nest=%s", k, p.name()), Detail: seen[k]})
			}
			return o
		},
	}}
}

// runSig: what happened, without memory amounts (coroutine stacks are
// released by the dying goroutine, which makes them timing dependent).
func runSig(ro runObs) string {
	var sb strings.Builder
	sb.WriteString(ro.obs.Status)
	for _, e := range ro.evs {
		fmt.Fprintf(&sb, " %s%d", e.tag, e.id)
		if e.tag == "post" && len(e.args) > 9 {
			s := parseSnap(e.args[3:])
			fmt.Fprintf(&sb, ":%s:%d/%d", s.status, s.usedCPU, s.killCPU)
		}
	}
	return sb.String()
}

func eventsStr(evs []event) string {
	var sb strings.Builder
	for _, e := range evs {
		fmt.Fprintf(&sb, "  [ticks=%d] %s", e.ticks, e.tag)
		switch e.tag {
		case "pre", "in", "after":
			fmt.Fprintf(&sb, " %d %v", e.id, parseSnap(e.args[2:]))
		case "post":
			fmt.Fprintf(&sb, " %d second=%v %v", e.id, e.args[2].AsBool(), parseSnap(e.args[3:]))
		default:
			for _, a := range e.args[1:] {
				s, _ := a.ToString()
				fmt.Fprintf(&sb, " %s", s)
			}
		}
		sb.WriteString("\n")
	}
	return sb.String()
}
