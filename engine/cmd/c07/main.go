// C07 -- nested execution contexts conserve budgets and report status
// truthfully.
//
// Part A (this file): explicit-state search (E2) over operation histories of
// the real context stack of a bare rt.New(nil) Runtime, in lock step with the
// reference model verif/engine/refctx.
//
// Part B (partb.go): every nesting <= 3 of runtime.callcontext / pcall /
// coroutine.wrap / to-be-closed variable around a small set of leaves, run
// through the whole Lua pipeline, with relational checks on what the context
// objects report.
package main

import (
	"fmt"
	"os"
	"reflect"
	"runtime"
	"strconv"
	"strings"
	"sync"
	"time"

	rt "github.com/arnodel/golua/runtime"

	"verif/engine/core"
	"verif/engine/refctx"
)

// ---------------------------------------------------------------- alphabet

var limVals = []uint64{0, 1, 2, 5, 1 << 63, 1<<64 - 1}
var amtVals = []uint64{0, 1, 2, 1 << 63, 1<<64 - 1}
var flagVals = []refctx.Flags{0, refctx.CpuSafe, refctx.IoSafe, refctx.CpuSafe | refctx.IoSafe}

const linearFactor = 4

const (
	opPop        = 0
	opReqCPU     = 1  // +5
	opReqMem     = 6  // +5
	opRelMem     = 11 // +5
	opLinear     = 16 // +5
	opStopSoft   = 21
	opStopHard   = 22
	opKill       = 23
	opParentSoft = 24
	opParentHard = 25
	opPush0      = 26 // + mixed radix (flags, hard cpu, hard mem, soft cpu, soft mem)
	nPush        = 4 * 6 * 6 * 6 * 6
	nFull        = opPush0 + nPush
)

func pushIndex(hc, hm, sc, sm, fl int) uint16 {
	return uint16(opPush0 + fl + 4*(hc+6*(hm+6*(sc+6*sm))))
}

// decode turns an index of the full alphabet into a model operation.
func decode(i uint16) refctx.Op {
	k := int(i)
	switch {
	case k == opPop:
		return refctx.Op{Kind: refctx.Pop}
	case k < opReqMem:
		return refctx.Op{Kind: refctx.Require, Res: refctx.Cpu, Amt: amtVals[k-opReqCPU]}
	case k < opRelMem:
		return refctx.Op{Kind: refctx.Require, Res: refctx.Mem, Amt: amtVals[k-opReqMem]}
	case k < opLinear:
		return refctx.Op{Kind: refctx.Release, Amt: amtVals[k-opRelMem]}
	case k < opStopSoft:
		return refctx.Op{Kind: refctx.Linear, Factor: linearFactor, Amt: amtVals[k-opLinear]}
	case k == opStopSoft:
		return refctx.Op{Kind: refctx.StopSoft}
	case k == opStopHard:
		return refctx.Op{Kind: refctx.StopHard}
	case k == opKill:
		return refctx.Op{Kind: refctx.Kill}
	case k == opParentSoft:
		return refctx.Op{Kind: refctx.ParentSoft}
	case k == opParentHard:
		return refctx.Op{Kind: refctx.ParentHard}
	}
	k -= opPush0
	var d refctx.Def
	d.Flags = flagVals[k%4]
	k /= 4
	d.Hard[refctx.Cpu] = limVals[k%6]
	k /= 6
	d.Hard[refctx.Mem] = limVals[k%6]
	k /= 6
	d.Soft[refctx.Cpu] = limVals[k%6]
	k /= 6
	d.Soft[refctx.Mem] = limVals[k%6]
	return refctx.Op{Kind: refctx.Push, Def: d}
}

func u64s(v uint64) string {
	switch v {
	case 1 << 63:
		return "2^63"
	case 1<<64 - 1:
		return "2^64-1"
	}
	return fmt.Sprint(v)
}

func opName(op refctx.Op) string {
	switch op.Kind {
	case refctx.Push:
		return "PushContext"
	case refctx.Pop:
		return "PopContext"
	case refctx.Require:
		if op.Res == refctx.Cpu {
			return "RequireCPU"
		}
		return "RequireMem"
	case refctx.Release:
		return "ReleaseMem"
	case refctx.Linear:
		return "LinearRequire"
	case refctx.StopSoft:
		return "SetStopLevel(SoftStop)"
	case refctx.StopHard:
		return "SetStopLevel(HardStop)"
	case refctx.Kill:
		return "KillContext"
	case refctx.ParentSoft:
		return "Parent.SetStopLevel(SoftStop)"
	case refctx.ParentHard:
		return "Parent.SetStopLevel(HardStop)"
	}
	return "?"
}

func resStr(r [refctx.NRes]uint64) string {
	var p []string
	if r[refctx.Cpu] != 0 {
		p = append(p, "Cpu:"+u64s(r[refctx.Cpu]))
	}
	if r[refctx.Mem] != 0 {
		p = append(p, "Memory:"+u64s(r[refctx.Mem]))
	}
	return "{" + strings.Join(p, ",") + "}"
}

func opStr(op refctx.Op) string {
	switch op.Kind {
	case refctx.Push:
		var p []string
		if op.Def.Hard != [refctx.NRes]uint64{} {
			p = append(p, "Hard"+resStr(op.Def.Hard))
		}
		if op.Def.Soft != [refctx.NRes]uint64{} {
			p = append(p, "Soft"+resStr(op.Def.Soft))
		}
		if op.Def.Flags != 0 {
			p = append(p, "Flags:"+op.Def.Flags.String())
		}
		return "PushContext{" + strings.Join(p, " ") + "}"
	case refctx.Require, refctx.Release:
		return opName(op) + "(" + u64s(op.Amt) + ")"
	case refctx.Linear:
		return fmt.Sprintf("LinearRequire(%d,%s)", op.Factor, u64s(op.Amt))
	}
	return opName(op) + "()"
}

func histStr(h []uint16) string {
	p := make([]string, len(h))
	for i, x := range h {
		p[i] = opStr(decode(x))
	}
	return strings.Join(p, "; ")
}

// reduced is the alphabet used at every position of the deep searches: every
// non-push operation with every amount, and a menu of context definitions that
// varies one resource at a time over the value set (hard only, soft only,
// soft below / equal / above hard), the flags alone, and two mixed ones.
func reducedAlphabet() []uint16 {
	var a []uint16
	for i := 0; i < opPush0; i++ {
		a = append(a, uint16(i))
	}
	a = append(a, pushIndex(0, 0, 0, 0, 0)) // what pcall pushes
	for f := 1; f < 4; f++ {
		a = append(a, pushIndex(0, 0, 0, 0, f))
	}
	// indices into limVals: 0:0 1:1 2:2 3:5 4:2^63 5:2^64-1
	for res := 0; res < 2; res++ {
		mk := func(h, s int) uint16 {
			if res == 0 {
				return pushIndex(h, 0, s, 0, 0)
			}
			return pushIndex(0, h, 0, s, 0)
		}
		for h := 1; h < 6; h++ {
			a = append(a, mk(h, 0))
		}
		for _, s := range []int{1, 2, 3, 5} {
			a = append(a, mk(0, s))
		}
		a = append(a, mk(3, 2), mk(2, 3), mk(3, 3))
	}
	a = append(a, pushIndex(3, 3, 0, 0, 0), pushIndex(2, 2, 1, 1, 3))
	return a
}

// start states: histories replayed (and checked) before the search proper.
var startNames = []string{"root", "two-deep-one-unit-left"}

func startHist(s int) []uint16 {
	if s == 0 {
		return nil
	}
	return []uint16{
		pushIndex(3, 3, 0, 0, 0), // kill = 5/5
		opReqCPU + 2,             // 2
		opReqMem + 2,             // 2
		pushIndex(0, 0, 2, 2, 0), // child: kill 3/3 inherited, stop 2/2
		opReqCPU + 1,             // used 1: one more unit is allowed, two are not
		opReqMem + 1,
	}
}

// ---------------------------------------------------------------- the real thing

func flagsOf(f rt.ComplianceFlags) (o refctx.Flags) {
	if f&rt.ComplyMemSafe != 0 {
		o |= refctx.MemSafe
	}
	if f&rt.ComplyCpuSafe != 0 {
		o |= refctx.CpuSafe
	}
	if f&rt.ComplyIoSafe != 0 {
		o |= refctx.IoSafe
	}
	if f&rt.ComplyTimeSafe != 0 {
		o |= refctx.TimeSafe
	}
	return
}

func rtFlags(f refctx.Flags) (o rt.ComplianceFlags) {
	if f&refctx.MemSafe != 0 {
		o |= rt.ComplyMemSafe
	}
	if f&refctx.CpuSafe != 0 {
		o |= rt.ComplyCpuSafe
	}
	if f&refctx.IoSafe != 0 {
		o |= rt.ComplyIoSafe
	}
	if f&refctx.TimeSafe != 0 {
		o |= rt.ComplyTimeSafe
	}
	return
}

func statusOf(s rt.RuntimeContextStatus) refctx.Status {
	switch s {
	case rt.StatusLive:
		return refctx.Live
	case rt.StatusDone:
		return refctx.Done
	case rt.StatusError:
		return refctx.Error
	case rt.StatusKilled:
		return refctx.Killed
	}
	return 99
}

func obsCtx(c rt.RuntimeContext) refctx.CtxObs {
	h, s, u := c.HardLimits(), c.SoftLimits(), c.UsedResources()
	return refctx.CtxObs{
		Hard:   [refctx.NRes]uint64{h.Cpu, h.Memory},
		Soft:   [refctx.NRes]uint64{s.Cpu, s.Memory},
		Used:   [refctx.NRes]uint64{u.Cpu, u.Memory},
		Flags:  flagsOf(c.RequiredFlags()),
		Status: statusOf(c.Status()),
		Due:    c.Due(),
	}
}

func isNilCtx(c rt.RuntimeContext) bool {
	if c == nil {
		return true
	}
	v := reflect.ValueOf(c)
	return v.Kind() == reflect.Ptr && v.IsNil()
}

// observeStack reads the whole stack through the RuntimeContext interface,
// root first.
func observeStack(r *rt.Runtime) []refctx.CtxObs {
	var rev []refctx.CtxObs
	for c := r.RuntimeContext(); !isNilCtx(c); c = c.Parent() {
		rev = append(rev, obsCtx(c))
		if len(rev) > 64 {
			break
		}
	}
	out := make([]refctx.CtxObs, len(rev))
	for i := range rev {
		out[i] = rev[len(rev)-1-i]
	}
	return out
}

// applyReal performs one operation on the real runtime.  Termination panics
// are recovered the way Thread.CallContext does it: a recovered value that is
// a ContextTerminationError is the termination signal, anything else is a Go
// panic that CallContext would re-raise.
func applyReal(r *rt.Runtime, op refctx.Op) (o refctx.Obs, goPanic string) {
	defer func() {
		if x := recover(); x != nil {
			if _, ok := x.(rt.ContextTerminationError); ok {
				o.Signal = true
			} else {
				goPanic = fmt.Sprint(x)
				if goPanic == "" {
					goPanic = "panic"
				}
			}
		}
	}()
	switch op.Kind {
	case refctx.Push:
		r.PushContext(rt.RuntimeContextDef{
			HardLimits:    rt.RuntimeResources{Cpu: op.Def.Hard[refctx.Cpu], Memory: op.Def.Hard[refctx.Mem]},
			SoftLimits:    rt.RuntimeResources{Cpu: op.Def.Soft[refctx.Cpu], Memory: op.Def.Soft[refctx.Mem]},
			RequiredFlags: rtFlags(op.Def.Flags),
		})
	case refctx.Pop:
		c := r.PopContext()
		if isNilCtx(c) {
			o.PoppedNil = true
		} else {
			co := obsCtx(c)
			o.Popped = &co
		}
	case refctx.Require:
		if op.Res == refctx.Cpu {
			r.RequireCPU(op.Amt)
		} else {
			r.RequireMem(op.Amt)
		}
	case refctx.Release:
		r.ReleaseMem(op.Amt)
	case refctx.Linear:
		r.LinearRequire(op.Factor, op.Amt)
	case refctx.StopSoft:
		r.RuntimeContext().SetStopLevel(rt.SoftStop)
	case refctx.StopHard:
		r.RuntimeContext().SetStopLevel(rt.HardStop)
	case refctx.Kill:
		r.KillContext()
	case refctx.ParentSoft:
		r.RuntimeContext().Parent().SetStopLevel(rt.SoftStop)
	case refctx.ParentHard:
		r.RuntimeContext().Parent().SetStopLevel(rt.HardStop)
	}
	return
}

func freshRuntime() *rt.Runtime {
	r := rt.New(nil)
	runtime.SetFinalizer(r, nil)
	return r
}

// ---------------------------------------------------------------- search

type node struct {
	hist  []uint16
	model *refctx.Stack
}

// workerDeadline is the unix time after which the family's budget is spent
// (the -deadline flag core passes to its workers; 0 = none).  core only looks
// at it every 64th case, which is too coarse for cases that are searches.
var workerDeadline = func() int64 {
	for i, a := range os.Args {
		if a == "-deadline" && i+1 < len(os.Args) {
			d, _ := strconv.ParseInt(os.Args[i+1], 10, 64)
			return d
		}
	}
	return 0
}()

// inWorker: this process is one of core's sharded workers (the duplicate-prefix
// table is only worth building there; a single -case run just runs the case).
var inWorker = func() bool {
	for _, a := range os.Args {
		if a == "-worker" {
			return true
		}
	}
	return false
}()

func pastDeadline() bool { return workerDeadline > 0 && time.Now().Unix() > workerDeadline }

type searcher struct {
	aborted  bool              // budget spent in the middle of the case
	disabled bool              // the case prefix is outside the restricted alphabet
	viols    map[string]string // key -> detail (first = shortest history)
	order    []string
	states   map[string]struct{}
	trans    uint64
	sig      uint64
}

func newSearcher() *searcher {
	return &searcher{viols: map[string]string{}, states: map[string]struct{}{}}
}

func (s *searcher) report(key, detail string) {
	if _, ok := s.viols[key]; !ok {
		s.viols[key] = detail
		s.order = append(s.order, key)
	}
}

func stackStr(st []refctx.CtxObs) string {
	p := make([]string, len(st))
	for i, c := range st {
		p[i] = c.String()
	}
	return strings.Join(p, " ")
}

func big64Overflows(a, b uint64) bool { return a+b < a }

// qualifiers classify the situation of a failing transition coarsely, so that
// one root cause gives one key (or a narrow family of keys).
func qualifiers(pre *refctx.Stack, op refctx.Op) string {
	top := pre.Top()
	q := " top=" + top.Status.String()
	lim := func(r int) string {
		switch {
		case !top.Hard[r].Inf:
			return "kill"
		case !top.Soft[r].Inf:
			return "stoponly"
		}
		return "none"
	}
	switch op.Kind {
	case refctx.Require:
		q += fmt.Sprintf(" limit=%s", lim(op.Res))
	case refctx.Linear:
		q += fmt.Sprintf(" limit=%s/%s", lim(refctx.Cpu), lim(refctx.Mem))
	case refctx.Release:
		q += " limit=" + lim(refctx.Mem)
	case refctx.Pop:
		if len(pre.C) > 1 {
			p := pre.C[len(pre.C)-2]
			q += " parent=" + p.Status.String()
			over := false
			for r := 0; r < refctx.NRes; r++ {
				if !top.Hard[r].Inf && top.Used[r].Cmp(top.Hard[r].N) >= 0 {
					over = true
				}
			}
			q += fmt.Sprintf(" child-over-limit=%v", over)
		} else {
			q += " at-root"
		}
	case refctx.Push:
		exhausted := false
		for r := 0; r < refctx.NRes; r++ {
			if !top.Hard[r].Inf && top.Used[r].Cmp(top.Hard[r].N) >= 0 {
				exhausted = true
			}
		}
		q += fmt.Sprintf(" parent-exhausted=%v", exhausted)
		if top.StopSoft || top.AncSoft {
			q += " stop-requested-above"
		}
		if top.StopHard || top.AncHard {
			q += " kill-requested-above"
		}
	}
	return q
}

// class names the situation of the transition: one word that separates the
// families of histories that known defects live in.
//
//	parent-stop   a stop level is set on a context that is not the running one
//	dead-context  the running context is not live any more (killed earlier)
//	uint64-wrap   (live context) the amount required does not fit: used+amount >= 2^64
//	below-dead    the running context is live but was created below a context that was not
//	live          none of the above
func class(pre *refctx.Stack, op refctx.Op) string {
	top := pre.Top()
	switch op.Kind {
	case refctx.ParentSoft, refctx.ParentHard:
		return "parent-stop"
	}
	if top.Status != refctx.Live {
		return "dead-context"
	}
	if overflows(pre, op) {
		return "uint64-wrap"
	}
	if top.AncDead || top.AncHard {
		return "below-dead"
	}
	return "live"
}

// overflows: the exact result of the operation's additions does not fit 64 bits.
func overflows(pre *refctx.Stack, op refctx.Op) bool {
	top := pre.Top()
	ovf := func(c *refctx.Ctx, r int, a uint64) bool {
		u := c.Used[r]
		return c.Tracked(r) && (!u.IsUint64() || big64Overflows(u.Uint64(), a))
	}
	switch op.Kind {
	case refctx.Require:
		return ovf(top, op.Res, op.Amt)
	case refctx.Linear:
		return ovf(top, refctx.Mem, op.Amt) || ovf(top, refctx.Cpu, op.Amt/op.Factor)
	case refctx.Pop:
		if len(pre.C) > 1 {
			p := pre.C[len(pre.C)-2]
			for r := 0; r < refctx.NRes; r++ {
				if !top.Used[r].IsUint64() || ovf(p, r, top.Used[r].Uint64()) {
					return true
				}
			}
		}
	}
	return false
}

// step executes history h on a fresh runtime, then op, and compares with the
// model.  It returns the model state to continue from (nil: a violation was
// reported, do not go on from this state) and the canonical state.
func (s *searcher) step(h []uint16, pre *refctx.Stack, opi uint16) (*refctx.Stack, string) {
	r := freshRuntime()
	for _, x := range h {
		applyReal(r, decode(x))
	}
	return s.stepOn(r, h, pre, opi)
}

// stepOn is step on a runtime that history h has already been applied to
// (used for the case prefixes, which are one straight history).
func (s *searcher) stepOn(r *rt.Runtime, h []uint16, pre *refctx.Stack, opi uint16) (*refctx.Stack, string) {
	op := decode(opi)
	o, goPanic := applyReal(r, op)
	s.trans++
	o.Stack = observeStack(r)

	full := func() string { return histStr(append(append([]uint16{}, h...), opi)) }
	outs := pre.Step(op)
	expected := func() string {
		var p []string
		for i, m := range outs {
			e := m.Next.String()
			if m.Signal {
				e += " !terminated"
			}
			if m.Popped != nil {
				e += " popped=" + m.Popped.String()
			}
			if i == 0 {
				p = append(p, "  expected: "+e)
			} else {
				p = append(p, "  or:       "+e)
			}
		}
		return strings.Join(p, "\n")
	}
	if goPanic != "" {
		s.report(fmt.Sprintf("A %s op=%s clause=gopanic msg=%q%s", class(pre, op), opName(op), goPanic, qualifiers(pre, op)),
			fmt.Sprintf("history (fresh rt.New(nil)): %s\nGo panic that is not a ContextTerminationError: %s\nmodel before: %s\n%s",
				full(), goPanic, pre, expected()))
		return nil, ""
	}
	var chosen *refctx.Outcome
	for i := range outs {
		if refctx.Match(outs[i], o) == "" {
			chosen = &outs[i]
			break
		}
	}
	if chosen == nil {
		// name the difference against the acceptable outcome that agrees on
		// whether termination was signalled, if there is one
		ref := outs[0]
		for _, m := range outs {
			if m.Signal == o.Signal {
				ref = m
				break
			}
		}
		clause := refctx.Match(ref, o)
		inv := refctx.Invariants(o.Stack)
		if o.Popped != nil {
			for _, c := range refctx.Invariants([]refctx.CtxObs{*o.Popped}) {
				inv = append(inv, "popped:"+c)
			}
		}
		invs := ""
		if len(inv) > 0 {
			invs = " " + strings.Join(inv, ",")
		}
		s.report(fmt.Sprintf("A %s op=%s clause=%s%s%s", class(pre, op), opName(op), clause, invs, qualifiers(pre, op)),
			fmt.Sprintf("history (fresh rt.New(nil)): %s\nmodel before: %s\n%s\n  observed: %s\nfirst differing clause: %s; property sentences violated by the observed stack itself: %v",
				full(), pre, expected(), o, clause, inv))
		return nil, ""
	}
	if inv := refctx.Invariants(o.Stack); len(inv) > 0 {
		// cannot happen when the model matched (the model keeps these) -- kept as a self check
		s.report(fmt.Sprintf("A %s op=%s clause=%s%s", class(pre, op), opName(op), strings.Join(inv, ","), qualifiers(pre, op)),
			fmt.Sprintf("history: %s\nobserved: %s", full(), o))
		return nil, ""
	}
	return chosen.Next, stackStr(o.Stack) + " | " + chosen.Next.String()
}

// run replays prefix in lock step (start state + the case's own first
// operations), then searches breadth first `more` levels deeper.
func (s *searcher) run(prefix []uint16, more int, alphabet []uint16) {
	model := refctx.NewStack()
	var h []uint16
	canon := ""
	r := freshRuntime()
	for _, x := range prefix {
		if !model.Enabled(decode(x)) {
			s.disabled = true // the case's prefix is outside the restricted alphabet
			return
		}
		var next *refctx.Stack
		next, canon = s.stepOn(r, h, model, x)
		if next == nil {
			return
		}
		model = next
		h = append(h, x)
		if !model.Representable() {
			s.states[canon] = struct{}{}
			return
		}
	}
	s.states[canon] = struct{}{}
	s.sig = core.Hash64(canon)
	frontier := []node{{hist: h, model: model}}
	for d := 0; d < more; d++ {
		var nextFrontier []node
		for _, n := range frontier {
			if pastDeadline() {
				s.aborted = true
				return
			}
			for _, x := range alphabet {
				if !n.model.Enabled(decode(x)) {
					continue
				}
				next, canon := s.step(n.hist, n.model, x)
				if next == nil {
					continue
				}
				if _, seen := s.states[canon]; seen {
					continue
				}
				s.states[canon] = struct{}{}
				if d+1 < more && next.Representable() {
					nh := make([]uint16, len(n.hist)+1)
					copy(nh, n.hist)
					nh[len(n.hist)] = x
					nextFrontier = append(nextFrontier, node{hist: nh, model: next})
				}
			}
		}
		frontier = nextFrontier
	}
}

func (s *searcher) outcome() core.Outcome {
	if s.disabled {
		return core.Outcome{Skipped: true}
	}
	if s.aborted {
		// not an evaluation: the family is reported as not exhaustive
		o := core.Outcome{Skipped: true}
		for _, k := range s.order {
			o.Viols = append(o.Viols, &core.Violation{Key: k, Detail: s.viols[k]})
		}
		return o
	}
	o := core.Outcome{NonTrivial: true, Sig: s.sig, States: uint64(len(s.states)), Trans: s.trans}
	for _, k := range s.order {
		o.Viols = append(o.Viols, &core.Violation{Key: k, Detail: s.viols[k]})
	}
	return o
}

// scramble visits a capped family in an order that spreads over the whole
// index space (a fixed bijection; no randomness).
func scramble(i, size uint64) uint64 {
	const k = 2654435761 // odd; made coprime to size below
	m := uint64(k)
	for gcd(m, size) != 1 {
		m += 2
	}
	return (i % size) * (m % size) % size
}

func gcd(a, b uint64) uint64 {
	for b != 0 {
		a, b = b, a%b
	}
	return a
}

// prefixState replays a case prefix in lock step and returns the canonical
// state it ends in; ok is false when the prefix leaves the restricted alphabet,
// shows a violation or ends in a state the search does not continue from.
func prefixState(prefix []uint16) (canon string, ok bool) {
	s := newSearcher()
	model := refctx.NewStack()
	var h []uint16
	r := freshRuntime()
	for _, x := range prefix {
		if !model.Enabled(decode(x)) {
			return "", false
		}
		next, c := s.stepOn(r, h, model, x)
		if next == nil || !next.Representable() {
			return "", false
		}
		model, canon = next, c
		h = append(h, x)
	}
	return canon, true
}

// stackFamily: cases = start state x prefix of `plen` operations (the first one
// from `first`, the others from `rest`); each case searches `more` levels.
// With dedupe, a case whose prefix ends in the same canonical state as the
// prefix of an earlier case is skipped: equal canonical states have equal
// futures (the argument every explicit-state search rests on), so its
// histories are the earlier case's.
func stackFamily(name string, first, rest []uint16, plen, more int, budget int, scr, dedupe bool) *core.Family {
	size := uint64(len(startNames)) * uint64(len(first))
	for i := 1; i < plen; i++ {
		size *= uint64(len(rest))
	}
	get := func(i uint64) (int, []uint16) {
		if scr {
			i = scramble(i, size)
		}
		st := int(i % uint64(len(startNames)))
		i /= uint64(len(startNames))
		// the first operation varies slowest so that index order is "simplest first"
		ops := make([]uint16, plen)
		for k := plen - 1; k >= 1; k-- {
			ops[k] = rest[i%uint64(len(rest))]
			i /= uint64(len(rest))
		}
		ops[0] = first[i%uint64(len(first))]
		return st, ops
	}
	var once sync.Once
	var rep []uint64
	prepare := func() {
		rep = make([]uint64, size)
		seen := map[string]uint64{}
		for i := uint64(0); i < size; i++ {
			rep[i] = i
			st, ops := get(i)
			if canon, ok := prefixState(append(startHist(st), ops...)); ok {
				if j, dup := seen[canon]; dup {
					rep[i] = j
				} else {
					seen[canon] = i
				}
			}
		}
	}
	return &core.Family{
		Name: name, Size: size, BudgetSeconds: budget,
		// a case is a search of up to ~180k transitions; on a heavily loaded box
		// that can exceed the default watchdog.  The operations themselves are
		// straight-line code.
		HangSeconds: 1800,
		Run: func(i uint64) core.Outcome {
			if pastDeadline() {
				return core.Outcome{Skipped: true}
			}
			if dedupe && inWorker {
				once.Do(prepare)
				if rep[i] != i {
					return core.Outcome{Skipped: true}
				}
			}
			st, ops := get(i)
			s := newSearcher()
			s.run(append(startHist(st), ops...), more, rest)
			return s.outcome()
		},
		Show: func(i uint64) string {
			st, ops := get(i)
			return fmt.Sprintf("start=%s [%s]; then %s; then every history of <= %d more operations of the reduced alphabet",
				startNames[st], histStr(startHist(st)), histStr(ops), more)
		},
	}
}

func partAFamilies(tier string) []*core.Family {
	red := reducedAlphabet()
	full := make([]uint16, nFull)
	for i := range full {
		full[i] = uint16(i)
	}
	if tier == "thorough" {
		return []*core.Family{
			stackFamily("A-full1-depth3", full, red, 1, 2, 200, false, true),
			stackFamily("A-red1-full2-depth2", red, full, 1, 1, 60, false, false),
			stackFamily("A-reduced-depth4", red, red, 2, 2, 180, false, true),
			stackFamily("A-reduced-depth5", red, red, 2, 3, 300, true, true),
			stackFamily("A-reduced-depth6", red, red, 3, 3, 180, true, false),
		}
	}
	return []*core.Family{
		stackFamily("A-full1-depth2", full, red, 1, 1, 90, false, false),
		stackFamily("A-reduced-depth4", red, red, 2, 2, 115, false, true),
	}
}

func main() {
	core.Main(&core.Check{
		ID:    "C07",
		Level: "model_checking",
		Rule: "part A: every history (to the depth in the family name) of PushContext/PopContext/RequireCPU/RequireMem/ReleaseMem/LinearRequire/SetStopLevel/KillContext on the real context stack, " +
			"from two start states, replayed on a fresh runtime per transition and compared in every state with the big-integer reference model refctx (states = distinct canonical stacks, transitions = operations executed); " +
			"part B: every nesting <= 3 of callcontext/pcall/coroutine.wrap/<close> around 5 leaves under every outer cpu limit of a grid, relational checks on ctx.kill/stop/used/status/due/flags; " +
			"non-trivial = every case; distinct = distinct canonical end states / observations",
		Assumptions: []string{
			"reference model refctx written from the C07 statement and quotas.md with unbounded integers and explicit infinity (no golua import)",
			"part A leaves Millis at 0 everywhere: the clock (time.Now in now()) is not controllable without an overlay, so time budgets are not explored",
			"ReleaseMem is issued for every amount of the alphabet, also beyond what the context has accounted: its usage is then reduced 'if possible' (quotas.md), i.e. to zero, and nothing else changes (in particular no enclosing context is credited)",
			"the stop level is not readable through the RuntimeContext interface; the canonical state adds the model's record of the stop requests made in the history",
			"where quotas.md is silent several outcomes are accepted: floor/ceiling in LinearRequire, refusal of resources in contexts that are not live (or below one), Due of a context created below a stopped one",
			"part B compares no error message, no memory amount for equality, and no cpu amount other than through inequalities",
		},
		Families: func(tier string) []*core.Family {
			return append(partAFamilies(tier), partBFamilies(tier)...)
		},
	})
}
