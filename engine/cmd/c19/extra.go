package main

import (
	"fmt"
	"math"

	rt "github.com/arnodel/golua/runtime"

	"verif/engine/core"
	"verif/engine/lv"
	"verif/engine/refstr19"
	"verif/engine/reftab"
)

// ---------------------------------------------------------------- plain find with magic characters

// findMagicFamily: string.find(s, needle, init, true) where subject and needle
// are made of pattern-magic characters: "A value of true as a fourth, optional
// argument plain turns off the pattern matching facilities, so the function
// does a plain 'find substring' operation, with no characters in pattern being
// considered magic."
func findMagicFamily(tier string) *core.Family {
	alpha, sl, nl := "a.%(", 3, 2
	if tier == "thorough" {
		alpha = "a.%([*^$-"
	}
	S := newStrSet(alpha, sl)
	N := newStrSet(alpha, nl)
	nS, nN := S.size(), N.size()
	P := posList(sl)
	return &core.Family{Name: "str-find-magic", Size: nS * nN,
		Show: func(i uint64) string {
			d := dec(i, nN, nS)
			return fmt.Sprintf("string.find(%q, %q, init, true) for every init of the position set", S.str(d[1]), N.str(d[0]))
		},
		Run: func(i uint64) core.Outcome {
			d := dec(i, nN, nS)
			s, nd := S.str(d[1]), N.str(d[0])
			e := getEnv()
			var c collector
			for _, p := range P {
				var want []lv.V
				a, b, ok := refstr19.Find(s, nd, p)
				if ok {
					want = []lv.V{lv.I(a), lv.I(b)}
				} else {
					want = []lv.V{lv.NilV}
				}
				c.callStr(e, fmt.Sprintf("find plain s=%q needle=%q init=%d", s, nd, p), "find",
					[]rt.Value{sv(s), sv(nd), iv(p), rt.BoolValue(true)}, want, false, findRelInit(s, nd, p))
			}
			return c.out()
		}}
}

// findRelInit recognises one specific wrong answer of string.find: the
// indices of a correct occurrence counted from init instead of from the start
// of the subject.
func findRelInit(s, nd string, init int64) func(string, []rt.Value) string {
	return func(st string, res []rt.Value) string {
		a, b, ok := refstr19.Find(s, nd, init)
		p := refstr19.Translate(int64(len(s)), init)
		if st != "ok" || !ok || len(res) != 2 || p <= 1 {
			return ""
		}
		x, okx := res[0].TryInt()
		y, oky := res[1].TryInt()
		if okx && oky && x == a-(p-1) && y == b-(p-1) {
			return "indices-relative-to-init"
		}
		return ""
	}
}

// ---------------------------------------------------------------- float arguments

// floatArgsFamily: §3.4.3 "This conversion (float to integer) ... the string
// library and the C API: if the float has an exact representation as an
// integer, the result is that integer, otherwise the conversion fails": an
// integral float is accepted wherever an integer is expected and means that
// integer; a float with a fractional part is an error.
func floatArgsFamily() *core.Family {
	f := rt.FloatValue
	type strCase struct {
		fn      string
		args    []rt.Value
		want    []lv.V
		wantErr bool
	}
	strCases := []strCase{
		{"sub", []rt.Value{sv("abc\x00"), f(2), f(3)}, []lv.V{lv.S("bc")}, false},
		{"sub", []rt.Value{sv("abc\x00"), f(-2)}, []lv.V{lv.S("c\x00")}, false},
		{"sub", []rt.Value{sv("abc"), f(1.5)}, nil, true},
		{"sub", []rt.Value{sv("abc"), iv(1), f(2.5)}, nil, true},
		{"sub", []rt.Value{sv("abc"), f(math.Inf(1))}, nil, true},
		{"sub", []rt.Value{sv("abc"), f(math.NaN())}, nil, true},
		{"sub", []rt.Value{sv("abc"), f(math.Ldexp(1, 63))}, nil, true},
		{"byte", []rt.Value{sv("abc"), f(2)}, []lv.V{lv.I(98)}, false},
		{"byte", []rt.Value{sv("abc"), f(1), f(-1)}, []lv.V{lv.I(97), lv.I(98), lv.I(99)}, false},
		{"byte", []rt.Value{sv("abc"), f(1.5)}, nil, true},
		{"rep", []rt.Value{sv("ab"), f(2)}, []lv.V{lv.S("abab")}, false},
		{"rep", []rt.Value{sv("ab"), f(2), sv(",")}, []lv.V{lv.S("ab,ab")}, false},
		{"rep", []rt.Value{sv("ab"), f(0)}, []lv.V{lv.S("")}, false},
		{"rep", []rt.Value{sv("ab"), f(2.5)}, nil, true},
		{"find", []rt.Value{sv("abc"), sv("c"), f(1), rt.BoolValue(true)}, []lv.V{lv.I(3), lv.I(3)}, false},
		{"find", []rt.Value{sv("abc"), sv("c"), f(-3), rt.BoolValue(true)}, []lv.V{lv.I(3), lv.I(3)}, false},
		{"find", []rt.Value{sv("abc"), sv("c"), f(1.5), rt.BoolValue(true)}, nil, true},
	}
	type tabCase struct {
		fn      string
		seq     []int64
		args    []rt.Value // after the table
		want    []lv.V
		wantErr bool
		final   []int64 // expected final contents (nil: unchanged)
	}
	tabCases := []tabCase{
		{"insert", []int64{1, 2}, []rt.Value{f(2), iv(9)}, nil, false, []int64{1, 9, 2}},
		{"insert", []int64{1, 2}, []rt.Value{f(3), iv(9)}, nil, false, []int64{1, 2, 9}},
		{"insert", []int64{1, 2}, []rt.Value{f(1.5), iv(9)}, nil, true, nil},
		{"remove", []int64{1, 2, 3}, []rt.Value{f(2)}, []lv.V{lv.I(2)}, false, []int64{1, 3}},
		{"remove", []int64{1, 2, 3}, []rt.Value{f(1.5)}, nil, true, nil},
		{"unpack", []int64{1, 2, 3}, []rt.Value{f(2), f(3)}, []lv.V{lv.I(2), lv.I(3)}, false, nil},
		{"unpack", []int64{1, 2, 3}, []rt.Value{f(2)}, []lv.V{lv.I(2), lv.I(3)}, false, nil},
		{"unpack", []int64{1, 2, 3}, []rt.Value{f(1.5)}, nil, true, nil},
		{"unpack", []int64{1, 2, 3}, []rt.Value{iv(1), f(2.5)}, nil, true, nil},
		{"concat", []int64{1, 2, 3}, []rt.Value{sv(","), f(2), f(3)}, []lv.V{lv.S("2,3")}, false, nil},
		{"concat", []int64{1, 2, 3}, []rt.Value{sv(","), f(1.5)}, nil, true, nil},
		{"move", []int64{1, 2, 3}, []rt.Value{f(2), f(3), f(1)}, nil, false, []int64{2, 3, 3}},
		{"move", []int64{1, 2, 3}, []rt.Value{f(1), f(2), f(2)}, nil, false, []int64{1, 1, 2}},
		{"move", []int64{1, 2, 3}, []rt.Value{f(1.5), iv(2), iv(1)}, nil, true, nil},
	}
	nStr := uint64(len(strCases))
	show := func(i uint64) string {
		if i < nStr {
			x := strCases[i]
			return fmt.Sprintf("string.%s%s", x.fn, canonVals(x.args))
		}
		x := tabCases[i-nStr]
		return fmt.Sprintf("table.%s(%s, %s)", x.fn, intSeqStr(x.seq), canonVals(x.args))
	}
	return &core.Family{Name: "float-args", Size: nStr + uint64(len(tabCases)), Show: show,
		Run: func(i uint64) core.Outcome {
			e := getEnv()
			var c collector
			if i < nStr {
				x := strCases[i]
				c.callStr(e, fmt.Sprintf("float-args %s%s", x.fn, canonVals(x.args)), x.fn, x.args, x.want, x.wantErr, nil)
				return c.out()
			}
			x := tabCases[i-nStr]
			ref := reftab.T{}
			for k, v := range x.seq {
				ref.Set(int64(k+1), lv.I(v))
			}
			t := mkTable(e, kPlain, ref)
			key := fmt.Sprintf("float-args %s t=%s args=%s", x.fn, intSeqStr(x.seq), canonVals(x.args))
			st, res, errs := call(e.m, e.tab[x.fn], append([]rt.Value{t.arg}, x.args...), cpuCtx)
			r := reftab.Res{Err: x.wantErr, Rets: x.want, RetDest: x.fn == "move"}
			if x.final != nil {
				ref = reftab.T{}
				for k, v := range x.final {
					ref.Set(int64(k+1), lv.I(v))
				}
			}
			if c.checkRes(key, key, r, st, res, errs, t.arg) {
				c.checkContents(key, key, t, ref)
			}
			return c.out()
		}}
}

// ---------------------------------------------------------------- integer extremes

// edgeFamilies: move / unpack / concat with ranges that touch mininteger and
// maxinteger on a table that has elements at those keys: the loops must stop
// at the end of the integer range instead of wrapping around.
func edgeFamilies(tier string) []*core.Family {
	const mx, mn = math.MaxInt64, math.MinInt64
	EP := []int64{1, 0, 2, -1, mx, mx - 1, mx - 2, mn, mn + 1, mn + 2}
	nE := uint64(len(EP))
	content := func() reftab.T {
		t := reftab.T{}
		t.Set(1, lv.S("a"))
		t.Set(2, lv.S("b"))
		t.Set(0, lv.S("z"))
		t.Set(mx, lv.S("M"))
		t.Set(mx-1, lv.S("L"))
		t.Set(mn, lv.S("m"))
		t.Set(mn+1, lv.S("n"))
		return t
	}
	const cdesc = `{[0]="z","a","b",[maxint-1]="L",[maxint]="M",[minint]="m",[minint+1]="n"}`
	var fams []*core.Family

	fams = append(fams, &core.Family{Name: "tab-edge-move", Size: nKinds * 2 * nE * nE * nE,
		Show: func(i uint64) string {
			d := dec(i, nKinds, 2, nE, nE, nE)
			return fmt.Sprintf("table.move(%s as %s, %d, %d, %d%s)", cdesc, kindName[d[0]], EP[d[2]], EP[d[3]], EP[d[4]], []string{"", `, {"p","q"}`}[d[1]])
		},
		Run: func(i uint64) core.Outcome {
			d := dec(i, nKinds, 2, nE, nE, nE)
			kind, f, en, tp := int(d[0]), EP[d[2]], EP[d[3]], EP[d[4]]
			e := getEnv()
			var c collector
			ref1 := content()
			ref2 := ref1
			t1 := mkTable(e, kind, ref1)
			t2 := t1
			args := []rt.Value{t1.arg, iv(f), iv(en), iv(tp)}
			key := fmt.Sprintf("move-edge kind=%s f=%d e=%d t=%d", kindName[kind], f, en, tp)
			if d[1] == 1 {
				ref2 = reftab.FromSeq([]lv.V{lv.S("p"), lv.S("q")})
				t2 = mkTable(e, kind, ref2)
				args = append(args, t2.arg)
				key += " dest=other"
			}
			r := reftab.Move(ref1, f, en, tp, ref2, 64)
			st, res, errs := call(e.m, e.tab["move"], args, ctxFor(r))
			if c.checkRes(key, key, r, st, res, errs, t2.arg) {
				c.checkContents(key, key+" (source)", t1, ref1)
				if d[1] == 1 {
					c.checkContents(key+" dest-table", key+" (destination)", t2, ref2)
				}
			}
			return c.out()
		}})

	fams = append(fams, &core.Family{Name: "tab-edge-unpack-concat", Size: nKinds * nE * nE,
		Show: func(i uint64) string {
			d := dec(i, nKinds, nE, nE)
			return fmt.Sprintf("table.unpack / table.concat(%s as %s [, \"-\"], %d, %d)", cdesc, kindName[d[0]], EP[d[1]], EP[d[2]])
		},
		Run: func(i uint64) core.Outcome {
			d := dec(i, nKinds, nE, nE)
			kind, a, b := int(d[0]), EP[d[1]], EP[d[2]]
			e := getEnv()
			var c collector
			ref := content()
			t := mkTable(e, kind, ref)
			key := fmt.Sprintf("unpack-edge kind=%s i=%d j=%d", kindName[kind], a, b)
			r := reftab.Unpack(ref, true, a, true, b, 64)
			st, res, errs := call(e.m, e.tab["unpack"], []rt.Value{t.arg, iv(a), iv(b)}, cpuMemCtx)
			c.checkRes(key, key, r, st, res, errs, rt.NilValue)
			e.m.Trace = e.m.Trace[:0]
			key = fmt.Sprintf("concat-edge kind=%s i=%d j=%d", kindName[kind], a, b)
			r = reftab.Concat(ref, "-", true, a, true, b)
			st, res, errs = call(e.m, e.tab["concat"], []rt.Value{t.arg, sv("-"), iv(a), iv(b)}, cpuCtx)
			c.checkRes(key, key, r, st, res, errs, rt.NilValue)
			c.checkContents(key, key, t, ref)
			return c.out()
		}})
	return fams
}
