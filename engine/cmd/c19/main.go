// C19 — string and table library functions against their definitions in the
// Lua 5.4 manual (§6.4 non-pattern functions, §6.6), bounded-exhaustively:
// every short byte string / short sequence x every position of a boundary set
// (incl. mininteger / maxinteger), every table function on a plain table and on
// two kinds of proxy tables, table.sort on every arrangement of every small
// multiset under valid, invalid, raising and yielding comparison functions.
package main

import (
	"fmt"
	"math"
	"os"
	"runtime/debug"
	"sort"
	"strconv"
	"strings"
	"sync"
	"time"

	rt "github.com/arnodel/golua/runtime"

	"verif/engine/core"
	"verif/engine/host"
	"verif/engine/lv"
	"verif/engine/refstr19"
	"verif/engine/reftab"
)

// ---------------------------------------------------------------- machine

const prelude = `
local emit, rawget, rawset, setmetatable, pcall, error = emit, rawget, rawset, setmetatable, pcall, error
local sort, create, resume, status, yield = table.sort, coroutine.create, coroutine.resume, coroutine.status, coroutine.yield
local H = {}
function H.fproxy(b)
  return setmetatable({}, {
    __index = function(_, k) emit("get", k) return rawget(b, k) end,
    __newindex = function(_, k, v) emit("set", k, v) rawset(b, k, v) end,
    __len = function() emit("len") return #b end,
  })
end
function H.tproxy(b)
  return setmetatable({}, { __index = b, __newindex = b, __len = function() emit("len") return #b end })
end
function H.dosort(t, mode, k)
  local calls = 0
  local cmp
  if mode == "default" then
    local ok, e = pcall(sort, t)
    return ok, e, 0
  elseif mode == "lt" then cmp = function(a, b) calls = calls + 1 return a < b end
  elseif mode == "gt" then cmp = function(a, b) calls = calls + 1 return a > b end
  elseif mode == "key" then cmp = function(a, b) calls = calls + 1 return a // 2 < b // 2 end
  elseif mode == "false" then cmp = function(a, b) calls = calls + 1 return false end
  elseif mode == "true" then cmp = function(a, b) calls = calls + 1 return true end
  elseif mode == "alt" then cmp = function(a, b) calls = calls + 1 return calls % 2 == 1 end
  elseif mode == "le" then cmp = function(a, b) calls = calls + 1 return a <= b end
  elseif mode == "raise" then cmp = function(a, b) calls = calls + 1 if calls == k then error("boom", 0) end return a < b end
  elseif mode == "yield" then
    local co = create(function()
      sort(t, function(a, b) calls = calls + 1 if calls % k == 0 then yield(calls) end return a < b end)
    end)
    while true do
      local ok, v = resume(co)
      if not ok then return false, v, calls end
      if status(co) == "dead" then return true, nil, calls end
    end
  end
  local ok, e = pcall(sort, t, cmp)
  return ok, e, calls
end
return H
`

type env struct {
	m                      *host.Machine
	str, tab               map[string]rt.Value
	fproxy, tproxy, dosort rt.Value
}

var (
	envOnce sync.Once
	theEnv  *env
)

func getEnv() *env {
	envOnce.Do(func() {
		m := host.NewMachine(false)
		e := &env{m: m, str: map[string]rt.Value{}, tab: map[string]rt.Value{}}
		g := m.R.GlobalEnv()
		st := g.Get(rt.StringValue("string")).AsTable()
		for _, n := range []string{"sub", "byte", "char", "rep", "reverse", "upper", "lower", "len", "find"} {
			e.str[n] = st.Get(rt.StringValue(n))
		}
		tt := g.Get(rt.StringValue("table")).AsTable()
		for _, n := range []string{"insert", "remove", "move", "concat", "unpack", "pack", "sort"} {
			e.tab[n] = tt.Get(rt.StringValue(n))
		}
		clos, err := m.R.CompileAndLoadLuaChunk("prelude", []byte(prelude), rt.TableValue(g))
		if err != nil {
			panic("prelude: " + err.Error())
		}
		st2, res, errs := call(m, rt.FunctionValue(clos), nil, nil)
		if st2 != "ok" || len(res) != 1 {
			panic("prelude run: " + st2 + " " + errs)
		}
		h := res[0].AsTable()
		e.fproxy = h.Get(rt.StringValue("fproxy"))
		e.tproxy = h.Get(rt.StringValue("tproxy"))
		e.dosort = h.Get(rt.StringValue("dosort"))
		theEnv = e
	})
	theEnv.m.Trace = theEnv.m.Trace[:0]
	theEnv.m.Canon = host.NewCanon()
	return theEnv
}

// call is host.Machine.Call returning the raw result values.
func call(m *host.Machine, f rt.Value, args []rt.Value, def *rt.RuntimeContextDef) (status string, res []rt.Value, errs string) {
	r := m.R
	defer func() {
		if p := recover(); p != nil {
			status = "gopanic"
			errs = fmt.Sprint(p)
			if k := strings.IndexByte(errs, '\n'); k >= 0 {
				errs = errs[:k]
			}
			res = nil
		}
	}()
	term := rt.NewTerminationWith(nil, 0, true)
	var err error
	if def != nil {
		var ctx rt.RuntimeContext
		ctx, err = r.MainThread().CallContext(*def, func() error {
			return rt.Call(r.MainThread(), f, args, term)
		})
		if ctx.Status() == rt.StatusKilled {
			if err != nil {
				errs = err.Error()
			}
			return "killed", nil, errs
		}
	} else {
		err = rt.Call(r.MainThread(), f, args, term)
	}
	if err != nil {
		return "err", nil, canon1(rt.ErrorValue(err))
	}
	return "ok", term.Etc(), ""
}

// Every call of a table function runs inside a CPU-limited context, so that a
// loop in golua ends the call as "killed" instead of hanging the worker.
//   - cpuCtx (10M units) is for calls whose defined work is tiny (a few dozen
//     element accesses, a sort of at most a few hundred elements): "killed"
//     there means the function did not terminate in any reasonable sense.
//   - cpuSmallCtx (500 units) is for calls that denote an astronomically long
//     loop (reftab says Infeasible): being killed is legitimate there and the
//     small limit only keeps the case cheap.
var cpuCtx = &rt.RuntimeContextDef{HardLimits: rt.RuntimeResources{Cpu: 10_000_000}}
var cpuSmallCtx = &rt.RuntimeContextDef{HardLimits: rt.RuntimeResources{Cpu: 500}}
var cpuMemCtx = &rt.RuntimeContextDef{HardLimits: rt.RuntimeResources{Cpu: 10_000_000, Memory: 64 << 20}}

func ctxFor(r reftab.Res) *rt.RuntimeContextDef {
	if r.Infeasible {
		return cpuSmallCtx
	}
	return cpuCtx
}

func canon1(v rt.Value) string { return host.NewCanon().Value(v) }

func canonVals(vs []rt.Value) string {
	c := host.NewCanon()
	return "(" + strings.Join(c.Values(vs), ", ") + ")"
}

func canonLV(vs []lv.V) string {
	ss := make([]string, len(vs))
	for i, v := range vs {
		ss[i] = v.Canon()
	}
	return "(" + strings.Join(ss, ", ") + ")"
}

func obsStr(status string, res []rt.Value, errs string) string {
	if status == "ok" {
		return "ok " + canonVals(res)
	}
	return status + " " + errs
}

func toRT(v lv.V) rt.Value {
	switch v.K {
	case lv.Int:
		return rt.IntValue(v.I)
	case lv.Float:
		return rt.FloatValue(v.F)
	case lv.Str:
		return rt.StringValue(v.S)
	case lv.Bool:
		return rt.BoolValue(v.B)
	}
	return rt.NilValue
}

// ---------------------------------------------------------------- enumeration helpers

// seqSet is the set of all sequences of length <= maxLen over k symbols,
// ordered by length then lexicographically.
type seqSet struct {
	k      uint64
	maxLen int
}

func (s seqSet) size() uint64 {
	t, c := uint64(0), uint64(1)
	for l := 0; l <= s.maxLen; l++ {
		t += c
		c *= s.k
	}
	return t
}

func (s seqSet) at(i uint64) []int {
	c := uint64(1)
	for l := 0; l <= s.maxLen; l++ {
		if i < c {
			out := make([]int, l)
			for j := l - 1; j >= 0; j-- {
				out[j] = int(i % s.k)
				i /= s.k
			}
			return out
		}
		i -= c
		c *= s.k
	}
	panic("seqSet index out of range")
}

type strSet struct {
	alpha string
	seqSet
}

func newStrSet(alpha string, maxLen int) strSet {
	return strSet{alpha, seqSet{uint64(len(alpha)), maxLen}}
}

func (s strSet) str(i uint64) string {
	ix := s.at(i)
	b := make([]byte, len(ix))
	for j, x := range ix {
		b[j] = s.alpha[x]
	}
	return string(b)
}

// posList is the boundary set of positions for lengths up to L, simplest
// first: 1, 0, -1, 2, -2, ..., L+2, -(L+2), maxinteger, mininteger.
func posList(L int) []int64 {
	out := []int64{1, 0, -1}
	for p := int64(2); p <= int64(L+2); p++ {
		out = append(out, p, -p)
	}
	return append(out, math.MaxInt64, math.MinInt64)
}

func dec(i uint64, radices ...uint64) []uint64 {
	out := make([]uint64, len(radices))
	for k, r := range radices {
		out[k] = i % r
		i /= r
	}
	return out
}

type collector struct {
	vs  []*core.Violation
	sig strings.Builder
}

func (c *collector) bad(key, detail string) {
	c.vs = append(c.vs, &core.Violation{Key: key, Detail: detail})
}

func (c *collector) out() core.Outcome {
	o := core.Outcome{NonTrivial: true, Sig: core.Hash64(c.sig.String())}
	if len(c.vs) > 0 {
		o.Viol = c.vs[0]
		o.Viols = c.vs[1:]
	}
	return o
}

// ---------------------------------------------------------------- string functions

// callStr calls string.<fn>(args...) and compares with the expected result
// tuple (wantErr: an error must be raised).  The violation key is
// key+" clause=<c>": c is "error" when a required error is missing, otherwise
// what classify returns for the wrong observation (it recognises the signature
// of one specific defect, so that one defect = one key pattern), default
// "result".
func (c *collector) callStr(e *env, key, fn string, args []rt.Value, want []lv.V, wantErr bool, classify func(st string, res []rt.Value) string) {
	st, res, errs := call(e.m, e.str[fn], args, nil)
	got := obsStr(st, res, errs)
	c.sig.WriteString(got)
	c.sig.WriteByte(';')
	if wantErr {
		if st != "err" {
			c.bad(key+" clause=error", fmt.Sprintf("string.%s%s: an error must be raised, observed %s", fn, canonVals(args), got))
		}
		return
	}
	exp := "ok " + canonLV(want)
	if got != exp {
		cl := ""
		if classify != nil {
			cl = classify(st, res)
		}
		if cl == "" {
			cl = "result"
		}
		c.bad(key+" clause="+cl, fmt.Sprintf("string.%s%s: expected %s, observed %s", fn, canonVals(args), canonLV(want), got))
	}
}

func sv(s string) rt.Value { return rt.StringValue(s) }
func iv(n int64) rt.Value  { return rt.IntValue(n) }

func intsLV(ns []int64) []lv.V {
	out := make([]lv.V, len(ns))
	for i, n := range ns {
		out[i] = lv.I(n)
	}
	return out
}

func strFamilies(tier string) []*core.Family {
	alpha, maxLen := "ab\x00", 3
	if tier == "thorough" {
		alpha, maxLen = "ab\x00\xffA", 4
	}
	S := newStrSet(alpha, maxLen)
	nS := S.size()
	P := posList(maxLen)
	nP := uint64(len(P))
	var fams []*core.Family

	// sub / byte: case = (s, i or absent); all j and j absent inside.
	fams = append(fams, &core.Family{Name: "str-sub-byte", Size: nS * (nP + 1),
		Show: func(i uint64) string {
			d := dec(i, nS, nP+1)
			if d[1] == nP {
				return fmt.Sprintf("string.byte(%q) (no positions)", S.str(d[0]))
			}
			return fmt.Sprintf("string.sub / string.byte (%q, %d [, j]) for j absent and every j of the position set", S.str(d[0]), P[d[1]])
		},
		Run: func(i uint64) core.Outcome {
			d := dec(i, nS, nP+1)
			s := S.str(d[0])
			e := getEnv()
			var c collector
			if d[1] == nP {
				c.callStr(e, fmt.Sprintf("byte s=%q", s), "byte", []rt.Value{sv(s)}, intsLV(refstr19.Byte(s, 1, 1)), false, nil)
				return c.out()
			}
			p := P[d[1]]
			// "If j is absent, then it is assumed to be equal to -1"
			c.callStr(e, fmt.Sprintf("sub s=%q i=%d", s, p), "sub", []rt.Value{sv(s), iv(p)}, []lv.V{lv.S(refstr19.Sub(s, p, -1))}, false, nil)
			// "the default value for j is i"
			c.callStr(e, fmt.Sprintf("byte s=%q i=%d", s, p), "byte", []rt.Value{sv(s), iv(p)}, intsLV(refstr19.Byte(s, p, p)), false, nil)
			for _, q := range P {
				c.callStr(e, fmt.Sprintf("sub s=%q i=%d j=%d", s, p, q), "sub", []rt.Value{sv(s), iv(p), iv(q)}, []lv.V{lv.S(refstr19.Sub(s, p, q))}, false, nil)
				c.callStr(e, fmt.Sprintf("byte s=%q i=%d j=%d", s, p, q), "byte", []rt.Value{sv(s), iv(p), iv(q)}, intsLV(refstr19.Byte(s, p, q)), false, nil)
			}
			return c.out()
		}})

	// find: case = (s, needle); all init (and absent), plain and not plain.
	needleLen := 3
	N := newStrSet(alpha, needleLen)
	nN := N.size()
	fams = append(fams, &core.Family{Name: "str-find", Size: nS * nN, BudgetSeconds: budget(tier, 20, 100),
		Show: func(i uint64) string {
			d := dec(i, nN, nS)
			return fmt.Sprintf("string.find(%q, %q [, init [, true]]) for init absent and every init of the position set", S.str(d[1]), N.str(d[0]))
		},
		Run: func(i uint64) core.Outcome {
			d := dec(i, nN, nS)
			s, nd := S.str(d[1]), N.str(d[0])
			e := getEnv()
			var c collector
			want := func(init int64) []lv.V {
				a, b, ok := refstr19.Find(s, nd, init)
				if !ok {
					return []lv.V{lv.NilV}
				}
				return []lv.V{lv.I(a), lv.I(b)}
			}
			// the needle alphabet contains no magic character, so the needle as
			// a pattern matches exactly itself (§6.4.1 "a single character class
			// matches any single character in the class"; x "represents the
			// character x itself").
			c.callStr(e, fmt.Sprintf("find s=%q needle=%q", s, nd), "find", []rt.Value{sv(s), sv(nd)}, want(1), false, nil)
			for _, p := range P {
				c.callStr(e, fmt.Sprintf("find plain s=%q needle=%q init=%d", s, nd, p), "find", []rt.Value{sv(s), sv(nd), iv(p), rt.BoolValue(true)}, want(p), false, findRelInit(s, nd, p))
				c.callStr(e, fmt.Sprintf("find s=%q needle=%q init=%d", s, nd, p), "find", []rt.Value{sv(s), sv(nd), iv(p)}, want(p), false, findRelInit(s, nd, p))
			}
			return c.out()
		}})

	// rep
	counts := []int64{1, 0, 2, 3, -1, math.MinInt64}
	seps := []string{"", ",", "ab", "\x00"}
	nC, nSep := uint64(len(counts)), uint64(len(seps)+1)
	fams = append(fams, &core.Family{Name: "str-rep", Size: nS * nC * nSep,
		Show: func(i uint64) string {
			d := dec(i, nS, nC, nSep)
			if d[2] == 0 {
				return fmt.Sprintf("string.rep(%q, %d)", S.str(d[0]), counts[d[1]])
			}
			return fmt.Sprintf("string.rep(%q, %d, %q)", S.str(d[0]), counts[d[1]], seps[d[2]-1])
		},
		Run: func(i uint64) core.Outcome {
			d := dec(i, nS, nC, nSep)
			s, n := S.str(d[0]), counts[d[1]]
			e := getEnv()
			var c collector
			// "Returns the empty string if n is not positive."
			cl := func(st string, _ []rt.Value) string {
				if n < 0 && st == "err" {
					return "negative-n-raises"
				}
				return ""
			}
			if d[2] == 0 {
				c.callStr(e, fmt.Sprintf("rep s=%q n=%d", s, n), "rep", []rt.Value{sv(s), iv(n)}, []lv.V{lv.S(refstr19.Rep(s, n, ""))}, false, cl)
			} else {
				sep := seps[d[2]-1]
				c.callStr(e, fmt.Sprintf("rep s=%q n=%d sep=%q", s, n, sep), "rep", []rt.Value{sv(s), iv(n), sv(sep)}, []lv.V{lv.S(refstr19.Rep(s, n, sep))}, false, cl)
			}
			return c.out()
		}})

	// rep with extreme counts: the result is either empty (must be returned)
	// or too large to exist (an error or a killed context, never a crash).
	type repx struct {
		s      string
		n      int64
		hasSep bool
		sep    string
	}
	var xs []repx
	for _, n := range []int64{math.MaxInt64, 1 << 31, 1 << 32, 1<<63 - 2} {
		xs = append(xs, repx{"", n, false, ""}, repx{"a", n, false, ""}, repx{"ab", n, true, ","}, repx{"", n, true, "x"})
	}
	repFam := func(name string, xs []repx, detached bool) *core.Family {
		return &core.Family{Name: name, Size: uint64(len(xs)), Serial: true, HangSeconds: 60,
			Show: func(i uint64) string {
				x := xs[i]
				if !x.hasSep {
					return fmt.Sprintf("string.rep(%q, %d) under cpu=1e7 memory=64M limits", x.s, x.n)
				}
				return fmt.Sprintf("string.rep(%q, %d, %q) under cpu=1e7 memory=64M limits", x.s, x.n, x.sep)
			},
			Run: func(i uint64) core.Outcome {
				x := xs[i]
				e := getEnv()
				var c collector
				args := []rt.Value{sv(x.s), iv(x.n)}
				key := fmt.Sprintf("rep s=%q n=%d", x.s, x.n)
				if x.hasSep {
					args = append(args, sv(x.sep))
					key += fmt.Sprintf(" sep=%q", x.sep)
				}
				var st, errs string
				var res []rt.Value
				if !detached {
					st, res, errs = call(e.m, e.str["rep"], args, cpuMemCtx)
				} else {
					// run on a machine of its own in another goroutine and give
					// up after 5 s (see the comment at str-rep-empty-huge)
					type out struct {
						st, errs string
						res      []rt.Value
					}
					ch := make(chan out, 1)
					go func() {
						m := host.NewMachine(false)
						fn := m.R.GlobalEnv().Get(rt.StringValue("string")).AsTable().Get(rt.StringValue("rep"))
						a, b, c := call(m, fn, args, cpuMemCtx)
						ch <- out{a, c, b}
					}()
					select {
					case o := <-ch:
						st, res, errs = o.st, o.res, o.errs
					case <-time.After(5 * time.Second):
						c.sig.WriteString("no answer")
						c.bad(key+" clause=terminates", fmt.Sprintf("string.rep%s is the empty string; the call (cpu limit 1e7, memory limit 64M) neither returned nor was killed within 5 s of wall time", canonVals(args)))
						return c.out()
					}
				}
				got := obsStr(st, res, errs)
				if len(got) > 200 {
					got = got[:200]
				}
				c.sig.WriteString(got)
				if refstr19.RepLen(x.s, x.n, x.sep).Sign() == 0 {
					if got != `ok (s:"")` {
						c.bad(key+" clause=result", fmt.Sprintf("the result is the empty string (n copies of an empty string with an empty separator); observed %s", got))
					}
				} else if st != "err" && st != "killed" {
					c.bad(key+" clause=result", fmt.Sprintf("a string of %s bytes cannot be built under a 64M limit; observed %s", refstr19.RepLen(x.s, x.n, x.sep), got))
				}
				return c.out()
			}}
	}
	fams = append(fams, repFam("str-rep-extreme", xs, false))
	// string.rep("", maxinteger, "") is the empty string.  A loop over n that
	// charges no CPU (both strings are empty, nothing is allocated) cannot be
	// ended by the CPU limit, and a case that never returns would also block
	// the driver's replay of the violation.  So this single case runs detached
	// with a wall-clock guard: a correct implementation answers in
	// microseconds, one that iterates 2^63 times never does; 5 s separates the
	// two by more than six orders of magnitude.  It is the only time-based
	// verdict of the check.  The abandoned goroutine dies with the process
	// (the family has one case and runs in a worker of its own).
	fams = append(fams, repFam("str-rep-empty-huge", []repx{{"", math.MaxInt64, true, ""}}, true))

	// char
	cv := []int64{65, 0, 255, 1, 256, -1, math.MaxInt64, math.MinInt64}
	CS := seqSet{uint64(len(cv)), 3}
	fams = append(fams, &core.Family{Name: "str-char", Size: CS.size() + 3,
		Show: func(i uint64) string {
			if i >= CS.size() {
				return []string{"string.char(65.0)", "string.char(65.5)", "string.char(97, 98.0, 0)"}[i-CS.size()]
			}
			var a []string
			for _, x := range CS.at(i) {
				a = append(a, fmt.Sprint(cv[x]))
			}
			return "string.char(" + strings.Join(a, ", ") + ")"
		},
		Run: func(i uint64) core.Outcome {
			e := getEnv()
			var c collector
			if i >= CS.size() {
				switch i - CS.size() {
				case 0: // §3.4.3: a float with an exact integer value converts to that integer
					c.callStr(e, "char 65.0", "char", []rt.Value{rt.FloatValue(65)}, []lv.V{lv.S("A")}, false, nil)
				case 1:
					c.callStr(e, "char 65.5", "char", []rt.Value{rt.FloatValue(65.5)}, nil, true, nil)
				case 2:
					c.callStr(e, "char 97,98.0,0", "char", []rt.Value{iv(97), rt.FloatValue(98), iv(0)}, []lv.V{lv.S("ab\x00")}, false, nil)
				}
				return c.out()
			}
			var vals []int64
			var args []rt.Value
			for _, x := range CS.at(i) {
				vals = append(vals, cv[x])
				args = append(args, iv(cv[x]))
			}
			want, ok := refstr19.Char(vals)
			c.callStr(e, fmt.Sprintf("char %v", vals), "char", args, []lv.V{lv.S(want)}, !ok, nil)
			return c.out()
		}})

	// upper / lower / reverse / len: the enumerated strings, every single byte,
	// and (thorough) every two-byte string.
	extra := uint64(256)
	if tier == "thorough" {
		extra += 65536
	}
	caseStr := func(i uint64) string {
		switch {
		case i < 256:
			return string([]byte{byte(i)})
		case i < extra:
			return string([]byte{byte((i - 256) >> 8), byte(i - 256)})
		}
		return S.str(i - extra)
	}
	fams = append(fams, &core.Family{Name: "str-case-reverse-len", Size: extra + nS,
		Show: func(i uint64) string {
			return fmt.Sprintf("string.upper / lower / reverse / len (%q)", caseStr(i))
		},
		Run: func(i uint64) core.Outcome {
			s := caseStr(i)
			e := getEnv()
			var c collector
			a := []rt.Value{sv(s)}
			if refstr19.CaseDetermined(s) {
				// recognise: the right answer except that every byte that is
				// not valid UTF-8 came back as U+FFFD
				stray := func(want string) func(string, []rt.Value) string {
					return func(st string, res []rt.Value) string {
						var sb strings.Builder
						for k := 0; k < len(want); k++ {
							if want[k] >= 0x80 {
								sb.WriteString("\xef\xbf\xbd")
							} else {
								sb.WriteByte(want[k])
							}
						}
						if st == "ok" && len(res) == 1 {
							if g, isS := res[0].TryString(); isS && g == sb.String() {
								return "non-utf8-byte-replaced"
							}
						}
						return ""
					}
				}
				up, lo := refstr19.Upper(s), refstr19.Lower(s)
				c.callStr(e, fmt.Sprintf("upper s=%q", s), "upper", a, []lv.V{lv.S(up)}, false, stray(up))
				c.callStr(e, fmt.Sprintf("lower s=%q", s), "lower", a, []lv.V{lv.S(lo)}, false, stray(lo))
			}
			c.callStr(e, fmt.Sprintf("reverse s=%q", s), "reverse", a, []lv.V{lv.S(refstr19.Reverse(s))}, false, nil)
			c.callStr(e, fmt.Sprintf("len s=%q", s), "len", a, []lv.V{lv.I(refstr19.Len(s))}, false, nil)
			return c.out()
		}})
	return fams
}

// ---------------------------------------------------------------- tables

const (
	kPlain = iota
	kFProxy
	kTProxy
	nKinds
)

var kindName = []string{"plain", "fproxy", "tproxy"}

// realTable is a table under test: arg is what the library function gets,
// backing is where the elements live (the same table for kind plain).
type realTable struct {
	arg     rt.Value
	backing *rt.Table
	proxy   *rt.Table
}

func mkTable(e *env, kind int, content reftab.T) realTable {
	b := rt.NewTable()
	keys := make([]int64, 0, len(content))
	for k := range content {
		keys = append(keys, k)
	}
	sort.Slice(keys, func(a, b int) bool { return keys[a] < keys[b] })
	for _, k := range keys {
		e.m.R.SetTable(b, rt.IntValue(k), toRT(content[k]))
	}
	if kind == kPlain {
		return realTable{arg: rt.TableValue(b), backing: b}
	}
	mk := e.fproxy
	if kind == kTProxy {
		mk = e.tproxy
	}
	st, res, errs := call(e.m, mk, []rt.Value{rt.TableValue(b)}, nil)
	if st != "ok" || len(res) != 1 {
		panic("mkproxy: " + st + " " + errs)
	}
	return realTable{arg: res[0], backing: b, proxy: res[0].AsTable()}
}

// rawEntries lists the live (non-nil value) raw entries of a real table.  It
// reads the table through the read-only verif hook VerifLayout instead of
// Table.Next: iteration with next is the subject of another property and is
// known to loop on some tables holding the key 0, which would hang this check.
func rawEntries(t *rt.Table) (keys, vals []rt.Value) {
	var rec []rt.Value
	lay := t.VerifLayout(func(v rt.Value) string { rec = append(rec, v); return "" })
	n := 0
	if strings.HasPrefix(lay, "A[size=") {
		fmt.Sscanf(lay, "A[size=%d", &n)
	}
	if n > len(rec) {
		panic("rawEntries: cannot parse layout " + lay)
	}
	for i := 0; i < n; i++ {
		if !rec[i].IsNil() {
			keys = append(keys, rt.IntValue(int64(i+1)))
			vals = append(vals, rec[i])
		}
	}
	for i := n; i+1 < len(rec); i += 2 {
		if !rec[i].IsNil() && !rec[i+1].IsNil() {
			keys = append(keys, rec[i])
			vals = append(vals, rec[i+1])
		}
	}
	return
}

// dumpTable renders the raw contents of a real table like reftab.T.Dump
// (integer keys ascending), followed by the other keys sorted by canon.
func dumpTable(t *rt.Table) string {
	type kv struct {
		k int64
		v string
	}
	var ints []kv
	var others []string
	c := host.NewCanon()
	ks, vs := rawEntries(t)
	for i, k := range ks {
		if n, isInt := k.TryInt(); isInt {
			ints = append(ints, kv{n, c.Value(vs[i])})
		} else {
			others = append(others, c.Value(k)+"="+c.Value(vs[i]))
		}
	}
	sort.SliceStable(ints, func(a, b int) bool { return ints[a].k < ints[b].k })
	sort.Strings(others)
	var parts []string
	for _, x := range ints {
		parts = append(parts, "i:"+strconv.FormatInt(x.k, 10)+"="+x.v)
	}
	parts = append(parts, others...)
	return strings.Join(parts, ",")
}

// checkContents compares the final contents of a real table with the model.
func (c *collector) checkContents(key, what string, t realTable, ref reftab.T) {
	got := dumpTable(t.backing)
	c.sig.WriteString(got)
	c.sig.WriteByte(';')
	if got != ref.Dump() {
		c.bad(key+" clause=contents", fmt.Sprintf("%s: final contents expected {%s}, observed {%s}", what, ref.Dump(), got))
	}
	if t.proxy != nil {
		if p := dumpTable(t.proxy); p != "" {
			c.bad(key+" clause=proxy-raw", fmt.Sprintf("%s: the proxy table itself was written raw: {%s}", what, p))
		}
	}
}

// checkRes compares status/results of a table function with the model.
// It returns false if contents should not be compared (undefined call).
func (c *collector) checkRes(key, what string, r reftab.Res, st string, res []rt.Value, errs string, dest rt.Value) bool {
	got := obsStr(st, res, errs)
	if len(got) > 300 {
		got = got[:300] + "..."
	}
	c.sig.WriteString(got)
	c.sig.WriteByte(';')
	if st == "gopanic" {
		c.bad(key+" clause=gopanic", fmt.Sprintf("%s: Go panic: %s", what, errs))
		return false
	}
	switch {
	case r.OutOfDomain:
		// not defined by the manual: an error or any result, but it must end
		if st == "killed" {
			c.bad(key+" clause=terminates", fmt.Sprintf("%s: did not finish within 10M cpu units: %s", what, got))
		}
		return false
	case r.Infeasible:
		return false
	case r.Err:
		if st != "err" {
			c.bad(key+" clause=error", fmt.Sprintf("%s: an error must be raised, observed %s", what, got))
		}
		return false
	}
	if st != "ok" {
		c.bad(key+" clause=result", fmt.Sprintf("%s: expected results %s, observed %s", what, canonLV(r.Rets), got))
		return false
	}
	if r.RetDest {
		if len(res) != 1 || res[0] != dest {
			c.bad(key+" clause=result", fmt.Sprintf("%s: the destination table must be returned, observed %s", what, got))
		}
		return true
	}
	if canonVals(res) != canonLV(r.Rets) {
		c.bad(key+" clause=result", fmt.Sprintf("%s: expected results %s, observed %s", what, canonLV(r.Rets), got))
	}
	return true
}

func seqStr(vs []lv.V) string {
	ss := make([]string, len(vs))
	for i, v := range vs {
		ss[i] = v.Canon()
	}
	return "{" + strings.Join(ss, ",") + "}"
}

func seqOf(alpha []lv.V, ix []int) []lv.V {
	out := make([]lv.V, len(ix))
	for i, x := range ix {
		out[i] = alpha[x]
	}
	return out
}

var vTrue = lv.V{K: lv.Bool, B: true}

func tabFamilies(tier string) []*core.Family {
	maxLen := 3
	if tier == "thorough" {
		maxLen = 4
	}
	A3 := []lv.V{lv.I(1), lv.I(2), lv.S("x")}
	Q := seqSet{3, maxLen}
	nQ := Q.size()
	P := posList(maxLen)
	nP := uint64(len(P))
	var fams []*core.Family

	// insert: (seq, kind, pos or absent, value)
	vals := []lv.V{lv.I(9), lv.NilV}
	fams = append(fams, &core.Family{Name: "tab-insert", Size: nQ * nKinds * (nP + 1) * 2,
		Show: func(i uint64) string {
			d := dec(i, nKinds, nP+1, 2, nQ)
			s := seqStr(seqOf(A3, Q.at(d[3])))
			if d[1] == nP {
				return fmt.Sprintf("table.insert(%s as %s, %s)", s, kindName[d[0]], vals[d[2]])
			}
			return fmt.Sprintf("table.insert(%s as %s, %d, %s)", s, kindName[d[0]], P[d[1]], vals[d[2]])
		},
		Run: func(i uint64) core.Outcome {
			d := dec(i, nKinds, nP+1, 2, nQ)
			seq := seqOf(A3, Q.at(d[3]))
			kind, v := int(d[0]), vals[d[2]]
			e := getEnv()
			var c collector
			ref := reftab.FromSeq(seq)
			t := mkTable(e, kind, ref)
			var r reftab.Res
			var args []rt.Value
			key := fmt.Sprintf("insert kind=%s t=%s", kindName[kind], seqStr(seq))
			if d[1] == nP {
				r = reftab.Insert(ref, false, 0, v)
				args = []rt.Value{t.arg, toRT(v)}
				key += fmt.Sprintf(" v=%s", v)
			} else {
				r = reftab.Insert(ref, true, P[d[1]], v)
				args = []rt.Value{t.arg, iv(P[d[1]]), toRT(v)}
				key += fmt.Sprintf(" pos=%d v=%s", P[d[1]], v)
			}
			st, res, errs := call(e.m, e.tab["insert"], args, cpuCtx)
			if c.checkRes(key, key, r, st, res, errs, rt.NilValue) {
				c.checkContents(key, key, t, ref)
			}
			return c.out()
		}})

	// insert with a wrong number of arguments: outside the manual's signature;
	// only "ends without crashing" is checked.
	fams = append(fams, &core.Family{Name: "tab-insert-arity", Size: nKinds * 3,
		Show: func(i uint64) string {
			return fmt.Sprintf("table.insert on a %s table {1,2} with %d arguments", kindName[i%nKinds], []int{1, 4, 5}[i/nKinds])
		},
		Run: func(i uint64) core.Outcome {
			kind, na := int(i%nKinds), []int{1, 4, 5}[i/nKinds]
			e := getEnv()
			var c collector
			ref := reftab.FromSeq([]lv.V{lv.I(1), lv.I(2)})
			t := mkTable(e, kind, ref)
			args := []rt.Value{t.arg, iv(1), iv(7), iv(8), iv(9)}[:na]
			key := fmt.Sprintf("insert-arity kind=%s nargs=%d", kindName[kind], na)
			st, res, errs := call(e.m, e.tab["insert"], args, cpuCtx)
			c.checkRes(key, key, reftab.Res{OutOfDomain: true}, st, res, errs, rt.NilValue)
			return c.out()
		}})

	// remove: (seq, kind, key0, pos or absent)
	fams = append(fams, &core.Family{Name: "tab-remove", Size: nQ * nKinds * (nP + 1) * 2,
		Show: func(i uint64) string {
			d := dec(i, nKinds, nP+1, 2, nQ)
			s := seqStr(seqOf(A3, Q.at(d[3])))
			if d[2] == 1 {
				s += ` with [0]="z"`
			}
			if d[1] == nP {
				return fmt.Sprintf("table.remove(%s as %s)", s, kindName[d[0]])
			}
			return fmt.Sprintf("table.remove(%s as %s, %d)", s, kindName[d[0]], P[d[1]])
		},
		Run: func(i uint64) core.Outcome {
			d := dec(i, nKinds, nP+1, 2, nQ)
			seq := seqOf(A3, Q.at(d[3]))
			kind := int(d[0])
			e := getEnv()
			var c collector
			ref := reftab.FromSeq(seq)
			key := fmt.Sprintf("remove kind=%s t=%s", kindName[kind], seqStr(seq))
			if d[2] == 1 {
				ref.Set(0, lv.S("z"))
				key += " key0"
			}
			t := mkTable(e, kind, ref)
			var r reftab.Res
			args := []rt.Value{t.arg}
			if d[1] == nP {
				r = reftab.Remove(ref, false, 0)
			} else {
				r = reftab.Remove(ref, true, P[d[1]])
				args = append(args, iv(P[d[1]]))
				key += fmt.Sprintf(" pos=%d", P[d[1]])
			}
			st, res, errs := call(e.m, e.tab["remove"], args, cpuCtx)
			if c.checkRes(key, key, r, st, res, errs, rt.NilValue) {
				c.checkContents(key, key, t, ref)
			}
			return c.out()
		}})

	// move: (seq, kind, dest, f, e) with every t inside.  Sequences may
	// contain holes (no length is involved).
	A4 := []lv.V{lv.I(1), lv.I(2), lv.S("x"), lv.NilV}
	QH := seqSet{4, maxLen}
	nQH := QH.size()
	const (
		dImplicit = iota
		dExplicitSame
		dOther
		nDest
	)
	destName := []string{"", "same", "other"}
	fams = append(fams, &core.Family{Name: "tab-move", Size: nQH * nKinds * nDest * nP * nP, BudgetSeconds: budget(tier, 40, 150),
		Show: func(i uint64) string {
			d := dec(i, nKinds, nDest, nP, nP, nQH)
			s := seqStr(seqOf(A4, QH.at(d[4])))
			return fmt.Sprintf("table.move(%s as %s, %d, %d, t [, %s]) for every t of the position set (other = {\"p\",\"q\"} of the same kind)",
				s, kindName[d[0]], P[d[2]], P[d[3]], []string{"<absent>", "the same table", "other"}[d[1]])
		},
		Run: func(i uint64) core.Outcome {
			d := dec(i, nKinds, nDest, nP, nP, nQH)
			seq := seqOf(A4, QH.at(d[4]))
			kind, dest, f, en := int(d[0]), int(d[1]), P[d[2]], P[d[3]]
			e := getEnv()
			var c collector
			for _, tp := range P {
				e.m.Trace = e.m.Trace[:0]
				ref1 := reftab.FromSeq(seq)
				ref2 := ref1
				t1 := mkTable(e, kind, ref1)
				t2 := t1
				args := []rt.Value{t1.arg, iv(f), iv(en), iv(tp)}
				key := fmt.Sprintf("move kind=%s t=%s f=%d e=%d t=%d", kindName[kind], seqStr(seq), f, en, tp)
				switch dest {
				case dExplicitSame:
					args = append(args, t1.arg)
				case dOther:
					ref2 = reftab.FromSeq([]lv.V{lv.S("p"), lv.S("q")})
					t2 = mkTable(e, kind, ref2)
					args = append(args, t2.arg)
				}
				if dest != dImplicit {
					key += " dest=" + destName[dest]
				}
				r := reftab.Move(ref1, f, en, tp, ref2, 64)
				st, res, errs := call(e.m, e.tab["move"], args, ctxFor(r))
				if c.checkRes(key, key, r, st, res, errs, t2.arg) {
					c.checkContents(key, key+" (source)", t1, ref1)
					if dest == dOther {
						c.checkContents(key+" dest-table", key+" (destination)", t2, ref2)
					}
				}
			}
			return c.out()
		}})

	// concat: (seq over {1,2,"x",true}, kind, sep) with every range inside
	AC := []lv.V{lv.I(1), lv.I(2), lv.S("x"), vTrue}
	QC := seqSet{4, maxLen}
	nQC := QC.size()
	csep := []string{"", ", ", "\x00"}
	fams = append(fams, &core.Family{Name: "tab-concat", Size: nQC * nKinds * uint64(len(csep)),
		Show: func(i uint64) string {
			d := dec(i, nKinds, uint64(len(csep)), nQC)
			return fmt.Sprintf("table.concat(%s as %s [, %q [, i [, j]]]) for absent arguments and all i, j of the position set", seqStr(seqOf(AC, QC.at(d[2]))), kindName[d[0]], csep[d[1]])
		},
		Run: func(i uint64) core.Outcome {
			d := dec(i, nKinds, uint64(len(csep)), nQC)
			seq := seqOf(AC, QC.at(d[2]))
			kind, sep := int(d[0]), csep[d[1]]
			e := getEnv()
			var c collector
			ref := reftab.FromSeq(seq)
			t := mkTable(e, kind, ref)
			base := fmt.Sprintf("concat kind=%s t=%s", kindName[kind], seqStr(seq))
			one := func(key string, r reftab.Res, args ...rt.Value) {
				e.m.Trace = e.m.Trace[:0]
				st, res, errs := call(e.m, e.tab["concat"], append([]rt.Value{t.arg}, args...), cpuCtx)
				c.checkRes(key, key, r, st, res, errs, rt.NilValue)
			}
			if sep == "" {
				one(base, reftab.Concat(ref, "", false, 0, false, 0))
			}
			ks := fmt.Sprintf("%s sep=%q", base, sep)
			one(ks, reftab.Concat(ref, sep, false, 0, false, 0), sv(sep))
			for _, p := range P {
				one(fmt.Sprintf("%s i=%d", ks, p), reftab.Concat(ref, sep, true, p, false, 0), sv(sep), iv(p))
				for _, q := range P {
					one(fmt.Sprintf("%s i=%d j=%d", ks, p, q), reftab.Concat(ref, sep, true, p, true, q), sv(sep), iv(p), iv(q))
				}
			}
			// concat must not modify the table
			c.checkContents(base, base, t, ref)
			return c.out()
		}})

	// unpack: (seq with holes, kind) with every range inside
	fams = append(fams, &core.Family{Name: "tab-unpack", Size: nQH * nKinds,
		Show: func(i uint64) string {
			d := dec(i, nKinds, nQH)
			return fmt.Sprintf("table.unpack(%s as %s [, i [, j]]) for absent arguments and all i, j of the position set", seqStr(seqOf(A4, QH.at(d[1]))), kindName[d[0]])
		},
		Run: func(i uint64) core.Outcome {
			d := dec(i, nKinds, nQH)
			seq := seqOf(A4, QH.at(d[1]))
			kind := int(d[0])
			e := getEnv()
			var c collector
			ref := reftab.FromSeq(seq)
			t := mkTable(e, kind, ref)
			base := fmt.Sprintf("unpack kind=%s t=%s", kindName[kind], seqStr(seq))
			one := func(key string, r reftab.Res, args ...rt.Value) {
				e.m.Trace = e.m.Trace[:0]
				st, res, errs := call(e.m, e.tab["unpack"], append([]rt.Value{t.arg}, args...), cpuMemCtx)
				c.checkRes(key, key, r, st, res, errs, rt.NilValue)
			}
			one(base, reftab.Unpack(ref, false, 0, false, 0, 64))
			for _, p := range P {
				one(fmt.Sprintf("%s i=%d", base, p), reftab.Unpack(ref, true, p, false, 0, 64), iv(p))
				for _, q := range P {
					one(fmt.Sprintf("%s i=%d j=%d", base, p, q), reftab.Unpack(ref, true, p, true, q, 64), iv(p), iv(q))
				}
			}
			c.checkContents(base, base, t, ref)
			return c.out()
		}})

	// unpack of very many values: an error (or a killed context), or the right
	// values; never a crash.
	bigJ := []int64{200, 255, 256, 1000, 100000, 1e7, 1 << 31, 1 << 32, math.MaxInt64}
	fams = append(fams, &core.Family{Name: "tab-unpack-big", Size: uint64(len(bigJ)) * nKinds * 2, HangSeconds: 60,
		Show: func(i uint64) string {
			d := dec(i, nKinds, 2, uint64(len(bigJ)))
			return fmt.Sprintf("table.unpack(%s as %s, %d, %d) under cpu=1e7 memory=64M limits", []string{"{}", "{1,2}"}[d[1]], kindName[d[0]], []int64{1, math.MinInt64}[d[1]], bigJ[d[2]])
		},
		Run: func(i uint64) core.Outcome {
			d := dec(i, nKinds, 2, uint64(len(bigJ)))
			kind := int(d[0])
			e := getEnv()
			var c collector
			seq := [][]lv.V{nil, {lv.I(1), lv.I(2)}}[d[1]]
			from := []int64{1, math.MinInt64}[d[1]]
			ref := reftab.FromSeq(seq)
			t := mkTable(e, kind, ref)
			key := fmt.Sprintf("unpack kind=%s t=%s i=%d j=%d", kindName[kind], seqStr(seq), from, bigJ[d[2]])
			st, res, errs := call(e.m, e.tab["unpack"], []rt.Value{t.arg, iv(from), iv(bigJ[d[2]])}, cpuMemCtx)
			c.sig.WriteString(st)
			switch st {
			case "err", "killed":
			case "ok":
				r := reftab.Unpack(ref, true, from, true, bigJ[d[2]], 1<<25)
				if r.Infeasible || len(res) != len(r.Rets) {
					c.bad(key+" clause=result", fmt.Sprintf("%s: returned %d values", key, len(res)))
				} else {
					for k := range res {
						if canon1(res[k]) != r.Rets[k].Canon() {
							c.bad(key+" clause=result", fmt.Sprintf("%s: value %d is %s, expected %s", key, k+1, canon1(res[k]), r.Rets[k].Canon()))
							break
						}
					}
				}
			default:
				c.bad(key+" clause=gopanic", fmt.Sprintf("%s: %s %s", key, st, errs))
			}
			return c.out()
		}})

	// pack: all argument tuples over {1,"x",nil}
	AP := []lv.V{lv.I(1), lv.S("x"), lv.NilV}
	QP := seqSet{3, maxLen + 1}
	fams = append(fams, &core.Family{Name: "tab-pack", Size: QP.size(),
		Show: func(i uint64) string { return "table.pack" + canonLV(seqOf(AP, QP.at(i))) },
		Run: func(i uint64) core.Outcome {
			args := seqOf(AP, QP.at(i))
			e := getEnv()
			var c collector
			var ra []rt.Value
			for _, a := range args {
				ra = append(ra, toRT(a))
			}
			key := "pack args=" + canonLV(args)
			st, res, errs := call(e.m, e.tab["pack"], ra, cpuCtx)
			c.sig.WriteString(obsStr(st, nil, errs))
			tbl, isT := (*rt.Table)(nil), false
			if st == "ok" && len(res) == 1 {
				tbl, isT = res[0].TryTable()
			}
			if !isT {
				c.bad(key+" clause=result", fmt.Sprintf("%s: expected one table, observed %s", key, obsStr(st, res, errs)))
				return c.out()
			}
			rt_, n := reftab.Pack(args)
			exp := rt_.Dump()
			if exp != "" {
				exp += ","
			}
			exp += `s:"n"=` + lv.I(n).Canon()
			got := dumpTable(tbl)
			c.sig.WriteString(got)
			if got != exp {
				c.bad(key+" clause=contents", fmt.Sprintf("%s: expected {%s}, observed {%s}", key, exp, got))
			}
			if tbl.Metatable() != nil {
				c.bad(key+" clause=metatable", key+": the new table has a metatable")
			}
			return c.out()
		}})
	return fams
}

// ---------------------------------------------------------------- sort

type cmpMode struct {
	name  string
	k     int64
	valid bool                  // a strict weak order: result must be ordered, no error
	less  func(a, b int64) bool // the order (for valid modes, raise and yield)
}

func ltI(a, b int64) bool { return a < b }
func floorDiv2(a int64) int64 {
	if a >= 0 {
		return a / 2
	}
	return -((-a + 1) / 2)
}

var cmpModes = []cmpMode{
	{"default", 0, true, ltI},
	{"lt", 0, true, ltI},
	{"gt", 0, true, func(a, b int64) bool { return a > b }},
	{"key", 0, true, func(a, b int64) bool { return floorDiv2(a) < floorDiv2(b) }},
	{"false", 0, true, func(a, b int64) bool { return false }},
	{"true", 0, false, nil},
	{"alt", 0, false, nil},
	{"le", 0, false, nil},
	{"raise", 1, false, ltI},
	{"raise", 2, false, ltI},
	{"raise", 4, false, ltI},
	{"raise", 7, false, ltI},
	{"yield", 1, false, ltI},
	{"yield", 3, false, ltI},
}

func (m cmpMode) String() string {
	if m.k != 0 {
		return fmt.Sprintf("%s%d", m.name, m.k)
	}
	return m.name
}

func intSeqStr(xs []int64) string {
	ss := make([]string, len(xs))
	for i, x := range xs {
		ss[i] = strconv.FormatInt(x, 10)
	}
	return "{" + strings.Join(ss, ",") + "}"
}

// readSeq reads keys 1..n of the backing table; ok=false if the table does
// not hold exactly the integer keys 1..n with integer values.
func readSeq(t *rt.Table, n int) ([]int64, bool) {
	ks, vs := rawEntries(t)
	if len(ks) != n {
		return nil, false
	}
	out := make([]int64, n)
	seen := make([]bool, n)
	for i, k := range ks {
		p, isInt := k.TryInt()
		x, isIntV := vs[i].TryInt()
		if !isInt || !isIntV || p < 1 || p > int64(n) || seen[p-1] {
			return nil, false
		}
		seen[p-1] = true
		out[p-1] = x
	}
	return out, true
}

func sameMultiset(a, b []int64) bool {
	if len(a) != len(b) {
		return false
	}
	x := append([]int64{}, a...)
	y := append([]int64{}, b...)
	sort.Slice(x, func(i, j int) bool { return x[i] < x[j] })
	sort.Slice(y, func(i, j int) bool { return y[i] < y[j] })
	for i := range x {
		if x[i] != y[i] {
			return false
		}
	}
	return true
}

// "after the sort, i <= j implies not comp(list[j],list[i])"
func ordered(xs []int64, less func(a, b int64) bool) bool {
	for i := range xs {
		for j := i; j < len(xs); j++ {
			if less(xs[j], xs[i]) {
				return false
			}
		}
	}
	return true
}

// sortOne runs table.sort on a fresh table holding input under one mode and
// checks the sort oracle.
func (c *collector) sortOne(e *env, kind int, input []int64, m cmpMode, label string) {
	e.m.Trace = e.m.Trace[:0]
	ref := reftab.T{}
	for i, x := range input {
		ref.Set(int64(i+1), lv.I(x))
	}
	t := mkTable(e, kind, ref)
	if label == "" {
		label = intSeqStr(input)
	}
	key := fmt.Sprintf("sort cmp=%s kind=%s t=%s", m, kindName[kind], label)
	st, res, errs := call(e.m, e.dosort, []rt.Value{t.arg, sv(m.name), iv(m.k)}, cpuCtx)
	got := obsStr(st, res, errs)
	c.sig.WriteString(got)
	c.sig.WriteByte(';')
	if st != "ok" || len(res) != 3 {
		cl := "terminates"
		if st != "killed" {
			cl = "crash"
		}
		c.bad(key+" clause="+cl, fmt.Sprintf("%s: table.sort did not end normally within 10M cpu units: %s", key, got))
		return
	}
	okv := rt.Truth(res[0])
	errv := canon1(res[1])
	calls, _ := res[2].TryInt()
	final, isSeq := readSeq(t.backing, len(input))
	if !isSeq || !sameMultiset(final, input) {
		c.bad(key+" clause=permutation", fmt.Sprintf("%s: after the sort (%s) the table holds {%s}, not a permutation of the input", key, got, dumpTable(t.backing)))
		return
	}
	c.sig.WriteString(intSeqStr(final))
	if t.proxy != nil {
		if p := dumpTable(t.proxy); p != "" {
			c.bad(key+" clause=proxy-raw", fmt.Sprintf("%s: the proxy table itself was written raw: {%s}", key, p))
		}
	}
	switch {
	case m.valid:
		if !okv {
			c.bad(key+" clause=spurious-error", fmt.Sprintf("%s: error %s with a consistent order function", key, errv))
		} else if !ordered(final, m.less) {
			c.bad(key+" clause=ordered", fmt.Sprintf("%s: result %s is not ordered by the comparison", key, intSeqStr(final)))
		}
	case m.name == "raise":
		if !okv {
			if errv != `s:"boom"` {
				c.bad(key+" clause=error-value", fmt.Sprintf("%s: the comparison raised \"boom\", the sort raised %s", key, errv))
			}
		} else if calls >= m.k {
			c.bad(key+" clause=error-lost", fmt.Sprintf("%s: the comparison raised an error on call %d of %d but table.sort returned normally", key, m.k, calls))
		} else if !ordered(final, m.less) {
			c.bad(key+" clause=ordered", fmt.Sprintf("%s: result %s is not ordered by the comparison", key, intSeqStr(final)))
		}
	case m.name == "yield":
		// yielding from the comparison may be refused (error) or supported
		if okv && !ordered(final, m.less) {
			c.bad(key+" clause=ordered", fmt.Sprintf("%s: result %s is not ordered by the comparison", key, intSeqStr(final)))
		}
	}
}

// multiSeqs enumerates, for n = 0..maxN, all sequences of length n over
// {1..alpha(n)}: every arrangement of every multiset.
type multiSeqs struct {
	offs  []uint64
	alpha []uint64
}

func newMultiSeqs(maxN int, alpha func(n int) uint64) multiSeqs {
	ms := multiSeqs{offs: []uint64{0}}
	for n := 0; n <= maxN; n++ {
		a := alpha(n)
		cnt := uint64(1)
		for j := 0; j < n; j++ {
			cnt *= a
		}
		ms.alpha = append(ms.alpha, a)
		ms.offs = append(ms.offs, ms.offs[n]+cnt)
	}
	return ms
}

func (ms multiSeqs) size() uint64 { return ms.offs[len(ms.offs)-1] }

func (ms multiSeqs) at(i uint64) []int64 {
	for n := 0; n+1 < len(ms.offs); n++ {
		if i < ms.offs[n+1] {
			i -= ms.offs[n]
			out := make([]int64, n)
			for j := n - 1; j >= 0; j-- {
				out[j] = int64(i%ms.alpha[n]) + 1
				i /= ms.alpha[n]
			}
			return out
		}
	}
	panic("multiSeqs index")
}

// structured inputs for lengths beyond the insertion-sort threshold
var patNames = []string{"ascending", "descending", "equal", "organ-pipe", "sawtooth3", "two-values", "shuffled-lcg", "ascending-one-out"}

func pattern(p, n int) []int64 {
	out := make([]int64, n)
	x := uint64(12345)
	for i := range out {
		switch p {
		case 0:
			out[i] = int64(i)
		case 1:
			out[i] = int64(n - i)
		case 2:
			out[i] = 5
		case 3:
			if i < n/2 {
				out[i] = int64(i)
			} else {
				out[i] = int64(n - i)
			}
		case 4:
			out[i] = int64(i % 3)
		case 5:
			out[i] = int64((i * 7 / 3) % 2)
		case 6:
			x = x*6364136223846793005 + 1442695040888963407
			out[i] = int64(x >> 58)
		case 7:
			out[i] = int64(i)
			if i == n-1 {
				out[i] = 0
			}
		}
	}
	return out
}

func sortFamilies(tier string) []*core.Family {
	var fams []*core.Family
	maxN := 6
	if tier == "thorough" {
		maxN = 8
	}
	ms := newMultiSeqs(maxN, func(n int) uint64 {
		if n >= 8 {
			return 4
		}
		if n == 0 {
			return 1
		}
		return uint64(n)
	})
	fams = append(fams, &core.Family{Name: "sort-small", Size: ms.size() * nKinds, BudgetSeconds: budget(tier, 40, 500),
		Show: func(i uint64) string {
			return fmt.Sprintf("table.sort(%s as %s [, cmp]) for cmp in default,lt,gt,key(a//2),false,true,alternating,le,raise@1/2/4/7,yield@1/3", intSeqStr(ms.at(i/nKinds)), kindName[i%nKinds])
		},
		Run: func(i uint64) core.Outcome {
			input, kind := ms.at(i/nKinds), int(i%nKinds)
			e := getEnv()
			var c collector
			for _, m := range cmpModes {
				c.sortOne(e, kind, input, m, "")
			}
			return c.out()
		}})

	// all 0/1 sequences of lengths above Go's insertion-sort threshold
	lo, hi := 13, 14
	if tier == "thorough" {
		hi = 16
	}
	var boffs []uint64
	tot := uint64(0)
	for n := lo; n <= hi; n++ {
		boffs = append(boffs, tot)
		tot += 1 << uint(n)
	}
	binAt := func(i uint64) []int64 {
		for k := len(boffs) - 1; k >= 0; k-- {
			if i >= boffs[k] {
				n := lo + k
				i -= boffs[k]
				out := make([]int64, n)
				for j := 0; j < n; j++ {
					out[j] = int64(i>>uint(n-1-j)) & 1
				}
				return out
			}
		}
		panic("binAt")
	}
	longModes := []cmpMode{cmpModes[0], cmpModes[2], cmpModes[4], cmpModes[5], cmpModes[6], cmpModes[7], {"raise", 20, false, ltI}, {"yield", 5, false, ltI}}
	fams = append(fams, &core.Family{Name: "sort-binary", Size: tot * 2, BudgetSeconds: budget(tier, 30, 150),
		Show: func(i uint64) string {
			return fmt.Sprintf("table.sort(%s as %s [, cmp]) for cmp in default,gt,false,true,alternating,le,raise@20,yield@5", intSeqStr(binAt(i/2)), kindName[i%2])
		},
		Run: func(i uint64) core.Outcome {
			input, kind := binAt(i/2), int(i%2)
			e := getEnv()
			var c collector
			for _, m := range longModes {
				c.sortOne(e, kind, input, m, "")
			}
			return c.out()
		}})

	maxLen := uint64(100)
	if tier == "thorough" {
		maxLen = 300
	}
	nPat := uint64(len(patNames))
	patModes := append(append([]cmpMode{}, cmpModes[:8]...), cmpMode{"raise", 50, false, ltI}, cmpMode{"yield", 7, false, ltI})
	fams = append(fams, &core.Family{Name: "sort-patterns", Size: maxLen * nPat * nKinds, BudgetSeconds: budget(tier, 30, 120),
		Show: func(i uint64) string {
			d := dec(i, nKinds, nPat, maxLen)
			return fmt.Sprintf("table.sort on the %s input of length %d as %s, all comparison modes", patNames[d[1]], d[2]+9, kindName[d[0]])
		},
		Run: func(i uint64) core.Outcome {
			d := dec(i, nKinds, nPat, maxLen)
			input := pattern(int(d[1]), int(d[2])+9)
			e := getEnv()
			var c collector
			for _, m := range patModes {
				c.sortOne(e, int(d[0]), input, m, fmt.Sprintf("%s#%d", patNames[d[1]], len(input)))
			}
			return c.out()
		}})

	// mixed incomparable elements: default sort must raise an error
	A3 := []lv.V{lv.I(1), lv.I(2), lv.S("x")}
	ml := 4
	if tier == "thorough" {
		ml = 6
	}
	Q := seqSet{3, ml}
	fams = append(fams, &core.Family{Name: "sort-mixed", Size: Q.size() * nKinds,
		Show: func(i uint64) string {
			return fmt.Sprintf("table.sort(%s as %s): numbers and strings are not comparable", seqStr(seqOf(A3, Q.at(i/nKinds))), kindName[i%nKinds])
		},
		Run: func(i uint64) core.Outcome {
			seq, kind := seqOf(A3, Q.at(i/nKinds)), int(i%nKinds)
			e := getEnv()
			var c collector
			ref := reftab.FromSeq(seq)
			t := mkTable(e, kind, ref)
			key := fmt.Sprintf("sort cmp=default kind=%s t=%s", kindName[kind], seqStr(seq))
			st, res, errs := call(e.m, e.dosort, []rt.Value{t.arg, sv("default"), iv(0)}, cpuCtx)
			got := obsStr(st, res, errs)
			c.sig.WriteString(got)
			if st != "ok" || len(res) != 3 {
				c.bad(key+" clause=terminates", fmt.Sprintf("%s: %s", key, got))
				return c.out()
			}
			// final contents: a permutation of the input
			var fin []string
			for k := 1; k <= len(seq); k++ {
				fin = append(fin, canon1(t.backing.Get(rt.IntValue(int64(k)))))
			}
			var inp []string
			nums, strs := 0, 0
			for _, v := range seq {
				inp = append(inp, v.Canon())
				if v.K == lv.Int {
					nums++
				} else {
					strs++
				}
			}
			finS := "{" + strings.Join(fin, ",") + "}"
			sort.Strings(fin)
			sort.Strings(inp)
			cnt := strings.Count(dumpTable(t.backing), "=")
			if strings.Join(fin, ",") != strings.Join(inp, ",") || cnt != len(seq) {
				c.bad(key+" clause=permutation", fmt.Sprintf("%s: after the sort (%s) the table holds {%s}", key, got, dumpTable(t.backing)))
				return c.out()
			}
			c.sig.WriteString(finS)
			okv := rt.Truth(res[0])
			if nums > 0 && strs > 0 {
				if okv {
					c.bad(key+" clause=error", fmt.Sprintf("%s: comparing a number with a string must raise an error; the sort returned normally with %s", key, finS))
				}
			} else if !okv {
				c.bad(key+" clause=spurious-error", fmt.Sprintf("%s: %s", key, got))
			} else if strs == 0 {
				var xs []int64
				for k := 1; k <= len(seq); k++ {
					x, _ := t.backing.Get(rt.IntValue(int64(k))).TryInt()
					xs = append(xs, x)
				}
				if !ordered(xs, ltI) {
					c.bad(key+" clause=ordered", fmt.Sprintf("%s: result %s", key, finS))
				}
			}
			return c.out()
		}})
	return fams
}

// budget is the wall-clock cap of a large family (seconds).  On 16 idle cores
// every family finishes well inside it (see NOTES.md); the cap only matters on
// a loaded machine, where the run is then reported as not exhaustive instead
// of overrunning the tier budget.
func budget(tier string, quick, thorough int) int {
	if os.Getenv("C19_NOBUDGET") != "" {
		return 0 // development: measure the full families on a loaded machine
	}
	if tier == "thorough" {
		return thorough
	}
	return quick
}

func families(tier string) []*core.Family {
	var fams []*core.Family
	fams = append(fams, strFamilies(tier)...)
	fams = append(fams, findMagicFamily(tier), floatArgsFamily())
	fams = append(fams, tabFamilies(tier)...)
	fams = append(fams, edgeFamilies(tier)...)
	fams = append(fams, sortFamilies(tier)...)
	return fams
}

func main() {
	core.Main(&core.Check{
		ID:    "C19",
		Level: "model_checking",
		Rule: "string.sub/byte/char/rep/reverse/upper/lower/len/find(plain and magic-free patterns) over every string up to the length bound over a small byte alphabet x every position (pair) of {mininteger, -len-2..len+2, maxinteger}, plain find also over needles made of magic characters, upper/lower over every 1-byte (thorough: 2-byte) string; " +
			"table.insert/remove/move/concat/unpack/pack over every sequence up to the length bound x the same positions, on a plain table and on two proxy tables (function and table valued __index/__newindex, __len), move/unpack/concat also over ranges touching mininteger/maxinteger on a table with elements there; " +
			"table.sort over every arrangement of every small multiset x 14 comparison modes (valid orders, inconsistent, raising, yielding), all 0/1 sequences of length 13.., structured inputs up to a few hundred elements. Each case is compared with refstr19/reftab (written from the manual); every table call runs under a CPU limit. " +
			"non-trivial = every case; distinct = distinct observed result vectors",
		Assumptions: []string{
			"reference: refstr19 and reftab (plain Go, from manual §6.4 and §6.6); the locale is the C locale (golua's os.setlocale only accepts \"C\"); upper/lower of a string containing a well-formed multi-byte UTF-8 sequence is treated as locale dependent and not compared",
			"calls the manual does not define (insert/remove position outside the stated range, move whose element count or destination does not fit an integer, wrong argument counts) may raise an error or return anything but must end; calls whose defined result is too large to build (rep, unpack, move of more than 64 elements) may fail or be killed by the CPU limit",
			"the number and order of metamethod accesses on proxy tables is not compared, only results and final contents",
			"with an inconsistent comparison function table.sort may raise an error or leave any permutation, but must end within the CPU limit with all elements present",
			"final table contents are read through the verif hook Table.VerifLayout, not through next (C03's subject)",
			"one case (string.rep(\"\", maxinteger, \"\")) uses a 5 s wall-clock guard because a loop that charges no CPU cannot be ended by the CPU limit",
		},
		Families: families,
		// the live heap of a worker is tiny; with the default GOGC the collector
		// would run every few MB of garbage and dominate the run time.
		Init: func(string) { debug.SetGCPercent(2000) },
	})
}
