// mkoverlay writes instrumented copies of golua's concurrency-bearing files
// (from the current /repo working tree) plus overlay.json into -out.
package main

import (
	"flag"
	"fmt"
	"os"

	"verif/engine/rewrite"
)

func main() {
	repo := flag.String("repo", "/repo", "golua checkout")
	out := flag.String("out", "", "output directory")
	vs := flag.String("vsched", "", "directory of the vsched sources")
	pools := flag.Bool("pools", false, "also drive the luagc pool mutexes (C18); otherwise they keep sync.Mutex, which is sound only while the finaliser seam keeps Go's finaliser goroutine out of the pools")
	globals := flag.Bool("globals", false, "mark package-level variable accesses in runtime/ and lib/*, GoFunction methods and Go-function call boundaries (C20)")
	flag.Parse()
	if *out == "" || *vs == "" {
		fmt.Fprintln(os.Stderr, "usage: mkoverlay -out DIR -vsched DIR [-repo /repo]")
		os.Exit(2)
	}
	opt := rewrite.Default(*repo, *vs, *out)
	if !*pools {
		opt.AllowSync = []string{"runtime/internal/luagc/clonepool.go", "runtime/internal/luagc/unsafepool.go"}
		opt.SyncFiles = []string{"runtime/thread.go", "lib/base/collectgarbage.go"}
	}
	if *globals {
		opt.GoFunctionMarks = true
		opt.GlobalPkgs = []string{"runtime"}
		ents, _ := os.ReadDir(*repo + "/lib")
		for _, e := range ents {
			if e.IsDir() && e.Name() != "golib" {
				opt.GlobalPkgs = append(opt.GlobalPkgs, "lib/"+e.Name())
			}
		}
		opt.GlobalPkgs = append(opt.GlobalPkgs, "lib")
	}
	p, sum, err := rewrite.Generate(opt)
	if err != nil {
		fmt.Fprintln(os.Stderr, "mkoverlay:", err)
		os.Exit(2)
	}
	for _, s := range sum {
		fmt.Println("  rewrite:", s)
	}
	fmt.Println(p)
}
