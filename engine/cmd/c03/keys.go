package main

// The key alphabet of C03.  Every key has a ROLE name that is the same in
// every process; the concrete golua value behind some roles is chosen per
// process (Go's hash seed is random per process, see DESIGN §1.5).
//
// Fixed roles:   i<n> integer n, f<x> float x (f2 is 2.0), s:<text> string,
//                true/false, fnan.
// Chosen roles:  <kind><hh><v>   hh = the low 6 bits of Value.Hash() (two
//                decimal digits), v = a,b,c... (1st, 2nd, ... candidate).
//                Two chosen keys share a primary slot in a hash part of 16 /
//                32 / 64 slots iff their hh agree mod 16 / 32 / 64.
//   kind S short string (<= 7 bytes, scalar hashed)   L long string (> 7 bytes)
//        N negative integer   P positive integer >= 1000   D non integral float
//        T table   G Go function   X closure of another prototype x, no upvalues (all X "may be equal")
//        C closure of prototype c, no upvalues (all C are "may be equal", §3.4.4)
//        U closure of prototype u sharing ONE upvalue cell (all U "may be equal")
//        W closure of prototype w, each with its own mutable upvalue (all distinct)

import (
	"fmt"
	"math"
	"strconv"
	"strings"
	"sync"

	rt "github.com/arnodel/golua/runtime"

	"verif/engine/host"
	"verif/engine/reftable"
)

type AKey struct {
	Role string
	V    rt.Value
	R    reftable.Key // un-normalised reference value
	Lua  string       // Lua expression denoting the value ("" = none)
}

type universe struct {
	mu      sync.Mutex
	m       *host.Machine
	byRole  map[string]*AKey
	ints    map[int64]string
	floats  map[uint64]string
	strs    map[string]string
	refs    map[interface{}]string
	refKey  map[interface{}]reftable.Key
	nextID  int
	code0   *rt.Code // prototype c
	codeX   *rt.Code
	mkU     rt.Value
	mkW     rt.Value
	freeEq  map[byte]bool // kind C/U/X: golua says closures of that kind are equal
	cands   map[byte]int  // next candidate number per kind
	pending map[string][]rt.Value
}

var U = &universe{}
var uOnce sync.Once

func uni() *universe {
	uOnce.Do(func() { U.init() })
	return U
}

func (u *universe) init() {
	u.byRole = map[string]*AKey{}
	u.ints = map[int64]string{}
	u.floats = map[uint64]string{}
	u.strs = map[string]string{}
	u.refs = map[interface{}]string{}
	u.refKey = map[interface{}]reftable.Key{}
	u.cands = map[byte]int{}
	u.pending = map[string][]rt.Value{}
	u.nextID = 100
	u.m = host.NewMachine(false)
	r := u.m.R
	th := r.MainThread()
	load := func(src string) rt.Value {
		c, err := r.CompileAndLoadLuaChunk("uni", []byte(src), rt.TableValue(r.GlobalEnv()))
		if err != nil {
			panic(err)
		}
		v, err := rt.Call1(th, rt.FunctionValue(c))
		if err != nil {
			panic(err)
		}
		return v
	}
	u.code0 = load(`return function() end`).AsClosure().Code
	u.codeX = load(`return function() return 1 end`).AsClosure().Code
	u.mkU = load(`local x = 0; return function() return function() return x end end`)
	u.mkW = load(`return function() local n = 0; return function() n = n + 1; return n end end`)
	// What does golua say about the "may be equal" closures?  Either answer is
	// allowed by §3.4.4; table-key equality has to agree with it.
	u.freeEq = map[byte]bool{}
	for _, kind := range []byte{'C', 'U', 'X'} {
		a, b := u.fresh(kind), u.fresh(kind)
		u.freeEq[kind], _ = rt.RawEqual(a, b)
	}
}

// freeClass is the identity class shared by all closures of a "may be
// equal" kind when golua says they are equal.
func freeClass(kind byte) int { return int(kind) }

func fixedInt(role string) (int64, bool) {
	switch role {
	case "i2^53":
		return 1 << 53, true
	case "i2^62":
		return 1 << 62, true
	case "imax":
		return math.MaxInt64, true
	case "imin":
		return math.MinInt64, true
	}
	n, err := strconv.ParseInt(role[1:], 10, 64)
	return n, err == nil
}

func fixedFloat(role string) (float64, bool) {
	switch role {
	case "f2^53":
		return 0x1p53, true
	case "f2^62":
		return 0x1p62, true
	case "f2^63":
		return 0x1p63, true
	case "f-2^63":
		return -0x1p63, true
	case "f-0":
		return math.Copysign(0, -1), true
	case "finf":
		return math.Inf(1), true
	case "fnan":
		return math.NaN(), true
	}
	f, err := strconv.ParseFloat(role[1:], 64)
	return f, err == nil
}

func luaFloat(f float64) string {
	switch {
	case f != f:
		return "(0/0)"
	case math.IsInf(f, 1):
		return "(1/0)"
	case f == 0 && math.Signbit(f):
		return "(-0.0)"
	case f == 0x1p53:
		return "(2^53)"
	case f == 0x1p62:
		return "(2^62)"
	case f == 0x1p63:
		return "(2^63)"
	case f == -0x1p63:
		return "(-2^63)"
	}
	s := strconv.FormatFloat(f, 'f', -1, 64)
	if !strings.Contains(s, ".") {
		s += ".0"
	}
	if f < 0 {
		s = "(" + s + ")"
	}
	return s
}

// K returns the key with the given role, creating it on first use.
func (u *universe) K(role string) *AKey {
	u.mu.Lock()
	defer u.mu.Unlock()
	if k, ok := u.byRole[role]; ok {
		return k
	}
	k := u.make(role)
	u.byRole[role] = k
	switch k.R.K {
	case reftable.KInt:
		if _, dup := u.ints[k.R.I]; !dup {
			u.ints[k.R.I] = role
		}
	case reftable.KFloat:
		if _, dup := u.floats[k.R.F]; !dup {
			u.floats[k.R.F] = role
		}
	case reftable.KStr:
		u.strs[k.R.S] = role
	case reftable.KRef:
		u.refs[k.V.Interface()] = role
		u.refKey[k.V.Interface()] = k.R
	}
	return k
}

func (u *universe) make(role string) *AKey {
	switch {
	case role == "true":
		return &AKey{role, rt.BoolValue(true), reftable.Bool(true), "true"}
	case role == "false":
		return &AKey{role, rt.BoolValue(false), reftable.Bool(false), "false"}
	case strings.HasPrefix(role, "s:"):
		s := role[2:]
		return &AKey{role, rt.StringValue(s), reftable.Str(s), strconv.Quote(s)}
	case role[0] == 'i':
		n, ok := fixedInt(role)
		if !ok {
			panic("bad role " + role)
		}
		lua := strconv.FormatInt(n, 10)
		if n == math.MinInt64 {
			lua = "math.mininteger"
		} else if n < 0 {
			lua = "(" + lua + ")"
		}
		return &AKey{role, rt.IntValue(n), reftable.Int(n), lua}
	case role[0] == 'f':
		f, ok := fixedFloat(role)
		if !ok {
			panic("bad role " + role)
		}
		return &AKey{role, rt.FloatValue(f), reftable.Float(f), luaFloat(f)}
	}
	// chosen role: kind, hh, variant
	if len(role) != 4 {
		panic("bad role " + role)
	}
	kind := role[0]
	hh, err := strconv.Atoi(role[1:3])
	if err != nil || hh < 0 || hh > 63 {
		panic("bad role " + role)
	}
	// Candidates are generated in one stream per kind; a candidate that does
	// not fit the wanted hash is remembered under the role it does fit, so
	// that roles are handed out consistently (variant a = first candidate
	// with that hash, b = second...).
	want := role[:3]
	variant := int(role[3] - 'a')
	if kind == 'C' || kind == 'X' || kind == 'U' {
		// Closures that golua treats as equal also hash alike (they must, for
		// value equality and key equality to agree), so their primary slot
		// cannot be chosen: hand out instances regardless of the wanted hash.
		if a, b := u.fresh(kind), u.fresh(kind); a.Hash() == b.Hash() {
			for len(u.pending[want]) <= variant {
				u.pending[want] = append(u.pending[want], u.candidate(kind))
			}
			return u.wrap(role, kind, u.pending[want][variant])
		}
	}
	for {
		if p := u.pending[want]; len(p) > variant {
			v := p[variant]
			return u.wrap(role, kind, v)
		}
		v := u.candidate(kind)
		r := fmt.Sprintf("%c%02d", kind, v.Hash()&63)
		u.pending[r] = append(u.pending[r], v)
	}
}

func (u *universe) candidate(kind byte) rt.Value {
	n := u.cands[kind]
	u.cands[kind] = n + 1
	switch kind {
	case 'S':
		return rt.StringValue("r" + strconv.Itoa(n))
	case 'L':
		return rt.StringValue("long_role_key_" + strconv.Itoa(n))
	case 'N':
		return rt.IntValue(int64(-1000 - n))
	case 'P':
		return rt.IntValue(int64(1000 + n))
	case 'D':
		return rt.FloatValue(float64(1000+n) + 0.5)
	}
	return u.fresh(kind)
}

// fresh allocates a new object of the given kind.
func (u *universe) fresh(kind byte) rt.Value {
	r := u.m.R
	switch kind {
	case 'T':
		return rt.TableValue(rt.NewTable())
	case 'G':
		return rt.FunctionValue(rt.NewGoFunction(func(t *rt.Thread, c *rt.GoCont) (rt.Cont, error) { return c.Next(), nil }, "g", 0, false))
	case 'C':
		return rt.FunctionValue(rt.NewClosure(r, u.code0))
	case 'X':
		return rt.FunctionValue(rt.NewClosure(r, u.codeX))
	case 'U':
		v, err := rt.Call1(r.MainThread(), u.mkU)
		if err != nil {
			panic(err)
		}
		return v
	case 'W':
		v, err := rt.Call1(r.MainThread(), u.mkW)
		if err != nil {
			panic(err)
		}
		return v
	}
	panic("bad kind " + string(kind))
}

func (u *universe) wrap(role string, kind byte, v rt.Value) *AKey {
	k := &AKey{Role: role, V: v}
	switch kind {
	case 'S', 'L':
		k.R = reftable.Str(v.AsString())
	case 'N', 'P':
		k.R = reftable.Int(v.AsInt())
	case 'D':
		k.R = reftable.Float(v.AsFloat())
	case 'C', 'U', 'X':
		if u.freeEq[kind] {
			k.R = reftable.Ref(freeClass(kind))
		} else {
			u.nextID++
			k.R = reftable.Ref(u.nextID)
		}
	default:
		u.nextID++
		k.R = reftable.Ref(u.nextID)
	}
	return k
}

// mayEqual reports that the manual leaves the equality of a and b open.
func mayEqual(a, b *AKey) bool {
	if a == b || len(a.Role) != 4 || len(b.Role) != 4 {
		return false
	}
	return a.Role[0] == b.Role[0] && (a.Role[0] == 'C' || a.Role[0] == 'U' || a.Role[0] == 'X')
}

// name renders a golua value by role (process independent).
func (u *universe) name(v rt.Value) string {
	switch v.Type() {
	case rt.NilType:
		return "-"
	case rt.IntType:
		if r, ok := u.ints[v.AsInt()]; ok {
			return r
		}
		return "i" + strconv.FormatInt(v.AsInt(), 10)
	case rt.FloatType:
		if r, ok := u.floats[math.Float64bits(v.AsFloat())]; ok {
			return r
		}
		return "f" + strconv.FormatFloat(v.AsFloat(), 'g', -1, 64)
	case rt.StringType:
		if r, ok := u.strs[v.AsString()]; ok {
			return r
		}
		return "s:" + v.AsString()
	case rt.BoolType:
		if v.AsBool() {
			return "true"
		}
		return "false"
	}
	if r, ok := u.refs[v.Interface()]; ok {
		return r
	}
	return "?" + v.TypeName()
}

// refOf maps a golua value to the reference value.
func (u *universe) refOf(v rt.Value) reftable.Key {
	switch v.Type() {
	case rt.NilType:
		return reftable.Key{}
	case rt.IntType:
		return reftable.Int(v.AsInt())
	case rt.FloatType:
		return reftable.Float(v.AsFloat())
	case rt.StringType:
		return reftable.Str(v.AsString())
	case rt.BoolType:
		return reftable.Bool(v.AsBool())
	}
	if k, ok := u.refKey[v.Interface()]; ok {
		return k
	}
	return reftable.Ref(-1)
}

// refName renders a normalised reference key by role.
func (u *universe) refName(k reftable.Key) string {
	switch k.K {
	case reftable.KInt:
		if r, ok := u.ints[k.I]; ok {
			return r
		}
		return "i" + strconv.FormatInt(k.I, 10)
	case reftable.KFloat:
		if r, ok := u.floats[k.F]; ok {
			return r
		}
		return "f" + strconv.FormatFloat(k.Fl(), 'g', -1, 64)
	case reftable.KStr:
		if r, ok := u.strs[k.S]; ok {
			return r
		}
		return "s:" + k.S
	case reftable.KBool:
		return strconv.FormatBool(k.B)
	case reftable.KRef:
		for _, kind := range []byte{'C', 'U', 'X'} {
			if k.ID == freeClass(kind) && u.freeEq[kind] {
				return string(kind) + "(any)"
			}
		}
		for p, rk := range u.refKey {
			if rk == k {
				return u.refs[p]
			}
		}
	}
	return k.String()
}

func valOf(v int) rt.Value {
	if v == 0 {
		return rt.NilValue
	}
	return rt.IntValue(int64(v))
}

func valName(v int) string {
	if v == 0 {
		return "nil"
	}
	return strconv.Itoa(v)
}

// refVal maps a golua table value to the reference value (-1 = not one of ours).
func refVal(v rt.Value) int {
	if v.IsNil() {
		return 0
	}
	if n, ok := v.TryInt(); ok && n >= 1 && n <= 9 {
		return int(n)
	}
	return -1
}

// The probe alphabet: every state's Get oracle runs over all of these.
var fixedRoles = []string{
	"i0", "i-1", "i1", "i2", "i3", "i4", "i5", "i6", "i7", "i8", "i9", "i10",
	"i16", "i17", "i18", "i32", "i33", "i34", "i2^53", "i2^62", "imax", "imin",
	"f0", "f-0", "f-1", "f1", "f2", "f3", "f4", "f5", "f8", "f9", "f10", "f16", "f17", "f33", "f34",
	"f2^53", "f2^62", "f2^63", "f-2^63", "f1.5", "f0.5", "finf", "fnan",
	"s:", "s:a", "s:x", "s:1", "s:abcdefg", "s:abcdefgh", "s:longkey_2",
	"true", "false",
}
