// C03 — tables behave as a map with normalised keys, a valid border and safe
// traversal.  Explicit-state search over operation histories of the real
// *runtime.Table (Go API) and of Lua programs, in lock step with the reference
// model verif/engine/reftable.  See NOTES.md.
package main

import (
	"flag"
	"fmt"
	"os"
	"path/filepath"
	"runtime/debug"
	"strconv"
	"strings"
	"time"

	"verif/engine/core"
)

func isWorker() bool {
	f := flag.Lookup("worker")
	return f != nil && f.Value.String() == "true"
}

func globalDeadline() time.Time {
	if f := flag.Lookup("deadline"); f != nil {
		if n, err := strconv.ParseInt(f.Value.String(), 10, 64); err == nil && n > 0 {
			return time.Unix(n, 0)
		}
	}
	return time.Now().Add(24 * time.Hour)
}

// singleCase reports that the binary runs one case in process (-case or
// -replay): core re-runs the case of a new violation three times that way, so
// the sub-search is given a short time cap there (shallow violations, i.e.
// nearly all shrunk histories, are reached within seconds).
func singleCase() bool {
	for _, n := range []string{"case", "replay"} {
		if f := flag.Lookup(n); f != nil && f.Value.String() != "" {
			return true
		}
	}
	return false
}

// caseCapFor returns the wall cap of one sub-search.
func caseCapFor(tier string) time.Duration {
	s := 50
	if tier == "thorough" {
		s = 300
	}
	if singleCase() {
		s = 5
	}
	return time.Duration(scaleBudget(s)) * time.Second
}

func truncDir() string { return filepath.Join(core.Root(), ".bin", "c03.trunc") }

// noteTruncated records that a sub-search stopped before its depth bound.
func noteTruncated(fam string, idx uint64, depthDone int) {
	os.MkdirAll(truncDir(), 0755)
	f, err := os.OpenFile(filepath.Join(truncDir(), fmt.Sprintf("%d", os.Getpid())), os.O_APPEND|os.O_CREATE|os.O_WRONLY, 0644)
	if err == nil {
		fmt.Fprintf(f, "%s:%d depth_completed=%d\n", fam, idx, depthDone)
		f.Close()
	}
}

func countTruncated() int {
	n := 0
	es, _ := os.ReadDir(truncDir())
	for _, e := range es {
		b, _ := os.ReadFile(filepath.Join(truncDir(), e.Name()))
		for _, c := range b {
			if c == '\n' {
				n++
			}
		}
	}
	return n
}

type caseRef struct {
	cfg    *config
	firsts []uint16
}

// groups splits the operations 0..n-1 of a configuration into g interleaved
// groups: one Family case is the sub-search below the first operations of one
// group.
func groups(n, g int) [][]uint16 {
	if v, err := strconv.Atoi(os.Getenv("C03_GROUPS")); err == nil && v > 0 {
		g = v
	}
	if g > n {
		g = n
	}
	out := make([][]uint16, g)
	for i := 0; i < n; i++ {
		out[i%g] = append(out[i%g], uint16(i))
	}
	return out
}

func firstNames(sp space, firsts []uint16) string {
	var names []string
	for _, f := range firsts {
		names = append(names, sp.opName(f))
	}
	return strings.Join(names, " | ")
}

// scaleBudget multiplies the wall-clock budgets by $C03_BUDGET_SCALE (for
// runs on a machine that is shared with other jobs).
func scaleBudget(s int) int {
	if v, err := strconv.ParseFloat(os.Getenv("C03_BUDGET_SCALE"), 64); err == nil && v > 0 {
		return int(float64(s) * v)
	}
	return s
}

const goGroups = 8
const luaGroups = 4

func goFamilies(tier string) []*core.Family {
	cfgs := allConfigs()
	var order []string
	byFam := map[string][]caseRef{}
	for _, c := range cfgs {
		if _, ok := byFam[c.family]; !ok {
			order = append(order, c.family)
		}
		ng := goGroups
		if c.groups > 0 {
			ng = c.groups
		}
		for _, g := range groups(len(c.ops), ng) {
			byFam[c.family] = append(byFam[c.family], caseRef{c, g})
		}
	}
	caseCap := caseCapFor(tier)
	hang := scaleBudget(200)
	budgets := map[string]int{"go-empty": 25, "go-deep": 10, "go-int": 14, "go-str": 25, "go-mix": 16, "go-tomb": 12, "go-clo": 6}
	if tier == "thorough" {
		hang = scaleBudget(900)
		budgets = map[string]int{"go-empty": 220, "go-deep": 120, "go-int": 130, "go-str": 220, "go-mix": 140, "go-tomb": 110, "go-clo": 40}
	}
	var fams []*core.Family
	for _, name := range order {
		name := name
		cases := byFam[name]
		fams = append(fams, &core.Family{
			Name:          name,
			Size:          uint64(len(cases)),
			HangSeconds:   hang,
			BudgetSeconds: scaleBudget(budgets[name]),
			Show: func(i uint64) string {
				cr := cases[i]
				return fmt.Sprintf("start %s = [%s]; menu %v; first operation one of: %s", cr.cfg.name, cr.cfg.startName(), cr.cfg.menu, firstNames(cr.cfg, cr.firsts))
			},
			Run: func(i uint64) core.Outcome {
				cr := cases[i]
				depth := cr.cfg.depthQ
				if tier == "thorough" {
					depth = cr.cfg.depthT
				}
				until := time.Now().Add(caseCap)
				if gd := globalDeadline(); gd.Before(until) {
					until = gd
				}
				res := searchCase(cr.cfg, cr.firsts, depth, until)
				if res.truncated {
					noteTruncated(name, i, res.depthDone)
				}
				if os.Getenv("C03_DEBUG") != "" {
					fmt.Fprintf(os.Stderr, "case %s:%d %s depth=%d states=%d trans=%d viols=%d truncated=%v\n", name, i, cr.cfg.name, depth, res.states, res.trans, len(res.viols), res.truncated)
				}
				o := core.Outcome{States: res.states, Trans: res.trans, Viols: res.viols}
				if res.trans == 0 && len(res.viols) == 0 {
					o.Skipped = true // first operation not applicable in the start state
					return o
				}
				o.NonTrivial = res.states > 1
				o.Sig = mapsSig(res.maps)
				return o
			},
		})
	}
	return fams
}

func main() {
	core.Main(&core.Check{
		ID:    "C03",
		Level: "model_checking",
		Rule: "explicit-state search: every history of Set/Reset/WalkTo/Step operations (values nil,1,2; keys from a menu of <= 12 role-named keys) up to the depth bound, " +
			"from the empty table and from pre-grown start states, replayed on a fresh real *runtime.Table per transition, de-duplicated on the concrete slot layout + reference contents + traversal cursor; " +
			"in every state: structural invariants, Get for every alphabet key and spelling, Len is a border, traversal contract; the same for Lua programs with a logging metatable; " +
			"non-trivial = sub-search reached more than one state; distinct = distinct sets of reference contents reached",
		Assumptions: []string{
			"reference model verif/engine/reftable typed from the Lua 5.4 manual (§2.1 key normalisation, §3.4.4 equality, §3.4.7 border, §6.1 next) — no golua code",
			"closures of one prototype with identical upvalues may or may not be equal (§3.4.4): golua's answer is taken, table-key equality has to agree with it",
			"Table.Set documents that it does not check nil keys; nil and NaN keys are exercised through Runtime.SetTableCheck and through Lua only",
			"a traversal is abandoned (not checked further) as soon as a non-existent field is assigned; Next is only called with nil or a key produced by the same traversal",
			"the slot layout of keys with fixed content (small integers, literal strings, booleans) depends on Go's per-process hash seed; keys named by role have process independent primary slots",
			"a violating state is reported and not expanded further",
		},
		Init: func(tier string) {
			gc := 400 // the search allocates many short lived tables and programs
			if v, err := strconv.Atoi(os.Getenv("C03_GC")); err == nil {
				gc = v
			}
			debug.SetGCPercent(gc)
			if !isWorker() && flag.Lookup("case").Value.String() == "" && flag.Lookup("list").Value.String() != "true" {
				os.RemoveAll(truncDir())
			}
		},
		Families: func(tier string) []*core.Family {
			fams := eqFamilies(tier)
			fams = append(fams, goFamilies(tier)...)
			fams = append(fams, luaFamilies(tier)...)
			return fams
		},
		Extra: func(tier string) map[string]interface{} {
			n := countTruncated()
			m := map[string]interface{}{"truncated_subsearches": n}
			if n > 0 {
				m["exhaustive"] = false
			}
			return m
		},
	})
}
